// pbgen: minimal proto3 parser -> FileDescriptorProto -> protoc plugins.
package main

import (
	"bytes"
	"encoding/json"
	"fmt"
	"os"
	"os/exec"
	"path/filepath"
	"strings"
	"unicode"

	"google.golang.org/protobuf/proto"
	"google.golang.org/protobuf/reflect/protodesc"
	"google.golang.org/protobuf/reflect/protoreflect"
	"google.golang.org/protobuf/reflect/protoregistry"
	"google.golang.org/protobuf/types/descriptorpb"
	"google.golang.org/protobuf/types/pluginpb"

	_ "google.golang.org/protobuf/types/known/durationpb"
	_ "google.golang.org/protobuf/types/known/timestamppb"
	_ "reduction.dev/reduction-protocol/handlerpb"
	_ "reduction.dev/reduction-protocol/jobconfigpb"
)

type lexer struct {
	toks []string
	pos  int
}

func lex(src string) []string {
	var toks []string
	i := 0
	for i < len(src) {
		c := src[i]
		switch {
		case c == '/' && i+1 < len(src) && src[i+1] == '/':
			for i < len(src) && src[i] != '\n' {
				i++
			}
		case c == '/' && i+1 < len(src) && src[i+1] == '*':
			j := strings.Index(src[i+2:], "*/")
			i = i + 2 + j + 2
		case unicode.IsSpace(rune(c)):
			i++
		case c == '"':
			j := i + 1
			for src[j] != '"' {
				j++
			}
			toks = append(toks, src[i:j+1])
			i = j + 1
		case unicode.IsLetter(rune(c)) || c == '_' || unicode.IsDigit(rune(c)) || c == '.':
			j := i
			for j < len(src) && (unicode.IsLetter(rune(src[j])) || src[j] == '_' || unicode.IsDigit(rune(src[j])) || src[j] == '.') {
				j++
			}
			toks = append(toks, src[i:j])
			i = j
		default:
			toks = append(toks, string(c))
			i++
		}
	}
	return toks
}

func (l *lexer) next() string { t := l.toks[l.pos]; l.pos++; return t }
func (l *lexer) peek() string {
	if l.pos >= len(l.toks) {
		return ""
	}
	return l.toks[l.pos]
}
func (l *lexer) expect(s string) {
	if t := l.next(); t != s {
		panic(fmt.Sprintf("expected %q got %q at %d", s, t, l.pos))
	}
}
func unq(s string) string { return strings.Trim(s, "\"") }

var scalars = map[string]descriptorpb.FieldDescriptorProto_Type{
	"double": descriptorpb.FieldDescriptorProto_TYPE_DOUBLE, "float": descriptorpb.FieldDescriptorProto_TYPE_FLOAT,
	"int64": descriptorpb.FieldDescriptorProto_TYPE_INT64, "uint64": descriptorpb.FieldDescriptorProto_TYPE_UINT64,
	"int32": descriptorpb.FieldDescriptorProto_TYPE_INT32, "uint32": descriptorpb.FieldDescriptorProto_TYPE_UINT32,
	"bool": descriptorpb.FieldDescriptorProto_TYPE_BOOL, "string": descriptorpb.FieldDescriptorProto_TYPE_STRING,
	"bytes": descriptorpb.FieldDescriptorProto_TYPE_BYTES,
	"sint32": descriptorpb.FieldDescriptorProto_TYPE_SINT32, "sint64": descriptorpb.FieldDescriptorProto_TYPE_SINT64,
	"fixed32": descriptorpb.FieldDescriptorProto_TYPE_FIXED32, "fixed64": descriptorpb.FieldDescriptorProto_TYPE_FIXED64,
}

func snakeToJSON(s string) string {
	out := []byte{}
	up := false
	for i := 0; i < len(s); i++ {
		if s[i] == '_' {
			up = true
			continue
		}
		c := s[i]
		if up && c >= 'a' && c <= 'z' {
			c -= 32
		}
		up = false
		out = append(out, c)
	}
	return string(out)
}

func parseField(l *lexer, oneofIdx *int32) *descriptorpb.FieldDescriptorProto {
	f := &descriptorpb.FieldDescriptorProto{}
	label := descriptorpb.FieldDescriptorProto_LABEL_OPTIONAL
	t := l.next()
	if t == "repeated" {
		label = descriptorpb.FieldDescriptorProto_LABEL_REPEATED
		t = l.next()
	}
	f.Label = label.Enum()
	if st, ok := scalars[t]; ok {
		f.Type = st.Enum()
	} else {
		f.TypeName = proto.String(t) // resolved later
	}
	name := l.next()
	f.Name = proto.String(name)
	f.JsonName = proto.String(snakeToJSON(name))
	l.expect("=")
	var n int32
	fmt.Sscanf(l.next(), "%d", &n)
	f.Number = proto.Int32(n)
	l.expect(";")
	if oneofIdx != nil {
		f.OneofIndex = proto.Int32(*oneofIdx)
	}
	return f
}

func parseMessage(l *lexer) *descriptorpb.DescriptorProto {
	m := &descriptorpb.DescriptorProto{Name: proto.String(l.next())}
	l.expect("{")
	for l.peek() != "}" {
		switch l.peek() {
		case "oneof":
			l.next()
			idx := int32(len(m.OneofDecl))
			m.OneofDecl = append(m.OneofDecl, &descriptorpb.OneofDescriptorProto{Name: proto.String(l.next())})
			l.expect("{")
			for l.peek() != "}" {
				m.Field = append(m.Field, parseField(l, &idx))
			}
			l.expect("}")
		case "message":
			l.next()
			m.NestedType = append(m.NestedType, parseMessage(l))
		default:
			m.Field = append(m.Field, parseField(l, nil))
		}
	}
	l.expect("}")
	return m
}

func parseFile(root, rel string) *descriptorpb.FileDescriptorProto {
	src, err := os.ReadFile(filepath.Join(root, rel))
	if err != nil {
		panic(err)
	}
	l := &lexer{toks: lex(string(src))}
	fd := &descriptorpb.FileDescriptorProto{Name: proto.String(rel), Options: &descriptorpb.FileOptions{}}
	for l.pos < len(l.toks) {
		switch t := l.next(); t {
		case "syntax":
			l.expect("=")
			fd.Syntax = proto.String(unq(l.next()))
			l.expect(";")
		case "import":
			fd.Dependency = append(fd.Dependency, unq(l.next()))
			l.expect(";")
		case "package":
			fd.Package = proto.String(l.next())
			l.expect(";")
		case "option":
			name := l.next()
			l.expect("=")
			v := unq(l.next())
			l.expect(";")
			if name == "go_package" {
				fd.Options.GoPackage = proto.String(v)
			}
		case "message":
			fd.MessageType = append(fd.MessageType, parseMessage(l))
		case "service":
			s := &descriptorpb.ServiceDescriptorProto{Name: proto.String(l.next())}
			l.expect("{")
			for l.peek() != "}" {
				l.expect("rpc")
				m := &descriptorpb.MethodDescriptorProto{Name: proto.String(l.next())}
				l.expect("(")
				m.InputType = proto.String(l.next())
				l.expect(")")
				l.expect("returns")
				l.expect("(")
				m.OutputType = proto.String(l.next())
				l.expect(")")
				if l.peek() == "{" {
					l.next()
					l.expect("}")
				} else {
					l.expect(";")
				}
				s.Method = append(s.Method, m)
			}
			l.expect("}")
			fd.Service = append(fd.Service, s)
		default:
			panic("unexpected token " + t + " in " + rel)
		}
	}
	return fd
}

// symbol table: fully-qualified name -> isEnum
type symtab map[string]bool

func addFileSyms(st symtab, fd *descriptorpb.FileDescriptorProto) {
	var addMsg func(prefix string, m *descriptorpb.DescriptorProto)
	addMsg = func(prefix string, m *descriptorpb.DescriptorProto) {
		fq := prefix + "." + m.GetName()
		st[fq] = false
		for _, n := range m.NestedType {
			addMsg(fq, n)
		}
		for _, e := range m.EnumType {
			st[fq+"."+e.GetName()] = true
		}
	}
	pfx := ""
	if fd.GetPackage() != "" {
		pfx = "." + fd.GetPackage()
	}
	for _, m := range fd.MessageType {
		addMsg(pfx, m)
	}
	for _, e := range fd.EnumType {
		st[pfx+"."+e.GetName()] = true
	}
}

func resolve(st symtab, scope, name string) (string, bool) {
	if strings.HasPrefix(name, ".") {
		e, ok := st[name]
		if !ok {
			panic("unresolved " + name)
		}
		return name, e
	}
	// search scope outward
	s := scope
	for {
		cand := s + "." + name
		if e, ok := st[cand]; ok {
			return cand, e
		}
		if s == "" {
			break
		}
		s = s[:strings.LastIndex(s, ".")]
	}
	panic("unresolved type " + name + " in scope " + scope)
}

func main() {
	root, out := os.Args[1], os.Args[2]
	plugins := strings.Split(os.Args[3], ",")
	rels := os.Args[4:]
	parsed := map[string]*descriptorpb.FileDescriptorProto{}
	for _, r := range rels {
		parsed[r] = parseFile(root, r)
	}
	// collect all files in topo order
	var order []*descriptorpb.FileDescriptorProto
	seen := map[string]bool{}
	var visit func(name string)
	visit = func(name string) {
		if seen[name] {
			return
		}
		seen[name] = true
		var fd *descriptorpb.FileDescriptorProto
		if p, ok := parsed[name]; ok {
			fd = p
		} else {
			d, err := protoregistry.GlobalFiles.FindFileByPath(name)
			if err != nil {
				panic(fmt.Sprintf("import %s: %v", name, err))
			}
			fd = protodesc.ToFileDescriptorProto(d)
		}
		for _, dep := range fd.Dependency {
			visit(dep)
		}
		order = append(order, fd)
	}
	for _, r := range rels {
		visit(r)
	}
	st := symtab{}
	for _, fd := range order {
		addFileSyms(st, fd)
	}
	// resolve names in parsed files
	for _, fd := range parsed {
		pfx := ""
		if fd.GetPackage() != "" {
			pfx = "." + fd.GetPackage()
		}
		var fix func(scope string, m *descriptorpb.DescriptorProto)
		fix = func(scope string, m *descriptorpb.DescriptorProto) {
			fq := scope + "." + m.GetName()
			for _, f := range m.Field {
				if f.TypeName != nil {
					n, isEnum := resolve(st, fq, f.GetTypeName())
					f.TypeName = proto.String(n)
					if isEnum {
						f.Type = descriptorpb.FieldDescriptorProto_TYPE_ENUM.Enum()
					} else {
						f.Type = descriptorpb.FieldDescriptorProto_TYPE_MESSAGE.Enum()
					}
				}
			}
			for _, n := range m.NestedType {
				fix(fq, n)
			}
		}
		for _, m := range fd.MessageType {
			fix(pfx, m)
		}
		for _, s := range fd.Service {
			for _, m := range s.Method {
				n, _ := resolve(st, pfx, m.GetInputType())
				m.InputType = proto.String(n)
				n, _ = resolve(st, pfx, m.GetOutputType())
				m.OutputType = proto.String(n)
			}
		}
	}
	// validate by building real descriptors
	fds := &descriptorpb.FileDescriptorSet{File: order}
	if _, err := protodesc.NewFiles(fds); err != nil {
		panic(fmt.Sprintf("descriptor validation: %v", err))
	}
	req := &pluginpb.CodeGeneratorRequest{
		FileToGenerate: rels,
		Parameter:      proto.String("paths=source_relative"),
		ProtoFile:      order,
		CompilerVersion: &pluginpb.Version{Major: proto.Int32(5), Minor: proto.Int32(29), Patch: proto.Int32(3)},
	}
	reqBytes, err := proto.Marshal(req)
	if err != nil {
		panic(err)
	}
	overlay := map[string]string{}
	for _, plug := range plugins {
		cmd := exec.Command(plug)
		cmd.Stdin = bytes.NewReader(reqBytes)
		var stdout bytes.Buffer
		cmd.Stdout = &stdout
		cmd.Stderr = os.Stderr
		if err := cmd.Run(); err != nil {
			panic(fmt.Sprintf("%s: %v", plug, err))
		}
		resp := &pluginpb.CodeGeneratorResponse{}
		if err := proto.Unmarshal(stdout.Bytes(), resp); err != nil {
			panic(err)
		}
		if resp.Error != nil {
			panic(plug + ": " + resp.GetError())
		}
		for _, f := range resp.File {
			p := filepath.Join(out, f.GetName())
			os.MkdirAll(filepath.Dir(p), 0o755)
			if err := os.WriteFile(p, []byte(f.GetContent()), 0o644); err != nil {
				panic(err)
			}
			overlay[filepath.Join(root, f.GetName())] = p
		}
	}
	b, _ := json.MarshalIndent(map[string]any{"Replace": overlay}, "", " ")
	os.WriteFile(filepath.Join(out, "overlay.json"), b, 0o644)
	_ = protoreflect.FullName("")
}
