(* C02 - barrier alignment gives every operator checkpoint a consistent cut. Statements only. *)
From RV Require Import Model.Align.
From Coq Require Import List NArith Bool Arith.
Import ListNotations.
Open Scope N_scope.

(* a barrier whose id differs from the checkpoint in progress is rejected and changes nothing *)
Theorem barrier_id_checked : forall c x s cid cur m x',
  ckpt x = Some (cur, m) -> nth_error (modes x) s = Some (Passed (IBar cid)) -> cid <> cur ->
  step c x (Handle s) = Some x' ->
  ckpt x' = Some (cur, m) /\ done x' = done x /\ applied (dt x') = applied (dt x) /\ batch (dt x') = batch (dt x) /\
  log (dt x') = LAct (s, length (nth s (sent x) [])) (IBar cid) false :: log (dt x).
Proof.
  intros c x s cid cur m x' Hck Hmode Hne Hstep.
  unfold step in Hstep. rewrite Hmode in Hstep. injection Hstep as <-.
  unfold handle_item. rewrite Hck.
  destruct (cid =? cur) eqn:E; [apply N.eqb_eq in E; contradiction|].
  cbn. repeat split; reflexivity.
Qed.
Print Assumptions barrier_id_checked.
