(* C02 - barrier alignment gives every operator checkpoint a consistent cut. Statements only.

   Reading.  [exec c (init c) acts = Some x]: acts is a schedule all of whose actions were enabled,
   starting from a freshly deployed operator with [n_senders c] source runners, any batch size and
   time-out setting.  Enabledness of [Gate s it] requires sender s to be idle: one outstanding
   HandleEvent per sender (the hypothesis of the property).  [script acts s] is what sender s
   delivered, in order.  The log of x is newest-first; an entry's origin (s, j) says it stems from the
   j-th delivery of sender s: [LAct] = the event loop acted on it (event put into the batch, watermark
   registered and timers fired, barrier registered), [LApp] = its result (the event, or a timer fired
   by that watermark) was applied to state by a handler call, [LCkpt cid snap] = the DKV checkpoint of
   id cid was taken with content snap and reported. *)
From RV Require Import Model.Align Proofs.C02_Data Proofs.C02_Align.
From Coq Require Import List NArith Bool Arith.
Import ListNotations.
Open Scope N_scope.

(* For every number of senders, every schedule and every checkpoint record in the run (so: any number
   of consecutive checkpoints): every sender s delivered a barrier with exactly that id, at some
   position b s of its sequence, it was accepted before the record, and
   - everything logged before the record stems from deliveries at or before b s,
   - everything logged after the record stems from deliveries after b s (nothing a sender delivered
     after its barrier - event, watermark, timer fired by such a watermark - is acted on or applied
     before the checkpoint is taken),
   - every keyed event delivered before b s has been applied before the record and is in the
     checkpoint; every watermark delivered before b s has been acted on,
   - the checkpoint content is exactly what was applied before the record. *)
(* Redeployment: the log, the delivery positions and [script acts s] are those of the CURRENT deployment
   (everything after the schedule's last Deploy; Deploy empties the log). The records of an earlier deployment
   are covered by the same theorem applied to the prefix of the schedule that ends before the Deploy. In
   particular every barrier counted for a record was accepted in the record's own deployment.
   The schedule may contain sink faults (Fault): a failed sink write changes replies, never what is applied.
   The schedule may contain SourceComplete deliveries (IDone) and cancellations of parked calls (Cancel s):
   the quantification "forall s < n_senders c" is over ALL configured runners, completed or not, and a
   parked event whose call was cancelled is delivery > b s like any other, hence only in post. *)
Theorem consistent_cut : forall c acts x post cid snap pre,
  exec c (init c) acts = Some x ->
  log (dt x) = post ++ LCkpt cid snap :: pre ->
  (forall bi, In bi (fst snap) <-> In (LApp bi) pre) /\
  exists b : nat -> nat, forall s, (s < n_senders c)%nat ->
    nth_error (script acts s) (b s) = Some (IBar cid)
    /\ In (LAct (s, b s) (IBar cid) true) pre
    /\ (forall e j, In e pre -> entry_origin e = Some (s, j) -> (j <= b s)%nat)
    /\ (forall e j, In e post -> entry_origin e = Some (s, j) -> (b s < j)%nat)
    /\ (forall j id key tm, (j < b s)%nat -> nth_error (script acts s) j = Some (IEv id key tm) ->
          In (LApp (BEv (s, j) id key tm)) pre /\ In (BEv (s, j) id key tm) (fst snap))
    /\ (forall j t, (j < b s)%nat -> nth_error (script acts s) j = Some (IWm t) -> In (LAct (s, j) (IWm t) true) pre).
Proof. exact consistent_cut_proof. Qed.
Print Assumptions consistent_cut.

(* origins are truthful: an applied event is the j-th delivery of s, an applied timer was fired by a
   watermark that is the j-th delivery of s, anything acted on was delivered *)
Theorem applied_are_delivered : forall c acts x s j,
  exec c (init c) acts = Some x ->
  (forall id key tm, In (LApp (BEv (s, j) id key tm)) (log (dt x)) -> nth_error (script acts s) j = Some (IEv id key tm)) /\
  (forall k ts, In (LApp (BTm (s, j) k ts)) (log (dt x)) -> exists t, nth_error (script acts s) j = Some (IWm t)) /\
  (forall it ok, In (LAct (s, j) it ok) (log (dt x)) -> exists it', nth_error (script acts s) j = Some it').
Proof. exact applied_are_delivered_proof. Qed.
Print Assumptions applied_are_delivered.

(* the mechanism: in every reachable state a sender whose barrier of the checkpoint in progress is
   registered is never past the gate (it is idle or parked on that checkpoint) *)
Theorem registered_sender_blocked : forall c acts x cur m s it,
  exec c (init c) acts = Some x -> ckpt x = Some (cur, m) -> ~ In s m ->
  nth_error (modes x) s <> Some (Passed it) /\
  (forall g it', nth_error (modes x) s = Some (Parked g it') -> g = done x).
Proof.
  intros c acts x cur m s it H Ec Hn. destruct (exec_init _ _ _ H) as (I & _). split.
  - intros Hm. eapply passed_not_reg; eauto.
  - intros g it' Hm. apply (i_parked _ _ I _ _ _ Hm). exists cur, m. auto.
Qed.
Print Assumptions registered_sender_blocked.

(* a barrier whose id differs from the checkpoint in progress is rejected and changes nothing *)
Theorem barrier_id_checked : forall c x s cid cur m x',
  ckpt x = Some (cur, m) -> nth_error (modes x) s = Some (Passed (IBar cid)) -> cid <> cur ->
  step c x (Handle s) = Some x' ->
  ckpt x' = Some (cur, m) /\ done x' = done x /\ applied (dt x') = applied (dt x) /\ batch (dt x') = batch (dt x) /\
  log (dt x') = LAct (s, length (nth s (sent x) [])) (IBar cid) false :: log (dt x).
Proof.
  intros c x s cid cur m x' Hck Hmode Hne Hstep.
  unfold step in Hstep. destruct (failed x); [discriminate|]. rewrite Hmode in Hstep.
  destruct (active (dt x)); [discriminate|]. injection Hstep as <-.
  unfold handle_item. rewrite Hck.
  destruct (cid =? cur) eqn:E; [apply N.eqb_eq in E; contradiction|].
  cbn. repeat split; reflexivity.
Qed.
Print Assumptions barrier_id_checked.

(* cancelling the context of a parked call changes nothing: the sender stays parked on the same checkpoint
   (the code's wait, enqueue and handlers ignore the context) *)
Theorem cancel_is_inert : forall c x s x', step c x (Cancel s) = Some x' ->
  x' = x /\ exists g it, nth_error (modes x) s = Some (Parked g it).
Proof.
  intros c x s x' H. cbn in H. destruct (nth_error (modes x) s) as [[|g it|]|] eqn:E; try discriminate.
  injection H as <-. split; eauto.
Qed.
Print Assumptions cancel_is_inert.

(* a runner's SourceComplete does not change which barriers a checkpoint waits for *)
Theorem source_complete_keeps_alignment : forall c x s x',
  nth_error (modes x) s = Some (Passed IDone) -> step c x (Handle s) = Some x' ->
  ckpt x' = ckpt x /\ done x' = done x /\
  (active (dt x') = remove_nat s (active (dt x)) \/ active (dt x') = active (dt x)).
Proof.
  intros c x s x' Hm H. unfold step in H. destruct (failed x); [discriminate|]. rewrite Hm in H.
  destruct (active (dt x)) as [|a l] eqn:Ea; [discriminate|].
  injection H as <-. unfold handle_item. cbn [ckpt done dt]. repeat split.
  destruct (errored _ _); [right|left]; cbn [set_active active]; rewrite active_flush; cbn [push_log active]; rewrite Ea; reflexivity.
Qed.
Print Assumptions source_complete_keeps_alignment.

(* HandleDeploy discards the half-aligned checkpoint of the previous assembly and starts from empty state *)
Theorem deploy_resets_alignment : forall c x x', step c x Deploy = Some x' ->
  ckpt x' = None /\ log (dt x') = [] /\ applied (dt x') = [] /\ batch (dt x') = [] /\
  sent x' = repeat [] (n_senders c) /\ modes x' = modes x /\ done x' = done x.
Proof.
  intros c x x' H. cbn in H. destruct (forallb _ (modes x)); [|discriminate].
  destruct (batch (dt x)); [|discriminate]. destruct (stopped (dt x)); [discriminate|].
  cbn in H. injection H as <-. cbn. repeat split; reflexivity.
Qed.
Print Assumptions deploy_resets_alignment.

(* processEventBatch applies timers and state mutations before it writes to the sink: an armed sink fault
   changes nothing of what a flush applies, logs, leaves pending or stores as timers (the error only decides
   replies - and, on the flush in front of the cut, that no checkpoint is taken) *)
Lemma fold_apply_set_fault f l z : fold_left apply_item l (set_fault f z) = set_fault f (fold_left apply_item l z).
Proof. revert z; induction l as [|b l IH]; intros z; cbn [fold_left]; auto. rewrite <- IH. reflexivity. Qed.
Theorem sink_fault_keeps_state : forall tok y f,
  applied (flush tok (set_fault f y)) = applied (flush tok y) /\ log (flush tok (set_fault f y)) = log (flush tok y) /\
  batch (flush tok (set_fault f y)) = batch (flush tok y) /\ timers (flush tok (set_fault f y)) = timers (flush tok y).
Proof.
  intros tok y f. unfold flush. cbn [set_fault batch btoken]. destruct (batch y); [cbn; auto|].
  destruct (match tok with None => true | Some t => t =? btoken y end); [|cbn; auto].
  cbn [set_fault inflight wms wm timers applied log active sinkfault batch btoken armed].
  match goal with |- context [fold_left apply_item ?l (mkDat ?a ?b ?c ?d ?e ?g ?h ?i ?j ?k f)] =>
    change (mkDat a b c d e g h i j k f) with (set_fault f (mkDat a b c d e g h i j k (sinkfault y))) end.
  rewrite fold_apply_set_fault. cbn. auto.
Qed.
Print Assumptions sink_fault_keeps_state.

(* A handler failure on the flush of a timed-out batch: the batch (already acknowledged to its senders) is lost and
   the operator stops. A stopped operator is silent: whatever is still scheduled, nothing is handled, flushed,
   applied, checkpointed or redeployed - in particular no checkpoint is ever reported without the lost events. *)
Theorem failed_timeout_flush_stops : forall c x x', step c x TimeoutFail = Some x' ->
  log (dt x') = log (dt x) /\ applied (dt x') = applied (dt x) /\
  (stopped (dt x') = true \/ batch (dt x') = batch (dt x)).
Proof.
  intros c x x' H. unfold step in H. destruct (sinkfault (dt x) || stopped (dt x) || failed x); [discriminate|].
  destruct (inflight (dt x)); [discriminate|]. cbn zeta in H. destruct (batch (dt x)) eqn:Eb.
  - injection H as <-. cbn. try rewrite Eb. auto.
  - destruct (_ =? _); injection H as <-; cbn; try rewrite Eb; auto.
Qed.
Print Assumptions failed_timeout_flush_stops.

Theorem stopped_operator_is_silent : forall c x a x', stopped (dt x) = true -> step c x a = Some x' ->
  log (dt x') = log (dt x) /\ applied (dt x') = applied (dt x) /\ stopped (dt x') = true.
Proof.
  intros c x a x' Hs H. pose proof Hs as Hs'. unfold stopped in Hs'. destruct (active (dt x)) eqn:Ea; [|discriminate].
  destruct a; unfold step in H.
  - destruct (failed x); [discriminate|].
    destruct (nth_error (modes x) s) as [[| |]|]; try discriminate. injection H as <-. cbn. auto.
  - destruct (failed x); [discriminate|].
    destruct (nth_error (modes x) s) as [[|g it|]|]; try discriminate. destruct (g <? done x); [|discriminate].
    injection H as <-. cbn. auto.
  - destruct (failed x); [discriminate|]. rewrite Ea in H. destruct (nth_error (modes x) s) as [[| |]|]; discriminate.
  - destruct (armed (dt x)); [|discriminate]. injection H as <-. cbn. unfold stopped. cbn. rewrite Ea. auto.
  - rewrite Hs, orb_true_r in H. discriminate.
  - destruct (nth_error (modes x) s) as [[| |]|]; try discriminate. injection H as <-. auto.
  - destruct (sinkfault (dt x)); [discriminate|]. injection H as <-. cbn. unfold stopped. cbn. rewrite Ea. auto.
  - rewrite Hs in H. rewrite !andb_false_r in H. discriminate.
  - rewrite Hs, orb_true_r in H. discriminate.
  - destruct (failed x); [discriminate|]. rewrite Ea in H.
    destruct (nth_error (modes x) s) as [[| |[| | |]]|]; discriminate.
Qed.
Print Assumptions stopped_operator_is_silent.

(* The flush in front of db.Checkpoint may fail (the user handler, or the sink): then the barrier's closure returns
   that error with every barrier registered, nothing is cut or reported, the completion count stays, and - for a
   handler failure - the batch Flush had taken out is gone. The operator is then [failed]: only Deploy leads on.
   consistent_cut is unaffected: a failed cut adds no record. *)
Theorem failed_cut_records_nothing : forall c hf x s cid,
  failed x = false -> failed (handle_item c hf x s (IBar cid)) = true ->
  done (handle_item c hf x s (IBar cid)) = done x /\
  forall c0 snap, In (LCkpt c0 snap) (log (dt (handle_item c hf x s (IBar cid)))) -> In (LCkpt c0 snap) (log (dt x)).
Proof.
  intros c hf x s cid Hnf Hf. unfold handle_item in *. unfold failed in Hnf.
  set (o := (s, length (nth s (sent x) []))) in *.
  assert (Hfl : forall d0 c0 snap, In (LCkpt c0 snap) (log (flush None d0)) -> In (LCkpt c0 snap) (log d0)).
  { intros d0 c0 snap Hin. destruct (flush_cases None d0) as [E|(_ & E & _)]; rewrite E in Hin; auto.
    apply in_app_or in Hin. destruct Hin as [Hin|[Hin|Hin]]; auto; [|discriminate].
    apply in_rev, in_map_iff in Hin. destruct Hin as (? & ? & _). discriminate. }
  destruct (ckpt x) as [[cur m]|] eqn:Ec.
  - destruct (cid =? cur); cbn [negb] in *.
    + destruct (remove_nat s m) as [|r m'].
      * destruct (hf && _).
        -- cbn. split; auto. intros c0 snap [H|H]; [discriminate|auto].
        -- destruct (errored _ _); [|discriminate]. cbn [done dt]. split; auto.
           intros c0 snap Hin. apply Hfl in Hin. destruct Hin as [H|H]; [discriminate|auto].
      * discriminate.
    + cbn in Hf. destruct m; discriminate.
  - rewrite N.eqb_refl in *. cbn [negb] in *.
    destruct (remove_nat s (seq 0 (n_senders c))) as [|r m'].
    + destruct (hf && _).
      * cbn. split; auto. intros c0 snap [H|H]; [discriminate|auto].
      * destruct (errored _ _); [|discriminate]. cbn [done dt]. split; auto.
        intros c0 snap Hin. apply Hfl in Hin. destruct Hin as [H|H]; [discriminate|auto].
    + discriminate.
Qed.
Print Assumptions failed_cut_records_nothing.

(* a failed operator only moves on by a redeploy *)
Theorem failed_operator_waits_for_redeploy : forall c x a x', failed x = true -> step c x a = Some x' ->
  a = Deploy \/ (log (dt x') = log (dt x) /\ applied (dt x') = applied (dt x) /\ ckpt x' = ckpt x).
Proof.
  intros c x a x' Hf H. destruct a; unfold step in H; try rewrite Hf in H; try rewrite !orb_true_r in H; try discriminate; auto; right.
  - destruct (armed (dt x)); [|discriminate]. injection H as <-. cbn. auto.
  - destruct (nth_error (modes x) s) as [[| |]|]; try discriminate. injection H as <-. auto.
  - destruct (sinkfault (dt x)); [discriminate|]. injection H as <-. cbn. auto.
Qed.
Print Assumptions failed_operator_waits_for_redeploy.

(* ---------- non-vacuity: enabled schedules with parked senders, a pending batch at the last barrier,
   two consecutive checkpoints, a rejected barrier, a time-out flush ---------- *)
Definition ex_cfg := mkCfg 2 3 true.
Definition ex_acts : list action :=
  [Gate 0 (IEv 1 1 5); Handle 0; Gate 1 (IEv 2 2 0); Handle 1; Gate 0 (IBar 7); Gate 1 (IEv 3 1 0); Handle 0;
   Gate 0 (IEv 4 1 0); Handle 1; Gate 1 (IBar 8); Handle 1; Gate 1 (IBar 7); Handle 1; Wake 0; Handle 0;
   Gate 0 (IWm 9); Gate 1 (IWm 6); Handle 0; Handle 1; TimerFire; Timeout;
   Gate 1 (IBar 9); Handle 1; Gate 1 (IEv 5 1 0); Cancel 1; Gate 0 (IDone); Handle 0; Gate 0 (IWm 11); Handle 0;
   Gate 0 (IBar 9); Handle 0; Wake 1; Handle 1].
Example ex_runs :
  option_map (fun x => (length (filter (fun e => match e with LCkpt _ _ => true | _ => false end) (log (dt x))),
                        existsb (fun e => match e with LAct _ (IBar 8) false => true | _ => false end) (log (dt x))))
             (exec ex_cfg (init ex_cfg) ex_acts) = Some (2%nat, true).
Proof. vm_compute. reflexivity. Qed.
Example ex_parks : option_map (fun x => nth_error (modes x) 0) (exec ex_cfg (init ex_cfg) (firstn 8 ex_acts))
                   = Some (Some (Parked 0 (IEv 4 1 0))).
Proof. vm_compute. reflexivity. Qed.

(* a redeployment in the middle of an alignment: the barrier runner 0 delivered before it does not count; the checkpoint
   with the reused id is taken only after runner 0 delivered it again *)
Definition ex_acts2 : list action :=
  [Gate 0 (IBar 7); Handle 0; Deploy; Gate 1 (IEv 1 1 0); Handle 1; Gate 1 (IBar 7); Handle 1;
   Gate 0 (IEv 2 1 0); Handle 0; Gate 0 (IBar 7); Handle 0].
Example ex_redeploy :
  option_map (fun x => map (fun e => match e with LCkpt c (a, _) => Some (c, length a) | _ => None end)
                           (filter (fun e => match e with LCkpt _ _ => true | _ => false end) (log (dt x))))
             (exec ex_cfg (init ex_cfg) ex_acts2) = Some [Some (7, 2%nat)]
  /\ option_map (fun x => length (filter (fun e => match e with LCkpt _ _ => true | _ => false end) (log (dt x))))
             (exec ex_cfg (init ex_cfg) (firstn 7 ex_acts2)) = Some 0%nat.
Proof. split; vm_compute; reflexivity. Qed.

(* a time-out fires on a partial batch and the handler fails on that flush: the operator stops, no checkpoint follows *)
Example ex_timeout_fail :
  option_map (fun x => (stopped (dt x), batch (dt x), log (dt x)))
             (exec ex_cfg (init ex_cfg) [Gate 0 (IEv 1 1 0); Handle 0; TimerFire; TimeoutFail; Gate 0 (IBar 1)])
    = Some (true, [], [LAct (0%nat, 0%nat) (IEv 1 1 0) true])
  /\ exec ex_cfg (init ex_cfg) [Gate 0 (IEv 1 1 0); Handle 0; TimerFire; TimeoutFail; Gate 0 (IBar 1); Handle 0] = None.
Proof. split; vm_compute; reflexivity. Qed.

(* the handler fails on the flush in front of the cut: no checkpoint, the operator waits for its redeploy; after it the
   checkpoint with the reused id contains exactly the new assembly's pre-barrier events *)
Example ex_failed_cut :
  option_map (fun x => (failed x, batch (dt x), filter (fun e => match e with LCkpt _ _ => true | _ => false end) (log (dt x))))
             (exec ex_cfg (init ex_cfg) [Gate 0 (IEv 1 1 0); Handle 0; Gate 0 (IBar 1); Handle 0; Gate 1 (IBar 1); HandleFail 1])
    = Some (true, [], [])
  /\ option_map (fun x => map (fun e => match e with LCkpt c (a, _) => Some (c, length a) | _ => None end)
                           (filter (fun e => match e with LCkpt _ _ => true | _ => false end) (log (dt x))))
             (exec ex_cfg (init ex_cfg) [Gate 0 (IEv 1 1 0); Handle 0; Gate 0 (IBar 1); Handle 0; Gate 1 (IBar 1); HandleFail 1;
                                        Deploy; Gate 0 (IEv 2 1 0); Handle 0; Gate 0 (IBar 1); Handle 0; Gate 1 (IBar 1); Handle 1])
    = Some [Some (1, 1%nat)].
Proof. split; vm_compute; reflexivity. Qed.
