(* C03 - keyed state behaves as a per-key map the handler fully controls. Statements only. *)
From RV Require Import Model.StateStore Proofs.C03_Codec.
Open Scope N_scope.

(* decodeKey inverts encodeDBKey for every subject key, namespace and entry key
   (guards: one length byte for the namespace, four for the subject key) *)
Theorem decode_encode : forall count k ns e,
  blen ns < 256 -> blen k < 2 ^ 32 -> decode_key (encode_db_key count k ns e) = Some (ns, e).
Proof. intros count. exact (decode_encode_g (key_group count)). Qed.
Print Assumptions decode_encode.

(* outside the guard the property is false: a 256-byte namespace comes back as the empty namespace *)
Theorem ns_len_wrap_refuted : forall count,
  exists k ns e, blen ns = 256 /\ decode_key (encode_db_key count k ns e) <> Some (ns, e).
Proof. intros count. exact (ns_len_wrap_refuted_g (key_group count)). Qed.
Print Assumptions ns_len_wrap_refuted.

(* the scan prefix of subject key k covers a stored state key iff it belongs to k - also when one key is a prefix of the other *)
Theorem subject_prefix_free : forall count k k' ns e,
  blen k < 2 ^ 32 -> blen k' < 2 ^ 32 ->
  (is_prefix (encode_subject_key count k) (encode_db_key count k' ns e) = true <-> k = k').
Proof. intros count. exact (subject_prefix_free_g (key_group count)). Qed.
Print Assumptions subject_prefix_free.

(* schema byte: no timer key under any subject prefix, no state key under any timer scan prefix *)
Theorem timer_keys_disjoint : forall count k k' t g ns e,
  is_prefix (encode_subject_key count k) (encode_timer_key count k' t) = false /\
  is_prefix (timer_scan_prefix g) (encode_db_key count k ns e) = false.
Proof.
  intros count k k' t g ns e. split.
  - exact (timer_not_under_subject (key_group count) k k' t).
  - exact (state_not_under_timer_scan (key_group count) g k ns e).
Qed.
Print Assumptions timer_keys_disjoint.
