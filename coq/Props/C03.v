(* C03 - keyed state behaves as a per-key map the handler fully controls. Statements only. *)
From RV Require Import Model.StateStore Proofs.C03_Codec.
Open Scope N_scope.

(* decodeKey inverts encodeDBKey for every subject key, namespace and entry key
   (guards: one length byte for the namespace, four for the subject key) *)
Theorem decode_encode : forall count k ns e,
  blen ns < 256 -> blen k < 2 ^ 32 -> decode_key (encode_db_key count k ns e) = Some (ns, e).
Proof. intros count. exact (decode_encode_g (key_group count)). Qed.
Print Assumptions decode_encode.

(* outside the guard the property is false: a 256-byte namespace comes back as the empty namespace *)
Theorem ns_len_wrap_refuted : forall count,
  exists k ns e, blen ns = 256 /\ decode_key (encode_db_key count k ns e) <> Some (ns, e).
Proof. intros count. exact (ns_len_wrap_refuted_g (key_group count)). Qed.
Print Assumptions ns_len_wrap_refuted.

(* the scan prefix of subject key k covers a stored state key iff it belongs to k - also when one key is a prefix of the other *)
Theorem subject_prefix_free : forall count k k' ns e,
  blen k < 2 ^ 32 -> blen k' < 2 ^ 32 ->
  (is_prefix (encode_subject_key count k) (encode_db_key count k' ns e) = true <-> k = k').
Proof. intros count. exact (subject_prefix_free_g (key_group count)). Qed.
Print Assumptions subject_prefix_free.

(* schema byte: no timer key under any subject prefix, no state key under any timer scan prefix *)
Theorem timer_keys_disjoint : forall count k k' t g ns e,
  is_prefix (encode_subject_key count k) (encode_timer_key count k' t) = false /\
  is_prefix (timer_scan_prefix g) (encode_db_key count k ns e) = false.
Proof.
  intros count k k' t g ns e. split.
  - exact (timer_not_under_subject (key_group count) k k' t).
  - exact (state_not_under_timer_scan (key_group count) g k ns e).
Qed.
Print Assumptions timer_keys_disjoint.

(* ---------------------------------------------------------------- keyed_state_is_map
   The specification machine [o_run] (Proofs/C03_Store.v) keeps nothing but the list of responses the handler has
   returned since the start - a checkpoint saves that list, a redeploy from it puts it back - and hands over, for
   every distinct key k of a batch, [view (fm_of_responses k log)]: the fold, in result order, of every put and
   delete of every earlier response whose key result is for k, on an empty map, grouped by namespace. No other key,
   no timer, nothing deleted or overwritten can be in it by construction.

   Theorem: for EVERY DKV implementation K that refines the sorted-map specification (hypotheses = the statements of
   C07/C18 for put/delete/scan - a scan returns the prefix scan of the contents and a state with the same contents, so
   that background work may proceed while it runs - and of C08 for checkpoint/restore), every key-group function, every handler (an
   arbitrary function from request to response), every watermark guard and every history of batches (any batching),
   timer removals, checkpoints and redeploys: the model of the operator never panics and the sequence of
   (request, response) pairs - in particular the KeyStates of every request - is exactly that of the specification
   machine. Guards: namespaces < 256 bytes, subject keys < 2^32 bytes. *)
From RV Require Import Proofs.C03_Store.

Theorem keyed_state_is_map :
  forall (K : KV) (contents : kv_st K -> kvlist),
    (forall k v s, contents (kv_put K k v s) = sm_put k v (contents s)) ->
    (forall k s, contents (kv_del K k s) = sm_del k (contents s)) ->
    (forall p s, fst (kv_scan K p s) = Some (sm_scan p (contents s)) /\ contents (snd (kv_scan K p s)) = contents s) ->
    (forall cur s, contents (kv_restore K cur s) = contents s) ->
  forall (count : N) (accept : bytes -> Z -> bool) (h : handler) (steps : list step) (s0 : kv_st K),
    contents s0 = [] -> handler_ok h -> Forall step_ok steps ->
    exists y, run K (key_group count) accept h (init_sys K s0) steps = Some y /\
              sy_trace y = o_trace (o_run h o_init steps).
Proof.
  intros K contents Hp Hd Hs Hr count accept h steps s0.
  apply (refines_per_key_map K contents Hp Hd); try assumption.
  - intros p s. destruct (Hs p s) as [E1 E2]. split; [|exact E2]. rewrite E1. intros l [= <-]. reflexivity.
  - intros p s. destruct (Hs p s) as [E1 _]. rewrite E1. discriminate.
Qed.
Print Assumptions keyed_state_is_map.

(* ---------------------------------------------------------------- storage read faults: never a truncated state
   A scan may end with an error ([kv_scan] returns None; entries it yielded before are dropped by GetState, which
   looks at the error after consuming the scan). Hypotheses: a scan never changes the contents, and IF it ends without
   an error it yielded the prefix scan. Then for every history: the model never panics, and the handler-visible trace
   is that of the specification machine on the history WITHOUT some of its batches ([pruned]) - the batches whose read
   failed: they end with BFailed (the error processEventBatch returns), the handler is not called and nothing is
   applied ([failed_read_applies_nothing]). So every handler call receives the COMPLETE fold of everything applied
   before it, or does not happen. *)
Theorem keyed_state_is_map_with_read_faults :
  forall (K : KV) (contents : kv_st K -> kvlist),
    (forall k v s, contents (kv_put K k v s) = sm_put k v (contents s)) ->
    (forall k s, contents (kv_del K k s) = sm_del k (contents s)) ->
    (forall p s, (forall l, fst (kv_scan K p s) = Some l -> l = sm_scan p (contents s)) /\
                 contents (snd (kv_scan K p s)) = contents s) ->
    (forall cur s, contents (kv_restore K cur s) = contents s) ->
  forall (count : N) (accept : bytes -> Z -> bool) (h : handler) (steps : list step) (s0 : kv_st K),
    contents s0 = [] -> handler_ok h -> Forall step_ok steps ->
    exists y steps', run K (key_group count) accept h (init_sys K s0) steps = Some y /\
                     pruned steps steps' /\ sy_trace y = o_trace (o_run h o_init steps').
Proof.
  intros K contents Hp Hd Hs Hr count accept h steps s0.
  exact (refines_per_key_map_faulty K contents Hp Hd Hs Hr (key_group count) accept h steps s0).
Qed.
Print Assumptions keyed_state_is_map_with_read_faults.

Theorem failed_read_applies_nothing :
  forall (K : KV) (contents : kv_st K -> kvlist),
    (forall p s, (forall l, fst (kv_scan K p s) = Some l -> l = sm_scan p (contents s)) /\
                 contents (snd (kv_scan K p s)) = contents s) ->
  forall (count : N) (accept : bytes -> Z -> bool) (h : handler) (evs : list event) (s s1 : kv_st K) A,
    Forall (fun ev => key_ok (fst ev)) evs -> Inv K contents (key_group count) s A ->
    fetch_states K (key_group count) (distinct_keys [] (map fst evs)) s = FErr s1 ->
    process_batch K (key_group count) accept h evs s = Some (BFailed, s1) /\ contents s1 = contents s.
Proof.
  intros K contents Hs count accept h evs s s1 A.
  exact (failed_scan_applies_nothing K contents Hs (key_group count) accept h evs s s1 A).
Qed.
Print Assumptions failed_read_applies_nothing.

(* the composition is not vacuous: the list-based DKV specification satisfies the four hypotheses *)
Theorem keyed_state_is_map_over_spec :
  forall (count : N) (accept : bytes -> Z -> bool) (h : handler) (steps : list step),
    handler_ok h -> Forall step_ok steps ->
    exists y, run list_kv (key_group count) accept h (init_sys list_kv []) steps = Some y /\
              sy_trace y = o_trace (o_run h o_init steps).
Proof. intros count. exact (refines_per_key_map_list (key_group count)). Qed.
Print Assumptions keyed_state_is_map_over_spec.

(* ---------------------------------------------------------------- keyed_state_is_map_over_lsm
   "regardless of how the state has been batched, flushed or compacted underneath", as a theorem: the DKV is now
   c07c18's LSM state machine (Model/Lsm.v: memtables with rotation, WAL limit, flush task F1/F2, compaction task
   C1/C2 with the serial-queue discipline, reads in two halves), driven through Model/StateStoreLsm.v: every DB.Put,
   DB.Delete and each half of every DB.ScanPrefix the operator performs is preceded by the background half-steps the
   schedule [sc] prescribes there (any list of F1 F2 C1 C2; the ones not enabled are skipped) - every interleaving of
   the sequential operator thread with the flush and compaction tasks is such a schedule.
   For EVERY option setting (cfg_ok: >= 2 levels, table target >= 1, L0 trigger >= 1), EVERY schedule, handler,
   watermark guard and history: the operator model over the LSM never panics and the handler-visible trace is that
   of the specification machine. Proof: Proofs/C03_OverLsm.v instantiates the hypotheses of keyed_state_is_map with
   contents := C07_Refine.absm, discharged by C07_Refine.step_ok (the invariant of dkv_reachable_invariant).
   Restore: [reopen] is what dkv.Open makes of the database captured by Checkpoint - ANY function that returns a
   database with the invariant, no read in flight and the same contents (the contract of C08). C08's own theorem
   (checkpoint_exact_partial) is about a different database model (Model/Ckpt.v, pointwise db_get of owned keys, no
   prefix scan), so it cannot discharge this hypothesis for Model/Lsm.v; it stays a hypothesis here, satisfiable
   (keyed_state_is_map_over_lsm_reopen_id: the captured database itself). Histories without SRestore never use it. *)
From RV Require Import Model.StateStoreLsm Proofs.C03_OverLsm.
From RV Require Model.Lsm Model.LsmCompaction Proofs.C07_Refine.

Theorem keyed_state_is_map_over_lsm :
  forall (cfg : Lsm.dbcfg) (Hcfg : C07_Refine.cfg_ok cfg)
         (reopen : Lsm.db -> Lsm.db)
         (Hreopen : forall st, good st -> good (reopen st) /\ C07_Refine.absm (reopen st) = C07_Refine.absm st)
         (count : N) (accept : bytes -> Z -> bool) (h : handler) (steps : list step) (sc : schedule),
    handler_ok h -> Forall step_ok steps ->
    exists y, run (lsm_kv cfg Hcfg reopen Hreopen) (key_group count) accept h
                  (init_sys (lsm_kv cfg Hcfg reopen Hreopen) (lsm_init cfg Hcfg sc)) steps = Some y /\
              sy_trace y = o_trace (o_run h o_init steps).
Proof.
  intros cfg Hcfg reopen Hreopen count accept h steps sc.
  exact (refines_per_key_map_lsm cfg Hcfg reopen Hreopen (key_group count) accept h steps sc).
Qed.
Print Assumptions keyed_state_is_map_over_lsm.

(* the restore contract is satisfiable *)
Theorem keyed_state_is_map_over_lsm_reopen_id :
  forall (cfg : Lsm.dbcfg) (Hcfg : C07_Refine.cfg_ok cfg)
         (count : N) (accept : bytes -> Z -> bool) (h : handler) (steps : list step) (sc : schedule),
    handler_ok h -> Forall step_ok steps ->
    exists y, run (lsm_kv cfg Hcfg (fun d => d) reopen_id_ok) (key_group count) accept h
                  (init_sys (lsm_kv cfg Hcfg (fun d => d) reopen_id_ok) (lsm_init cfg Hcfg sc)) steps = Some y /\
              sy_trace y = o_trace (o_run h o_init steps).
Proof. intros cfg Hcfg. exact (keyed_state_is_map_over_lsm cfg Hcfg (fun d => d) reopen_id_ok). Qed.
Print Assumptions keyed_state_is_map_over_lsm_reopen_id.

(* ---------------------------------------------------------------- keyed_state_restore_over_lsm_partial
   Restore over the LSM model WITHOUT a hypothesis, by composing C07 with C08 through the specification map.
   No single database model of this development has both reads under flush / compaction schedules (Model/Lsm.v has
   no WAL) and checkpoint / WAL replay (Model/Ckpt.v has no prefix scan). So the DKV here is the PAIR of both
   (Proofs/C03_RestoreBg.v), driven in lockstep, each side under its own arbitrary background schedule:
     - every DB.Put / DB.Delete of the operator goes to both sides;
     - scans are answered by the LSM side under the schedule [sc] (any F1 F2 C1 C2 before every foreground action and
       between the halves of every scan);
     - the durable side runs, before every foreground action and every redeploy, the next list of its schedule [dsc]:
       flush swaps (of any snapshotted prefix of the sealed memtables), merging compactions of any set of tables cut
       into any runs (the real compactor's shape), and the locked part of Checkpoint (WAL rotation) - the
       contents-preserving actions of Proofs/C08_Contents.v ([act_okc], [background_keeps_contents]);
     - a redeploy from the checkpoint taken at a barrier reopens the durable side as C08 models it: Checkpoint capture
       (level set, WAL content, LatestSeqNum) of the durable database of the barrier - whatever flushes were in flight
       or done, whatever was compacted -, then DB.Start: captured tables + replay of the WAL after LatestSeqNum
       ([ckpt_reopen], checkpoint_exact_dbc), and gives the LSM side a new database loaded with the map it served at
       the barrier ([lsm_load]: every entry through DB.Put, with its rotations; both schedules go on).
   Theorem, for EVERY cfg_ok option setting, both schedules, sizes of the durable side, handler, watermark guard and
   history (any number of checkpoints and redeploys): the operator never panics; the handler-visible trace is the
   specification machine's - after a redeploy the state handed over for a key is the fold of the mutations up to the
   barrier of the restored checkpoint and of those since; the durable database is one that can exist with
   contents-preserving actions (C08 [reachc]); and the map the LSM side serves equals, for every key, db_get of the
   durable database - in particular right after a redeploy the reloaded map IS the content of the database C08's
   reopening yields.
   REMAINING GAP (why _partial): the layout of the LSM side after a redeploy is a reload of the barrier map, not "the
   tables of the checkpoint + memtables rebuilt from the WAL". C07 covers every reachable layout and the state store
   observes only the contents, but that the real post-restore layout is a reachable (DBInv) Lsm.db is not proved:
   Model/Lsm.v has no WAL from which to rebuild it. The two models are tied by the map they hold, not by their layouts
   (their rotation / flush moments are independent). keyed_state_is_map_over_lsm (restore as a contract on the LSM
   model alone) is kept above. *)
From RV Require Import Model.StateStoreCkpt Proofs.C03_Restore Proofs.C03_RestoreBg.
From RV Require Model.Ckpt Proofs.C08_Ckpt Proofs.C08_Contents.

Theorem keyed_state_restore_over_lsm_partial :
  forall (cfg : Lsm.dbcfg) (Hcfg : C07_Refine.cfg_ok cfg)
         (count : N) (accept : bytes -> Z -> bool) (h : handler) (steps : list step)
         (sc : schedule) (dsc : dschedule) (mem wm : N),
    handler_ok h -> Forall step_ok steps ->
    exists y, run (bpair_kv cfg Hcfg) (key_group count) accept h
                  (init_sys (bpair_kv cfg Hcfg) (bpair_init cfg Hcfg sc dsc mem wm)) steps = Some y /\
              sy_trace y = o_trace (o_run h o_init steps) /\
              C08_Contents.reachc (bdurable (sy_db y)) /\
              forall k, Lsm.sm_get k (bpair_contents (sy_db y)) = Ckpt.db_get (bdurable (sy_db y)) k.
Proof.
  intros cfg Hcfg count accept h steps sc dsc mem wm.
  exact (restore_over_lsm_bg cfg Hcfg (key_group count) accept h steps sc dsc mem wm).
Qed.
Print Assumptions keyed_state_restore_over_lsm_partial.

(* ---------------------------------------------------------------- namespaces_contiguous
   Whatever responses the handler returned (guards as above), the state handed over for k - the grouping of the
   ascending flat map - contains every live entry exactly once in stored-key order, lists every namespace exactly
   once and never an empty namespace. *)
From RV Require Import Proofs.C03_View.

Theorem namespaces_contiguous : forall k log,
  Forall resp_ok log ->
  let m := fm_of_responses k log in
  ungroup (view m) = map unflat m /\ NoDup (map fst (view m)) /\ Forall (fun nse : ns_state => snd nse <> []) (view m).
Proof. exact namespaces_contiguous_fold. Qed.
Print Assumptions namespaces_contiguous.

(* the fold of mutations is a finite map: the latest put wins, a deleted entry stays absent, and a mutation of one
   (namespace, entry key) changes no other - so overwritten or deleted entries cannot reappear in [view] *)
Theorem fold_is_a_map : forall (x y : ekey) v m,
  fm_find x (fm_put x v m) = Some v /\
  (x <> y -> fm_find y (fm_put x v m) = fm_find y m) /\
  (fm_good m -> ns_ok (fst x) -> fm_find x (fm_del x m) = None) /\
  (x <> y -> fm_find y (fm_del x m) = fm_find y m).
Proof.
  intros x y v m. split; [apply fm_find_put_same|]. split; [apply fm_find_put_other|].
  split; [apply fm_find_del_same|apply fm_find_del_other].
Qed.
Print Assumptions fold_is_a_map.

(* ---------------------------------------------------------------- non-vacuity: hypotheses are satisfiable, the model computes *)
Example ex_handler_ok : handler_ok (fun rq => [{| kr_key := [1]; kr_timers := [5%Z]; kr_muts := [([], [MPut [] [7]; MDel [9]])] |}]).
Proof. intros rq. repeat constructor. Qed.

Definition ex_handler : handler := fun rq =>
  match rq_states rq with
  | (k, []) :: _ => [{| kr_key := k; kr_timers := [1%Z]; kr_muts := [([1], [MPut [2] [3]]); ([], [MPut [] []])] |}]
  | (k, _) :: _ => [{| kr_key := k; kr_timers := []; kr_muts := [([1], [MDel [2]])] |}]
  | [] => []
  end.

Example ex_run :
  option_map (fun y => map (fun rr => rq_states (fst rr)) (sy_trace y))
    (run list_kv (key_group 7) (fun _ _ => true) ex_handler (init_sys list_kv [])
       [SBatch [([97], []); ([97; 98], []); ([97], [])]; SCkpt 1; SBatch [([97], [])]; SBatch [([97], [])]; SRestore 1; SBatch [([97], [])]])
  = Some [ [([97], []); ([97; 98], [])];
           [([97], [([], [([], [])]); ([1], [([2], [3])])])];
           [([97], [([], [([], [])])])];
           [([97], [([], [([], [])]); ([1], [([2], [3])])])] ].
Proof. vm_compute. reflexivity. Qed.

(* the LSM instance computes, and the schedule really flushes and compacts underneath: 19-byte memtables, every
   foreground action preceded by F1 F2 C1 C2 C1 C2. Same KeyStates as over the list specification (ex_run), while the
   database ends with its data in sstable levels. *)
Definition ex_lsm_cfg : Lsm.dbcfg := Lsm.mkDbCfg 19 1000000 6 (LsmCompaction.mkCfg 1 200 1 30).
Example ex_lsm_cfg_ok : C07_Refine.cfg_ok ex_lsm_cfg.
Proof. unfold C07_Refine.cfg_ok, ex_lsm_cfg. cbn. repeat split; lia. Qed.
Definition ex_sched : schedule := repeat [Lsm.AF1; Lsm.AF2; Lsm.AC1; Lsm.AC2; Lsm.AC1; Lsm.AC2] 60.
Definition ex_lsm_kv : KV := lsm_kv ex_lsm_cfg ex_lsm_cfg_ok (fun d => d) reopen_id_ok.

Example ex_run_over_lsm :
  option_map (fun y : sys ex_lsm_kv => (map (fun rr => rq_states (fst rr)) (sy_trace y),
                        existsb (fun l => negb (match l with [] => true | _ => false end)) (Lsm.lv (fst (proj1_sig (sy_db y : lsm_st))))))
    (run ex_lsm_kv (key_group 7) (fun _ _ => true) ex_handler (init_sys ex_lsm_kv (lsm_init ex_lsm_cfg ex_lsm_cfg_ok ex_sched))
       [SBatch [([97], []); ([97; 98], []); ([97], [])]; SCkpt 1; SBatch [([97], [])]; SBatch [([97], [])]; SRestore 1; SBatch [([97], [])]])
  = Some ([ [([97], []); ([97; 98], [])];
            [([97], [([], [([], [])]); ([1], [([2], [3])])])];
            [([97], [([], [([], [])])])];
            [([97], [([], [([], [])]); ([1], [([2], [3])])])] ], true).
Proof. vm_compute. reflexivity. Qed.

(* read faults: the second batch's read fails (plan: scans 1,2 succeed, 3 fails): no call, nothing applied, and the
   third batch sees exactly what the first left *)
Example ex_run_faulty :
  option_map (fun y : sys flist_kv => map (fun rr => rq_states (fst rr)) (sy_trace y))
    (run flist_kv (key_group 7) (fun _ _ => true) ex_handler (init_sys flist_kv ([], [false; false; true]))
       [SBatch [([97], []); ([97; 98], [])]; SBatch [([97], [])]; SBatch [([97], [])]])
  = Some [ [([97], []); ([97; 98], [])];
           [([97], [([], [([], [])]); ([1], [([2], [3])])])] ].
Proof. vm_compute. reflexivity. Qed.

(* the pair computes: same history as ex_run_over_lsm (checkpoint, two batches, redeploy, one batch) with background
   steps everywhere on both sides; the durable side (20-byte memtables: it rotates) flushes, rotates its WAL, compacts
   tables 0 and 1 of directory 0 into runs cut after 1 entry, and is reopened by table load + WAL replay; the LSM side is
   reloaded; the KeyStates after the redeploy are those of the barrier, and the durable side ends with tables *)
Definition ex_bpair_kv : KV := bpair_kv ex_lsm_cfg ex_lsm_cfg_ok.
Definition ex_dsched : dschedule :=
  repeat [DFlush 1 0 0; DCkpt; DFlush 1 0 1; DCompact [(0, 0, 0); (0, 0, 1)] 0 7 [1%nat]; DFlush 5 0 9] 40.
Example ex_run_over_pair :
  option_map (fun y : sys ex_bpair_kv => (map (fun rr => rq_states (fst rr)) (sy_trace y),
                                          Ckpt.db_get (bdurable (sy_db y)) (enc_db (key_group 7) [97] [1] [2]),
                                          Ckpt.db_get (bdurable (sy_db y)) (enc_db (key_group 7) [97] [] []),
                                          negb (match Ckpt.d_tables (bdurable (sy_db y)) with [] => true | _ => false end)))
    (run ex_bpair_kv (key_group 7) (fun _ _ => true) ex_handler
       (init_sys ex_bpair_kv (bpair_init ex_lsm_cfg ex_lsm_cfg_ok ex_sched ex_dsched 20 1000))
       [SBatch [([97], []); ([97; 98], []); ([97], [])]; SCkpt 1; SBatch [([97], [])]; SBatch [([97], [])]; SRestore 1; SBatch [([97], [])]])
  = Some ([ [([97], []); ([97; 98], [])];
            [([97], [([], [([], [])]); ([1], [([2], [3])])])];
            [([97], [([], [([], [])])])];
            [([97], [([], [([], [])]); ([1], [([2], [3])])])] ], None, Some [], true).
Proof. vm_compute. reflexivity. Qed.
