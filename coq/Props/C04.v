(* C04 - failure-free delivery: every record exactly once, per-split key order kept; barriers and watermarks
   never overtake records read before them; for any batch sizes, time-outs and handler latencies.
   Statements only; proofs in Proofs/C04_RunnerPipe.v and Proofs/C04_Spec.v; model in Model/RunnerPipe.v. *)
From Coq Require Import List NArith Bool Arith.
Import ListNotations.
From RV Require Import Model.RunnerPipe Proofs.C04_RunnerPipe Proofs.C04_Spec Proofs.C04_Timeout Proofs.C04_ReorderAdapter.

(* For every key-by function, every reorder stage that emits one result per input in input order (C20), every
   router, operator count, MaxSize, time-out setting, input (records of any splits, markers anywhere) and EVERY
   schedule of the read loop, the stage's internal actions, the joiner, the time-out tokens and the sender
   goroutines (handler latencies and operator back-pressure are the gaps the schedule leaves between actions):
   - at every moment each operator has been given a prefix of the sub-sequence of the ideal stream (key-by results
     in record order, markers at their positions) routed to it;
   - once the pipeline has drained it has been given exactly that sub-sequence, which means: every keyed event of
     every record exactly as often as produced and only at the operator owning its key, every marker once, events
     of the same split and key in the split's order, every marker exactly between the records read before and
     after it;
   - every keyed event is expected at exactly one operator. *)
Theorem delivery_exact_ordered :
  forall (kb : N -> list kev) (R : rstage) (route : list N -> nat) (nops mx : nat) (delay : bool) (split_of : N -> N),
    rs_inorder kb R ->
    forall (input : list item) (sched : list (action R)) (s : st R),
      run R route nops mx delay (init R input) sched = Some s ->
      (forall i, i < nops -> exists rest, expected kb route input i = delivered R s i ++ rest) /\
      (drained R nops s = true -> forall i, i < nops ->
         delivered R s i = expected kb route input i /\
         exact_ordered_at kb route input split_of i (delivered R s i)) /\
      ((forall k, route k < nops) -> forall x kv, exists i, i < nops /\
         count_occ ev_eq_dec (expected kb route input i) (EK x kv) = count_occ ev_eq_dec (ideal kb input) (EK x kv) /\
         forall j, j <> i -> count_occ ev_eq_dec (expected kb route input j) (EK x kv) = 0).
Proof.
  intros kb R route nops mx delay split_of Hin input sched s Hr. split; [|split].
  - intros i Hi. eexists. eapply delivered_prefix; eauto.
  - intros Hd i Hi. pose proof (delivered_exact kb R route nops mx delay Hin input sched s i Hr Hi Hd) as E.
    split; [exact E|]. rewrite E. apply expected_exact_ordered.
  - intros Hlt x kv. apply one_operator. exact Hlt.
Qed.
Print Assumptions delivery_exact_ordered.

(* At most one batch is being delivered to an operator (the sender goroutine's) and at most one more waits behind
   it (the joiner's hand-off); while a hand-off waits the batcher is empty, so a time-out flush cannot overtake it;
   everything outside the batcher precedes the batcher's content in the operator's stream. *)
Theorem sender_serialises :
  forall (kb : N -> list kev) (R : rstage) (route : list N -> nat) (nops mx : nat) (delay : bool),
    rs_inorder kb R ->
    forall (input : list item) (sched : list (action R)) (s : st R),
      run R route nops mx delay (init R input) sched = Some s ->
      (forall j b, s_pc R s = JHand j b -> o_batch (s_ops R s j) = []) /\
      (forall i, i < nops -> exists later,
          expected kb route input i =
          delivered R s i ++ sndb (s_ops R s i) ++ jhand R s i ++ o_batch (s_ops R s i) ++ later).
Proof. intros. eapply sender_serialises_lemma; eauto. Qed.
Print Assumptions sender_serialises.

(* With MaxDelay > 0, in every reachable state (any schedule, in particular any late delivery of a stale time-out
   callback after its batch was handed out on size and the next batch has started): a non-empty operator batch has
   its time-out on the way - its timer is still armed with the batch's token, or has expired and its callback has not
   run yet, or the sender goroutine holds the token and is about to flush. So a record in a partial batch is never
   left without a time-out (what Flush(stale token) must not destroy). *)
Theorem timeout_pending :
  forall (R : rstage) (route : list N -> nat) (nops mx : nat) (input : list item) (sched : list (action R)) (s : st R),
    run R route nops mx true (init R input) sched = Some s ->
    forall i, o_batch (s_ops R s i) <> [] ->
      o_slot (s_ops R s i) = Some (o_tok (s_ops R s i)) \/
      In (o_tok (s_ops R s i)) (o_late (s_ops R s i)) \/
      o_snd (s_ops R s i) = STok (o_tok (s_ops R s i)).
Proof. intros R route nops mx input sched s Hr i. exact (timeout_pending_lemma R route nops mx input sched s Hr i). Qed.
Print Assumptions timeout_pending.

(* The assumption on the reorder stage is satisfiable: a key-by batcher (any MaxSize, with or without time-out)
   in front of an in-order queue of fetch results. *)
Theorem batched_stage_in_order :
  forall kb mx delay, rs_inorder kb (batched_stage kb mx delay).
Proof. exact batched_stage_inorder. Qed.
Print Assumptions batched_stage_in_order.

(* ... hence, unconditionally, for the pipeline with that stage *)
Theorem delivery_exact_ordered_batched :
  forall kb route nops mx delay input sched s,
    let R := batched_stage kb (max 1 mx) delay in
    run R route nops mx delay (init R input) sched = Some s ->
    drained R nops s = true -> forall i, i < nops -> delivered R s i = expected kb route input i.
Proof.
  intros kb route nops mx delay input sched s R Hr Hd i Hi.
  eapply delivered_exact; eauto. apply batched_stage_inorder.
Qed.
Print Assumptions delivery_exact_ordered_batched.

(* The assumption is discharged for C20's thread-level model of the repaired batching.ReorderFetcher (adder thread,
   time-out goroutine, timer expiries, one fetch goroutine per batch completing in any order, drains; any MaxSize,
   delay and buffer size): Model/Reorder.v with rp_fixed = true, through C20's invariant. *)
Theorem reorder_stage_in_order :
  forall (kb : N -> list kev) (p : Model.Reorder.rparams),
    Model.Reorder.rp_fixed p = true -> rs_inorder kb (reorder_stage kb p).
Proof. exact reorder_stage_inorder. Qed.
Print Assumptions reorder_stage_in_order.

(* ... hence, unconditionally, for the whole pipeline with the thread-level reorder fetcher in it *)
Theorem delivery_exact_ordered_reorder :
  forall (kb : N -> list kev) (p : Model.Reorder.rparams) route nops mx delay input sched s,
    Model.Reorder.rp_fixed p = true ->
    let R := reorder_stage kb p in
    run R route nops mx delay (init R input) sched = Some s ->
    (forall i, i < nops -> exists rest, expected kb route input i = delivered R s i ++ rest) /\
    (drained R nops s = true -> forall i, i < nops -> delivered R s i = expected kb route input i).
Proof.
  intros kb p route nops mx delay input sched s Hp R Hr.
  pose proof (reorder_stage_inorder kb p Hp) as Hin. split.
  - intros i Hi. eexists. eapply delivered_prefix; eauto.
  - intros Hd i Hi. eapply delivered_exact; eauto.
Qed.
Print Assumptions delivery_exact_ordered_reorder.

(* With MaxDelay = 0 and a source channel that is never closed, a partial last batch is never delivered: a reachable
   state in which no action is enabled and a record read has not reached its operator (finding, code 100). *)
Theorem delay0_tail_never_delivered :
  let kb := fun x : N => [([x], 0%N)] in
  let R := batched_stage kb 2 false in
  let route := fun _ : list N => 0 in
  exists s, run R route 1 2 false (init R [IRec 7%N]) [ARead R] = Some s /\
            (forall a, step R route 1 2 false s a = None) /\
            delivered R s 0 = [] /\ expected kb route [IRec 7%N] 0 = [EK 7%N ([7%N], 0%N)].
Proof. exact delay0_stuck. Qed.
Print Assumptions delay0_tail_never_delivered.

(* Non-vacuity: a drained state is reachable (one record, one barrier, one operator, MaxSize 1). *)
Example drained_reachable :
  let kb := fun x : N => [([x], 0%N)] in
  let R := batched_stage kb 1 false in
  let route := fun _ : list N => 0 in
  exists s, run R route 1 1 false (init R [IRec 1%N; IMark (Bar 1%N)])
              [ARead R; ARead R; AJoin R; AJoin R; AJoin R; AJoin R; ASndRecv R 0; ASndDone R 0;
               AJoin R; AJoin R; AJoin R; AJoin R; ASndRecv R 0; ASndDone R 0] = Some s /\
            drained R 1 s = true /\ delivered R s 0 = [EK 1%N ([1%N], 0%N); EM (Bar 1%N)].
Proof. eexists. split; [vm_compute; reflexivity|]. split; vm_compute; reflexivity. Qed.
