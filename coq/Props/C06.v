(* C06 - rescaling redistributes checkpointed state completely and exclusively. Statements only. *)
From Coq Require Import List NArith Sorting.Permutation Sorting.Sorted.
From RV Require Import Model.AssignRanges Model.Rescale Proofs.C06_Assign Proofs.C06_Rescale.
From RV Require Import Proofs.C07_Sorted Proofs.C18_Layout Proofs.C06_Clean Proofs.C06_Search.
Import ListNotations.
Open Scope N_scope.

(* For ANY two lists of ranges - hence every M, N >= 1, every key-group count and every order (permutation) in which
   the old operators' checkpoints were recorded - AssignRanges returns one entry per new range, and entry i lists,
   ascending and without repetition, exactly the positions j of the recorded list with to[i].Overlaps(from[j]). *)
Theorem assign_exact : forall to from,
  length (assign_ranges to from) = length to /\
  forall i, (i < length to)%nat ->
    let a := nth i (assign_ranges to from) [] in
    (forall j, In j a <-> (j < N.of_nat (length from) /\ overlaps (nth i to dflt) (nth (N.to_nat j) from dflt) = true)) /\
    StronglySorted N.lt a /\
    a = map fst (filter (fun p => overlaps (nth i to dflt) (snd p)) (indexed 0 from)).
Proof. exact assign_exact_gen. Qed.
Print Assumptions assign_exact.

(* Property level: `from` is any permutation of the M old ranges of keyGroupRanges(count, M).  Every key group has
   exactly one old and one new owner and the old owner's checkpoint is handed to the new owner (complete); whatever is
   handed to a new operator shares a key group with it (exclusive; for non-empty ranges). *)
Theorem assign_complete_and_exclusive : forall count m n from,
  1 <= m -> 1 <= n -> Permutation from (kg_ranges count m) ->
  let to := kg_ranges count n in
  let asg := assign_ranges to from in
  length asg = N.to_nat n /\
  (forall kg, kg < count ->
     exists i j, (i < N.to_nat n)%nat /\ (j < length from)%nat /\
       includes_kg (nth i to dflt) kg = true /\ includes_kg (nth j from dflt) kg = true /\
       (forall i', (i' < N.to_nat n)%nat -> includes_kg (nth i' to dflt) kg = true -> i' = i) /\
       (forall j', (j' < length from)%nat -> includes_kg (nth j' from dflt) kg = true -> j' = j) /\
       In (N.of_nat j) (nth i asg [])) /\
  (forall i j, (i < N.to_nat n)%nat -> In j (nth i asg []) ->
     j < N.of_nat (length from) /\
     (fst (nth i to dflt) < snd (nth i to dflt) -> fst (nth (N.to_nat j) from dflt) < snd (nth (N.to_nat j) from dflt) ->
      exists kg, includes_kg (nth i to dflt) kg = true /\ includes_kg (nth (N.to_nat j) from dflt) kg = true)).
Proof. exact assign_complete_exclusive. Qed.
Print Assumptions assign_complete_and_exclusive.

(* non-vacuity: a permuted instance *)
Example assign_instance : Permutation [(2,4);(0,2)] (kg_ranges 4 2) /\ assign_ranges (kg_ranges 4 3) [(2,4);(0,2)] = [[1];[0];[0]].
Proof. split; [apply perm_swap|reflexivity]. Qed.

(* rescale_exact, the full statement ("each new operator sees, for every prefix of keys it owns, exactly what the old
   owner's database showed", Proofs/C06_Rescale.v sees_old_state) is FALSE of the faithful model of the repaired code:
   a permutation of the two old ranges, a new operator and an owned prefix where the old owner's entry is not read.
   The witness is in the class recompacted_shared_table (two different files with meeting key ranges in one level
   >= 1 of the composite) and outside the clean inputs; replayed on the implementation it is the known finding D22
   (corpus/rescale/d22_recompacted_shared_table.json). *)
Theorem rescale_exact_refuted :
  exists count n recorded i p,
    Permutation (map fst recorded) (kg_ranges count 2) /\
    ~ sees_old_state count n recorded i p /\
    class_witness count n recorded i = true /\ forallb doc_clean recorded = false.
Proof. exact rescale_exact_refuted_lemma. Qed.
Print Assumptions rescale_exact_refuted.

(* rescale_exact_partial: for ALL documents, handle orders and ranges, the database a new operator opens from its
   handles holds exactly the tables of those checkpoints (multiset equality: complete and exclusive at the level of
   files), its memtable holds exactly the OWNED entries of their WALs, in order, and nothing foreign; every replayed
   entry is numbered above every table, and the write counter continues above every loaded table, so that later writes
   win every merge by sequence number.  Together with assign_exact (the handles are exactly the overlapping old
   checkpoints) this is the part of rescale_exact that holds for every input.
   The step from here to "reads exactly the old owner's state" on clean inputs is rescale_exact_clean below. *)
Theorem rescale_exact_partial : forall sorted own d rest st,
  restore sorted own (d :: rest) = Some st ->
  Permutation (concat (s_levels st)) (flat_map tables_of (d :: rest)) /\
  map payload (s_mem st) = rev (map payload (filter (fun e => key_in own (e_key e)) (concat (flat_map d_wals (d :: rest))))) /\
  (forall e, In e (s_mem st) -> key_in own (e_key e) = true) /\
  (forall e t, In e (s_mem st) -> In t (concat (s_levels st)) -> t_endseq t < e_seq e) /\
  (forall t, In t (concat (s_levels st)) -> t_endseq t <= s_seq st).
Proof. exact restore_spec. Qed.
Print Assumptions rescale_exact_partial.

(* The level search of AllTablesForPrefix (slices.BinarySearchFunc with RangePrefixCompare, then the forward scan while
   RangeContainsPrefix) on a level that is a chain of disjoint key ranges returns every table that holds an entry with
   the prefix. *)
Theorem level_search_complete : forall lvl p t e,
  level_ok lvl -> In t lvl -> In e (t_entries t) -> is_prefix p (e_key e) = true -> In t (select_level lvl p).
Proof. exact select_complete_proved. Qed.
Print Assumptions level_search_complete.

(* The composite level list that LoadCheckpointList + the D21 repair build from CLEAN documents, handles in ANY order,
   is a valid layout for the read path: every table covers its entries, every level below L0 is a chain of pairwise
   disjoint key ranges in key order.  docwf (Proofs/C06_Clean.v) = the clean class: every table / WAL entry of the
   checkpoint lies in the checkpoint's key-group range (doc_clean), table ranges cover their entries, end-sequence
   numbers bound the entries, the checkpoint's own levels below L0 are chains; pairdisj = the handles' ranges are
   pairwise disjoint (any selection from a permutation of keyGroupRanges). *)
Theorem composite_of_clean_is_valid : forall (hs : list (kgrange * ckdoc)) d rest c,
  map snd hs = d :: rest -> merge_into d rest = Some c ->
  pairdisj (map fst hs) -> (forall rd, In rd hs -> docwf rd) ->
  levels_ok (level_list true (d_levels c)).
Proof. exact composite_levels_ok. Qed.
Print Assumptions composite_of_clean_is_valid.

(* rescale_exact_clean: for EVERY key-group count, M, N, EVERY order of the recorded checkpoints, every new operator i
   and every prefix p whose keys belong to old operator j and to new operator i (a subject's state prefix, a key group's
   timer prefix): on CLEAN inputs, what new operator i's restored database returns for ScanPrefix(p) is exactly what
   old operator j's own restore of its checkpoint returns - the latest value of every entry and every pending timer,
   no deleted one, nothing else.  LLInv (trl dj) is c07c18's layout invariant (Proofs/C18_Layout.v) of the old owner's
   level list, translated entry by entry (it holds of every layout a database reaches: Props/C18.v
   reachable_layouts_valid); it provides "one version per key and sequence number".  The per-key merge of
   Model/Rescale.v is tied to c07c18's [Mx] characterisation ("per key the greatest sequence number").
   Not claimed: a direct ScanPrefix of a prefix the new operator does NOT own may show entries of shared tables - the
   operator never issues one (events are routed to owners: C05; timers are loaded per owned key group); its memtable
   holds nothing foreign (rescale_exact_partial).  The class outside docwf is rescale_exact_refuted (D22). *)
Theorem rescale_exact_clean : forall count n recorded i j rj dj p st stj,
  pairdisj (map fst recorded) -> (forall rd, In rd recorded -> docwf rd) ->
  (i < N.to_nat n)%nat -> nth_error recorded j = Some (rj, dj) -> LLInv (trl dj) ->
  (forall k, is_prefix p k = true -> key_in rj k = true /\ key_in (nth i (kg_ranges count n) (0, 0)) k = true) ->
  restore_new true count n recorded i = Some st -> restore true rj [dj] = Some stj ->
  scan_prefix st p = scan_prefix stj p.
Proof. exact rescale_exact_clean_proved. Qed.
Print Assumptions rescale_exact_clean.

(* later writes: the entry a Put/Delete adds to the memtable (numbered above everything loaded, rescale_exact_partial)
   is what the merged view returns for its key *)
Theorem later_write_visible : forall p m (Tb : entry -> Prop) R new,
  Mx (fun x => exists e, x = tr e /\ is_prefix p (e_key e) = true /\ (In e (new :: m) \/ Tb e)) R ->
  uniq (fun x => exists e, x = tr e /\ is_prefix p (e_key e) = true /\ (In e (new :: m) \/ Tb e)) ->
  decr (new :: m) -> (forall e e', In e (new :: m) -> Tb e' -> e_seq e' < e_seq e) ->
  is_prefix p (e_key new) = true -> LsmBase.tbl_get (e_key new) R = Some (tr new).
Proof. exact write_visible. Qed.
Print Assumptions later_write_visible.

(* non-vacuity: all hypotheses of rescale_exact_clean hold of a clean scale-in with permuted acknowledgements, and the
   conclusion is obtained from the theorem *)
Example rescale_exact_clean_instance :
  pairdisj (map fst d21_recorded) /\ (forall rd, In rd d21_recorded -> docwf rd) /\ LLInv (trl docA) /\
  (forall k, is_prefix [0;0] k = true -> key_in (0, 1) k = true /\ key_in (nth 0 (kg_ranges 2 1) (0, 0)) k = true) /\
  exists st stA, restore_new true 2 1 d21_recorded 0 = Some st /\ restore true (0, 1) [docA] = Some stA /\
                 scan_prefix st [0;0] = scan_prefix stA [0;0] /\ scan_prefix stA [0;0] = [(kA1, 11); (kA2, 12)].
Proof. exact clean_instance. Qed.

(* non-vacuity / samples: a clean scale-in with permuted acknowledgements reads everything (after the D21 repair) *)
Example rescale_clean_sample :
  match restore_new true 2 1 d21_recorded 0 with
  | Some st => scan_prefix st [0;0] = [(kA1, 11); (kA2, 12)] /\ scan_prefix st [0;1] = [(kB1, 21); (kB2, 22)]
  | None => False
  end.
Proof. exact d21_sorted_ok. Qed.

(* history: before 4be9a8c (D21) even clean inputs failed: levels concatenated in acknowledgement order *)
Lemma rescale_failed_before_d21_fix :
  Permutation (map fst d21_recorded) (kg_ranges 2 2) /\ forallb doc_clean d21_recorded = true /\
  match restore_new false 2 1 d21_recorded 0, restore false (0, 1) [docA] with
  | Some st, Some stA => scan_prefix stA [0;0] = [(kA1, 11); (kA2, 12)] /\ scan_prefix st [0;0] = []
  | _, _ => False
  end.
Proof. exact d21_unsorted_refuted. Qed.

(* history: the scan before 35e5e8b failed the statement (D20) *)
Lemma assign_exact_failed_before_fix :
  exists to from, Permutation from [(0,2);(2,4)] /\ to = [(0,2);(2,4)] /\
     nth 0 (assign_ranges_old to from) [] = [] /\ overlaps (nth 0 to (0,0)) (nth 1 from (0,0)) = true.
Proof. exact d20_old_scan_refuted. Qed.
