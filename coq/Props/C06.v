(* C06 - rescaling redistributes checkpointed state completely and exclusively. Statements only. *)
From Coq Require Import List NArith Sorting.Permutation Sorting.Sorted.
From RV Require Import Model.AssignRanges Proofs.C06_Assign.
Import ListNotations.
Open Scope N_scope.

(* For ANY two lists of ranges - hence every M, N >= 1, every key-group count and every order (permutation) in which
   the old operators' checkpoints were recorded - AssignRanges returns one entry per new range, and entry i lists,
   ascending and without repetition, exactly the positions j of the recorded list with to[i].Overlaps(from[j]). *)
Theorem assign_exact : forall to from,
  length (assign_ranges to from) = length to /\
  forall i, (i < length to)%nat ->
    let a := nth i (assign_ranges to from) [] in
    (forall j, In j a <-> (j < N.of_nat (length from) /\ overlaps (nth i to dflt) (nth (N.to_nat j) from dflt) = true)) /\
    StronglySorted N.lt a /\
    a = map fst (filter (fun p => overlaps (nth i to dflt) (snd p)) (indexed 0 from)).
Proof. exact assign_exact_gen. Qed.
Print Assumptions assign_exact.

(* Property level: `from` is any permutation of the M old ranges of keyGroupRanges(count, M).  Every key group has
   exactly one old and one new owner and the old owner's checkpoint is handed to the new owner (complete); whatever is
   handed to a new operator shares a key group with it (exclusive; for non-empty ranges). *)
Theorem assign_complete_and_exclusive : forall count m n from,
  1 <= m -> 1 <= n -> Permutation from (kg_ranges count m) ->
  let to := kg_ranges count n in
  let asg := assign_ranges to from in
  length asg = N.to_nat n /\
  (forall kg, kg < count ->
     exists i j, (i < N.to_nat n)%nat /\ (j < length from)%nat /\
       includes_kg (nth i to dflt) kg = true /\ includes_kg (nth j from dflt) kg = true /\
       (forall i', (i' < N.to_nat n)%nat -> includes_kg (nth i' to dflt) kg = true -> i' = i) /\
       (forall j', (j' < length from)%nat -> includes_kg (nth j' from dflt) kg = true -> j' = j) /\
       In (N.of_nat j) (nth i asg [])) /\
  (forall i j, (i < N.to_nat n)%nat -> In j (nth i asg []) ->
     j < N.of_nat (length from) /\
     (fst (nth i to dflt) < snd (nth i to dflt) -> fst (nth (N.to_nat j) from dflt) < snd (nth (N.to_nat j) from dflt) ->
      exists kg, includes_kg (nth i to dflt) kg = true /\ includes_kg (nth (N.to_nat j) from dflt) kg = true)).
Proof. exact assign_complete_exclusive. Qed.
Print Assumptions assign_complete_and_exclusive.

(* non-vacuity: a permuted instance *)
Example assign_instance : Permutation [(2,4);(0,2)] (kg_ranges 4 2) /\ assign_ranges (kg_ranges 4 3) [(2,4);(0,2)] = [[1];[0];[0]].
Proof. split; [apply perm_swap|reflexivity]. Qed.

(* history: the scan before 35e5e8b failed the statement (D20) *)
Lemma assign_exact_failed_before_fix :
  exists to from, Permutation from [(0,2);(2,4)] /\ to = [(0,2);(2,4)] /\
     nth 0 (assign_ranges_old to from) [] = [] /\ overlaps (nth 0 to (0,0)) (nth 1 from (0,0)) = true.
Proof. exact d20_old_scan_refuted. Qed.
