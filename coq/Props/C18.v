(* C18 - compaction never changes what the database contains. Statements only (work in progress). *)
From RV Require Import Base.Bytes Model.LsmBase Model.LsmCompaction.
Open Scope N_scope.

Theorem pct_zero : forall b, pct 0 b = 0.
Proof. reflexivity. Qed.
Print Assumptions pct_zero.
