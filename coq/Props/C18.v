(* C18 - compaction never changes what the database contains.  Statements only; proofs in Proofs/C18_*.v.
   Model: Model/LsmCompaction.v (Compactor.Compact transcribed) over the entry-level layouts of Model/LsmBase.v. *)
From Coq Require Import List NArith.
From RV Require Import Base.Bytes Model.LsmBase Model.LsmCompaction Model.Lsm
  Model.LsmReplay Proofs.C18_Layout Proofs.C18_Main Proofs.C07_Refine Proofs.C07_Corollaries Proofs.C18_Fixpoint Proofs.C07_Replay.
Import ListNotations.
Open Scope N_scope.

(* For EVERY table-size function, EVERY compactor setting (target table size >= 1, level-0 trigger >= 1, any
   amplification percentage and level-size constants), every value of the minor-compaction cursor, EVERY valid layout
   [ll] and EVERY list [extra] of level-0 tables that arrive between Compact and the application of its change set
   (such that the layout with them is still valid, as flushes guarantee): the layout after the step is valid again
   (tables key-sorted and non-empty, levels >= 1 range-sorted and disjoint, level 0 in sequence-number order, per key
   newer data never below older), Get of every key and ScanPrefix of every prefix are unchanged, the merged view (per
   key the newest version) is unchanged - so no overwritten or deleted value reappears - and no entry is invented. *)
Theorem compact_preserves :
  forall tsize cfg mcl ll extra cs mcl',
  good_cfg cfg -> valid (add_l0 extra ll) -> compact tsize cfg mcl ll = (Some cs, mcl') ->
  let ll1 := add_l0 extra ll in
  let ll2 := apply_cs cs ll1 in
  valid ll2 /\ (forall k, ll_get k ll2 = ll_get k ll1) /\ (forall p, ll_scan p ll2 = ll_scan p ll1) /\
  view ll2 = view ll1 /\ (forall e, ents ll2 e -> ents ll1 e).
Proof. exact compact_preserves_proof. Qed.
Print Assumptions compact_preserves.

(* Independent of the compaction policy: applying ANY change set that passes the executable legality test [good_csb] to a
   valid layout gives a valid layout with the same Get / ScanPrefix results and the same merged view, and invents no entry.
   The correspondence check applies this to the change sets the implementation actually returns (code 6 = not legal), so it
   does not depend on table byte sizes, the picking policy or WriteRun's chunk sizes; [compact_preserves] shows that the
   transcribed Compactor.Compact only produces such change sets. *)
Theorem legal_change_set_preserves :
  forall ll cs, valid ll -> good_csb ll cs = true ->
  valid (apply_cs cs ll) /\ (forall k, ll_get k (apply_cs cs ll) = ll_get k ll) /\
  (forall p, ll_scan p (apply_cs cs ll) = ll_scan p ll) /\ view (apply_cs cs ll) = view ll /\
  (forall e, ents (apply_cs cs ll) e -> ents ll e).
Proof. exact legal_cs_preserves_proof. Qed.
Print Assumptions legal_change_set_preserves.

(* The same for one step of the compaction task as a whole, whether Compact returns nil, a change set, or FAILS with a
   storage read error (then nothing is installed): validity and every read are preserved.  This is the statement the
   fault-injecting correspondence check ties to the code. *)
Theorem compact_step_preserves :
  forall tsize cfg mcl ll extra failed,
  good_cfg cfg -> valid (add_l0 extra ll) ->
  let ll1 := add_l0 extra ll in
  let ll2 := fst (compact_step tsize failed cfg mcl ll extra) in
  valid ll2 /\ (forall k, ll_get k ll2 = ll_get k ll1) /\ (forall p, ll_scan p ll2 = ll_scan p ll1) /\ view ll2 = view ll1.
Proof. exact compact_step_preserves_proof. Qed.
Print Assumptions compact_step_preserves.

Theorem failed_step_unchanged :
  forall tsize cfg mcl ll extra, fst (compact_step tsize true cfg mcl ll extra) = add_l0 extra ll.
Proof. exact failed_step_unchanged_proof. Qed.
Print Assumptions failed_step_unchanged.

(* what "visible value" means on a valid layout: Get returns the version with the greatest sequence number of the whole
   layout, ScanPrefix the live ones of those, ascending *)
Theorem get_is_newest :
  forall ll k, valid ll ->
  match ll_get k ll with
  | Some m => ents ll m /\ ekey m = k /\ forall e, ents ll e -> ekey e = k -> eseq e <= eseq m
  | None => forall e, ents ll e -> ekey e <> k
  end.
Proof. exact ll_get_newest. Qed.
Print Assumptions get_is_newest.

Theorem scan_is_newest : forall ll p, valid ll -> ll_scan p ll = without_deletes (tbl_scan p (view ll)).
Proof. exact ll_scan_newest. Qed.
Print Assumptions scan_is_newest.

(* Iterating Compact and applying its change sets until it returns nil - the loop of the compaction task, with no flush
   in between - terminates on every valid layout for every setting, cursor value and size function; the final layout is
   valid and has the same content. *)
Theorem compact_fixpoint :
  forall tsize cfg mcl ll, good_cfg cfg -> valid ll ->
  exists fuel ll' mcl', compact_loop tsize fuel cfg mcl ll = Some (ll', mcl') /\ valid ll' /\ view ll' = view ll.
Proof. exact compact_fixpoint_thm. Qed.
Print Assumptions compact_fixpoint.

(* the layouts the database reaches by flushes and compactions are valid, for every history and schedule *)
Theorem reachable_layouts_valid :
  forall cfg acts st os, cfg_ok cfg -> run cfg (init cfg) acts = Some (st, os) -> valid (lv st).
Proof. exact reachable_valid_proof. Qed.
Print Assumptions reachable_layouts_valid.

(* ---------- non-vacuity: a valid layout with two level-0 tables and populated deeper levels on which Compact returns
   a change set, and level-0 tables that may arrive meanwhile ---------- *)

Definition ex_cfg : dbcfg := mkDbCfg 19 1000000 6 (mkCfg 2 200 1 30).
Definition ex_acts : list act :=
  [ APut [97] [49; 49]; AF1; AF2; APut [98] [50; 50]; AF1; AF2; AC1; AC2; AC1; AC1; ADel [97]; APut [99] [51; 51]; AF1; AF2;
    APut [98] [53; 53]; AF1; AF2 ].
Definition ex_state : option db := option_map fst (run ex_cfg (init ex_cfg) ex_acts).

Example ex_cfg_ok : cfg_ok ex_cfg /\ good_cfg (d_comp ex_cfg).
Proof. unfold cfg_ok, good_cfg, ex_cfg. cbn. repeat split; lia. Qed.

Example ex_layout_valid_and_compacts :
  exists st cs m, ex_state = Some st /\ valid (lv st) /\ length (hd [] (lv st)) = 2%nat /\
                  compact table_size (d_comp ex_cfg) (mcl st) (lv st) = (Some cs, m) /\
                  valid (add_l0 [[mkE [100] 6 false [52; 52]]] (lv st)).
Proof.
  destruct (run ex_cfg (init ex_cfg) ex_acts) as [[st os]|] eqn:E; [|vm_compute in E; discriminate].
  pose proof (reachable_valid_proof _ _ _ _ (proj1 ex_cfg_ok) E) as Hv.
  (* one more write + flush gives the extended layout; it is reachable, hence valid *)
  pose (more := ex_acts ++ [APut [100] [52; 52]; AF1; AF2]).
  destruct (run ex_cfg (init ex_cfg) more) as [[st2 os2]|] eqn:E2; [|vm_compute in E2; discriminate].
  pose proof (reachable_valid_proof _ _ _ _ (proj1 ex_cfg_ok) E2) as Hv2.
  vm_compute in E. injection E as <- _. vm_compute in E2. injection E2 as <- _.
  eexists _, _, _. split; [vm_compute; reflexivity|]. split; [exact Hv|]. split; [reflexivity|]. split; [vm_compute; reflexivity|exact Hv2].
Qed.
