(* C18 - compaction never changes what the database contains.  Statements only; proofs in Proofs/C18_*.v.
   Model: Model/LsmCompaction.v (Compactor.Compact transcribed) over the entry-level layouts of Model/LsmBase.v. *)
From Coq Require Import List NArith.
From RV Require Import Base.Bytes Model.LsmBase Model.LsmCompaction Model.Lsm
  Proofs.C18_Layout Proofs.C18_Main Proofs.C07_Refine Proofs.C07_Corollaries.
Import ListNotations.
Open Scope N_scope.

(* For EVERY table-size function, EVERY compactor setting (target table size >= 1, level-0 trigger >= 1, any
   amplification percentage and level-size constants), every value of the minor-compaction cursor, EVERY valid layout
   [ll] and EVERY list [extra] of level-0 tables that arrive between Compact and the application of its change set
   (such that the layout with them is still valid, as flushes guarantee): the layout after the step is valid again
   (tables key-sorted and non-empty, levels >= 1 range-sorted and disjoint, level 0 in sequence-number order, per key
   newer data never below older), Get of every key and ScanPrefix of every prefix are unchanged, the merged view (per
   key the newest version) is unchanged - so no overwritten or deleted value reappears - and no entry is invented. *)
Theorem compact_preserves :
  forall tsize cfg mcl ll extra cs mcl',
  good_cfg cfg -> valid (add_l0 extra ll) -> compact tsize cfg mcl ll = (Some cs, mcl') ->
  let ll1 := add_l0 extra ll in
  let ll2 := apply_cs cs ll1 in
  valid ll2 /\ (forall k, ll_get k ll2 = ll_get k ll1) /\ (forall p, ll_scan p ll2 = ll_scan p ll1) /\
  view ll2 = view ll1 /\ (forall e, ents ll2 e -> ents ll1 e).
Proof. exact compact_preserves_proof. Qed.
Print Assumptions compact_preserves.

(* what "visible value" means on a valid layout: Get returns the version with the greatest sequence number of the whole
   layout, ScanPrefix the live ones of those, ascending *)
Theorem get_is_newest :
  forall ll k, valid ll ->
  match ll_get k ll with
  | Some m => ents ll m /\ ekey m = k /\ forall e, ents ll e -> ekey e = k -> eseq e <= eseq m
  | None => forall e, ents ll e -> ekey e <> k
  end.
Proof. exact ll_get_newest. Qed.
Print Assumptions get_is_newest.

Theorem scan_is_newest : forall ll p, valid ll -> ll_scan p ll = without_deletes (tbl_scan p (view ll)).
Proof. exact ll_scan_newest. Qed.
Print Assumptions scan_is_newest.

(* the layouts the database reaches by flushes and compactions are valid, for every history and schedule *)
Theorem reachable_layouts_valid :
  forall cfg acts st os, cfg_ok cfg -> run cfg (init cfg) acts = Some (st, os) -> valid (lv st).
Proof. intros cfg acts st os H1 H2. exact (proj2 (proj2 (reachable_proof cfg acts st os H1 H2))). Qed.
Print Assumptions reachable_layouts_valid.
