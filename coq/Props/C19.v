(* C19 - in-memory ordered structures behave as ordered maps and priority queues, for every operation sequence.
   Statements only; proofs are in Proofs/C19_*.v. *)
From Coq Require Import Sorted Permutation.
From RV Require Import Base.Bytes Model.Search Model.Heap Model.PPQ Model.ZipTree Model.SortedCache Model.MergeSort Model.DsSet Model.SortedMap Model.HeapIdx.
From RV Require Import Proofs.C19_Search Proofs.C19_Heap Proofs.C19_Hist Proofs.C19_PPQ Proofs.C19_ZipTree Proofs.C19_SortedCache.
From RV Require Import Proofs.C19_HeapIdx.
From RV Require Proofs.C19_Merge Proofs.C19_DsSet Proofs.C19_SortedMap.
Open Scope N_scope.

(* ================= SearchUnique ================= *)
(* x sorted relative to the target (at most one match, smaller before, greater after): Some i exactly when x[i] matches *)
Theorem search_unique_finds : forall (E T : Type) (cmp : E -> T -> comparison) (x : list E) (t : T),
  sorted_for cmp t x ->
  forall i, search_unique cmp x t = Some i <-> exists e, nth_error x i = Some e /\ cmp e t = Eq.
Proof. exact @search_unique_finds_gen. Qed.
Print Assumptions search_unique_finds.

Theorem search_unique_finds_strictly_sorted : forall (x : list N) (t : N), StronglySorted N.lt x ->
  forall i, search_unique N.compare x t = Some i <-> nth_error x i = Some t.
Proof. exact search_unique_finds_N. Qed.
Print Assumptions search_unique_finds_strictly_sorted.

(* level lookup of the LSM: tables with disjoint ascending [start,end] ranges, Table.RangeKeyCompare *)
Theorem search_unique_finds_table : forall tbls key, ranges_ok tbls ->
  forall i, search_unique range_key_compare tbls key = Some i <-> exists tb, nth_error tbls i = Some tb /\ in_range tb key.
Proof. exact search_unique_finds_range. Qed.
Print Assumptions search_unique_finds_table.

(* history: the code before the repair (high = i - 1) misses a present element *)
Theorem search_unique_before_repair_refuted :
  exists (x : list N) (t : N), StronglySorted N.lt x /\ In t x /\ search_unique_old N.compare x t = None.
Proof. exact search_unique_old_refuted. Qed.
Print Assumptions search_unique_before_repair_refuted.

Example sorted_for_nonvacuous : sorted_for N.compare 10 [0; 10; 20].
Proof. apply sorted_for_N. repeat constructor. Qed.
Example ranges_ok_nonvacuous : ranges_ok [([1], [2]); ([3], [3; 0])].
Proof. split; repeat constructor; discriminate. Qed.

(* ================= merge iterators ================= *)
Definition cmp_ok := @C19_Merge.cmp_ok.
Definition sortedT := @C19_Merge.sortedT.
Definition ssortedT := @C19_Merge.ssortedT.

(* MergeSorted: the output is a permutation of all inputs and is sorted *)
Theorem merge_sorted_perm : forall (T : Type) (cmp : T -> T -> comparison) its,
  Permutation (merge_sorted cmp its) (concat its).
Proof. exact @C19_Merge.merge_sorted_perm_closed. Qed.
Print Assumptions merge_sorted_perm.

Theorem merge_sorted_sorted : forall (T : Type) (cmp : T -> T -> comparison), cmp_ok T cmp ->
  forall its, (forall it, In it its -> sortedT T cmp it) -> sortedT T cmp (merge_sorted cmp its).
Proof. exact @C19_Merge.merge_sorted_sorted_closed. Qed.
Print Assumptions merge_sorted_sorted.

(* Merge (LSM): strictly sorted output, exactly the keys of the union, every output element is an input element *)
Theorem merge_sorted_dedup : forall (T : Type) (cmp : T -> T -> comparison) pick eqT,
  cmp_ok T cmp -> (forall a b, eqT a b = true <-> a = b) -> (forall a b, pick a b = a \/ pick a b = b) ->
  forall its, (forall it, In it its -> sortedT T cmp it) ->
  exists out, merge cmp pick eqT its = Some out /\ ssortedT T cmp out /\
              (forall x, In x out -> In x (concat its)) /\
              (forall y, In y (concat its) -> exists x, In x out /\ cmp x y = Eq).
Proof. exact @C19_Merge.merge_dedup_spec_closed. Qed.
Print Assumptions merge_sorted_dedup.

(* ... and the survivor of every key is a newest candidate (keepNewest: newer a b := seq b < seq a) *)
Theorem merge_keeps_newest : forall (T : Type) (cmp : T -> T -> comparison) pick eqT,
  cmp_ok T cmp -> (forall a b, eqT a b = true <-> a = b) -> (forall a b, pick a b = a \/ pick a b = b) ->
  forall (newer : T -> T -> bool), swo newer -> (forall a b, pick a b = if newer a b then a else b) ->
  forall its out, (forall it, In it its -> sortedT T cmp it) -> merge cmp pick eqT its = Some out ->
  forall x y, In x out -> In y (concat its) -> cmp x y = Eq -> newer y x = false.
Proof. exact @C19_Merge.merge_keeps_newest_closed. Qed.
Print Assumptions merge_keeps_newest.

(* Merge is the sequential group-fold of what MergeSorted yields *)
Theorem merge_is_dedup_of_merge_sorted : forall (T : Type) (cmp : T -> T -> comparison) pick eqT its,
  merge cmp pick eqT its = C19_Merge.dedup cmp pick eqT (merge_sorted cmp its).
Proof. exact @C19_Merge.merge_is_dedup_closed. Qed.
Print Assumptions merge_is_dedup_of_merge_sorted.

Example cmp_ok_nonvacuous : cmp_ok N N.compare.
Proof.
  split.
  - intros a b. apply N.compare_antisym.
  - intros a b c H1 H2. destruct (N.compare_spec a b), (N.compare_spec b c), (N.compare_spec a c); try congruence; lia.
Qed.

(* ================= heap ================= *)
Theorem heap_pop_min : forall (A : Type) (lt : A -> A -> bool), swo lt ->
  forall l x l', heap_ok lt l -> pop lt l = (Some x, l') -> forall y, In y l -> lt y x = false.
Proof. exact @pop_min. Qed.
Print Assumptions heap_pop_min.

Theorem heap_perm : forall (A : Type) (lt : A -> A -> bool),
  (forall x l, Permutation (push lt x l) (x :: l)) /\
  (forall l x l', pop lt l = (Some x, l') -> Permutation l (x :: l')) /\
  (forall l l', pop lt l = (None, l') -> l = [] /\ l' = []) /\
  (forall l i, Permutation (fix_ lt l i) l).
Proof. intros A lt. repeat split; [apply push_perm|apply pop_perm|apply (pop_none lt l l' H)|apply (pop_none lt l l' H)|apply fix_perm]. Qed.
Print Assumptions heap_perm.

Theorem heap_order_preserved : forall (A : Type) (lt : A -> A -> bool), swo lt ->
  (forall x l, heap_ok lt l -> heap_ok lt (push lt x l)) /\
  (forall l o l', heap_ok lt l -> pop lt l = (o, l') -> heap_ok lt l').
Proof. intros A lt H. split; [apply push_ok; exact H|apply pop_ok; exact H]. Qed.
Print Assumptions heap_order_preserved.

(* Fix(i) after an arbitrary change of the element at i restores the heap order *)
Theorem heap_fix_restores : forall (A : Type) (lt : A -> A -> bool), swo lt ->
  forall l i v, (i < length l)%nat -> heap_ok lt l -> heap_ok lt (fix_ lt (upd i v l) i).
Proof.
  intros A lt H l i v Hi Hok. apply fix_restores; [exact H|rewrite upd_length; exact Hi|apply upd_heap_ok_except; assumption].
Qed.
Print Assumptions heap_fix_restores.

(* every history of Push / Pop / change+Fix keeps the heap order; so every Pop yields a minimum and removes exactly it *)
Theorem heap_history : forall (A : Type) (lt : A -> A -> bool), swo lt -> forall ops : list (@hop A),
  heap_ok lt (fold_left (hstep lt) ops []) /\
  forall x h', pop lt (fold_left (hstep lt) ops []) = (Some x, h') ->
    (forall y, In y (fold_left (hstep lt) ops []) -> lt y x = false) /\ Permutation (fold_left (hstep lt) ops []) (x :: h').
Proof. intros A lt H ops. split; [apply heap_history_ok; exact H|intros x h'; apply heap_history_pop_min; exact H]. Qed.
Print Assumptions heap_history.

(* the index-assigner call-backs (the events the Go code emits, transcribed in Model/HeapIdx.v) keep every live element's
   reported index equal to its position, for duplicate-free contents: this is what PartitionedPriorityQueue relies on
   when it calls Fix(partition.Index()) *)
Theorem heap_index_assigner_tracks : forall (A : Type) (lt eqb : A -> A -> bool), (forall a b, eqb a b = true <-> a = b) ->
  (forall x l, fst (pushE lt x l) = push lt x l) /\ (forall l, fst (popE lt l) = pop lt l) /\ (forall l i, fst (fixE lt l i) = fix_ lt l i) /\
  (forall x l idx, NoDup (l ++ [x]) -> tracks l idx -> tracks (push lt x l) (apply_events eqb (snd (pushE lt x l)) idx)) /\
  (forall l idx x l', NoDup l -> tracks l idx -> pop lt l = (Some x, l') ->
     tracks l' (apply_events eqb (snd (popE lt l)) idx) /\ ((length l > 1)%nat -> apply_events eqb (snd (popE lt l)) idx x = (-1)%Z)) /\
  (forall l i idx, NoDup l -> tracks l idx -> tracks (fix_ lt l i) (apply_events eqb (snd (fixE lt l i)) idx)).
Proof.
  intros A lt eqb Heqb. split; [apply pushE_fst|]. split; [apply popE_fst|]. split; [apply fixE_fst|].
  split; [apply pushE_tracks; exact Heqb|]. split; [apply popE_tracks; exact Heqb|apply fixE_tracks_gen; exact Heqb].
Qed.
Print Assumptions heap_index_assigner_tracks.

(* quirk of the code (not of the property): popping the only element reports index -1 and then 0 for it *)
Theorem heap_pop_last_element_index_quirk : forall (A : Type) (lt eqb : A -> A -> bool), (forall a b, eqb a b = true <-> a = b) ->
  forall l idx x l', length l = 1%nat -> pop lt l = (Some x, l') ->
  snd (popE lt l) = [(x, (-1)%Z); (x, 0%Z)] /\ apply_events eqb (snd (popE lt l)) idx x = 0%Z.
Proof. exact @popE_last_element_quirk. Qed.
Print Assumptions heap_pop_last_element_index_quirk.

Example swo_nonvacuous : swo N.ltb.
Proof.
  split.
  - intros a b H. apply N.ltb_lt in H. apply N.ltb_ge. lia.
  - intros a b c H1 H2. apply N.ltb_ge in H1, H2. apply N.ltb_ge. lia.
Qed.

(* ================= partitioned priority queue ================= *)
Theorem ppq_pop_global_min : forall ps ops x p q', Forall sortedN ps ->
  let q := fold_left qstep ops (ppq_new ps) in
  ppq_pop q = (Some (x, p), q') ->
  In x (ppq_contents q) /\ (forall y, In y (ppq_contents q) -> x <= y) /\ Permutation (ppq_contents q) (x :: ppq_contents q').
Proof. exact ppq_history_pop_global_min. Qed.
Print Assumptions ppq_pop_global_min.

Theorem ppq_pop_none_iff_empty : forall ps ops q', Forall sortedN ps ->
  let q := fold_left qstep ops (ppq_new ps) in ppq_pop q = (None, q') -> ppq_contents q = [].
Proof. exact ppq_history_pop_none. Qed.
Print Assumptions ppq_pop_none_iff_empty.

Theorem ppq_peek_is_global_min : forall ps ops, Forall sortedN ps ->
  let q := fold_left qstep ops (ppq_new ps) in
  match ppq_peek q with
  | Some x => In x (ppq_contents q) /\ (forall y, In y (ppq_contents q) -> x <= y)
  | None => ppq_contents q = []
  end /\ (ppq_is_empty q = true <-> ppq_contents q = []).
Proof.
  intros ps ops Hps q. split; [apply ppq_peek_min|apply ppq_is_empty_spec]; apply ppq_history_inv; exact Hps.
Qed.
Print Assumptions ppq_peek_is_global_min.

(* the contents are what was pushed minus what was popped / deleted *)
Theorem ppq_matches_multiset_reference : forall x p q, (p < length (parts q))%nat ->
  Permutation (ppq_contents (ppq_push x p q)) (x :: ppq_contents q) /\
  (In x (nth p (parts q) []) -> Permutation (x :: ppq_contents (ppq_delete x p q)) (ppq_contents q)) /\
  (~ In x (nth p (parts q) []) -> ppq_contents (ppq_delete x p q) = ppq_contents q).
Proof.
  intros x p q Hp. split; [apply ppq_push_contents; exact Hp|split]; [apply ppq_delete_contents; exact Hp|apply ppq_delete_absent].
Qed.
Print Assumptions ppq_matches_multiset_reference.

(* ================= zip tree ================= *)
(* for EVERY rank sequence: search-tree invariant, and the in-order listing is the sorted association list of the Puts *)
Theorem zip_bst : forall puts : list (bytes * bytes * N),
  let t := fold_left zput puts Leaf in bst t /\ inorder t = fold_left rput puts [].
Proof. exact zip_history. Qed.
Print Assumptions zip_bst.

Theorem zip_get_put : forall puts k,
  get k (fold_left zput puts Leaf) = al_get k (fold_left rput puts []).
Proof. exact zip_history_get. Qed.
Print Assumptions zip_get_put.

Theorem zip_get_after_put : forall k k' v rank t, bst t ->
  get k (fst (put k v rank t)) = Some v /\ (k' <> k -> get k' (fst (put k v rank t)) = get k' t) /\
  snd (put k v rank t) = get k t.
Proof.
  intros k k' v rank t Hb. split; [apply get_put_same; exact Hb|split]; [intros Hne; apply get_put_other; assumption|].
  rewrite put_replaced, get_inorder by exact Hb. reflexivity.
Qed.
Print Assumptions zip_get_after_put.

Theorem zip_ascend_prefix : forall puts p,
  ascend_prefix p (fold_left zput puts Leaf) = filter (fun kv => is_prefix p (fst kv)) (fold_left rput puts []).
Proof. exact zip_history_ascend_prefix. Qed.
Print Assumptions zip_ascend_prefix.

(* the iterator is a function of the tree alone (no state between ranges of the same iter.Seq): every pass, complete or
   stopped after n items, over the tree reached by any history is a prefix of the same filtered sorted listing *)
Theorem zip_iterator_stateless : forall puts p (ns : list nat),
  map (fun n => firstn n (ascend_prefix p (fold_left zput puts Leaf))) ns =
  map (fun n => firstn n (filter (fun kv => is_prefix p (fst kv)) (fold_left rput puts []))) ns.
Proof. exact zip_history_passes. Qed.
Print Assumptions zip_iterator_stateless.

Theorem zip_iteration_sorted_no_duplicates : forall puts,
  StronglySorted (fun a b => bcmp (fst a) (fst b) = Lt) (fold_left rput puts []).
Proof. exact zip_history_sorted. Qed.
Print Assumptions zip_iteration_sorted_no_duplicates.

(* ================= sorted cache ================= *)
Theorem cache_size_exact : forall mx ops,
  let c := fold_left cstep ops (cache_new mx) in
  byte_size c = sum_len (items c) /\ sorted_set (items c) /\ cache_is_full c = (mx <=? sum_len (items c)).
Proof. exact cache_size_exact_all. Qed.
Print Assumptions cache_size_exact.

Theorem cache_pop_order : forall c x c', sorted_set (items c) ->
  (cache_pop c = (Some x, c') -> items c = x :: items c' /\ forall y, In y (items c') -> blt x y) /\
  (cache_pop_last c = (Some x, c') -> items c = items c' ++ [x] /\ forall y, In y (items c') -> blt y x).
Proof. intros c x c' Hs. split; [apply cache_pop_min|apply cache_pop_last_max]; exact Hs. Qed.
Print Assumptions cache_pop_order.

Theorem cache_set_semantics : forall v c x, sorted_set (items c) ->
  (In x (items (cache_push v c)) <-> x = v \/ In x (items c)) /\ ~ In v (items (cache_delete v c)).
Proof. intros v c x Hs. split; [apply cache_push_contents|apply cache_delete_removes]; exact Hs. Qed.
Print Assumptions cache_set_semantics.

(* history: the Push before the repair double-counts *)
Theorem cache_size_before_repair_refuted :
  exists ops, let c := fold_left cstep_old ops (cache_new 10) in byte_size c <> sum_len (items c).
Proof. exact cache_push_old_refuted. Qed.
Print Assumptions cache_size_before_repair_refuted.

(* ================= insertion-ordered set ================= *)
(* after any sequence of Add / Without: Slice is the duplicate-free first-insertion-order reference, Has is membership *)
Theorem set_semantics : forall ops,
  let s := fold_left sstep ops set_empty in
  let r := fold_left sref_step ops [] in
  set_slice s = r /\ NoDup r /\ (forall v, set_has v s = true <-> In v r) /\ set_size s = length r.
Proof. exact set_history. Qed.
Print Assumptions set_semantics.

Theorem set_reference_is_a_set : forall ref vs v,
  (In v (ref_add ref vs) <-> In v ref \/ In v vs) /\ (In v (ref_without ref vs) <-> In v ref /\ ~ In v vs) /\
  (exists t, ref_add ref vs = ref ++ t).
Proof. intros ref vs v. split; [apply C19_DsSet.ref_add_in|split]; [apply C19_DsSet.ref_without_in|apply C19_DsSet.ref_add_prefix]. Qed.
Print Assumptions set_reference_is_a_set.

(* persistent use (Added / Without / Diff return NEW sets, the old ones stay in use): for every history over a pool of set
   values, every member lists exactly its own first-insertion-order reference at every moment, whatever was derived from it
   or from its siblings *)
Theorem set_pool_semantics : forall ops : list pop_,
  let pool := fold_left pstep ops [] in
  let rpool := fold_left prstep ops [] in
  map set_slice pool = rpool /\
  forall i s, nth_error pool i = Some s ->
    NoDup (set_slice s) /\ (forall v, set_has v s = true <-> In v (set_slice s)) /\ set_size s = length (set_slice s).
Proof. exact set_pool_history. Qed.
Print Assumptions set_pool_semantics.

(* deriving a set never changes an existing set value (only the in-place Add changes the set it is called on) *)
Theorem set_values_immutable : forall pool o i s,
  (forall k vs, o <> PoAddInPlace k vs) -> nth_error pool i = Some s -> nth_error (pstep pool o) i = Some s.
Proof. exact set_values_immutable_gen. Qed.
Print Assumptions set_values_immutable.

(* ================= sorted map ================= *)
(* after any sequence of Set / Delete / ordered reads: All/Keys/Values list the sorted association-list reference,
   Get is its lookup, Set/Delete report novelty/presence, iteration is strictly increasing in the key *)
Theorem sorted_map_semantics : forall ops,
  let s := fold_left mstep ops smap_empty in
  let r := fold_left mref_step ops [] in
  snd (smap_all s) = r /\ snd (smap_keys s) = map fst r /\ snd (smap_values s) = map snd r /\
  (forall k, smap_get k s = rm_get k r) /\ smap_size s = length r /\
  StronglySorted (fun a b => bcmp (fst a) (fst b) = Lt) r /\
  (forall k v, snd (smap_set k v s) = match rm_get k r with None => true | Some _ => false end) /\
  (forall k, snd (smap_delete k s) = match rm_get k r with None => false | Some _ => true end).
Proof. exact smap_history. Qed.
Print Assumptions sorted_map_semantics.
