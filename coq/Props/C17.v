(* C17 - on-disk tables and write-ahead logs round-trip exactly. Statements only; proofs in Proofs/C17_*.v.
   Conventions: [entry_ok e] = key and value lengths < 2^32 and sequence number < 2^64 (the widths of the length and
   sequence fields; NO condition on the bytes themselves); [norm e] = e with the value of a tombstone dropped (the
   format stores no value for a tombstone); [keys_sorted] = strictly ascending keys (bytes.Compare). *)
From RV Require Import Model.SstTable Model.WriteRun Model.WalCodec.
From RV Require Import Proofs.C17_Codec Proofs.C17_Table Proofs.C17_Bloom Proofs.C17_Reopen Proofs.C17_WriteRun
        Proofs.C17_WriteRun2 Proofs.C17_Wal Proofs.C17_Get Proofs.C17_History Proofs.C17_Main Proofs.C17_Fault.
Open Scope N_scope.

(* ---------- entry codec ---------- *)
Theorem parse_serialize : forall es, Forall entry_ok es -> parse_body (ser_entries es) = Some (map norm es).
Proof. exact C17_Codec.parse_serialize. Qed.
Print Assumptions parse_serialize.

Theorem parse_serialize_exact : forall es,
  Forall entry_ok es -> Forall (fun e => e_del e = true -> e_val e = []) es -> parse_body (ser_entries es) = Some es.
Proof. exact C17_Codec.parse_serialize_exact. Qed.
Print Assumptions parse_serialize_exact.

(* All table theorems hold for EVERY choice of the writer-side constants [tp : tparams] = index spacing, bloom filter
   bits and hash count, with [params_ok tp] = spacing > 0, 0 < bits, bits + 63 < 2^32, hashes < 2^32 (what the Go code
   needs not to divide by zero / overflow uint32). The property does not fix these constants; readers never use them. *)
Example default_params_ok : params_ok default_params.
Proof. repeat split; vm_compute; try reflexivity; repeat constructor. Qed.

(* ---------- point lookup ---------- *)
(* run_ok es = Forall entry_ok es /\ keys_sorted es = true /\ blen (ser_entries es) < 2^32 (uint32 index offsets) *)
Theorem table_get_is_find : forall tp es key, params_ok tp -> run_ok es -> table_get (write_table tp es) key = get_spec es key.
Proof. exact C17_Main.table_get_is_find. Qed.
Print Assumptions table_get_is_find.

Theorem table_get_reopen_is_find : forall tp es key,
  params_ok tp -> run_ok es -> table_get (reopen (write_table tp es)) key = get_spec es key.
Proof. exact C17_Main.table_get_reopen_is_find. Qed.
Print Assumptions table_get_reopen_is_find.

Theorem table_get_never_panics : forall tp es key, params_ok tp -> run_ok es ->
  table_get (write_table tp es) key <> GPanic /\ table_get (write_table tp es) key <> GErr.
Proof. exact C17_Main.table_get_never_panics. Qed.
Print Assumptions table_get_never_panics.

(* every table of a split run answers lookups and scans, fresh and re-opened, with exactly its chunk of the run *)
Theorem write_run_tables_read_back : forall tp es target, params_ok tp -> 1 <= target -> run_ok es ->
  Forall (fun c => run_ok c /\
                   (forall key, table_get (write_table tp c) key = get_spec c key) /\
                   (forall key, table_get (reopen (write_table tp c)) key = get_spec c key) /\
                   (forall p, table_scan_prefix (write_table tp c) p = Some (scan_spec c p)) /\
                   (forall p, table_scan_prefix (reopen (write_table tp c)) p = Some (scan_spec c p)))
         (write_run es target).
Proof. exact C17_Main.write_run_tables_read_back. Qed.
Print Assumptions write_run_tables_read_back.

(* the split run read back as ONE sorted level (LevelList over {}, run): prefix scans and point lookups over the level,
   built from the fresh tables or from the re-opened ones, return exactly filter / find over the WHOLE run.
   [level_scan]/[level_get] compose the per-table reads in level order; the table selection inside a level (binary
   search with RangePrefixCompare / RangeKeyCompare) is proved complete in Props/C06.v level_search_complete and is
   exercised by the correspondence check (codes 112, 113). *)
Theorem level_reads_run_back : forall tp es target, params_ok tp -> 1 <= target -> run_ok es ->
  (forall p, level_scan (map (write_table tp) (write_run es target)) p = Some (scan_spec es p)) /\
  (forall key, level_get (map (write_table tp) (write_run es target)) key = get_spec es key) /\
  (forall p, level_scan (map (fun c => reopen (write_table tp c)) (write_run es target)) p = Some (scan_spec es p)) /\
  (forall key, level_get (map (fun c => reopen (write_table tp c)) (write_run es target)) key = get_spec es key).
Proof. exact C17_Main.level_reads_run_back. Qed.
Print Assumptions level_reads_run_back.

(* One transient storage read failure while Table.Get reads an index key ([faulty rk bad] = the readKey callback that
   fails at offset [bad]): the index search reports the error, or it never read that offset and returns exactly what
   the healthy search returns. The failure is never turned into a comparison result. *)
Theorem search_fault_surfaces : forall rk bad key clamp offs,
  search_index_with (faulty rk bad) clamp offs key = SErr \/
  search_index_with (faulty rk bad) clamp offs key = search_index_with rk clamp offs key.
Proof. exact C17_Fault.search_fault_surfaces. Qed.
Print Assumptions search_fault_surfaces.

(* WHERE a run is cut into tables (WriteRun's target / look-ahead policy) is not part of the property: the round trip
   holds for EVERY way of cutting a valid run into consecutive chunks - every table reads back exactly its chunk by
   point lookup and prefix scan, fresh and re-opened, the tables read as one sorted level give back the whole run -
   and for non-empty chunks the key ranges are disjoint and ascending. *)
Theorem any_cut_reads_back : forall tp chunks, params_ok tp -> run_ok (concat chunks) ->
  Forall (fun c => (forall key, table_get (write_table tp c) key = get_spec c key) /\
                   (forall key, table_get (reopen (write_table tp c)) key = get_spec c key) /\
                   (forall p, table_scan_prefix (write_table tp c) p = Some (scan_spec c p)) /\
                   (forall p, table_scan_prefix (reopen (write_table tp c)) p = Some (scan_spec c p))) chunks /\
  (forall p, level_scan (map (write_table tp) chunks) p = Some (scan_spec (concat chunks) p)) /\
  (forall key, level_get (map (write_table tp) chunks) key = get_spec (concat chunks) key) /\
  (forall p, level_scan (map (fun c => reopen (write_table tp c)) chunks) p = Some (scan_spec (concat chunks) p)) /\
  (forall key, level_get (map (fun c => reopen (write_table tp c)) chunks) key = get_spec (concat chunks) key).
Proof. exact C17_Main.any_cut_reads_back. Qed.
Print Assumptions any_cut_reads_back.

Theorem any_cut_ranges : forall chunks,
  Forall (fun c => c <> []) chunks -> keys_sorted (concat chunks) = true ->
  ranges_ascending chunks /\ Forall (fun c => keys_sorted c = true) chunks.
Proof. exact C17_Main.any_cut_ranges. Qed.
Print Assumptions any_cut_ranges.

(* ---------- prefix scan ---------- *)
Theorem table_scan_is_filter : forall tp es p,
  Forall entry_ok es -> table_scan_prefix (write_table tp es) p = Some (scan_spec es p).
Proof. exact C17_Table.table_scan_is_filter. Qed.
Print Assumptions table_scan_is_filter.

Theorem table_scan_reopen_is_filter : forall tp es p,
  params_ok tp -> Forall entry_ok es -> blen (ser_entries es) < 4294967296 ->
  table_scan_prefix (reopen (write_table tp es)) p = Some (scan_spec es p).
Proof. exact C17_Reopen.table_scan_reopen_is_filter. Qed.
Print Assumptions table_scan_reopen_is_filter.

(* ---------- re-opening from the Document ---------- *)
Theorem reopen_same : forall tp es, params_ok tp ->
  blen (ser_entries es) < 4294967296 -> table_meta (reopen (write_table tp es)) = table_meta (write_table tp es).
Proof. exact C17_Reopen.reopen_loads_writer_metadata. Qed.
Print Assumptions reopen_same.

(* The descriptor round trip Document() -> JSON checkpoint encoding -> NewTableFromDocument keeps the file, the sizes
   and the key range. [json_doc] (Model/SstTable.v) models encoding/json on a TableDocument as the IDENTITY on
   descriptors: []byte keys are written as base64 and read back byte for byte. That identity is trusted, not proved;
   the correspondence check sends every descriptor through json.Marshal/json.Unmarshal (code 111). *)
Theorem reopen_keeps_descriptor : forall t,
  document (reopen t) = document t /\ t_file (reopen t) = t_file t /\
  t_start (reopen t) = t_start t /\ t_end (reopen t) = t_end t.
Proof. exact C17_Reopen.reopen_keeps_descriptor. Qed.
Print Assumptions reopen_keeps_descriptor.

Theorem reopen_range_is_first_last : forall tp es,
  t_start (reopen (write_table tp es)) = first_key es /\ t_end (reopen (write_table tp es)) = last_key es.
Proof. exact C17_Reopen.reopen_range_is_first_last. Qed.
Print Assumptions reopen_range_is_first_last.

(* ---------- bloom filter ---------- *)
Theorem bloom_no_false_negative : forall size hashes keys k,
  0 < size -> size + 63 < 4294967296 -> In k keys -> bf_might_have (bf_add_all (bf_new size hashes) keys) k = true.
Proof. exact C17_Bloom.bloom_no_false_negative. Qed.
Print Assumptions bloom_no_false_negative.

Theorem bloom_of_table_no_false_negative : forall tp es e, params_ok tp ->
  In e es -> bf_might_have (bloom_of tp es) (e_key e) = true.
Proof. exact C17_Bloom.bloom_of_no_false_negative. Qed.
Print Assumptions bloom_of_table_no_false_negative.

Theorem bloom_decode_encode : forall bf r, bloom_wf bf -> bf_decode (bf_encode bf ++ r) = Some (bf, r).
Proof. exact C17_Bloom.bf_decode_encode. Qed.
Print Assumptions bloom_decode_encode.

(* ---------- WriteRun ---------- *)
Theorem write_run_partition : forall es target, 1 <= target ->
  concat (write_run es target) = es /\ write_run es target <> [] /\
  (es <> [] -> Forall (fun c => c <> []) (write_run es target)) /\
  size_rule target (write_run es target).
Proof. exact C17_Main.write_run_partition. Qed.
Print Assumptions write_run_partition.

Theorem write_run_ranges : forall es target, 1 <= target -> keys_sorted es = true -> es <> [] ->
  ranges_ascending (write_run es target) /\ Forall (fun c => keys_sorted c = true) (write_run es target).
Proof. exact C17_WriteRun2.write_run_ranges. Qed.
Print Assumptions write_run_ranges.

Theorem write_run_globally_ordered : forall es target, 1 <= target -> keys_sorted es = true ->
  forall pre c mid c' post, write_run es target = pre ++ c :: mid ++ c' :: post ->
  forall x y, In x c -> In y c' -> bltb (e_key x) (e_key y) = true.
Proof. exact C17_WriteRun2.write_run_globally_ordered. Qed.
Print Assumptions write_run_globally_ordered.

(* ---------- WAL ---------- *)
Theorem wal_replays_suffix : forall s0 pre after,
  Forall wop_ok pre ->
  s0 + N.of_nat (length (appended pre)) < 18446744073709551616 ->
  after + 1 < 18446744073709551616 ->
  (forall s, In (WTrunc s) pre -> s <= after) ->
  s0 <= after -> after <= s0 + N.of_nat (length (appended pre)) ->
  exists es, wal_read_all (w_file (ws_w (wrun s0 pre))) after = WOk es /\
             map strip_seq es = skipn (N.to_nat (after - s0)) (appended pre).
Proof. exact C17_Wal.wal_replays_suffix. Qed.
Print Assumptions wal_replays_suffix.

Theorem wal_saved_file : forall s0 pre,
  ws_saved (wrun s0 (pre ++ [WRotate])) = w_file (ws_w (wrun s0 pre)) :: ws_saved (wrun s0 pre).
Proof. exact C17_Wal.saved_file_is_w_file. Qed.
Print Assumptions wal_saved_file.

(* The reader on ANY file that is the serialisation of consecutively numbered records f, f+1, ... (however the
   writer segmented, carried or truncated its buffers to produce it): the records numbered after+1 and later, in
   order. The writer's segmentation policy is not part of the property; wal_replays_suffix above is this fact
   composed with the invariant of the current writer. *)
Theorem wal_reader_any_segmentation : forall f L after,
  Forall rec_ok L -> f + N.of_nat (length L) <= 18446744073709551616 -> after + 1 < 18446744073709551616 ->
  f <= after + 1 -> after + 1 <= f + N.of_nat (length L) ->
  wal_read_all (ser_wal f L) after = WOk (decs (after + 1) (skipn (N.to_nat (after + 1 - f)) L)).
Proof. exact C17_Wal.wal_read_all_ser. Qed.
Print Assumptions wal_reader_any_segmentation.

(* ---------- the code before the repairs violated the property (witnesses on the old models) ---------- *)
Theorem old_get_panics_before_first_key_refuted :
  exists es key, Forall entry_ok es /\ keys_sorted es = true /\ blen (ser_entries es) < 4294967296 /\
                 find_key key es = None /\ table_get_old (write_table default_params es) key = GPanic.
Proof. exact C17_History.old_get_panics_before_first_key. Qed.
Print Assumptions old_get_panics_before_first_key_refuted.

Theorem old_rotate_loses_entries_refuted : exists s0 pre after,
  (forall s, In (WTrunc s) pre -> s <= after) /\ s0 <= after /\ after <= s0 + N.of_nat (length (appended pre)) /\
  wal_read_all (w_file (ws_w (wrun_gen false s0 pre))) after = WPanic.
Proof. exact C17_Wal.rotate_without_carry_loses_entries. Qed.
Print Assumptions old_rotate_loses_entries_refuted.

Theorem old_write_run_emits_empty_table_refuted :
  exists es target, 1 <= target /\ es <> [] /\ In [] (write_run_old es target).
Proof. exact C17_WriteRun2.write_run_old_emits_empty_table. Qed.
Print Assumptions old_write_run_emits_empty_table_refuted.

(* ---------- non-vacuity ---------- *)
Example run_ok_satisfiable : run_ok [mkE [] [1;2] 7 false; mkE [0] [] 3 true; mkE [0;255] [] 9 false].
Proof. split; [repeat constructor; vm_compute; reflexivity|]. split; vm_compute; reflexivity. Qed.

Example run_ok_example :
  let es := [mkE [] [1;2] 7 false; mkE [0] [] 3 true; mkE [0;255] [] 9 false] in
  Forall entry_ok es /\ keys_sorted es = true /\ parse_body (ser_entries es) = Some es.
Proof. cbn zeta. split; [repeat constructor; vm_compute; reflexivity|]. split; vm_compute; reflexivity. Qed.
