(* C17 - on-disk tables and write-ahead logs round-trip exactly. Statements only. *)
From RV Require Import Model.SstTable Model.WriteRun Model.WalCodec Proofs.C17_WriteRun.
Open Scope N_scope.

Theorem write_run_concat : forall es target, 1 <= target -> concat (write_run es target) = es.
Proof. exact C17_WriteRun.write_run_concat. Qed.
Print Assumptions write_run_concat.
