(* C13 - restart resumes from the newest completed checkpoint; retention keeps it.  Statements only.
   Models: Model/PathSeg.v (pathSegment / idFromPathSegment at byte level, listing order, LoadCheckpoint's
   choice), Model/Publish.v (the individually schedulable steps of overlapping publications, crash, restart). *)
From RV Require Import Base.Mach Base.Bytes Model.PathSeg Model.Publish Proofs.C13_PathSeg.
Open Scope N_scope.

(* idFromPathSegment inverts pathSegment for every 64-bit id (base64url modelled exactly) *)
Theorem path_segment_roundtrip : forall id, id <= max64 -> seg_id (path_segment id) = Some id.
Proof. exact seg_id_path_segment. Qed.
Print Assumptions path_segment_roundtrip.

(* for every finite set of ids present in storage, the repaired LoadCheckpoint loads the maximum -
   whatever the order in which the storage lists the files *)
Theorem load_picks_max : forall ids, ids <> [] -> Forall (fun i => i <= max64) ids ->
  load false ids = Some (list_max ids) /\
  (forall listed, listed <> [] -> Forall (fun i => i <= max64) listed -> load_max listed = Some (list_max listed)).
Proof.
  intros ids Hne Hok. split; [exact (load_picks_max_lemma ids Hne Hok)|].
  intros listed H1 H2. exact (load_max_any_order listed H1 H2).
Qed.
Print Assumptions load_picks_max.

(* D16 (repaired by a fix: commit): file names are not monotone in the id and the old "first listed file" is refuted *)
Theorem names_not_monotone : exists a b, a < b /\ bltb (snap_name a) (snap_name b) = true.
Proof. exact names_not_monotone_lemma. Qed.
Print Assumptions names_not_monotone.

Theorem load_first_listed_refuted :
  exists ids, ids <> [] /\ Forall (fun i => i <= max64) ids /\ load true ids <> Some (list_max ids).
Proof. exact load_first_refuted_lemma. Qed.
Print Assumptions load_first_listed_refuted.

Example listing_of_1_to_6 : listing [1; 2; 3; 4; 5; 6] = [2; 1; 6; 5; 4; 3].
Proof. vm_compute. reflexivity. Qed.
