(* C13 - restart resumes from the newest completed checkpoint; retention keeps it.  Statements only.
   Models: Model/PathSeg.v (pathSegment / idFromPathSegment at byte level, listing order, LoadCheckpoint's
   choice), Model/Publish.v (the individually schedulable steps of overlapping publications, crash, restart). *)
From RV Require Import Base.Mach Base.Bytes Model.PathSeg Model.Publish Proofs.C13_PathSeg Proofs.C13_Publish.
Open Scope N_scope.

(* idFromPathSegment inverts pathSegment for every 64-bit id (base64url modelled exactly) *)
Theorem path_segment_roundtrip : forall id, id <= max64 -> seg_id (path_segment id) = Some id.
Proof. exact seg_id_path_segment. Qed.
Print Assumptions path_segment_roundtrip.

(* for every finite set of ids present in storage, the repaired LoadCheckpoint loads the maximum -
   whatever the order in which the storage lists the files *)
Theorem load_picks_max : forall ids, ids <> [] -> Forall (fun i => i <= max64) ids ->
  load false ids = Some (list_max ids) /\
  (forall listed, listed <> [] -> Forall (fun i => i <= max64) listed -> load_max listed = Some (list_max listed)).
Proof.
  intros ids Hne Hok. split; [exact (load_picks_max_lemma ids Hne Hok)|].
  intros listed H1 H2. exact (load_max_any_order listed H1 H2).
Qed.
Print Assumptions load_picks_max.

(* D16 (repaired by a fix: commit): file names are not monotone in the id and the old "first listed file" is refuted *)
Theorem names_not_monotone : exists a b, a < b /\ bltb (snap_name a) (snap_name b) = true.
Proof. exact names_not_monotone_lemma. Qed.
Print Assumptions names_not_monotone.

Theorem load_first_listed_refuted :
  exists ids, ids <> [] /\ Forall (fun i => i <= max64) ids /\ load true ids <> Some (list_max ids).
Proof. exact load_first_refuted_lemma. Qed.
Print Assumptions load_first_listed_refuted.

Example listing_of_1_to_6 : listing [1; 2; 3; 4; 5; 6] = [2; 1; 6; 5; 4; 3].
Proof. vm_compute. reflexivity. Qed.

(* publication, cleanup and notification: for EVERY schedule of the steps of arbitrarily many overlapping
   publications (Start / W / U / R / TL / TR of Model/Publish.v, disabled steps are no-ops) with crashes, plain
   restarts and starts from a savepoint (Rewind: ids of the abandoned timeline are issued again and their files
   rewritten) and failing snapshot writes (WFail) anywhere, starting from a storage that holds checkpoint [base] (0 = empty), at EVERY point:
   - the snapshot file of the newest checkpoint ever written is in storage, and no spawned Remove call names it;
   - LoadCheckpoint on the storage as it is now returns exactly that checkpoint (crash point = now);
   - the retained-id notifications received so far are strictly increasing, name only written checkpoints, and
     the one about to be delivered is newer than all of them. *)
Theorem publish_keeps_newest : forall base sched, base <= max64 ->
  let s := exec prepaired (boot prepaired base) sched in
  (written s = [] \/ In (list_max (written s)) (files s)) /\
  load false (files s) = match written s with [] => None | _ => Some (list_max (written s)) end /\
  (forall ids i, In ids (pend_rm s) -> In i ids -> i < list_max (written s)) /\
  completed (exec1 prepaired s Crash) = match written s with [] => [] | _ => [list_max (written s)] end /\
  incr (received s) /\
  (forall r, In r (received s) -> In r (written s)) /\
  (forall h, nhold s = Some h -> (forall r, In r (received s) -> r < h) /\ In h (written s)).
Proof.
  intros base sched Hb s.
  destruct (newest_kept_and_loaded base sched Hb) as (A1 & A2 & A3).
  destruct (notifications_increase base sched Hb) as (B1 & B2 & B3).
  repeat split; try assumption.
  - exact (crash_resumes base sched Hb).
  - exact (proj1 (B3 h H)).
  - exact (proj2 (B3 h H)).
Qed.
Print Assumptions publish_keeps_newest.

(* D17 (repaired by a fix: commit): without the id guard a delayed publication deletes the newest file and
   an older id is announced after a newer one *)
Theorem unguarded_publication_refuted :
  exists sched, let s := exec (MkPQ false true) (boot (MkPQ false true) 0) sched in
    ~ In (list_max (written s)) (files s) /\ ~ incr (received s).
Proof. exact d17_refutes. Qed.
Print Assumptions unguarded_publication_refuted.

(* non-vacuity: the same schedule on the repaired model keeps checkpoint 3 and announces only [3] *)
Example d17_schedule_repaired :
  let s := exec prepaired (boot prepaired 0) d17_schedule in
  files s = [2; 3; 1] /\ received s = [3] /\ completed s = [3].
Proof. exact d17_repaired. Qed.

(* operator side (modelled only): RetainOnly with a notification [n], however late it arrives, keeps the
   operator's newest checkpoint *)
Theorem retain_only_keeps_newest : forall n l, In n l -> In (list_max l) (retain_only [n] l).
Proof. exact retain_only_keeps_newest_lemma. Qed.
Print Assumptions retain_only_keeps_newest.

(* non-vacuity of the rewind regime: savepoint at 1, run to 3, start again from 1, reach 3 again, cleanup:
   file 3 (rewritten) is the newest and is what a restart loads *)
Example rewind_schedule :
  let s := exec prepaired (boot prepaired 0)
             [Start 1; W 1; U 1; Start 2; W 2; U 2; R 0; Start 3; W 3; U 3; R 0; Rewind 1;
              Start 2; W 2; U 2; R 0; Start 3; W 3; U 3; R 0] in
  files s = [3] /\ completed s = [3] /\ load false (files s) = Some 3.
Proof. vm_compute. repeat split. Qed.

(* operator side, whole sequences: a database that takes DKV checkpoints 1, 2, ... and receives retention
   notifications, each naming a checkpoint it holds at that moment - however late they arrive (after one, two, ...
   newer checkpoints were taken) - still holds the newest checkpoint it took.  Tied to the real dkv.DB by the
   `retain` cases of engine snapstore. *)
Theorem retain_run_keeps_newest : forall steps,
  retain_valid [] 1 steps ->
  (taken 1 steps = 0 /\ retain_run [] 1 steps = []) \/ In (taken 1 steps) (retain_run [] 1 steps).
Proof. exact retain_run_from_start. Qed.
Print Assumptions retain_run_keeps_newest.

Example late_retention_sequence :
  retain_run [] 1 [RCk; RCk; RRt 1; RCk; RRt 2; RCk] = [2; 3; 4] /\ retain_valid [] 1 [RCk; RCk; RRt 1; RCk; RRt 2; RCk].
Proof. vm_compute. repeat split; auto. Qed.

(* whenever the job (re)starts: jobs.New either starts from the checkpoint of the highest id present in its storage
   or refuses to start (any error of reading the chosen file) - it never starts empty while a checkpoint is listed *)
Theorem job_starts_from_newest_or_refuses : forall ids fault,
  Forall (fun i => i <= max64) ids ->
  (ids = [] /\ job_start ids fault = Some None) \/
  (ids <> [] /\ (job_start ids fault = None \/ job_start ids fault = Some (Some (list_max ids)))).
Proof. exact job_start_newest_or_refuse. Qed.
Print Assumptions job_starts_from_newest_or_refuses.

(* a snapshot write that fails leaves storage, completedSnapshots, pending removals, notifiers and notifications
   exactly as they were (the publication just disappears) *)
Theorem write_failure_is_inert : forall q s n,
  let s' := exec1 q s (WFail n) in
  files s' = files s /\ completed s' = completed s /\ pend_rm s' = pend_rm s /\ nwait s' = nwait s /\
  nhold s' = nhold s /\ received s' = received s /\ written s' = written s /\ last s' = last s.
Proof. exact write_failure_inert_lemma. Qed.
Print Assumptions write_failure_is_inert.
