(* C07 - DKV reads return the latest write at every moment. Statements only (work in progress). *)
From RV Require Import Base.Bytes Model.LsmBase Model.LsmCompaction Model.Lsm.
Open Scope N_scope.

Theorem spec_get_after_put : forall k v m, sm_get k (sm_put k v m) = Some v.
Proof.
  intros k v m. induction m as [|[k' v'] m IH]; unfold sm_get in *; cbn.
  - unfold beqb. rewrite bcmp_refl. reflexivity.
  - destruct (bcmp k k') eqn:E; cbn; unfold beqb; rewrite ?bcmp_refl; try reflexivity.
    rewrite bcmp_antisym, E. cbn. exact IH.
Qed.
Print Assumptions spec_get_after_put.
