(* C07 - DKV reads return the latest write at every moment.  Statements only; proofs in Proofs/C07_*.v, C18_*.v.
   Model: Model/Lsm.v (dkv/db.go as a state machine over the entry-level structures of Model/LsmBase.v and the
   compactor of Model/LsmCompaction.v).  Specification: a sorted association list (sm_put / sm_del / sm_get / sm_scan). *)
From Coq Require Import List NArith.
From RV Require Import Base.Bytes Model.LsmBase Model.LsmCompaction Model.Lsm
  Model.LsmReplay Proofs.C07_Spec Proofs.C18_Layout Proofs.C18_Apply Proofs.C18_Main Proofs.C07_Refine Proofs.C07_Corollaries Proofs.C07_Replay.
Import ListNotations.
Open Scope N_scope.

(* For EVERY option setting with at least two levels, a table target size >= 1 and a level-0 trigger >= 1, and EVERY
   enabled list of actions from the initial state - Put, Delete, the two halves of Get and of ScanPrefix, and the
   half-steps F1 F2 C1 C2 of the background flush and compaction tasks interleaved anywhere, also between the two
   halves of a read - every Get answers the value of the most recent Put of its key, or deleted/absent when the
   key was never written or its last write is a Delete, and every ScanPrefix answers exactly the live keys with the
   prefix, once each, ascending, with their latest values ([obs_ok] compares each observation with the plain map). *)
Theorem dkv_refines_map :
  forall cfg acts st os, cfg_ok cfg -> run cfg (init cfg) acts = Some (st, os) -> obs_ok [] None acts os.
Proof. exact dkv_refines_map_proof. Qed.
Print Assumptions dkv_refines_map.

(* The same with the implementation's scheduling decisions as DATA (Model/LsmReplay.v): whether a write rotates the memtable
   is arbitrary, and Compact may return ANY change set that is legal for the reader layout ([good_csb]: removes existing
   tables, outputs = merge of inputs, closed towards the target level, level-0 tables oldest first).  No byte size, size
   accounting or compaction policy appears.  This is the statement the correspondence check replays the implementation
   against; [dkv_refines_map] is the instance where the decisions are those of the size accounting and of Compactor.Compact. *)
Theorem dkv_replay_refines_map :
  forall n acts st os, (2 <= n)%nat -> rrun (rinit n) acts = Some (st, os) -> robs_ok [] None acts os.
Proof. exact replay_refines_proof. Qed.
Print Assumptions dkv_replay_refines_map.

(* the executable legality test of the check implies the semantic condition of the proofs *)
Theorem legal_change_set_check_sound : forall ll cs, good_csb ll cs = true -> good_cs ll cs.
Proof. exact good_csb_sound. Qed.
Print Assumptions legal_change_set_check_sound.

(* At every reachable state the layout a reader searches (level list + memtables as newest level-0 components) satisfies
   the invariant "search order is consistent with sequence numbers", its live content IS the specification map, and the
   level list alone is a valid layout in the sense of C18. *)
Theorem dkv_reachable_invariant :
  forall cfg acts st os, cfg_ok cfg -> run cfg (init cfg) acts = Some (st, os) ->
  LLInv (vll st) /\ absm st = fold_left spec_step acts [] /\ valid (lv st).
Proof. exact reachable_proof. Qed.
Print Assumptions dkv_reachable_invariant.

(* Reads of a valid layout: LevelList.Get is the entry with the greatest sequence number of the key in the whole
   layout, ScanPrefix the live ones of those with the prefix (used by C08 / C03 / C10 as the read specification). *)
Theorem levellist_get_is_newest :
  forall ll k, valid ll ->
  match ll_get k ll with
  | Some m => ents ll m /\ ekey m = k /\ forall e, ents ll e -> ekey e = k -> eseq e <= eseq m
  | None => forall e, ents ll e -> ekey e <> k
  end.
Proof. exact ll_get_newest. Qed.
Print Assumptions levellist_get_is_newest.

(* Table files: TableWriter.Write reserves its file number atomically before writing, so along every history and
   every interleaving of the flush and compaction half-steps (which share the writer) the numbers handed out are pairwise
   different.  The model itself identifies a table with its content and derives the distinctness it needs from layout
   validity; this theorem states the implementation-side assumption, which the correspondence check observes (code 19). *)
Theorem table_file_names_unique :
  forall cfg acts st ctr, NoDup (run_names cfg st ctr acts) /\ forall x, In x (run_names cfg st ctr acts) -> ctr <= x.
Proof. intros cfg acts st ctr. exact (table_names_unique_proof cfg acts st ctr). Qed.
Print Assumptions table_file_names_unique.

(* ---------- non-vacuity: the hypotheses are satisfiable by a history that exercises every kind of action ---------- *)

Definition ex_cfg : dbcfg := mkDbCfg 19 1000000 6 (mkCfg 1 200 1 30).
Definition k1 : bytes := [97]. Definition k2 : bytes := [97; 98]. Definition k3 : bytes := [98].
Definition ex_acts : list act :=
  [ APut k1 [49; 49]; APut k2 [50; 50]; AF1; APut k1 [51; 51]; ADel k2; AGet1 k2; AF2; AC1; AGet2;
    AScan1 [97]; AF1; AC2; AF2; AScan2; APut k3 [52; 52]; AF1; AF2;
    AC1; AC2; AC1; AC2; AC1; AC2; AC1; AC2; AC1; AGet1 k1; AF1; AGet2; AScan1 []; AF2; AScan2 ].

Example ex_cfg_ok : cfg_ok ex_cfg.
Proof. unfold cfg_ok, ex_cfg. cbn. repeat split; lia. Qed.

(* the history is enabled: a Get parked across a flush swap (F2) and a compaction (C1), a scan parked across F1, C2, F2,
   a delete of a flushed key, compaction cascading through all levels *)
Example ex_run_enabled :
  option_map snd (run ex_cfg (init ex_cfg) ex_acts) =
  Some [ORot true; ORot true; ONone; ORot true; ORot false; ONone; ONone; OComp true; OGet GDeleted; ONone; ONone;
        ONone; ONone; OScan [(k1, [51; 51])]; ORot true; ONone; ONone; OComp true; ONone;
        OComp true; ONone; OComp true; ONone; OComp true; ONone; OComp true; ONone; ONone; OGet (GFound [51; 51]); ONone; ONone;
        OScan [(k1, [51; 51]); (k3, [52; 52])]].
Proof. vm_compute. reflexivity. Qed.
