(* C12 - a job checkpoint is all-or-nothing and checkpoint ids only grow.  Statements only.
   The store model is Model/SnapStore.v ([step], [run], [trace]); the specification is the monitor
   [mon_run] of the same file, which reads nothing but (API call, result) pairs and reports
   11/12 (a published checkpoint is not exactly: one entry per operator of the assembly given at creation, each
   carrying the checkpoint's id, plus the split states of every source runner once / it was published before every
   node acknowledged), 13 (second checkpoint in progress), 14 (id not above the previous one of this store lifetime),
   15 (id not above every id published so far, restarts included), 16 (restart does not resume from the newest
   published checkpoint).  All theorems quantify over EVERY list of calls: duplicates, stale and future ids,
   unknown senders, creations while one is pending, savepoint joins, restarts at any point. *)
From RV Require Import Base.Mach Model.SnapStore Proofs.C12_SnapStore Proofs.C12_Inert.
From RV Require Model.PathSeg Model.Publish Proofs.C13_Publish.
Open Scope N_scope.

Theorem spec_accepts_every_history : forall acts, mon_run mon_init (trace repaired acts) = [].
Proof. exact trace_accepted. Qed.
Print Assumptions spec_accepts_every_history.

Theorem published_complete : forall acts,
  ~ In 11 (mon_run mon_init (trace repaired acts)) /\ ~ In 12 (mon_run mon_init (trace repaired acts)).
Proof. intros acts. rewrite trace_accepted. split; intros []. Qed.
Print Assumptions published_complete.

Theorem bad_acks_inert : forall acts a,
  let w := final repaired init acts in
  bad_ack w a ->
  (fst (step repaired w a) = w /\ exists e, snd (step repaired w a) = RAck e None) \/ empty_assembly w.
Proof. exact bad_acks_inert_lemma. Qed.
Print Assumptions bad_acks_inert.

Theorem at_most_one_pending : forall acts,
  ~ In 13 (mon_run mon_init (trace repaired acts)) /\
  (forall w ops srs p, w = final repaired init acts -> pend (w_store w) = Some p ->
     step repaired w (ACreate ops srs) = (w, RCreate true 0)).
Proof.
  intros acts. rewrite trace_accepted. split; [intros []|].
  intros w ops srs p _ Hp. exact (proj1 (create_while_pending_refused repaired w ops srs p Hp)).
Qed.
Print Assumptions at_most_one_pending.

Theorem ids_strictly_increase : forall acts,
  ~ In 14 (mon_run mon_init (trace repaired acts)) /\
  (forall w lifetime, w = final repaired init acts -> no_restart lifetime ->
     increasing_from (ckpt_id (w_store w)) (handed_ids (run repaired w lifetime))).
Proof.
  intros acts. rewrite trace_accepted. split; [intros []|].
  intros w lifetime _ Hnr. exact (ids_increase_in_lifetime repaired lifetime w Hnr).
Qed.
Print Assumptions ids_strictly_increase.

Theorem ids_exceed_published : forall acts,
  ~ In 15 (mon_run mon_init (trace repaired acts)) /\ ~ In 16 (mon_run mon_init (trace repaired acts)).
Proof. intros acts. rewrite trace_accepted. split; intros []. Qed.
Print Assumptions ids_exceed_published.

(* "published (persisted, used for recovery, announced for retention) only after ...": a checkpoint whose snapshot
   file could not be written is not published at all - in every state, when the write of a completed checkpoint
   fails the result is RAckFailed with no removal and no notification, and files, completedSnapshots (the recovery
   checkpoint), savepoint artifacts and the id counter are unchanged.  (Histories with failing writes are part of
   every theorem above: AFailNextWrite is an action, and the monitor's code 18 rejects any other outcome.) *)
Theorem failed_write_publishes_nothing : forall w p,
  is_complete p = true -> w_failw w = true ->
  let (w', r) := finish_if_complete w p in
  r = RAckFailed false [] [] (cur_of w) /\
  w_files w' = w_files w /\ completed (w_store w') = completed (w_store w) /\ w_sps w' = w_sps w /\
  ckpt_id (w_store w') = ckpt_id (w_store w) /\ pend (w_store w') = None.
Proof. exact failed_write_inert_lemma. Qed.
Print Assumptions failed_write_publishes_nothing.

(* the stronger reading of "ids grow across restarts" (no id is ever handed out twice) does not hold:
   an id handed out but never published is handed out again after a restart *)
Theorem ids_handed_out_refuted :
  exists acts, ~ NoDup (handed_ids (run repaired init acts)).
Proof.
  exists [ACreate [1] [1]; ARestart; ACreate [1] [1]]. rewrite handed_out_twice.
  intros H. inversion H as [|? ? Hn _]. apply Hn. left. reflexivity.
Qed.
Print Assumptions ids_handed_out_refuted.

(* D15 (repaired by a fix: commit): the code before the repair violates published_complete *)
Theorem dup_sr_ack_refutes_published_complete :
  exists acts, In 11 (mon_run mon_init (trace before_d15 acts)).
Proof. eexists. exact d15_witness. Qed.
Print Assumptions dup_sr_ack_refutes_published_complete.

(* non-vacuity: a history with a publication, bad acks and a restart, and the monitor does reject a wrong trace *)
Example history_publishes :
  exists pub, In (RAck false (Some pub))
    (run repaired init [ACreate [1;2] [1]; AAckSr 1 1 [5]; AAckSr 1 1 [6]; AAckOp 0 1 1; AAckOp 1 9 1; AAckOp 1 1 1; AAckOp 1 2 2; ARestart]).
Proof. eexists. vm_compute. do 6 right. left. reflexivity. Qed.
Example monitor_rejects_missing_entry :
  mon_run mon_init [(ACreate [1;2] [1], RCreate false 1); (AAckSr 1 1 [5], RAck false None);
                    (AAckOp 1 1 1, RAck false (Some (MkPub (MkSnap 1 [(1,1,1)] [5]) [] [] false)))] = [12].
Proof. vm_compute. reflexivity. Qed.
Example failed_write_history :
  run repaired init [ACreate [1] [1]; AAckOp 1 1 1; AAckSr 1 1 [7]; AFailNextWrite; ACreate [1] [1]; AAckOp 2 1 2; AAckSr 2 1 [8];
                     ACreate [1] [1]; ARestart]
  = [RCreate false 1; RAck false None; RAck false (Some (MkPub (MkSnap 1 [(1, 1, 1)] [7]) [] [] false)); RFault;
     RCreate false 2; RAck false None; RAckFailed false [] [] (Some 1); RCreate false 3;
     RRestart [1] (Some (MkSnap 1 [(1, 1, 1)] [7]))].
Proof. vm_compute. reflexivity. Qed.
Example bad_ack_satisfiable : bad_ack (final repaired init [ACreate [1] [1]]) (AAckOp 1 9 0).
Proof. vm_compute. right. discriminate. Qed.
(* non-vacuity of the restart regime: the cleanup of three publications is lost, the restart finds the files of
   1, 2 and 3, resumes from 3 and hands out 4 *)
Example restart_with_obsolete_files :
  let acts := [ALoseRemoves true; ACreate [1] [1]; AAckOp 1 1 1; AAckSr 1 1 [7]; ACreate [1] [1]; AAckOp 2 1 2; AAckSr 2 1 [8];
               ACreate [1] [1]; AAckOp 3 1 3; AAckSr 3 1 [9]; ARestart; ACreate [1] [1]] in
  map sn_id (w_files (final repaired init acts)) = [3; 2; 1] /\
  nth 10 (run repaired init acts) RFault = RRestart [3; 2; 1] (Some (MkSnap 3 [(1, 3, 3)] [9])) /\
  nth 11 (run repaired init acts) RFault = RCreate false 4.
Proof. vm_compute. repeat split. Qed.
(* a start from a savepoint is an explicit rewind: the store resumes from the savepoint, ids continue above the
   savepoint's id (ids of the abandoned timeline are issued again, by design of "the savepoint overrides the
   local checkpoints"), and the monitor accepts exactly that *)
Example start_from_savepoint :
  let acts := [ASavepoint [1] [1]; AAckOp 1 1 1; AAckSr 1 1 [7]; ACreate [1] [1]; AAckOp 2 1 2; AAckSr 2 1 [8];
               ARestartFrom 1; ACreate [1] [1]; AAbort; AAckOp 2 1 5] in
  nth 6 (run repaired init acts) RFault = RRestart [2] (Some (MkSnap 1 [(1, 1, 1)] [7])) /\
  nth 7 (run repaired init acts) RFault = RCreate false 2 /\
  nth 9 (run repaired init acts) RFault = RAck true None.
Proof. vm_compute. repeat split. Qed.

(* "used for recovery ... ids only grow", under overlapping publications (Model/Publish.v, every schedule of
   Start / write / locked update / remove / notifier steps, any number of publications in flight): within a store
   lifetime the id of the checkpoint the store would recover from (completedSnapshots) never decreases - a
   publication whose file write returns after a newer checkpoint was published does not replace it *)
Theorem current_checkpoint_never_goes_back : forall base sched st,
  (base <= PathSeg.max64)%N ->
  let s := Publish.exec Publish.prepaired (Publish.boot Publish.prepaired base) sched in
  match st with
  | Publish.Crash | Publish.Rewind _ => True
  | _ => (C13_Publish.cur_id s <= C13_Publish.cur_id (Publish.exec1 Publish.prepaired s st))%N
  end.
Proof. exact C13_Publish.current_never_goes_back. Qed.
Print Assumptions current_checkpoint_never_goes_back.

(* seeded C12r3-3 / D17: with the unguarded reset the current checkpoint goes back from 3 to 2 *)
Theorem unguarded_reset_goes_back :
  exists sched st, let q := Publish.MkPQ false true in
    let s := Publish.exec q (Publish.boot q 0) sched in
    (C13_Publish.cur_id (Publish.exec1 q s st) < C13_Publish.cur_id s)%N.
Proof.
  exists [Publish.Start 1; Publish.W 1; Publish.U 1; Publish.Start 2; Publish.Start 3; Publish.W 3; Publish.U 3; Publish.W 2], (Publish.U 2).
  vm_compute. reflexivity.
Qed.
Print Assumptions unguarded_reset_goes_back.
