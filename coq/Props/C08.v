(* C08 - a DKV checkpoint restores to exactly the state at the checkpoint call.
   Statements only; proofs in Proofs/C08_Ckpt.v (database level) and Proofs/C09_Gc.v (world level witness).

   Reading guide. [reach d]: d is a database state that can exist - a new database, any further action of any schedule
   (write incl. rotation, locked part of Checkpoint, swap of a flush that snapshotted any number of sealed memtables, apply of
   any compaction change set whose tables carry correct end sequence numbers), or a restore (any ownership filter, any sizes)
   from a checkpoint of a database that can exist. [snd (db_checkpoint d)] is what Checkpoint captures under the lock: the level
   set, the sealed WAL writer's content, After = LatestSeqNum. It is immutable data, so nothing the original database does
   afterwards changes it; that the FILES holding it stay intact while the checkpoint is retained is C09. *)
From Coq Require Import List NArith Bool.
Import ListNotations.
From RV Require Import Base.Bytes Model.Ckpt Model.Gc Proofs.C08_Ckpt Proofs.C08_Contents Proofs.C09_Gc.
Open Scope N_scope.

(* checkpoint_exact at the level of database objects: for every reachable database (every history, every schedule of
   background steps, every chain), the log reader neither panics nor hits end-of-file, the restored database answers every
   owned key exactly as the original did at the call, it is again a reachable database (chains by induction), and it accepts
   new writes normally. *)
Theorem checkpoint_exact_partial : forall d o mem wm,
  reach d ->
  exists es, wal_read (cp_wal (snd (db_checkpoint d))) (cp_after (snd (db_checkpoint d))) = ROk es /\
    let r := fst (db_restore mem wm o (cp_tables (snd (db_checkpoint d))) (cp_walid (snd (db_checkpoint d))) es) in
    reach r /\ (forall k, owns o k = true -> db_get r k = db_get d k) /\
    (forall k del v k', db_get (fst (db_write r k del v)) k' = if beqb k' k then (if del then None else Some v) else db_get r k').
Proof. exact checkpoint_exact_db. Qed.
Print Assumptions checkpoint_exact_partial.

(* every reachable database satisfies the representation invariant (contiguous log, memtables = chunks of the log above
   LatestSeqNum, table entries at or below it, segment bookkeeping) *)
Theorem reachable_invariant : forall d, reach d -> Inv d.
Proof. exact reach_inv. Qed.
Print Assumptions reachable_invariant.

(* reads of a database with the invariant: the last write of the key in the log above LatestSeqNum, else the newest table entry *)
Theorem read_characterisation : forall d a pre cs ca k, Rep d a pre cs ca -> db_get d k = view (concat cs ++ ca) (d_tables d) k.
Proof. exact db_get_char. Qed.
Print Assumptions read_characterisation.

(* a Put/Delete is visible at once and changes no other key - on originals and on restored databases alike *)
Theorem write_visible : forall d k del v k', Inv d ->
  db_get (fst (db_write d k del v)) k' = if beqb k' k then (if del then None else Some v) else db_get d k'.
Proof. exact db_write_get. Qed.
Print Assumptions write_visible.

(* the rotation decision is DATA, not a prediction: [db_write_at d k del v rot] is the write after which the implementation did
   (rot = true) or did not rotate the memtable - whatever policy (sizes, what a WAL carries over a checkpoint) decided it. A write
   is visible at once and changes no other key for EVERY decision; so contents never depend on when a rotation happens. [reach],
   [reachc] and [sreach] contain the writes with every decision ([AWriteAt], [sr_write_at]); the world model replays the observed one. *)
Theorem write_visible_at_any_rotation_point : forall d k del v rot k', Inv d ->
  db_get (db_write_at d k del v rot) k' = if beqb k' k then (if del then None else Some v) else db_get d k'.
Proof. exact db_write_at_get. Qed.
Print Assumptions write_visible_at_any_rotation_point.

Theorem rotation_point_irrelevant : forall d k del v rot rot' k', Inv d ->
  db_get (db_write_at d k del v rot) k' = db_get (db_write_at d k del v rot') k'.
Proof. exact C08_Ckpt.rotation_point_irrelevant. Qed.
Print Assumptions rotation_point_irrelevant.

(* "nothing left to replay" is never turned into an error: the skip loop never runs past the end, the gap check never fires *)
Theorem replay_never_fails : forall d, reach d ->
  exists es, wal_read (cp_wal (snd (db_checkpoint d))) (cp_after (snd (db_checkpoint d))) = ROk es.
Proof. exact C08_Ckpt.replay_never_fails. Qed.
Print Assumptions replay_never_fails.

(* the flush swap keeps the invariant whatever prefix of the sealed memtables the task had snapshotted *)
Theorem flush_swap_keeps_invariant : forall d a pre cs ca n dir next,
  Rep d a pre cs ca -> (n <= length cs)%nat ->
  exists a' pre', Rep (db_flush_swap d n (mk_tables dir next (firstn n (d_sealed d)))) a' pre' (skipn n cs) ca.
Proof. exact rep_flush_swap. Qed.
Print Assumptions flush_swap_keeps_invariant.

(* ---------- contents under every background schedule (Proofs/C08_Contents.v) ----------
   [reachc]: as [reach], but a compaction change set must be a merge of the tables it removes ([merge_ok]: every output
   entry is an input entry, and for every key an output entry at least as new as each input entry of that key - what
   kv.MergeEntries + TableWriter.WriteRun produce, [real_compactor_output_is_a_merge]). [reachc d -> reach d]. *)

(* the flush swap changes no read, whatever prefix of the sealed memtables the task had snapshotted when it began *)
Theorem flush_swap_keeps_contents : forall d a pre cs ca n dir next k,
  Rep d a pre cs ca -> (n <= length cs)%nat ->
  db_get (db_flush_swap d n (mk_tables dir next (firstn n (d_sealed d)))) k = db_get d k.
Proof. exact db_get_flush_swap. Qed.
Print Assumptions flush_swap_keeps_contents.

(* the apply of a merging compaction changes no read *)
Theorem merging_compaction_keeps_contents : forall d a pre cs ca removed added k,
  Rep d a pre cs ca -> uniq (tables_entries (d_tables d)) -> compact_ok d removed added ->
  db_get (db_compact_apply d removed added) k = db_get d k.
Proof. exact db_get_compact. Qed.
Print Assumptions merging_compaction_keeps_contents.

(* the change set of the real compactor's shape - per key of the removed tables the entry with the greatest sequence number,
   keys ascending, delete markers kept, cut into any runs, each run's end sequence number its maximum - is such a merge *)
Theorem real_compactor_output_is_a_merge : forall d removed runs,
  reachc d -> concat (map snd runs) = merge_newest (tables_entries (rem_tables d removed)) ->
  act_okc d (ACompact removed (mk_added runs)).
Proof. exact merge_act_okc. Qed.
Print Assumptions real_compactor_output_is_a_merge.

(* every background action of a database that can exist - locked part of Checkpoint, flush swap, merging compaction -
   leaves every read unchanged *)
Theorem background_actions_keep_contents : forall d a k,
  reachc d -> act_okc d a -> background a -> db_get (do_action d a) k = db_get d k.
Proof. exact background_keeps_contents. Qed.
Print Assumptions background_actions_keep_contents.

(* checkpoint_exact over CONTENTS: for every history of writes, background actions under any schedule, checkpoints and
   restores (of any checkpoint taken so far, any ownership filter, any sizes; the restored database becomes the running
   one, so chains are included): the running database answers every key it is responsible for as the abstract map does,
   and every checkpoint taken so far can be read back (no panic, no end-of-file) and its restore answers every owned key
   as the abstract map did AT THE CHECKPOINT CALL - whatever was written, flushed or compacted afterwards. *)
Theorem checkpoint_exact_contents : forall s, sreach s ->
  (forall k, s_scope s k = true -> db_get (s_db s) k = s_map s k) /\
  (forall d0 m0 sc0, In (d0, m0, sc0) (s_caps s) ->
     exists es, capture_read d0 = ROk es /\
       forall o mem wm k, sc0 k = true -> owns o k = true -> db_get (restore_of d0 o mem wm es) k = m0 k).
Proof. exact C08_Contents.checkpoint_exact_contents. Qed.
Print Assumptions checkpoint_exact_contents.

(* the object-level statement for the contents-preserving reachability (for composition: C03) *)
Theorem checkpoint_exact_reachc : forall d o mem wm,
  reachc d ->
  exists es, wal_read (cp_wal (snd (db_checkpoint d))) (cp_after (snd (db_checkpoint d))) = ROk es /\
    let r := fst (db_restore mem wm o (cp_tables (snd (db_checkpoint d))) (cp_walid (snd (db_checkpoint d))) es) in
    reachc r /\ (forall k, owns o k = true -> db_get r k = db_get d k).
Proof. exact checkpoint_exact_dbc. Qed.
Print Assumptions checkpoint_exact_reachc.

(* one failing storage read (any position, any error that is not end-of-file) during the replay of a checkpoint's WAL: the
   reader of Model/Ckpt.v ([wal_read_fault], every failed read handed to the caller as wal/reader.go does) returns an error or
   exactly what the healthy reader returns - never a shorter log *)
Theorem wal_read_fault_surfaces : forall content after skip_reads k,
  wal_read_fault content after skip_reads k = REof \/ wal_read_fault content after skip_reads k = wal_read content after.
Proof. exact C08_Contents.wal_read_fault_surfaces. Qed.
Print Assumptions wal_read_fault_surfaces.

(* hence a restore under such a fault does not return a database, or returns one that answers every owned key as the original
   did at the checkpoint call - it never succeeds with writes missing *)
Theorem restore_under_read_fault_exact : forall d o mem wm skip_reads k, reachc d ->
  restore_under_fault d o mem wm skip_reads k = None \/
  exists r, restore_under_fault d o mem wm skip_reads k = Some r /\ reachc r /\
            forall key, owns o key = true -> db_get r key = db_get d key.
Proof. exact restore_fault_exact. Qed.
Print Assumptions restore_under_read_fault_exact.

(* non-vacuity: two rotations, a flush of both memtables into two tables, a merging compaction into one, a checkpoint, a
   delete on the original afterwards, a restore: the restored database still holds the value of the checkpoint call *)
Example contents_history :
  sreach Ex.s8 /\ length (d_tables (s_db Ex.s5)) = 1%nat /\ length (d_tables (s_db Ex.s4)) = 2%nat /\
  db_get (s_db Ex.s7) Ex.ka = None /\ db_get (s_db Ex.s8) Ex.ka = Some [50] /\ s_map Ex.s8 Ex.ka = Some [50] /\
  db_get (s_db Ex.s8) Ex.kb = None.
Proof. exact Ex.history. Qed.

(* checkpoint_exact at full strength - over the world model with files, retention, crashes, same-process drops and garbage
   collection: "every completed handle that no retention update dropped can be opened and all its files exist". It is FALSE
   of the faithful model because of finding D11 (same-process drop of the creating object + collection): witness below. The
   part outside that class is what the correspondence check tests on every run (codes 10-13, 100-103). *)
Definition checkpoint_exact_full_statement : Prop := retained_files_exist_full 60 1000.

Theorem checkpoint_exact_refuted : ~ checkpoint_exact_full_statement.
Proof. exact full_statement_refuted. Qed.
Print Assumptions checkpoint_exact_refuted.

(* non-vacuity: the invariant holds of a new database and a history with rotation, flush and checkpoint is reachable *)
Example reach_example :
  reach (do_action (do_action (do_action (db_new 60 1000) (AWrite [0;0;97] false [49])) ACheckpoint) (AWrite [0;0;98] true [])).
Proof. repeat (apply reach_act; [|exact I]). apply reach_new. Qed.
