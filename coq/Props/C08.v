(* C08 - a DKV checkpoint restores to exactly the state at the checkpoint call. Statements only; proofs in Proofs/C08_*.v *)
From Coq Require Import List NArith Bool.
Import ListNotations.
From RV Require Import Base.Bytes Model.Ckpt.
Open Scope N_scope.

Theorem empty_wal_replays_nothing : forall after, wal_read [] after = ROk [].
Proof. reflexivity. Qed.
Print Assumptions empty_wal_replays_nothing.
