(* C14 - savepoints are self-contained and restore the checkpointed job state. Statements only. *)
From Coq Require Import List NArith.
From RV Require Import Model.Savepoint Proofs.C14_Savepoint.
Import ListNotations.
Open Scope N_scope.

(* For every file system (every DKV state: any tables / WALs / contents), every operator count and every job
   checkpoint id whose operator checkpoints are restorable when the artifact is written: the artifact holds the job
   file, every operator's checkpoints file and every file that restoring its checkpoint reads, unchanged. *)
Theorem savepoint_closed : forall fs id ops,
  NoDup (map fst ops) ->
  fs_read fs (UJobCk id) = Some (FJob id ops) ->
  (forall oc, In oc ops -> reads_ok fs oc) ->
  exists fs1, sp_create true fs id ops = Some fs1 /\
    fs_read fs1 (UJobSp id) = Some (FJob id ops) /\
    forall oc, In oc ops ->
      fs_read fs1 (USave id (fst oc) ck_name) = fs_read fs (UWork (fst oc) ck_name) /\
      forall files, dkv_reads fs (fst oc) (snd oc) = Some files ->
        forall f c, In (f, c) files -> fs_read fs1 (USave id (fst oc) f) = Some c.
Proof. exact savepoint_closed_lemma. Qed.
Print Assumptions savepoint_closed.

(* ... and after ANY later change of the storage outside the savepoint directories, including deleting all of it,
   starting from the savepoint URI succeeds with the same operator checkpoints, and restoring each of them reads
   exactly the files, with the contents, of the moment the savepoint was taken.  (The DKV state, the timers - they are
   DKV entries - and the source positions - they are in the job file - are functions of these files: C08, C06.) *)
Theorem savepoint_restores : forall fs id ops,
  NoDup (map fst ops) ->
  fs_read fs (UJobCk id) = Some (FJob id ops) ->
  (forall oc, In oc ops -> reads_ok fs oc) ->
  exists fs1, sp_create true fs id ops = Some fs1 /\
    forall fs2, (forall u, is_save u = true -> fs_read fs2 u = fs_read fs1 u) ->
      exists fs3, sp_restore true (wipe fs2) id = Some (fs3, ops) /\
        forall oc, In oc ops -> dkv_reads fs3 (fst oc) (snd oc) = dkv_reads fs (fst oc) (snd oc) /\ reads_ok fs3 oc.
Proof. exact savepoint_restores_lemma. Qed.
Print Assumptions savepoint_restores.

(* A request during a pending checkpoint returns its id, starts nothing, and leaves every other behaviour of the store
   unchanged (same results and same state, up to the savepoint mark, for every later sequence of acknowledgements). *)
Theorem savepoint_folds : forall s ops p,
  st_pending s = Some p -> p_sp p = false ->
  let '(s', r) := create_savepoint s ops in
  r = RId (p_id p) false /\ st_counter s' = st_counter s /\
  st_pending s' = Some (mkP (p_id p) true (p_missing p) (p_acks p)) /\
  erase s' = erase s /\
  forall acks, erase (fst (run_acks s' acks)) = erase (fst (run_acks s acks)) /\ snd (run_acks s' acks) = snd (run_acks s acks).
Proof. exact savepoint_folds_lemma. Qed.
Print Assumptions savepoint_folds.

(* If, when the artifact is written, a file that the savepoint's checkpoint of some operator references is gone (its
   copy fails with "not found"), NO savepoint is produced - the job file never appears under its savepoint name - for
   every file system, operator list and position of the failing copy: an incomplete savepoint is never published. *)
Theorem savepoint_not_published_when_incomplete : forall ops fs id op cid l e f,
  In (op, cid) ops ->
  fs_read fs (UWork op ck_name) = Some (FCkList l) -> find (fun e => fst e =? cid) l = Some e -> In f (snd e) ->
  fs_read fs (UWork op f) = None ->
  sp_create true fs id ops = None.
Proof. exact sp_create_missing_lemma. Qed.
Print Assumptions savepoint_not_published_when_incomplete.

(* At the job (jobs/job.go HandleCreateSavepoint): a request that folds broadcasts NO StartCheckpoint to the source
   runners and moves no counter; a request with nothing pending broadcasts exactly one, for the new id - so every
   checkpoint id gets exactly one StartCheckpoint round (the tick's, or the savepoint's). *)
Theorem savepoint_starts_nothing_when_folding : forall s ops,
  match st_pending s with
  | Some p => p_sp p = false ->
      exists s', job_create_savepoint s ops = (s', RId (p_id p) false, []) /\ st_counter s' = st_counter s
  | None =>
      exists s', job_create_savepoint s ops = (s', RId (st_counter s + 1) true, [st_counter s + 1])
  end.
Proof. exact job_savepoint_starts_lemma. Qed.
Print Assumptions savepoint_starts_nothing_when_folding.

(* non-vacuity: the hypotheses hold of a two-checkpoint operator file, and the conclusion is computed *)
Example savepoint_instance : reads_ok d25_fs (0, 5) /\
  exists fs1, sp_create true d25_fs 5 [(0, 5)] = Some fs1 /\
    match sp_restore true (wipe fs1) 5 with Some (fs3, _) => dkv_reads fs3 0 5 = dkv_reads d25_fs 0 5 | None => False end.
Proof. split; [vm_compute; discriminate|exact d25_by_id_ok]. Qed.

(* history: with ListFiles = "the last entry" (before 406214a, D25) the statement failed *)
Lemma savepoint_closed_failed_before_fix :
  reads_ok d25_fs (0, 5) /\
  exists fs1, sp_create false d25_fs 5 [(0, 5)] = Some fs1 /\
    fs_read fs1 (USave 5 0 [1]) = None /\
    match sp_restore false (wipe fs1) 5 with Some (fs3, _) => dkv_reads fs3 0 5 = None | None => True end.
Proof. exact d25_last_entry_refuted. Qed.
