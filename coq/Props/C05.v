(* C05 - key routing agrees with state ownership for every configuration.
   Statements only; proofs are in Proofs/C05_KeySpace.v. Model: Model/{Murmur,KeySpace,KeyCodec}.v.
   Guards: key-group count 1..65535 (NewKeySpace panics otherwise); operator count 1..65536 for the
   lookup table ([]uint16): beyond that the table entry wraps, see lookup_wraps_refuted. *)
From RV Require Import Model.KeyCodec Proofs.C05_KeySpace.
Open Scope N_scope.

(* ranges are contiguous from 0 to count: first starts at 0, each starts where the previous ends, last ends at count *)
Theorem ranges_contiguous_cover : forall count n, 0 < n ->
  let rs := kg_ranges count n in
  length rs = N.to_nat n /\
  fst (nth 0 rs (0,0)) = 0 /\
  (forall i, (S i < N.to_nat n)%nat -> snd (nth i rs (0,0)) = fst (nth (S i) rs (0,0))) /\
  snd (nth (N.to_nat n - 1) rs (0,0)) = count /\
  (forall i, (i < N.to_nat n)%nat -> fst (nth i rs (0,0)) <= snd (nth i rs (0,0))).
Proof. exact c05_ranges_contiguous_cover. Qed.
Print Assumptions ranges_contiguous_cover.

(* non-overlapping and covering: every key group lies in exactly one range *)
Theorem ranges_partition : forall count n kg, 0 < n -> kg < count ->
  exists j, (j < N.to_nat n)%nat /\ includes_kg (nth j (kg_ranges count n) (0,0)) kg = true /\
    forall j', (j' < N.to_nat n)%nat -> includes_kg (nth j' (kg_ranges count n) (0,0)) kg = true -> j' = j.
Proof. exact c05_ranges_partition. Qed.
Print Assumptions ranges_partition.

(* sizes differ by at most one: the first (count mod n) ranges have one group more *)
Theorem ranges_balanced : forall count n i, 0 < n -> (i < N.to_nat n)%nat ->
  let r := nth i (kg_ranges count n) (0,0) in
  snd r - fst r = count / n + (if N.of_nat i <? count mod n then 1 else 0).
Proof. exact c05_ranges_balanced. Qed.
Print Assumptions ranges_balanced.

(* the key -> group mapping is murmur3-32(seed 0) mod count and is below count *)
Theorem group_is_murmur_mod : forall count key, 0 < count ->
  key_group count key = murmur_hash key 0 mod count /\ key_group count key < count.
Proof. intros count key H. split; [reflexivity | apply key_group_lt; exact H]. Qed.
Print Assumptions group_is_murmur_mod.

(* the router's table lookup sends a key to the operator whose range contains the key's group *)
Theorem lookup_sound : forall count n key, 0 < count -> count <= 65535 -> 0 < n -> n <= 65536 ->
  let i := range_index count n key in
  i < n /\ includes_kg (nth (N.to_nat i) (kg_ranges count n) (0,0)) (key_group count key) = true.
Proof. exact c05_lookup_sound. Qed.
Print Assumptions lookup_sound.

(* everything persisted for a key (state entries, the scan prefix, timers) is stored under the key's group *)
Theorem stored_under_group : forall count subject ns data t,
  firstn 2 (encode_db_key count subject ns data) = be16 (key_group count subject) /\
  firstn 2 (encode_subject_key count subject) = be16 (key_group count subject) /\
  firstn 2 (encode_timer_key count subject t) = be16 (key_group count subject).
Proof. exact c05_stored_under_group. Qed.
Print Assumptions stored_under_group.

(* an operator owns a stored key exactly when the router sends that key to it *)
Theorem ownership_iff_routed : forall count n own subject ns data t,
  0 < count -> count <= 65535 -> 0 < n -> n <= 65536 -> own < n ->
  let r := nth (N.to_nat own) (kg_ranges count n) (0,0) in
  owns_key r (encode_db_key count subject ns data) = Some (range_index count n subject =? own) /\
  owns_key r (encode_timer_key count subject t) = Some (range_index count n subject =? own).
Proof. exact c05_ownership_iff_routed. Qed.
Print Assumptions ownership_iff_routed.

(* the table lookup equals a search of the ranges (what Corr/Check_c05.v evaluates) *)
Theorem range_index_is_find : forall count n key, 0 < count -> count <= 65535 -> 0 < n -> n <= 65536 ->
  range_index count n key = find_range (kg_ranges count n) (key_group count key) 0.
Proof. exact c05_range_index_is_find. Qed.
Print Assumptions range_index_is_find.

(* outside the guard: with more than 65536 operators the uint16 table entry wraps *)
Theorem lookup_wraps_refuted : exists count n kg : N, count <= 65535 /\ kg < count /\
  includes_kg (nth (N.to_nat (u16 65536)) (kg_ranges count n) (0,0)) kg = true /\ u16 65536 <> 65536.
Proof. exists 3, 65540, 0. vm_compute. repeat split; discriminate. Qed.
Print Assumptions lookup_wraps_refuted.

(* pinning the hash: published MurmurHash3_x86_32 vectors (SMHasher) evaluate to the published values *)
Example murmur_vectors :
  murmur_hash [] 0 = 0 /\ murmur_hash [] 1 = 0x514E28B7 /\ murmur_hash [] 0xffffffff = 0x81F16F39 /\
  murmur_hash [0xff;0xff;0xff;0xff] 0 = 0x76293B50 /\ murmur_hash [0x21;0x43;0x65;0x87] 0 = 0xF55B516B /\
  murmur_hash [0x21;0x43;0x65;0x87] 0x5082EDEE = 0x2362F9DE /\ murmur_hash [0x21;0x43;0x65] 0 = 0x7E4A8634 /\
  murmur_hash [0x21;0x43] 0 = 0xA0F7B07A /\ murmur_hash [0x21] 0 = 0x72661CF4 /\
  murmur_hash [0;0;0;0] 0 = 0x2362F9DE /\ murmur_hash [0;0;0] 0 = 0x85F0B427 /\
  murmur_hash [0;0] 0 = 0x30F4C306 /\ murmur_hash [0] 0 = 0x514E28B7.
Proof. vm_compute. repeat split. Qed.

(* non-vacuity: the guards are satisfiable and the statements say something on a concrete configuration *)
Example c05_nonvacuous :
  kg_ranges 10 3 = [(0,4);(4,7);(7,10)] /\ range_index 10 3 [107] = 1 /\ key_group 10 [107] = 5 /\
  owns_key (4,7) (encode_db_key 10 [107] [110] [1]) = Some true /\ owns_key (0,4) (encode_db_key 10 [107] [110] [1]) = Some false.
Proof. vm_compute. repeat split. Qed.
