(* C05 - key routing agrees with state ownership for every configuration. Statements only. *)
From RV Require Import Model.KeyCodec.
Open Scope N_scope.

Theorem group_is_murmur_mod : forall count key, 0 < count -> key_group count key = murmur_hash key 0 mod count /\ key_group count key < count.
Proof. intros count key H. split; [reflexivity|]. unfold key_group. apply N.mod_lt. lia. Qed.
Print Assumptions group_is_murmur_mod.
