(* C01 - exactly-once keyed state across worker failure and recovery. Statements only
   (proofs: Proofs/C01_Sys.v delivery invariant, Proofs/C01_Cut.v alignment/cut invariant and publication).

   Model: Model/Sys.v (splits, runners, FIFO channels, aligning operators, job with acknowledgements in any order,
   ACrash of any subset at any action, restart from the latest published checkpoint with any new worker count).
   `papp owner st s k` = the records of split s in the keyed state of key k (application order);
   `sub k l` = the records of key k in l (split order).
   The only premise is the well-formedness of the configuration: a key is owned by one of the m operators (C05 proves
   it for the real key space); `owner_in_range_is_needed` shows the statement is false without it. *)
From Coq Require Import List NArith Bool Arith Lia.
From RV Require Import Model.Sys Proofs.C01_Sys Proofs.C01_Cut.
Import ListNotations.
Import Sys.

Definition owner_ok (owner : nat -> N -> nat) : Prop := forall m k, 0 < m -> owner m k < m.

Definition exactly_once_statement : Prop :=
  forall (splits : list (list rec)) (owner : nat -> N -> nat), owner_ok owner ->
  forall (m : nat) (sched : list action) (s : nat) (k : N),
    s < nsplits splits ->
    let st := run splits owner (init m) sched in
    drained splits st -> papp owner st s k = sub k (Sys.split splits s).

(* PROVED, for every input, owner map, worker count and schedule (emits, barriers, deliveries, checkpoint starts,
   acknowledgements in any order, crashes of any subset at any action, restarts with any worker count): when all input
   is consumed, the state of every key holds, per split, exactly that split's records of the key, each once, in order. *)
Theorem exactly_once : exactly_once_statement.
Proof. exact exactly_once_full. Qed.
Print Assumptions exactly_once.

(* the state handed to every invocation is the fold of an applied prefix: at every moment of every schedule, what the
   state of a key holds of a split is a prefix of the records of that key read so far from the split *)
Theorem given_state_is_applied_prefix :
  forall (splits : list (list rec)) (owner : nat -> N -> nat), owner_ok owner ->
  forall (m : nat) (sched : list action) (s : nat) (k : N),
    s < nsplits splits ->
    let st := run splits owner (init m) sched in
    exists rest, papp owner st s k ++ rest = sub k (firstn (pos st s) (Sys.split splits s)).
Proof. exact given_state_is_applied_prefix_full. Qed.
Print Assumptions given_state_is_applied_prefix.

(* the composed component guarantees (consistent cut + positions match cut + checkpoint exact + published complete),
   as a theorem of Sys: whatever is published at any moment of any schedule holds, per key and split, exactly the
   records before the recorded position *)
Theorem published_checkpoints_are_exact :
  forall (splits : list (list rec)) (owner : nat -> N -> nat), owner_ok owner ->
  forall (m : nat) (sched : list action),
    match pub (run splits owner (init m) sched) with Some c => ckpt_exact splits c | None => True end.
Proof. exact published_checkpoints_are_exact. Qed.
Print Assumptions published_checkpoints_are_exact.

(* unconditional: every schedule in which no acknowledgement is delivered to the job (failure-free runs, and any number
   of crashes of any subset before the first checkpoint is published) *)
Theorem exactly_once_before_first_publication :
  forall (splits : list (list rec)) (owner : nat -> N -> nat) (m : nat) (sched : list action) (s : nat) (k : N),
    s < nsplits splits ->
    Forall no_ack sched ->
    let st := run splits owner (init m) sched in
    drained splits st -> papp owner st s k = sub k (Sys.split splits s).
Proof. exact exactly_once_before_first_publication. Qed.
Print Assumptions exactly_once_before_first_publication.

(* unconditional: the delivery invariant is re-established by a restart from ANY exact checkpoint, for any worker count *)
Theorem restart_from_exact_checkpoint_is_consistent :
  forall (splits : list (list rec)) (owner : nat -> N -> nat) (m : nat) (pb : option published),
    (match pb with Some c => ckpt_exact splits c | None => True end) ->
    Inv splits owner (restart owner m pb).
Proof. exact restart_inv. Qed.
Print Assumptions restart_from_exact_checkpoint_is_consistent.

(* ---- non-vacuity / model tests (vm_compute on a concrete history with a checkpoint, a crash and a rescale) *)
Definition ex_splits : list (list rec) :=
  [[(1, 0); (2, 1); (3, 0)]; [(4, 1); (5, 0)]]%N.
Definition ex_sched : list action :=
  [AEmit 0; AEmit 1; ADeliver 0 0; AStart; ABarrier 1; AEmit 0; ABarrier 0; ADeliver 1 1; ADeliver 1 1; ADeliver 1 0;
   ADeliver 0 1; ADeliver 0 1; ADeliver 0 0; AAck 2; AAck 0; AAck 1; AAck 0;      (* checkpoint 1 published, acks permuted *)
   AEmit 0; ADeliver 0 0; AEmit 1;                                                  (* more work, partly in flight *)
   ACrash [1] 3;                                                                    (* worker 1 dies; restart with 3 workers *)
   AEmit 0; AEmit 1; ADeliver 0 0; ADeliver 1 0; ADeliver 0 1; ADeliver 1 1; ADeliver 0 2; ADeliver 1 2].
Example ex_published :
  match pub (run ex_splits owner_mod (init 2) (firstn 17 ex_sched)) with
  | Some c => (c_pos c 0, c_pos c 1) = (2, 1) | None => False end.
Proof. vm_compute. reflexivity. Qed.
Example ex_final :
  let st := run ex_splits owner_mod (init 2) ex_sched in
  (state_ids owner_mod st 0, state_ids owner_mod st 1) = ([1; 3; 5], [4; 2])%N /\ pos st 0 = 3 /\ pos st 1 = 2.
Proof. vm_compute. repeat split. Qed.
Example ex_drained_satisfiable :
  let st := run ex_splits owner_mod (init 2) ex_sched in
  forall r o, r < 3 -> o < 3 -> chan st r o = [].
Proof.
  intros st r o Hr Ho.
  destruct r as [|[|[|r]]]; [| | |lia]; (destruct o as [|[|[|o]]]; [| | |lia]); vm_compute; reflexivity.
Qed.

(* the premise owner_ok is needed: with a key routed to an operator that does not exist, a checkpoint is published whose
   positions are past a record no cut holds, and the record is lost by the next restart *)
Example owner_in_range_is_needed :
  exists (splits : list (list rec)) (owner : nat -> N -> nat) (m : nat) (sched : list action) (s : nat) (k : N),
    s < nsplits splits /\
    let st := run splits owner (init m) sched in
    drained splits st /\ papp owner st s k <> sub k (Sys.split splits s).
Proof.
  exists [[(1, 0)%N]], (fun _ _ => 5), 1, [AEmit 0; AStart; ABarrier 0; ADeliver 0 0; AAck 0; AAck 0; ACrash [0] 1], 0, 0%N.
  split; [cbn; lia|]. split; [split|].
  - intros s Hs. cbn in Hs. assert (s = 0) by lia. subst. vm_compute. reflexivity.
  - intros r o. vm_compute. reflexivity.
  - vm_compute. discriminate.
Qed.
