(* C20 - batching never loses, duplicates or reorders items. Statements only; proofs in Proofs/C20_*.v. *)
From Coq Require Import List NArith ZArith Bool Permutation.
From RV Require Import Model.Batcher Model.Reorder Proofs.C20_Batcher Proofs.C20_Reorder.
Import ListNotations.

(* ---- the event batcher: every history of Add / IsFull / Flush(token) / timer expiry ---- *)

(* Everything handed out by Flush, concatenated in the order handed out, followed by the batch still held, is exactly the
   sequence of items added - for every action list (size-, time-out- and explicitly triggered flushes are all BFlush actions). *)
Theorem batcher_concat : forall (T : Type) (p : bparams) (acts : list (baction T)),
  concat (flushed_of (fst (b_run p acts b_init))) ++ batch (snd (b_run p acts b_init)) = added_of acts.
Proof. intros T. exact batcher_concat_proof. Qed.
Print Assumptions batcher_concat.

(* A token that is neither CurrentBatch nor the current generation flushes nothing and changes nothing. *)
Theorem stale_token_noop : forall (T : Type) (t : Z) (s : bstate T),
  t <> current_batch -> t <> token s -> b_flush t s = ([], s).
Proof. intros T. exact stale_token_noop_proof. Qed.
Print Assumptions stale_token_noop.

(* A token the timer delivers in a reachable state s1 can only ever flush the batch it was set for: whatever happens next
   (acts2), if Flush t then hands out l <> [], nothing was handed out in between and l is s1's non-empty batch plus the
   items added since. In particular: once that batch has been handed out, the token flushes nothing. *)
Theorem token_generation : forall (T : Type) (p : bparams) (acts1 acts2 : list (baction T)) (t : Z) (l : list T) (s3 : bstate T),
  let s1 := snd (b_run p acts1 b_init) in
  let r2 := b_run p acts2 s1 in
  b_fire s1 = Some t ->
  b_flush t (snd r2) = (l, s3) -> l <> [] ->
  concat (flushed_of (fst r2)) = [] /\ batch s1 <> [] /\ l = batch s1 ++ added_of acts2.
Proof. intros T. exact token_generation_proof. Qed.
Print Assumptions token_generation.

(* ---- late time-out callbacks: an expiry is committed (XExpire) and its callback sends the token it captured at any later
   time (XDeliver), also after its batch was flushed and the next batch armed the timer again ---- *)

Theorem batcher_concat_late : forall (T : Type) (p : bparams) (acts : list (bxaction T)),
  let r := bx_run p acts bx_init in
  concat (flushed_of (xb_events (fst r))) ++ batch (bx_b (snd r)) = added_of (xb_actions acts).
Proof. intros T. exact batcher_concat_late_proof. Qed.
Print Assumptions batcher_concat_late.

(* The token of a committed callback flushes something only if its own batch is still the current one (t = token at s1) and
   nothing has been handed out since. *)
Theorem late_timeout_generation : forall (T : Type) (p : bparams) (acts1 acts2 : list (bxaction T)) (t : Z) (l : list T) (s3 : bstate T),
  let s1 := snd (bx_run p acts1 bx_init) in
  let r2 := bx_run p acts2 s1 in
  In t (bx_committed s1) ->
  b_flush t (bx_b (snd r2)) = (l, s3) -> l <> [] ->
  t = token (bx_b s1) /\ concat (flushed_of (xb_events (fst r2))) = [].
Proof. intros T. exact late_timeout_generation_proof. Qed.
Print Assumptions late_timeout_generation.

(* The time-out of an already flushed batch flushes nothing, however late its callback runs. *)
Theorem late_timeout_of_flushed_batch_noop : forall (T : Type) (p : bparams) (acts : list (bxaction T)) (t : Z),
  let s := snd (bx_run p acts bx_init) in
  In t (bx_committed s) -> t <> token (bx_b s) -> b_flush t (bx_b s) = ([], bx_b s).
Proof. intros T. exact late_timeout_of_flushed_batch_noop_proof. Qed.
Print Assumptions late_timeout_of_flushed_batch_noop.

(* ---- the reorder fetcher (repaired code, rp_fixed = true): every script of the adder, every schedule ---- *)

(* For every list of actions (each one a step of the adder, of the time-out goroutine, a timer expiry, the completion of any
   running fetch, a drain - a disabled action does nothing), from the initial state with any adder script:
   the batches handed to fetches, in flush order, tile the items added so far (with the batch still held);
   Output is a prefix of the fetch results of those batches in that order; and once all work is carried through it is all of them. *)
Theorem reorder_in_order : forall (T R : Type) (fetch : list T -> list R) (p : rparams),
  rp_fixed p = true ->
  forall (sc : list (aop T)) (acts : list action),
  let s := run fetch p acts (r_init sc) in
  concat (flushed s) ++ batch (bt s) = added s /\
  prefix (out s) (concat (map fetch (flushed s))) /\
  (quiescent s = true -> out s = concat (map fetch (flushed s))).
Proof. intros T R. exact reorder_in_order_proof. Qed.
Print Assumptions reorder_in_order.

(* With a fetch that answers item by item: one result per input, in input order. *)
Theorem reorder_one_result_per_input : forall (T R : Type) (f : T -> R) (p : rparams),
  rp_fixed p = true ->
  forall (sc : list (aop T)) (acts : list action),
  let s := run (map f) p acts (r_init sc) in
  prefix (out s) (map f (added s)) /\
  (quiescent s = true -> batch (bt s) = [] -> out s = map f (added s)).
Proof. intros T R. exact reorder_itemwise_proof. Qed.
Print Assumptions reorder_one_result_per_input.

(* Fetch errors. FetchBatch returns (results, err); the outcome of fetching a batch is FOk results | FErr returned_results, and
   fetch_of = the results that came back either way: the code reports the error on ErrChan and still fills the batch's slot with
   them, so "the result" of a failed batch is what FetchBatch returned and later batches are never held up.
   For every outcome function, adder script and schedule: the output statement of reorder_in_order holds with fetch_of;
   every error reported belongs to a failed batch that was handed out; at quiescence every failed batch has reported exactly once. *)
Theorem reorder_fetch_errors : forall (T R : Type) (fetchx : list T -> outcome R) (p : rparams),
  rp_fixed p = true ->
  forall (sc : list (aop T)) (acts : list action),
  let xs := x_run fetchx p acts (x_init sc) in
  let s := rx xs in
  concat (flushed s) ++ batch (bt s) = added s /\
  prefix (out s) (concat (map (fetch_of fetchx) (flushed s))) /\
  (forall ev, In ev (x_errs fetchx xs) -> failed fetchx ev = true /\ In ev (flushed s)) /\
  (quiescent s = true ->
     out s = concat (map (fetch_of fetchx) (flushed s)) /\
     Permutation (x_errs fetchx xs) (filter (failed fetchx) (flushed s))).
Proof. intros T R. exact reorder_fetch_errors_proof. Qed.
Print Assumptions reorder_fetch_errors.

(* Per-call contexts. Add(ctx, x) / Flush(ctx) take the caller's context; the code never consults it for the flush decision and only
   hands it to FetchBatch. In the model the calls of the adder script carry a flag (true = already cancelled); the context layer is
   a ghost over the SAME step functions (first conjunct), and every batch taken from the batcher gets exactly one context for its
   fetch (second conjunct: none is dropped because of the caller's context). With reorder_fetch_errors: every input accepted by
   Add is part of a batch that is fetched and whose outcome - results or reported error - fills its slot, in input order. *)
Theorem context_never_drops : forall (T R : Type) (fetch : list T -> list R) (p : rparams)
                                     (sc : list (aop T * bool)) (acts : list action),
  let cs := c_run fetch p acts (c_init sc) in
  rc cs = run fetch p acts (r_init (map fst sc)) /\ length (c_log cs) = length (flushed (rc cs)).
Proof. intros T R. exact context_never_drops_proof. Qed.
Print Assumptions context_never_drops.

(* Quiescence is always reachable: in every reachable state that is not quiescent some goroutine can take a step
   (no deadlock between the flush mutex, the slots of the buffer and the buffer mutex; the consumer keeps receiving). *)
Theorem reorder_no_deadlock : forall (T R : Type) (fetch : list T -> list R) (p : rparams),
  rp_fixed p = true ->
  forall (sc : list (aop T)) (acts : list action),
  let s := run fetch p acts (r_init sc) in
  quiescent s = false -> exists a, step_opt fetch p a s <> None.
Proof. intros T R. exact reorder_no_deadlock_proof. Qed.
Print Assumptions reorder_no_deadlock.

(* No time-out is ever dropped. The time-out goroutine WAITS for the flush mutex (its flush step is disabled while another flusher
   holds it - reorder_no_deadlock says that flusher can always go on - and is never skipped). m_mark is the number of inputs accepted
   when the timer last expired. Whenever the fetcher is at rest with no expiry pending, all those inputs have been handed out in
   batches (so by reorder_in_order their results have been emitted): a pending batch whose timer expired is flushed once the lock
   is free, without any further Add or Flush. *)
Theorem expired_batch_flushed : forall (T R : Type) (fetch : list T -> list R) (p : rparams),
  rp_fixed p = true ->
  forall (sc : list (aop T)) (acts : list action),
  let ms := m_run fetch p acts (m_init sc) in
  let s := rm ms in
  s = run fetch p acts (r_init sc) /\
  (quiescent s = true -> inflight s = 0 ->
     m_mark ms <= length (concat (flushed s)) /\
     firstn (m_mark ms) (added s) = firstn (m_mark ms) (concat (flushed s))).
Proof. intros T R. exact expired_batch_flushed_proof. Qed.
Print Assumptions expired_batch_flushed.

(* ---- the code before the repair (rp_fixed = false) does not have the property: D19 ---- *)

(* (i) a time-out flusher overtaken between Flush and Reserve: Output is not a prefix of the results in input order.
   Replayed on the implementation by corpus/batching/c20-d19-timeout-flusher-held.json (before commit 71bc8cf: output 2,3,1). *)
Theorem reorder_in_order_old_refuted : exists (p : rparams) (sc : list (aop N)) (acts : list action),
  rp_fixed p = false /\
  let s := run (fun l : list N => l) p acts (r_init sc) in
  ~ prefix (out s) (concat (map (fun l => l) (flushed s))).
Proof.
  exists old_params, old_script, old_swap_schedule. split; [reflexivity|].
  cbv zeta. rewrite old_swap_run. exact old_swap_not_prefix.
Qed.
Print Assumptions reorder_in_order_old_refuted.

(* (ii) the unsynchronised counter: two batches get the same number, the fetcher comes to rest with items lost. *)
Theorem reorder_no_loss_old_refuted : exists (p : rparams) (sc : list (aop N)) (acts : list action),
  rp_fixed p = false /\
  let s := run (map (fun x : N => x)) p acts (r_init sc) in
  quiescent s = true /\ batch (bt s) = [] /\ out s <> map (fun x => x) (added s).
Proof.
  exists old_params, old_script, old_dup_schedule. split; [reflexivity|].
  cbv zeta. rewrite old_dup_run. exact old_code_loses.
Qed.
Print Assumptions reorder_no_loss_old_refuted.

(* ---- non-vacuity: the hypotheses are satisfiable and quiescent states with output are reachable ---- *)
Example fixed_params : rparams := mkRP (mkBP 2 true) 4 true.
Example reorder_reaches_quiescence :
  let s := run (map (fun x : N => (x + 1000)%N)) fixed_params
               [AAdder; AAdder; ATimerFire; ATimeout; ATimeout; ATimeout; AAdder; AAdder; ATimeout; ATimeout; ATimeout;
                AAdder; AAdder; AAdder; AAdder; AAdder; AAdder; AAdder; AAdder; AComplete 1; ADrain 1; AComplete 0; ADrain 0]
               (r_init [AddOp 1%N; AddOp 2%N; AddOp 3%N]) in
  quiescent s = true /\ flushed s = [[1%N]; [2%N; 3%N]] /\ out s = [1001%N; 1002%N; 1003%N].
Proof. vm_compute. repeat split. Qed.
Example token_generation_hypotheses_satisfiable :
  let s1 := snd (b_run (mkBP 3 true) [BAdd 7%N] b_init) in
  b_fire s1 = Some 0%Z /\ fst (b_flush 0%Z (snd (b_run (mkBP 3 true) [BAdd 8%N] s1))) = [7%N; 8%N].
Proof. vm_compute. split; reflexivity. Qed.
Example late_callback_regime_reachable :
  let r := bx_run (mkBP 2 true) [XB (BAdd 1%N); XExpire; XB (BAdd 2%N); XB (BFlush (-1)%Z); XB (BAdd 3%N); XDeliver 0; XB (BFlush 0%Z)] bx_init in
  fst r = [XE EAdded; XExpired (Some 0%Z); XE EAdded; XE (EFlushed (-1)%Z [1%N; 2%N]); XE EAdded; XDelivered (Some 0%Z);
           XE (EFlushed 0%Z [])] /\ batch (bx_b (snd r)) = [3%N].
Proof. vm_compute. split; reflexivity. Qed.
Example expired_batch_flushed_nonvacuous :
  let ms := m_run (map (fun x : N => x)) fixed_params
                  [AAdder; AAdder; ATimerFire; ATimeout; ATimeout; ATimeout; ATimeout; ATimeout; ATimeout; AComplete 0; ADrain 0]
                  (m_init [AddOp 7%N]) in
  quiescent (rm ms) = true /\ inflight (rm ms) = 0%nat /\ m_mark ms = 1%nat /\ out (rm ms) = [7%N].
Proof. vm_compute. repeat split. Qed.
