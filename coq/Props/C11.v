(* C11 - watermarks are monotone; operators act on the minimum of their upstreams.  Statements only.
   Time = Z nanoseconds since the Unix epoch; go_zero_time = time.Time{} = year 1 = -62135596800 s. *)
From Coq Require Import ZArith List Sorted.
From RV Require Import Model.Wmark Proofs.C11_Wmark.
Import ListNotations.
Open Scope Z_scope.

(* --- one source runner's watermark --- *)

(* never decreases: for every history of AdvanceTime (timestamps ordered or not, any protobuf encoding) and
   CurrentWatermark calls, the stamped watermarks are non-decreasing; any allowed lateness. *)
Theorem wm_monotone : forall late ops,
  StronglySorted Z.le (map instant (wm_trace (wm_new late) ops)) /\
  forall w ts, wm_current w <= wm_current (wm_advance w ts).
Proof. intros late ops. split; [apply wm_monotone_l|apply wm_step_monotone]. Qed.
Print Assumptions wm_monotone.

(* follows the largest forwarded timestamp exactly: max - lateness - 1 ns (so it advances with event time);
   the maximum starts at the zero time.Time (year 1), the smallest valid protobuf Timestamp. *)
Theorem wm_tracks : forall late,
  (forall tss, wm_current (wm_run late tss) = zmax_list go_zero_time tss - late - 1) /\
  (forall ops, map instant (wm_trace (wm_new late) ops) =
               map (fun fw => zmax_list go_zero_time fw - late - 1) (wm_forwarded_before [] ops)).
Proof. intro late. split; [apply wm_tracks_l|apply wm_trace_tracks_l]. Qed.
Print Assumptions wm_tracks.

(* never reaches the largest forwarded timestamp: for every sequence with largest element mx that is a
   valid protobuf Timestamp (>= year 1) and every allowed lateness >= 0, watermark < mx, in fact = mx - late - 1. *)
Theorem wm_below_forwarded : forall late tss mx,
  0 <= late -> In mx tss -> (forall x, In x tss -> x <= mx) -> go_zero_time <= mx ->
  wm_current (wm_run late tss) < mx /\ wm_current (wm_run late tss) = mx - late - 1.
Proof. exact wm_below_forwarded_l. Qed.
Print Assumptions wm_below_forwarded.

(* the hypotheses are needed: a negative allowed lateness, or timestamps all before year 1, put the watermark
   at or above the largest forwarded timestamp (the unexported lateness field is never set by production code). *)
Example wm_below_needs_late : wm_current (wm_run (-1) [5]) = 5.
Proof. reflexivity. Qed.
Example wm_below_needs_year1 : wm_current (wm_run 0 [go_zero_time - 10]) > go_zero_time - 10.
Proof. vm_compute. reflexivity. Qed.

(* the stamp is taken when the placeholder is SENT: every Watermark an operator receives carries
   max(year 1, every keyed timestamp sent before it to any operator) - 1 ns, re-encoded by timestamppb.New. *)
Theorem stamp_after_forwarded : forall ops pre stamp post,
  pipe_run (wm_new 0) ops = pre ++ SendW stamp :: post ->
  stamp = pb_new (zmax_list go_zero_time (sent_ts pre) - 1) /\ 0 <= snd stamp < NS.
Proof.
  intros ops pre stamp post H. pose proof (stamp_after_forwarded_l _ _ _ _ H) as Hs.
  split; [exact Hs|]. rewrite Hs. apply pb_new_normal.
Qed.
Print Assumptions stamp_after_forwarded.

Theorem stamps_monotone_and_below : forall ops pre stamp post,
  pipe_run (wm_new 0) ops = pre ++ SendW stamp :: post ->
  (forall mid s2 post', post = mid ++ SendW s2 :: post' -> instant stamp <= instant s2) /\
  (forall t, In t (sent_ts pre) -> (forall x, In x (sent_ts pre) -> x <= t) -> go_zero_time <= t -> instant stamp = t - 1).
Proof.
  intros ops pre stamp post H. split.
  - intros mid s2 post' ->. eapply stamps_monotone_l. exact H.
  - intros t Hin Hle Hz. eapply stamp_below_forwarded_l; eauto.
Qed.
Print Assumptions stamps_monotone_and_below.

(* protobuf conversions lose nothing: AsTime (New t) = t with nanos in [0, 1e9) *)
Theorem pb_roundtrip : forall t, as_time (Some (pb_new t)) = t /\ 0 <= snd (pb_new t) < NS.
Proof. exact pb_roundtrip_l. Qed.
Print Assumptions pb_roundtrip.

(* non-vacuity *)
Example wm_example : map instant (wm_trace (wm_new 0) [WAdv (Some (5, 0)); WCur; WAdv (Some (3, 7)); WCur; WAdv None; WAdv (Some (9, -1)); WCur])
                     = [4999999999; 4999999999; 8999999998].
Proof. vm_compute. reflexivity. Qed.
Example pipe_example : pipe_run (wm_new 0) [PW; PK [(0%N, 1%N, Some (7, 0)); (1%N, 2%N, Some (2, 5))]; PW]
                     = [SendW (-62135596801, 999999999); SendK 0 1 (Some (7, 0)); SendK 1 2 (Some (2, 5)); SendW (6, 999999999)].
Proof. vm_compute. reflexivity. Qed.
