(* C11 - watermarks are monotone; operators act on the minimum of their upstreams.  Statements only.
   Time = Z nanoseconds since the Unix epoch; go_zero_time = time.Time{} = year 1 = -62135596800 s. *)
From Coq Require Import ZArith List Sorted.
From RV Require Import Model.Wmark Model.UpstreamWm Proofs.C11_Wmark Proofs.C11_Upstream.
Import ListNotations.
Open Scope Z_scope.

(* --- one source runner's watermark --- *)

(* never decreases: for every history of AdvanceTime (timestamps ordered or not, any protobuf encoding) and
   CurrentWatermark calls, the stamped watermarks are non-decreasing; any allowed lateness. *)
Theorem wm_monotone : forall late ops,
  StronglySorted Z.le (map instant (wm_trace (wm_new late) ops)) /\
  forall w ts, wm_current w <= wm_current (wm_advance w ts).
Proof. exact wm_monotone_full. Qed.
Print Assumptions wm_monotone.

(* follows the largest forwarded timestamp exactly: max - lateness - 1 ns (so it advances with event time);
   the maximum starts at the zero time.Time (year 1), the smallest valid protobuf Timestamp. *)
Theorem wm_tracks : forall late,
  (forall tss, wm_current (wm_run late tss) = zmax_list go_zero_time tss - late - 1) /\
  (forall ops, map instant (wm_trace (wm_new late) ops) =
               map (fun fw => zmax_list go_zero_time fw - late - 1) (wm_forwarded_before [] ops)).
Proof. exact wm_tracks_full. Qed.
Print Assumptions wm_tracks.

(* never reaches the largest forwarded timestamp: for every sequence with largest element mx that is a
   valid protobuf Timestamp (>= year 1) and every allowed lateness >= 0, watermark < mx, in fact = mx - late - 1. *)
Theorem wm_below_forwarded : forall late tss mx,
  0 <= late -> In mx tss -> (forall x, In x tss -> x <= mx) -> go_zero_time <= mx ->
  wm_current (wm_run late tss) < mx /\ wm_current (wm_run late tss) = mx - late - 1.
Proof. exact wm_below_forwarded_l. Qed.
Print Assumptions wm_below_forwarded.

(* the hypotheses are needed: a negative allowed lateness, or timestamps all before year 1, put the watermark
   at or above the largest forwarded timestamp (the unexported lateness field is never set by production code). *)
Example wm_below_needs_late : wm_current (wm_run (-1) [5]) = 5.
Proof. reflexivity. Qed.
Example wm_below_needs_year1 : wm_current (wm_run 0 [go_zero_time - 10]) > go_zero_time - 10.
Proof. vm_compute. reflexivity. Qed.

(* the stamp is taken when the placeholder is SENT: every Watermark an operator receives carries
   max(year 1, every keyed timestamp sent before it to any operator) - 1 ns, re-encoded by timestamppb.New. *)
Theorem stamp_after_forwarded : forall ops pre stamp post,
  pipe_run (wm_new 0) ops = pre ++ SendW stamp :: post ->
  stamp = pb_new (zmax_list go_zero_time (sent_ts pre) - 1) /\ 0 <= snd stamp < NS.
Proof. exact stamp_after_forwarded_full. Qed.
Print Assumptions stamp_after_forwarded.

Theorem stamps_monotone_and_below : forall ops pre stamp post,
  pipe_run (wm_new 0) ops = pre ++ SendW stamp :: post ->
  (forall mid s2 post', post = mid ++ SendW s2 :: post' -> instant stamp <= instant s2) /\
  (forall t, In t (sent_ts pre) -> (forall x, In x (sent_ts pre) -> x <= t) -> go_zero_time <= t -> instant stamp = t - 1).
Proof. exact stamps_monotone_and_below_full. Qed.
Print Assumptions stamps_monotone_and_below.

(* protobuf conversions lose nothing: AsTime (New t) = t with nanos in [0, 1e9) *)
Theorem pb_roundtrip : forall t, as_time (Some (pb_new t)) = t /\ 0 <= snd (pb_new t) < NS.
Proof. exact pb_roundtrip_l. Qed.
Print Assumptions pb_roundtrip.

(* --- the operator's effective watermark --- *)

(* For every set of configured runners and every history of AdvanceWatermark (any senders, known or not, any
   order, regressing or not) and SetTimer calls, the registry's cached watermark is the specified composite:
   the MINIMUM over all participants (configured runners and senders seen so far) of their latest report,
   where a runner that has not reported counts as the epoch and only a sender's most recent message counts;
   in particular it is the epoch before the first watermark message (code repaired: 9b0e491). *)
Theorem composite_is_min : forall ids ops,
  let msgs := rop_msgs ops in
  let c := r_wm (reg_run (reg_new ids) ops) in
  c = spec_composite ids msgs /\
  (participants ids msgs <> [] ->
     (forall s, In s (participants ids msgs) -> c <= latest msgs s) /\
     (exists s, In s (participants ids msgs) /\ c = latest msgs s)) /\
  (participants ids msgs = [] -> c = epoch) /\
  (forall s, ~ In s (map fst msgs) -> latest msgs s = epoch) /\
  (forall m1 s t m2, msgs = m1 ++ (s, t) :: m2 -> ~ In s (map fst m2) -> latest msgs s = t).
Proof. exact composite_is_min_full. Qed.
Print Assumptions composite_is_min.

(* Every AdvanceWatermark of every history leaves the cached watermark at the specified composite of the
   messages so far, and every timer it fires is at or before that minimum. *)
Theorem no_timer_beyond_min : forall ids ops i fired w,
  nth_error (reg_trace (reg_new ids) ops) i = Some (fired, w) ->
  w = spec_composite ids (rop_msgs (firstn (S i) ops)) /\ forall t k, In (t, k) fired -> t <= w.
Proof. exact no_timer_beyond_min_full. Qed.
Print Assumptions no_timer_beyond_min.

(* the SetTimer guard: a timer at or before the composite watermark is dropped (so a timer at or before the
   epoch set before any watermark message is a no-op); a later one is stored and the watermark is untouched *)
Theorem set_timer_guard : forall r k t,
  (t <= r_wm r -> set_timer r k t = r) /\
  (r_wm r < t -> In (swrap64 t, k) (r_timers (set_timer r k t)) /\ r_wm (set_timer r k t) = r_wm r) /\
  (forall ids, t <= epoch -> set_timer (reg_new ids) k t = reg_new ids).
Proof. exact set_timer_guard_full2. Qed.
Print Assumptions set_timer_guard.

(* For every handler (any function), every batch size, every interleaving of keyed events, watermark messages,
   SourceComplete and redeploys of the live operator: the Watermark field of every ProcessEventBatchRequest
   issued while the i-th incoming event is handled is the specified composite after the first i+1 events, i.e. the
   minimum over the CURRENT deployment's runners of their latest report in this deployment (unreported = epoch). *)
Theorem handler_told_composite : forall (h : handler) ids m ops i calls,
  nth_error (op_trace h m (op_new ids) ops) i = Some calls ->
  forall c, In c calls -> c_told c = pb_new (spec_at ids (firstn (S i) ops)).
Proof. exact handler_told_composite_full. Qed.
Print Assumptions handler_told_composite.

(* what spec_at is: without a redeploy the composite of all watermark messages of the history; from a (re)deploy
   until that deployment's first watermark message the epoch (nothing of the previous deployment survives);
   in general spec_composite (characterised by composite_is_min) of the current deployment's runners / messages *)
Theorem spec_at_meaning : forall ids0 pre,
  ((forall ids, ~ In (ODeploy ids) pre) -> spec_at ids0 pre = spec_composite ids0 (oop_msgs pre)) /\
  (forall a ids post, pre = a ++ ODeploy ids :: post ->
     (forall s p, ~ In (OWm s p) post) -> (forall ids', ~ In (ODeploy ids') post) -> spec_at ids0 pre = epoch) /\
  spec_at ids0 pre = spec_composite (fst (drun (ids0, []) pre)) (snd (drun (ids0, []) pre)).
Proof. exact spec_at_full. Qed.
Print Assumptions spec_at_meaning.

(* an early stop of the due-timer iterator (its consumer returns in the middle: a handler error during the
   advance) rolls nothing back: table and cached composite are exactly those of a fully drained advance
   (no_timer_beyond_min above covers RAdvStop entries: the watermark after the call is the specified minimum) *)
Theorem early_stop_keeps_composite : forall r s p k,
  r_ups (fst (advance_stop r s p k)) = r_ups (fst (advance r s p)) /\
  r_wm (fst (advance_stop r s p k)) = r_wm (fst (advance r s p)).
Proof. exact advance_stop_same_wm. Qed.
Print Assumptions early_stop_keeps_composite.

(* the operator's table and composite after any history do not depend on the handler at all - in particular not
   on which of its calls failed (handler = None) nor on the batch size; handler_told_composite quantifies over
   failing handlers too, so the calls after a failed timer batch are told the minimum of the upstream table *)
Theorem handler_error_keeps_composite : forall (h h' : handler) m m' ops st st',
  r_ups (o_reg st) = r_ups (o_reg st') -> r_wm (o_reg st) = r_wm (o_reg st') ->
  forall i, let run := fun hh mm s0 => fold_left (fun s o => fst (op_step hh mm s o)) (firstn i ops) s0 in
  r_ups (o_reg (run h m st)) = r_ups (o_reg (run h' m' st')) /\
  r_wm (o_reg (run h m st)) = r_wm (o_reg (run h' m' st')).
Proof. exact wm_independent_of_handler. Qed.
Print Assumptions handler_error_keeps_composite.

(* a finished source runner keeps counting: SourceComplete changes neither the upstream table nor the composite
   (so composite_is_min / handler_told_composite above range over ALL runners' latest reports, finished or not:
   OComplete contributes nothing to oop_msgs and removes nothing) *)
Theorem source_complete_keeps_min : forall (h : handler) m st s,
  r_ups (o_reg (fst (op_step h m st (OComplete s)))) = r_ups (o_reg st) /\
  r_wm (o_reg (fst (op_step h m st (OComplete s)))) = r_wm (o_reg st).
Proof. exact source_complete_keeps_table. Qed.
Print Assumptions source_complete_keeps_min.

(* ... and every TimerExpired the handler ever receives is not later than the composite that held right after
   one of the watermark messages handled before (with batches > 1 a fired timer may be delivered later). *)
Theorem no_timer_beyond_min_at_handler : forall (h : handler) ids m ops i calls,
  nth_error (op_trace h m (op_new ids) ops) i = Some calls ->
  forall c, In c calls -> forall k t, In (HT k t) (c_events c) ->
  exists a s p b, firstn (S i) ops = a ++ OWm s p :: b /\ t <= spec_at ids (a ++ [OWm s p]).
Proof. exact no_timer_beyond_min_at_handler_full. Qed.
Print Assumptions no_timer_beyond_min_at_handler.

(* non-vacuity *)
Example wm_example : map instant (wm_trace (wm_new 0) [WAdv (Some (5, 0)); WCur; WAdv (Some (3, 7)); WCur; WAdv None; WAdv (Some (9, -1)); WCur])
                     = [4999999999; 4999999999; 8999999998].
Proof. vm_compute. reflexivity. Qed.
Example pipe_example : pipe_run (wm_new 0) [PW; PK [(0%N, 1%N, Some (7, 0)); (1%N, 2%N, Some (2, 5))]; PW]
                     = [SendW (-62135596801, 999999999); SendK 0 1 (Some (7, 0)); SendK 1 2 (Some (2, 5)); SendW (6, 999999999)].
Proof. vm_compute. reflexivity. Qed.

(* the repository's two-upstream scenario, in both arrival orders, and an unknown sender *)
Example reg_example :
  reg_trace (reg_new [1%N; 2%N]) [RSet 7 (tm 2 0); RAdv 1 (Some (2, 0)); RAdv 2 (Some (1, 0)); RAdv 2 (Some (2, 0))]
  = [([], 0); ([], 0); ([], tm 1 0); ([(tm 2 0, 7%N)], tm 2 0)] /\
  reg_trace (reg_new [1%N; 2%N]) [RSet 7 (tm 2 0); RAdv 2 (Some (2, 0)); RAdv 9 (Some (5, 0)); RAdv 1 (Some (3, 0)); RAdv 1 (Some (1, 0))]
  = [([], 0); ([], 0); ([], 0); ([(tm 2 0, 7%N)], tm 2 0); ([], tm 1 0)].
Proof. vm_compute. split; reflexivity. Qed.
Example op_example :
  map (map c_told) (op_trace (fun _ evs => Some (map (fun e => match e with HK _ k ts => (k, ts) | HT k _ => (k, []) end) evs)) 1 (op_new [1%N; 2%N])
    [OEv 1 1 7 [Some (2, 0)]; OWm 1 (Some (3, 0)); OWm 2 (Some (2, 5)); OEv 2 2 7 []])
  = [[(0, 0)]; []; [(2, 5)]; [(2, 5)]].
Proof. vm_compute. reflexivity. Qed.

(* the code before the repair violated handler_told_composite on the very first call *)
Lemma handler_told_before_fix_refuted_w :
  exists ids ops calls c,
    nth_error (op_trace (fun _ _ => Some []) 1 {| o_reg := reg_new_before_fix ids; o_batch := [] |} ops) 0 = Some calls /\
    In c calls /\ c_told c <> pb_new (spec_at ids (firstn 1 ops)).
Proof. exact handler_told_before_fix_refuted. Qed.

(* a runner finishes with the lowest watermark: it still holds the minimum back *)
Example complete_example :
  map (map c_told) (op_trace (fun _ evs => Some (map (fun e => match e with HK _ k ts => (k, ts) | HT k _ => (k, []) end) evs)) 1 (op_new [1%N; 2%N])
    [OWm 1 (Some (5, 0)); OWm 2 (Some (9, 0)); OEv 1 1 7 [Some (7, 0)]; OComplete 1; OWm 2 (Some (20, 0)); OEv 2 2 7 []])
  = [[]; []; [(5, 0)]; []; []; [(5, 0)]].
Proof. vm_compute. reflexivity. Qed.

(* a redeploy of the live operator starts from the epoch again, whatever the previous deployment had reached *)
Example redeploy_example :
  map (map c_told) (op_trace (fun _ evs => Some (map (fun e => match e with HK _ k ts => (k, ts) | HT k _ => (k, []) end) evs)) 1 (op_new [1%N])
    [OWm 1 (Some (50, 0)); OEv 1 1 7 []; ODeploy [1%N]; OEv 1 2 7 [Some (20, 0)]; OWm 1 (Some (30, 0)); OEv 1 3 7 []])
  = [[]; [(50, 0)]; []; [(0, 0)]; [(30, 0)]; [(30, 0)]].
Proof. vm_compute. reflexivity. Qed.

(* the handler fails on the first expired timer of a watermark advance: the second due timer stays in the store,
   the next call is told the ADVANCED composite, a timer at or before it is dropped, and the remaining timer fires
   with the next advance *)
Example handler_error_example :
  map (map (fun c => (c_told c, c_events c)))
    (op_trace (fun _ evs => if existsb (fun e => match e with HT 6 _ => true | _ => false end) evs then None
                            else Some (map (fun e => match e with HK _ k ts => (k, ts) | HT k _ => (k, []) end) evs)) 1 (op_new [1%N])
      [OEv 1 1 6 [Some (10, 0)]; OEv 1 2 7 [Some (20, 0)]; OWm 1 (Some (30, 0)); OEv 1 3 5 [Some (25, 0)]; OWm 1 (Some (31, 0))])
  = [[((0, 0), [HK 1 6 [Some (10, 0)]])]; [((0, 0), [HK 2 7 [Some (20, 0)]])];
     [((30, 0), [HT 6 (tm 10 0)])];
     [((30, 0), [HK 3 5 [Some (25, 0)]])];
     [((31, 0), [HT 7 (tm 20 0)])]].
Proof. vm_compute. reflexivity. Qed.
