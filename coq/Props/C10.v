(* C10 - event-time timers fire exactly once, in order, and survive recovery.  Statements only.

   Model: Model/TimerStore.v + Model/TimerRegistry.v, the current code ([quirks_now]) of workers/operator/timer_store.go
   and timer_registry.go over the SPECIFICATION of the DKV (a strictly sorted list of keys), of ds.SortedCache (sorted
   set + byteSize) and of ds.PartitionedPriorityQueue ("a partition with minimal Peek").
   Specification: Proofs/C10_Spec.v, a duplicate-free list of pending (subject key, timestamp) pairs:
     SetTimer k t   adds (k, t) unless t <= watermark or (k, t) is pending already
     Advance s w    records w for sender s, watermark := minimum over the upstreams; exactly the pending (k, t) with
                    t <= watermark are due and leave the pending list
     AdvanceSet     the same with SetTimer calls made by the consumer right after the n-th yield
     Restore        (checkpoint + restore) fresh registry and store over the DB content at that point: upstreams and
                    watermark back to the epoch, the pending list untouched
   [op_okc kgf start size] is the guard of a history element: registered timestamps are in [0, 2^63) ns and the subject
   key's group [kgf key] lies in the operator's range [start, start+size). *)
From RV Require Import Base.Bytes Model.TimerStore Model.TimerRegistry.
From RV Require Import Proofs.C10_Queue Proofs.C10_Spec Proofs.C10_History Proofs.C10_Registry Proofs.C10_SpecFacts.
From RV Require Import Model.TimerStoreKV Proofs.C10_OverLsm.
From RV Require Model.StateStore Model.StateStoreLsm Model.Lsm Proofs.C07_Refine Proofs.C03_OverLsm.
From Coq Require Import Permutation.
Open Scope N_scope.

(* For every history (any keys, timestamps in [0, 2^63), any repetition of identical registrations, SetTimer calls
   between two yields, consumers that stop after k items, Restore at any point), every cache size [cache] >= 0, every
   key-group function and range, every list of source runners - with [outs] the outputs of the advances:
   * a drained advance ([Advance], [AdvanceSet]; expectation [(due, None)]) yields exactly the due pending timers (a
     permutation of the specification's due list: none missing, none extra), in non-decreasing timestamp order, each once;
   * an advance whose consumer stops in the body of the k-th item ([AdvancePartial]; expectation [(due, Some k)]) hands out
     [partial_ok k due out]: distinct due timers, in timestamp order, min(k, number due) of them, none later than a due timer
     it did not hand out; the specification then removes exactly the handed-out timers from the pending list
     ([sp_advance_partial]): the CURRENT code deletes a timer from the store before it yields it, so a stopped consumer
     loses nothing (what was not handed out stays pending) and duplicates nothing (what was handed out is never handed out
     again, neither at a later watermark nor after a restore);
   * at the end (hence after every prefix, in particular across every Restore) the DB holds exactly the encodings of the
     specification's pending timers;
   * in every reachable state every key group's cache is a prefix of the group's sorted DB content - all of it when
     allDataInCache is set - with byteSize equal to the number of cached bytes. *)
Theorem timers_exactly_once_in_order :
  forall (kgf : bytes -> N) (start size cache : N) (srids : list N) (ops : list op),
    start + size <= 65536 ->
    Forall (op_okc kgf start size) ops ->
    let c := {| cf_q := quirks_now; cf_kgf := kgf; cf_start := start; cf_size := size; cf_cache := cache; cf_srids := srids |} in
    let outs := fst (run c ops (sys_new c [])) in
    let sp := spec_run srids ops outs (spec_new srids []) in
    Forall2 (fun out e =>
               match snd e with
               | None => Permutation out (fst e) /\ time_sorted out = true /\ NoDup out
               | Some k => partial_ok k (fst e) out
               end) outs (fst sp) /\
    Permutation (snd (snd (run c ops (sys_new c [])))) (map (enc kgf) (sp_pending (snd sp))) /\
    cache_inv (snd (run c ops (sys_new c []))).
Proof. intros kgf start size cache srids ops H Hok. exact (refinement kgf start size cache srids H ops Hok). Qed.
Print Assumptions timers_exactly_once_in_order.

(* The same statement with the timer store running ON THE LSM MODEL of C07 instead of on the sorted-list specification of the
   DKV: [run_kv] (Model/TimerStoreKV.v) is the transcription of timer_store.go / timer_registry.go over an abstract DKV
   (C03's [StateStore.KV]: put / delete / prefix scan / restore, each returning the next DKV state); the instance is
   [lsm_kv] (Proofs/C03_OverLsm.v): the LSM state machine of Model/Lsm.v (memtables, sealed memtables, flushes, levels,
   compactions) with the invariant of C07, where before every put / delete and before AND in the middle of every prefix
   scan the background steps that the schedule [sc] prescribes are run - for EVERY configuration [lcfg] that C07 accepts,
   EVERY schedule [sc] of flush and compaction steps, and every function [reopen] that re-opens a captured database with
   the contract of C08 (invariant, no read in flight, same contents).  [lsm_keys] are the keys of the LSM's abstract
   contents [absm].  Not covered: read faults (the LSM instance never reports one) and the internals of [reopen]. *)
Theorem timers_exactly_once_in_order_over_lsm :
  forall (lcfg : Lsm.dbcfg) (Hcfg : C07_Refine.cfg_ok lcfg) (reopen : Lsm.db -> Lsm.db)
         (Hreopen : forall st, C03_OverLsm.good st -> C03_OverLsm.good (reopen st) /\ C07_Refine.absm (reopen st) = C07_Refine.absm st)
         (sc : StateStoreLsm.schedule)
         (kgf : bytes -> N) (start size cache : N) (srids : list N) (ops : list op),
    start + size <= 65536 ->
    Forall (op_okc kgf start size) ops ->
    let K := C03_OverLsm.lsm_kv lcfg Hcfg reopen Hreopen in
    let c := {| cf_q := quirks_now; cf_kgf := kgf; cf_start := start; cf_size := size; cf_cache := cache; cf_srids := srids |} in
    let res := run_kv K c ops (sys_new_kv K c (C03_OverLsm.lsm_init lcfg Hcfg sc)) in
    let outs := fst res in
    let sp := spec_run srids ops outs (spec_new srids []) in
    Forall2 (fun out e =>
               match snd e with
               | None => Permutation out (fst e) /\ time_sorted out = true /\ NoDup out
               | Some k => partial_ok k (fst e) out
               end) outs (fst sp) /\
    Permutation (map fst (C03_OverLsm.lsm_contents (snd (snd res)))) (map (enc kgf) (sp_pending (snd sp))) /\
    cache_inv (fst (snd res), map fst (C03_OverLsm.lsm_contents (snd (snd res)))).
Proof.
  intros lcfg Hcfg reopen Hreopen sc kgf start size cache srids ops H Hok.
  exact (timers_over_lsm lcfg Hcfg reopen Hreopen kgf start size cache srids ops sc H Hok).
Qed.
Print Assumptions timers_exactly_once_in_order_over_lsm.

(* non-vacuity of the hypotheses: a re-opening function with the contract exists (C03_OverLsm.reopen_id_ok), and the LSM
   configurations C07 accepts are not empty (Props/C07.v) *)
Example reopen_contract_satisfiable :
  forall st, C03_OverLsm.good st -> C03_OverLsm.good ((fun d : Lsm.db => d) st) /\ C07_Refine.absm ((fun d : Lsm.db => d) st) = C07_Refine.absm st.
Proof. exact C03_OverLsm.reopen_id_ok. Qed.

(* a consumer that stops part-way: what it was handed is not pending any more (unless the consumer itself registered it
   again, later than the watermark), everything else that was pending still is, nothing else appears *)
Theorem stopped_consumer_loses_and_duplicates_nothing :
  forall sender wm during out s, NoDup (sp_pending s) ->
    let s' := snd (sp_advance_partial sender wm during out s) in
    sp_wm s' = ups_min (ups_set sender wm (sp_ups s)) /\
    NoDup (sp_pending s') /\
    (forall x, In x out -> In x (sp_pending s') -> exists a k t, In (a, k, t) during /\ (sp_wm s' < t)%Z /\ x = (k, t)) /\
    (forall x, In x (sp_pending s) -> ~ In x out -> In x (sp_pending s')) /\
    (forall x, In x (sp_pending s') -> In x (sp_pending s) \/ exists a k t, In (a, k, t) during /\ x = (k, t)).
Proof. exact sp_advance_partial_facts. Qed.
Print Assumptions stopped_consumer_loses_and_duplicates_nothing.

(* What the specification says, in the words of the property.  An advance fires exactly the pending timers with
   t <= the new composite watermark, each once; afterwards no pending timer is at or before the watermark, none of the
   fired ones is pending (it cannot fire again unless it is registered again), and every pending timer later than the
   watermark is still pending. *)
Theorem advance_fires_exactly_the_due_timers :
  forall sender wm during s, NoDup (sp_pending s) ->
    let due := fst (sp_advance sender wm during s) in
    let s' := snd (sp_advance sender wm during s) in
    sp_wm s' = ups_min (ups_set sender wm (sp_ups s)) /\
    NoDup due /\
    (forall x, In x due <-> In x (sp_pending s) /\ (snd x <= sp_wm s')%Z) /\
    NoDup (sp_pending s') /\
    (forall x, In x (sp_pending s') -> (sp_wm s' < snd x)%Z) /\
    (forall x, In x due -> ~ In x (sp_pending s')) /\
    (forall x, In x (sp_pending s) -> (sp_wm s' < snd x)%Z -> In x (sp_pending s')).
Proof. exact sp_advance_facts. Qed.
Print Assumptions advance_fires_exactly_the_due_timers.

(* the SetTimer guard: a timer on or before the watermark is ignored; a later one becomes pending, once; the identical
   registration again changes nothing *)
Theorem set_timer_guard_and_idempotence :
  forall k t s,
    ((t <= sp_wm s)%Z -> sp_set k t s = s) /\
    ((sp_wm s < t)%Z -> NoDup (sp_pending s) -> In (k, t) (sp_pending (sp_set k t s)) /\ NoDup (sp_pending (sp_set k t s))) /\
    sp_set k t (sp_set k t s) = sp_set k t s.
Proof. intros k t s. split; [apply sp_set_guard|]. split; [apply sp_set_pending|apply sp_set_idem]. Qed.
Print Assumptions set_timer_guard_and_idempotence.

(* checkpoint + restore keeps exactly the pending timers *)
Theorem restore_keeps_pending :
  forall srids out s, sp_pending (snd (sp_step srids Restore out s)) = sp_pending s.
Proof. exact sp_restore_keeps. Qed.
Print Assumptions restore_keeps_pending.

(* timestamps before 1970 are outside the guard: uint64(UnixNano) wraps, such timers sort last; the model (and the code:
   corpus/timers/pre_epoch.json, known finding) fires them late and out of order *)
Theorem pre_epoch_order_refuted :
  exists ops, forallb op_ok ops = false /\
    fst (run (one_group quirks_now 1000) ops (sys_new (one_group quirks_now 1000) [])) <> spec_out ops /\
    fst (run (one_group quirks_now 1000) ops (sys_new (one_group quirks_now 1000) [])) = [[]; []; [(k1, 5%Z); (k1, (-5)%Z)]].
Proof. exists h_pre_epoch. vm_compute. repeat split; discriminate. Qed.
Print Assumptions pre_epoch_order_refuted.

(* the two repaired defects refute the property on the model of the code as it was (fix: f0e6d7e, 541bd63) *)
Theorem load_marks_all_cached_refutes_C10 :
  exists ops, forallb op_ok ops = true /\
    fst (run (one_group quirks_D12 40) ops (sys_new (one_group quirks_D12 40) [])) = [map (fun i => (k1, Z.of_nat i)) (seq 1 7); []] /\
    spec_out ops = [rev (map (fun i => (k1, Z.of_nat i)) (seq 1 8)); []].
Proof. exists h_D12. vm_compute. repeat split. Qed.
Print Assumptions load_marks_all_cached_refutes_C10.

Theorem push_beyond_cache_max_refutes_C10 :
  exists ops, forallb op_ok ops = true /\
    fst (run (one_group quirks_D13 40) ops (sys_new (one_group quirks_D13 40) [])) =
      [[(k1, 10%Z)]; [(k1, 20%Z); (k1, 30%Z)]; [(k1, 60%Z); (k1, 40%Z); (k1, 50%Z)]] /\
    spec_out ops = [[(k1, 10%Z)]; [(k1, 40%Z); (k1, 30%Z); (k1, 20%Z)]; [(k1, 60%Z); (k1, 50%Z)]].
Proof. exists h_D13. vm_compute. repeat split. Qed.
Print Assumptions push_beyond_cache_max_refutes_C10.

(* non-vacuity: the guard is satisfiable by a history that overflows a 40-byte cache, repeats a registration, restores
   and fires; the theorem's conclusion is then about these concrete outputs *)
Example guard_satisfiable :
  Forall (op_okc (fun _ => 0) 0 1) (h_D13 ++ [Restore; SetTimer k1 70%Z; SetTimer k1 70%Z; Advance 0 maxt]) /\
  fst (run (one_group quirks_now 40) (h_D13 ++ [Restore; SetTimer k1 70%Z; SetTimer k1 70%Z; Advance 0 maxt]) (sys_new (one_group quirks_now 40) []))
    = [[(k1, 10%Z)]; [(k1, 20%Z); (k1, 30%Z); (k1, 40%Z)]; [(k1, 50%Z); (k1, 60%Z)]; [(k1, 70%Z)]] /\
  Forall (op_okc (fun _ => 0) 0 1) h_partial /\
  fst (run (one_group quirks_now 40) h_partial (sys_new (one_group quirks_now 40) []))
    = [[(k1, 10%Z); (k1, 20%Z)]; [(k1, 30%Z); (k1, 40%Z)]; []].
Proof.
  split; [|split; [vm_compute; reflexivity|split; [|vm_compute; reflexivity]]];
  repeat constructor; cbn; unfold Proofs.C10_Codec.t_in, Proofs.C10_Store.in_range; cbn; try lia.
Qed.
