(* C10 - event-time timers fire exactly once, in order, and survive recovery.  Statements only. *)
From RV Require Import Base.Bytes Model.TimerStore Model.TimerRegistry Proofs.C10_Spec Proofs.C10_History.
Open Scope N_scope.

(* timestamps before 1970 are outside the guard: uint64(UnixNano) wraps, such timers sort last; the model (and the code)
   then fire late and out of order *)
Theorem pre_epoch_order_refuted :
  exists ops, forallb op_ok ops = false /\
    fst (run (one_group quirks_now 1000) ops (sys_new (one_group quirks_now 1000) [])) <> fst (spec_run [0] ops (spec_new [0] [])) /\
    fst (run (one_group quirks_now 1000) ops (sys_new (one_group quirks_now 1000) [])) = [[]; [(k1, 5%Z); (k1, (-5)%Z)]].
Proof. exists h_pre_epoch. vm_compute. repeat split; discriminate. Qed.
Print Assumptions pre_epoch_order_refuted.
