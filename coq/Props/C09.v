(* C09 - files needed by retained checkpoints or live tables are never deleted. Statements only; proofs in Proofs/C09_*.v *)
From Coq Require Import List NArith Bool.
Import ListNotations.
From RV Require Import Base.Bytes Model.Ckpt Model.Gc.
Open Scope N_scope.

Theorem fs_put_has : forall f n c, fs_has (fs_put f n c) n = true.
Proof. intros. unfold fs_has, fs_put. cbn [fs_get]. destruct n as [[a b] c0]. unfold fname_eqb. rewrite !N.eqb_refl. reflexivity. Qed.
Print Assumptions fs_put_has.
