(* C09 - files needed by retained checkpoints or live tables are never deleted.
   Statements only; proofs in Proofs/C09_Gc.v. The world model (Model/Gc.v) has one shared file system, several database
   objects with their heaps of table objects, and OGc = collection of every unreachable table object. *)
From Coq Require Import List NArith Bool.
Import ListNotations.
From RV Require Import Base.Bytes Model.Ckpt Model.Gc Proofs.C09_Gc.
Open Scope N_scope.

(* retained_files_exist at full strength: in every reachable state, every file referenced by the persisted document of a
   completed handle that no retention update dropped exists. FALSE of the faithful model (finding D11): after ODrop of the
   object that created a checkpoint's tables, a collection deletes them although the document is still retained. *)
Definition retained_files_exist_full_statement : Prop := retained_files_exist_full 60 1000.

Theorem retained_files_exist_full_refuted : ~ retained_files_exist_full_statement.
Proof. exact full_statement_refuted. Qed.
Print Assumptions retained_files_exist_full_refuted.

Theorem retained_files_exist_refuted :
  let w := run (init_world 60 1000) d11_history in
  handle_dir w 1 = Some 0 /\ handle_files_exist w 1 = false /\
  handle_files_exist (run (init_world 60 1000) (firstn 12 d11_history)) 1 = true.
Proof. exact C09_Gc.retained_files_exist_refuted. Qed.
Print Assumptions retained_files_exist_refuted.

(* the same history with a crash instead of the same-process drop keeps every file: the class of D11 is exactly the drop *)
Theorem crash_keeps_files :
  handle_files_exist (run (init_world 60 1000) (firstn 11 d11_history ++ [OCrash 0; OGc])) 1 = true.
Proof. exact crash_instead_of_drop_keeps_files. Qed.
Print Assumptions crash_keeps_files.

(* retained_files_exist_partial - the step facts the invariant consists of (the induction over whole histories outside the
   D11 class is NOT proved; it is what the correspondence check tests on every run, codes 100/101/103): *)

(* 1. a collection never deletes a file the collecting object can still reach (current level set, retained and pending
      checkpoints, tables held by a flush or compaction between write and swap) *)
Theorem retained_files_exist_partial_own_reachable : forall w x n, In n (gc_one w x) -> ~ In n (reachable_names x).
Proof. exact gc_spares_own_reachable. Qed.
Print Assumptions retained_files_exist_partial_own_reachable.

(* 2. an erroring / unreachable neighbour means keep *)
Theorem neighbour_error_means_keep : forall w x o lo hi,
  o_fromdoc o = true -> x_own x = OwnRange lo hi -> x_nb x = NbErr -> cleanup_deletes w x o = false.
Proof. exact neighbour_error_keeps. Qed.
Print Assumptions neighbour_error_means_keep.

(* 3. a live neighbour that references the table in any checkpoint of its list - loaded or taken by itself - keeps it *)
Theorem neighbour_need_means_keep : forall w x o lo hi y,
  o_fromdoc o = true -> x_own x = OwnRange lo hi ->
  x_nb x = NbLive -> In y (g_dbs w) -> is_live y = true -> needs_table y (o_name o) = true ->
  cleanup_deletes w x o = false.
Proof. exact neighbour_needs_keeps. Qed.
Print Assumptions neighbour_need_means_keep.

(* "unknown / not deployed" is never "not needed": a member of the assembly whose process is gone (its operator is registered
   but has no database: the NeedsTable RPC fails) keeps the file *)
Theorem undeployed_neighbour_means_keep : forall w x o lo hi y,
  o_fromdoc o = true -> x_own x = OwnRange lo hi -> x_nb x = NbOp ->
  In y (g_dbs w) -> x_nb y = NbOp -> x_state y = Crashed -> cleanup_deletes w x o = false.
Proof. exact undeployed_neighbour_keeps. Qed.
Print Assumptions undeployed_neighbour_means_keep.

Theorem needs_table_covers_own_checkpoints : forall x c t, In c (x_ckpts x) -> In t (c_tabs c) -> needs_table x (t_name t) = true.
Proof. exact needs_table_own_checkpoint. Qed.
Print Assumptions needs_table_covers_own_checkpoints.

(* 4. a crashed process runs no cleanup *)
Theorem crashed_objects_delete_nothing : forall w f done dels x,
  x_state x = Crashed -> gc_db w (f, done, dels) x = (f, done ++ [x], dels).
Proof. exact C09_Gc.crashed_objects_delete_nothing. Qed.
Print Assumptions crashed_objects_delete_nothing.

(* dropped_wals_removed: once the retention update HAS BEEN SAVED (its Save returned without error), the WAL file of every
   checkpoint it dropped is gone (a checkpoint is dropped when its id is neither listed nor newer than every listed id); EVERY WAL handle of a checkpoint
   restored from several instances is removed, also when a sibling has already removed one of them ... *)
Theorem dropped_wals_removed : forall w d ids f x c,
  get_db w d = Some x -> retain_empty w d ids = false -> retain_ok w d ids f = true -> In c (x_ckpts x) -> retain_keeps ids c = false ->
  forall n, In n (c_allw c) -> fs_has (g_fs (step_retain w d ids f)) n = false.
Proof. exact retain_saved_removes_dropped_wals. Qed.
Print Assumptions dropped_wals_removed.

(* a retention update that names no checkpoint of the database (a late update of an earlier generation) is refused and changes
   nothing: neither the list nor the pending removals *)
Theorem refused_retention_update_changes_nothing : forall w d ids f, retain_empty w d ids = true -> step_retain w d ids f = w.
Proof. exact refused_retention_changes_nothing. Qed.
Print Assumptions refused_retention_update_changes_nothing.

(* ... and only then: a retention update whose Save fails (storage fault while writing the checkpoints file, or while deleting)
   removes no file at all - the durable list still references the dropped checkpoints and their WALs are still there *)
Theorem failed_retention_save_removes_nothing : forall w d ids f x n,
  get_db w d = Some x -> retain_ok w d ids f = false -> fname_eqb n (x_dir x, 2, 0) = false ->
  fs_has (g_fs (step_retain w d ids f)) n = fs_has (g_fs w) n.
Proof. exact retain_failed_keeps_wals. Qed.
Print Assumptions failed_retention_save_removes_nothing.

(* ---------------------------------------------------------------------------------------------------------------------------
   retained_files_exist_partial: the invariant, by induction over EVERY history of the world model (writes, flush incl. a failing
   table save, compaction, Checkpoint and its asynchronous part incl. failing WAL / list saves, retention update + Save incl.
   failing saves, restore into the same or a fresh directory, collection of every unreachable table object under every
   neighbour answer, crash, drop) whose steps satisfy the monitor [step_ok] (Proofs/C09_Inv.v):
     - a collection removes no file that a party OTHER than the collecting object needs ([gc_ok]; its failure by a table object
       created by a dropped database object is finding D11 - [d11_pattern]; its failure by an object opened from a document is an
       unsound ownership / neighbour answer);
     - the Destroy of a saved retention update removes no WAL another party needs ([destroy_ok]);
     - Checkpoint ids are fresh in the list, operations address live objects, a restore uses a handle that no saved update
       dropped and, into the source's directory, only when no live object writes there; compaction outputs are table files.
   What an object does to itself and to the durable list of its own directory (own collection, own Destroy, own saves -
   successful or failing) is PROVED safe, not assumed. *)
From RV Require Import Proofs.C09_Inv.

Theorem retained_files_exist_partial : forall mem wm ops,
  run_ok (init_world mem wm) ops ->
  let w := run (init_world mem wm) ops in
  (forall id D, In (id, D) (g_handles w) -> ~ In id (g_dropped w) ->
     exists docs d, fs_get (g_fs w) (D, 2, 0) = Some (FCk docs) /\ find_doc docs id = Some d /\
                    fs_has (g_fs w) (dc_wal d) = true /\ forall t, In t (dc_tables d) -> fs_has (g_fs w) (td_name t) = true) /\
  (forall i x t, nth_error (g_dbs w) i = Some x -> x_state x = Live -> In t (d_tables (x_core x)) -> fs_has (g_fs w) (t_name t) = true).
Proof. exact retained_files_exist_invariant. Qed.
Print Assumptions retained_files_exist_partial.

(* the invariant is preserved by every single step *)
Theorem retained_files_exist_step : forall w o, Safe w -> step_ok w o -> Safe (step w o).
Proof. intros w o. apply safe_step. Qed.
Print Assumptions retained_files_exist_step.

(* the class predicate of finding D11, and that it is a failure of the monitor *)
Theorem d11_is_a_monitor_failure : forall w, d11_pattern w -> ~ gc_ok w.
Proof. exact d11_pattern_violates_monitor. Qed.
Print Assumptions d11_is_a_monitor_failure.

(* non-vacuity: a history with a checkpoint, a retention update whose save fails, and a collection satisfies the monitor *)
Example monitored_history_exists :
  run_ok (init_world 60 1000)
    [OPut 0 [0;0;97] [49] false; OCkpt 0 1; OStepCkpt 0 1; OStepCkpt 0 1; ORetainF 0 [1] 1; OGc; OCrash 0; ORestore 1 1 false OwnAll NbNone].
Proof.
  cbn [run_ok]. repeat match goal with |- _ /\ _ => split end; try exact I.
  - intros x H. vm_compute in H. inversion H; subst. split; [reflexivity|]. cbn. intros [].
  - intros x H. vm_compute in H. inversion H; subst. split; [reflexivity|]. intros c n [].
  - intros x H. vm_compute in H. inversion H; subst. split; [reflexivity|]. intros c n [].
  - intros x H. vm_compute in H. inversion H; subst. split; [reflexivity|]. intro E. vm_compute in E. discriminate.
  - intros i x n Hx NC Hn. exfalso.
    destruct i as [|i]; [|destruct i; vm_compute in Hx; discriminate]. vm_compute in Hx. inversion Hx; subst. vm_compute in Hn. exact Hn.
  - split; [vm_compute; intros []|]. intros E. discriminate E.
Qed.

(* several neighbours: the decision of the table cleanup is invariant under permutation of the order in which the answers
   arrive; any claim, failure or missing answer among them keeps the file, and the file goes only when every answer was a
   clean "not needed" *)
Theorem neighbour_answer_order_irrelevant : forall w x o l l',
  Permutation.Permutation l l' ->
  cleanup_deletes w (mkW (x_core x) (x_dir x) (x_own x) (NbSeq l) (x_next x) (x_ckpts x) (x_pending x) (x_flush x) (x_flushq x) (x_comp x) (x_compq x) (x_cktasks x) (x_objs x) (x_state x)) o =
  cleanup_deletes w (mkW (x_core x) (x_dir x) (x_own x) (NbSeq l') (x_next x) (x_ckpts x) (x_pending x) (x_flush x) (x_flushq x) (x_comp x) (x_compq x) (x_cktasks x) (x_objs x) (x_state x)) o.
Proof. exact answer_order_irrelevant. Qed.
Print Assumptions neighbour_answer_order_irrelevant.

Theorem any_claim_or_failure_means_keep : forall w x o lo hi l a,
  o_fromdoc o = true -> x_own x = OwnRange lo hi -> x_nb x = NbSeq l -> In a l ->
  (a = AClaim \/ a = AErr \/ a = ANever) -> cleanup_deletes w x o = false.
Proof. exact any_claim_or_failure_keeps. Qed.
Print Assumptions any_claim_or_failure_means_keep.
