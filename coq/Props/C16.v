(* C16 - source positions match the barrier cut; every split has exactly one reader. Statements only. *)
From Coq Require Import List NArith.
From RV Require Import Model.RunnerLoop Model.SplitTracker Model.Splitters Proofs.C16_Runner.
Import ListNotations.
Open Scope N_scope.

(* The split positions the runner reports for checkpoint [id] cover exactly the records it emitted ahead of
   barrier [id], for every sequence of assignments, read batches and checkpoints (merged output stream). *)
Theorem positions_match_cut : forall steps, cut_exact steps.
Proof. exact positions_match_cut_all. Qed.
Print Assumptions positions_match_cut.

(* ... and in every operator's stream, for every routing of records to operators. *)
Theorem positions_match_cut_per_operator : forall steps, cut_exact_ops steps.
Proof. exact positions_match_cut_ops. Qed.
Print Assumptions positions_match_cut_per_operator.

(* non-vacuity: a history with a checkpoint between two reads *)
Example cut_example :
  let steps := [SAssign [(1, 0); (2, 5)]; SRead [(1, 2); (2, 1)]; SCkpt 7; SRead [(2, 2)]] in
  reports (run steps) = [(7, [(1, 2); (2, 6)])] /\
  before_bar 7 (out (run steps)) = [Rec 1 0; Rec 1 1; Rec 2 5] /\
  after_bar 7 (out (run steps)) = [Rec 2 6; Rec 2 7].
Proof. vm_compute. repeat split. Qed.
