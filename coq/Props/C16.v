(* C16 - source positions match the barrier cut; every split has exactly one reader. Statements only. *)
From Coq Require Import List NArith.
From RV Require Import Model.RunnerLoop Model.SplitTracker Model.Splitters
                       Proofs.C16_Runner Proofs.C16_Static Proofs.C16_Kinesis Proofs.C16_Assign Proofs.C16_Http Model.HttpReader Proofs.C16_KinReader Model.KinReader.
From Coq Require Import Permutation.
Import ListNotations.
Open Scope N_scope.

(* ---- positions_match_cut ---- *)

(* The split positions the runner reports for checkpoint [id] cover exactly the records it emitted ahead of
   barrier [id]: for every sequence of split assignments, read batches and checkpoints (merged output stream). *)
Theorem positions_match_cut : forall steps, cut_exact steps.
Proof. exact positions_match_cut_all. Qed.
Print Assumptions positions_match_cut.

(* ... and in every operator's stream, for every routing of records to operators. *)
Theorem positions_match_cut_per_operator : forall steps, cut_exact_ops steps.
Proof. exact positions_match_cut_ops. Qed.
Print Assumptions positions_match_cut_per_operator.

(* the real httpapi reader (bounded topic of n records, server pages of b): after any number of reads from a
   start cursor c0 the records emitted are exactly the consecutive topic records from c0 and Checkpoint() reports
   c0 + their number - also after the last page, which carries records together with end of input *)
Theorem positions_match_cut_httpapi_reader : forall n b k c0, c0 <= n ->
  let '(r, evs) := h_reads n b k (h_assign c0) in
  evs = h_range c0 (length evs) /\ h_checkpoint r = c0 + N.of_nat (length evs) /\ h_checkpoint r <= n.
Proof. exact http_cursor_matches_emitted. Qed.
Print Assumptions positions_match_cut_httpapi_reader.

(* the real kinesis reader: one ReadEvents call emits the next consecutive records of exactly one held shard and
   moves that shard's position behind them, or reports it finished (closed and fully emitted) and drops it; every
   other held shard keeps its position; Checkpoint() lists every held shard with its position *)
Theorem positions_match_cut_kinesis_reader : forall limit avail closed r r' recs fin,
  kr_read limit avail closed r = (r', recs, fin) ->
  (kr_shards r = [] /\ r' = r /\ recs = [] /\ fin = []) \/
  (kr_shards r <> [] /\ nth_error (kr_shards r) (kr_idx r) = None /\ r' = r /\ recs = [] /\ fin = []) \/
  exists s p e, nth_error (kr_shards r) (kr_idx r) = Some (s, p) /\ p <= e /\
    recs = map (fun i => (s, i)) (h_range p (N.to_nat (e - p))) /\ (e <= N.max p (lookupN avail s)) /\
    ((fin = [] /\ forall x, In x (kr_shards r') <-> x = (s, e) \/ exists j, j <> kr_idx r /\ nth_error (kr_shards r) j = Some x) \/
     (fin = [s] /\ memN s closed = true /\ lookupN avail s <= e /\
      forall x, In x (kr_shards r') <-> exists j, j <> kr_idx r /\ nth_error (kr_shards r) j = Some x)).
Proof. exact kinesis_read_step. Qed.
Print Assumptions positions_match_cut_kinesis_reader.

Theorem restore_resumes_positions_kinesis_reader : forall r,
  (forall x, In x (kr_shards r) <-> In x (kr_checkpoint r)) /\
  kr_shards (kr_assign (kr_checkpoint r) kr_new) = kr_checkpoint r.
Proof. intro r. split; [apply kinesis_checkpoint_complete | apply kinesis_restore_resumes]. Qed.
Print Assumptions restore_resumes_positions_kinesis_reader.

(* Job.start: whatever is published while the assembly is being deployed (cur_after_deploy arbitrary), the source
   splitter is started from the job checkpoint the operators were deployed from *)
Theorem restore_resumes_positions_same_checkpoint : forall cur_at_read cur_after_deploy,
  fst (job_start cur_at_read cur_after_deploy) = snd (job_start cur_at_read cur_after_deploy) /\
  fst (job_start cur_at_read cur_after_deploy) = cur_at_read.
Proof. intros. split; reflexivity. Qed.
Print Assumptions restore_resumes_positions_same_checkpoint.

(* ---- restore_resumes_positions ---- *)

(* runner: a split assigned with cursor c0 (e.g. the checkpointed position) never emits a record below c0 *)
Theorem restore_resumes_positions : forall steps s c0, first_assigned steps s = Some c0 ->
  forall i, In (Rec s i) (out (run steps)) -> c0 <= i.
Proof. exact resume_from_cursor. Qed.
Print Assumptions restore_resumes_positions.

(* Kinesis splitter: every assignment carries the checkpointed cursor of its shard, to a runner index < n *)
Theorem restore_resumes_positions_kinesis : forall n cs shards r i c,
  In (r, i, c) (assign_out n cs shards) -> c = cursor_of cs i /\ r < n /\ exists s, In s shards /\ sid s = i.
Proof. exact assignment_carries_cursor. Qed.
Print Assumptions restore_resumes_positions_kinesis.

(* embedded splitter: the cursor handed out on restore is a checkpointed reader state of that split *)
Theorem restore_resumes_positions_embedded : forall states split c,
  embedded_cursor states split = Some c -> In (split, c) states.
Proof. exact embedded_resume. Qed.
Print Assumptions restore_resumes_positions_embedded.

(* ---- one_reader_per_split ---- *)

Theorem one_reader_per_split_embedded : forall split_count runners, (1 <= runners)%nat ->
  length (embedded_assign split_count runners) = runners /\
  forall i, i < N.of_nat split_count ->
    exists j, (j < runners)%nat /\ In i (nth j (embedded_assign split_count runners) []) /\
              forall k, In i (nth k (embedded_assign split_count runners) []) -> k = j.
Proof. exact one_reader_embedded. Qed.
Print Assumptions one_reader_per_split_embedded.

Theorem one_reader_per_split_httpapi : forall runners states, (1 <= runners)%nat ->
  httpapi_assign runners states = [(0, httpapi_cursor states)].
Proof. exact one_reader_httpapi. Qed.
Print Assumptions one_reader_per_split_httpapi.

(* source runner: assignment rounds go through a one-slot channel the event loop consumes; a HandleAssignSplits
   call is acknowledged only when its round is in the slot. For every interleaving of calls and loop turns the
   acknowledged rounds are the delivered ones plus at most the one in the slot, in order - none is dropped or
   duplicated; after the loop's next turn they are equal. *)
Theorem one_reader_per_split_runner : forall steps,
  acked (a_run steps) = delivered (a_run steps) ++ slot_list (a_run steps) /\
  (slot (a_run steps) = None -> concat (delivered (a_run steps)) = concat (acked (a_run steps))) /\
  delivered (a_run (steps ++ [ATake])) = acked (a_run (steps ++ [ATake])).
Proof. exact assignment_rounds_fifo. Qed.
Print Assumptions one_reader_per_split_runner.

Example assignment_rounds_example :
  let st := a_run [AOffer [(1, 0)]; AOffer [(2, 0)]; ATake; AOffer [(2, 0)]; AOffer [(3, 5)]; ATake; ATake] in
  acked st = [[(1, 0)]; [(2, 0)]] /\ delivered st = [[(1, 0)]; [(2, 0)]] /\ slot st = None.
Proof. vm_compute. repeat split. Qed.

(* WHICH runner reads a split is not part of the property. For ANY function choosing a runner index < n, grouping the
   splits by it is a partition: every split is in exactly one runner's list. *)
Theorem one_reader_per_split_any_policy : forall (A : Type) (f : A -> N) (l : list A) n, (forall x, In x l -> f x < n) ->
  Permutation (flat_map (fun r => filter (fun x => f x =? r) l) (iota_from 0 (N.to_nat n))) l.
Proof. intros A. exact (@any_policy_is_a_partition A). Qed.
Print Assumptions one_reader_per_split_any_policy.

(* one AssignSplits call of the Kinesis splitter lists every pending shard exactly once, with its checkpointed cursor,
   under a runner index < n - for every assignment function into range (the code's uniformlyAssignShard is one) *)
Theorem one_reader_per_split_kinesis_call : forall f n cs shards, (forall s, In s shards -> f s < n) ->
  Permutation (map (fun a => snd (fst a)) (assign_out_with f n cs shards)) (map sid shards) /\
  forall r i c, In (r, i, c) (assign_out_with f n cs shards) ->
    c = cursor_of cs i /\ r < n /\ exists s, In s shards /\ sid s = i /\ f s = r.
Proof.
  intros f n cs shards Hf. split; [apply assign_out_with_each_once; exact Hf|].
  intros r i c H. apply (assignment_carries_cursor_with f n cs shards r i c H).
Qed.
Print Assumptions one_reader_per_split_kinesis_call.

(* ---- one_reader_per_split (Kinesis) and children_after_parents ---- *)

(* Every shard handed out in a valid history after a fresh Start (stream growth by splits/merges, discovery
   rounds, finished shards in any order): it was not handed out before, it is not finished, and all its parents
   are finished. *)
Theorem children_after_parents : forall st pre op post c,
  wf_stream st ->
  let s0 := started st (tick_tracker st new_tracker) [] in
  valid_history s0 (pre ++ op :: post) ->
  let s := run_ops s0 pre in
  In c (pending s op) ->
  ~ In (sid c) (hist s) /\ mem (sid c) (fin (mid s op)) = false /\
  forall q, In q (parents c) -> mem q (fin (mid s op)) = true.
Proof. exact history_hands_out_correctly. Qed.
Print Assumptions children_after_parents.

(* the first assignment of a fresh Start hands out only shards without parents *)
Theorem children_after_parents_at_start : forall st c, wf_stream st ->
  In c (available (tick_tracker st new_tracker)) -> parents c = [].
Proof. exact fresh_start_hands_out_roots. Qed.
Print Assumptions children_after_parents_at_start.

(* FULL STATEMENT (checkpoint/restore of the splitter at any point) is refuted on the current code, see
   children_after_parents_restore_refuted. What holds: when the checkpoint is taken in a state where no known
   shard at or below LastAssignedShardId is unassigned ([no_loss]), the restored splitter satisfies the same
   invariant again, on any later extension of the stream, so the run after the restore behaves as above.
   Missing for the full statement: the checkpoint format would have to carry the known, unassigned shards. *)
Theorem children_after_parents_restore_partial : forall s st' pre op post c,
  Inv s -> no_loss (trk_ s) ->
  (exists sh, st' = stream s ++ sh /\ wf_stream st' /\ forall x y, In x sh -> In y (stream s) -> sid y < sid x) ->
  let s0 := started st' (tick_tracker st' (restored_tracker (trk_ s))) (fin s) in
  valid_history s0 (pre ++ op :: post) ->
  let s1 := run_ops s0 pre in
  In c (pending s1 op) ->
  ~ In (sid c) (hist s1) /\ mem (sid c) (fin (mid s1 op)) = false /\
  forall q, In q (parents c) -> mem q (fin (mid s1 op)) = true.
Proof. exact history_after_restore_hands_out_correctly. Qed.
Print Assumptions children_after_parents_restore_partial.

Theorem children_after_parents_restore_start_partial : forall s st' c,
  Inv s -> no_loss (trk_ s) ->
  (exists sh, st' = stream s ++ sh /\ wf_stream st' /\ forall x y, In x sh -> In y (stream s) -> sid y < sid x) ->
  In c (available (tick_tracker st' (restored_tracker (trk_ s)))) ->
  mem (sid c) (fin s) = false /\ forall q, In q (parents c) -> mem q (fin s) = true.
Proof. exact restore_start_hands_out_correctly. Qed.
Print Assumptions children_after_parents_restore_start_partial.

(* the invariant is reachable: every valid history from a fresh start satisfies it *)
Theorem kinesis_invariant : forall st ops, wf_stream st ->
  valid_history (started st (tick_tracker st new_tracker) []) ops ->
  Inv (run_ops (started st (tick_tracker st new_tracker) []) ops).
Proof. intros st ops Hwf Hv. apply inv_history; [apply inv_fresh_start; exact Hwf|exact Hv]. Qed.
Print Assumptions kinesis_invariant.

(* Refutation of the full statement on the model of the current code (known finding, code 105): a reachable
   state with a known, unassigned shard below LastAssignedShardId; after restoring from its checkpoint the
   shards 3 and 4 are never handed out, and their merge child 7 is handed out although they were never read. *)
Theorem children_after_parents_restore_refuted :
  ~ no_loss (trk_ d24b_before) /\
  (mem 1 (fin d24b_after) = true /\ ~ In 3 (hist d24b_after) /\ ~ In 4 (hist d24b_after)) /\
  (In 7 (hist d24b_after2) /\ mem 3 (fin d24b_after2) = false /\ mem 4 (fin d24b_after2) = false).
Proof. exact d24b_refutation. Qed.
Print Assumptions children_after_parents_restore_refuted.

(* ---- non-vacuity ---- *)

Example cut_example :
  let steps := [SAssign [(1, 0); (2, 5)]; SRead [(1, 2); (2, 1)]; SCkpt 7; SRead [(2, 2)]] in
  reports (run steps) = [(7, [(1, 2); (2, 6)])] /\
  before_bar 7 (out (run steps)) = [Rec 1 0; Rec 1 1; Rec 2 5] /\
  after_bar 7 (out (run steps)) = [Rec 2 6; Rec 2 7].
Proof. vm_compute. repeat split. Qed.

(* a valid history with a withheld child: 1 is split into 2,3; they are handed out only after 1 is finished *)
Example kinesis_example :
  let st := [mkShard 1 [] 0 9] in
  let s0 := started st (tick_tracker st new_tracker) [] in
  let ops := [OAppend [mkShard 2 [1] 0 4; mkShard 3 [1] 5 9]; OTick; OFinish [1]] in
  hist s0 = [1] /\ hist (run_ops s0 [OAppend [mkShard 2 [1] 0 4; mkShard 3 [1] 5 9]; OTick]) = [1] /\
  hist (run_ops s0 ops) = [2; 3; 1].
Proof. vm_compute. repeat split. Qed.

(* the repaired defects stay recognisable on the models of the old code *)
Example d28_old_code : map sid (snd (old_tick d24b_stream
    (fst (old_finish [5] (fst (old_finish [1] (fst (old_finish [2] (fst (old_tick d24b_stream new_tracker)))))))))) = [5].
Proof. exact d28_old_reassigns_finished. Qed.
