(* C15 - the job runs only on a full, live assembly and checkpointing resumes. Statements only (first version). *)
From Coq Require Import List NArith Bool.
From RV Require Import Model.JobSM.
Import ListNotations.
Open Scope N_scope.

Theorem deploy_count_first : forall c s, length (d_ops (hd (MkDep [] [] [] true) (snd (start_begin c s)))) = length (firstn (wc c) (ops s)).
Proof. intros. reflexivity. Qed.
Print Assumptions deploy_count_first.
