(* C15 - the job runs only on a full, live assembly and checkpointing resumes. Statements only.
   Model: Model/JobSM.v (instance [current] = the code after the repairs D18a/D18b/D30; [original] = before).
   [exec c l] is the state after ANY history l of registrations (= heartbeats), deregistrations, clock
   advances (heartbeat expiry), deployment endings (ok / failed), checkpoint ticks and acks: faults during a
   deployment and during an in-flight checkpoint are histories like any other.
   "Eventually" of the property text is stated as bounded response: given the tick and the acks of the members,
   completion follows within exactly those steps; real time-outs are exercised by the harness, not proved. *)
From Coq Require Import List NArith Bool.
From RV Require Import Model.JobSM Proofs.C15_JobSM.
Import ListNotations.
Open Scope N_scope.

(* ---- deploy_only_full_live: every Deploy fan-out goes to exactly WorkerCount distinct operators and WorkerCount
   distinct source runners, each registered and within the heartbeat deadline in the state that formed the assembly. *)
Theorem deploy_only_full_live : forall c l o d,
  let s' := fst (step c (exec c l) o) in
  In d (o_deps (snd (step c (exec c l) o))) ->
  length (d_ops d) = wc c /\ length (d_srs d) = wc c /\ NoDup (d_ops d) /\ NoDup (d_srs d) /\
  (forall n, In n (d_ops d) -> In n (ops s') /\ live_in c s' (true, n)) /\
  (forall n, In n (d_srs d) -> In n (srs s') /\ live_in c s' (false, n)).
Proof. exact deploy_only_full_live_proof. Qed.
Print Assumptions deploy_only_full_live.

(* WHICH registered live nodes NewAssembly picks when more than WorkerCount are registered is free: the choice is an input
   of the model (op OChoose: arbitrary lists; an admissible one - ascending, exactly WorkerCount, registered after the
   purge - is used, otherwise the lowest ids). Every theorem of this file quantifies over all histories, hence over every
   choice at every assembly. Conversely every admissible choice is realised: *)
Theorem any_admissible_choice_is_deployed : forall c l co cr o s1,
  let s0 := fst (step c (exec c l) (OChoose co cr)) in
  pre c s0 o = Some s1 -> stat s1 = Init \/ stat s1 = Paused ->
  admissible (wc c) (ops (purge c s1)) co = true -> admissible (wc c) (srs (purge c s1)) cr = true ->
  o_deps (snd (step c s0 o)) = [MkDep co cr (map (fun _ => completed (sto s1)) co) true] /\
  a_ops (fst (step c s0 o)) = co /\ a_srs (fst (step c s0 o)) = cr.
Proof. exact any_admissible_choice_is_deployed_proof. Qed.
Print Assumptions any_admissible_choice_is_deployed.

(* ---- unhealthy_leaves_running: whenever the job has looked at its cluster (any registration, deregistration or
   deployment ending) and is Running, every member of its assembly is registered and within the deadline ... *)
Theorem unhealthy_leaves_running : forall c l o s1,
  pre c (exec c l) o = Some s1 ->
  let s' := fst (step c (exec c l) o) in
  stat s' = Running ->
  (forall n, In n (a_ops s') -> In n (ops s') /\ live_in c s' (true, n)) /\
  (forall n, In n (a_srs s') -> In n (srs s') /\ live_in c s' (false, n)).
Proof. exact running_only_live_proof. Qed.
Print Assumptions unhealthy_leaves_running.

(* ... so a deregistration of a member stops the use of the assembly at once: the job is Paused, or - when enough live
   nodes are registered and the next assembly is taken in the same evaluation - already Starting the next one ... *)
Theorem deregistered_operator_pauses : forall c l n,
  stat (exec c l) = Running -> In n (a_ops (exec c l)) -> stat (fst (step c (exec c l) (ODeregOp n))) = Paused \/ stat (fst (step c (exec c l) (ODeregOp n))) = Starting.
Proof. exact deregistered_operator_pauses_proof. Qed.
Print Assumptions deregistered_operator_pauses.

Theorem deregistered_runner_pauses : forall c l n,
  stat (exec c l) = Running -> In n (a_srs (exec c l)) -> stat (fst (step c (exec c l) (ODeregSr n))) = Paused \/ stat (fst (step c (exec c l) (ODeregSr n))) = Starting.
Proof. exact deregistered_runner_pauses_proof. Qed.
Print Assumptions deregistered_runner_pauses.

(* ... and a member whose last heartbeat is older than the deadline stops it at the next event of any other node. *)
Theorem expired_operator_pauses : forall c l n t o s1,
  stat (exec c l) = Running -> In n (a_ops (exec c l)) ->
  hb_get (true, n) (hb (exec c l)) = Some t -> t + deadline c < now (exec c l) ->
  pre c (exec c l) o = Some s1 -> o <> ORegOp n ->
  stat (fst (step c (exec c l) o)) = Paused \/ stat (fst (step c (exec c l) o)) = Starting.
Proof. exact expired_operator_pauses_proof. Qed.
Print Assumptions expired_operator_pauses.

Theorem expired_runner_pauses : forall c l n t o s1,
  stat (exec c l) = Running -> In n (a_srs (exec c l)) ->
  hb_get (false, n) (hb (exec c l)) = Some t -> t + deadline c < now (exec c l) ->
  pre c (exec c l) o = Some s1 -> o <> ORegSr n ->
  stat (fst (step c (exec c l) o)) = Paused \/ stat (fst (step c (exec c l) o)) = Starting.
Proof. exact expired_runner_pauses_proof. Qed.
Print Assumptions expired_runner_pauses.

(* the checkpoint ticker (created by the "running" task of every successful start, stopped by every pause) is alive
   exactly while the job is Running: in particular it IS armed in every Running state, after any number of recoveries *)
Theorem ticker_armed_iff_running : forall c l,
  q_ticker_once (qk c) = false -> (ticker (exec c l) = 1 <-> stat (exec c l) = Running).
Proof. exact ticker_armed_iff_running_proof. Qed.
Print Assumptions ticker_armed_iff_running.

(* a tick (the harness ticks at any time; only a ticker that is alive fires) sends StartCheckpoint nowhere unless the job
   is Running, and then to the runners of its assembly *)
Theorem tick_only_running : forall c l,
  q_ticker_once (qk c) = false ->
  o_started (snd (step c (exec c l) OTick)) <> [] ->
  stat (exec c l) = Running /\ o_started (snd (step c (exec c l) OTick)) = a_srs (exec c l).
Proof. exact tick_only_running_proof. Qed.
Print Assumptions tick_only_running.

(* ---- redeploy_from_latest: a deployment addresses every member of the new assembly, tells every operator the
   store's CurrentCheckpoint, and the splitter resumes from that same checkpoint when the deployment succeeds;
   it happens as soon as the job is waiting and enough nodes are registered; the current checkpoint is the latest
   published one (publications strictly increase it). *)
Theorem redeploy_from_latest : forall c l o d,
  let s' := fst (step c (exec c l) o) in
  In d (o_deps (snd (step c (exec c l) o))) ->
  stat s' = Starting /\ d_ops d = a_ops s' /\ d_srs d = a_srs s' /\
  d_ck d = map (fun _ => completed (sto s')) (d_ops d) /\ dep_ck s' = completed (sto s').
Proof. exact redeploy_from_latest_proof. Qed.
Print Assumptions redeploy_from_latest.

Theorem splitter_resumes_from_deployed_checkpoint : forall c s,
  stat s = Starting -> o_split (snd (step c s (OFin true))) = dep_ck s + 1.
Proof. exact splitter_resumes_from_deployed_checkpoint_proof. Qed.
Print Assumptions splitter_resumes_from_deployed_checkpoint.

Theorem redeploy_when_enough : forall c l o s1,
  pre c (exec c l) o = Some s1 -> stat s1 = Init \/ stat s1 = Paused ->
  let s' := fst (step c (exec c l) o) in
  (stat s' = Starting /\ exists d, o_deps (snd (step c (exec c l) o)) = [d]) \/
  (stat s' = stat s1 /\ ((length (ops s') < wc c)%nat \/ (length (srs s') < wc c)%nat)).
Proof. exact redeploy_when_enough_proof. Qed.
Print Assumptions redeploy_when_enough.

Theorem published_is_newer : forall c l o,
  q_install_superseded (qk c) = false ->
  completed (sto (exec c l)) <= completed (sto (fst (step c (exec c l) o))) /\
  (o_published (snd (step c (exec c l) o)) <> 0 ->
   completed (sto (fst (step c (exec c l) o))) = o_published (snd (step c (exec c l) o)) /\
   completed (sto (exec c l)) < o_published (snd (step c (exec c l) o))).
Proof. exact published_is_newer_proof. Qed.
Print Assumptions published_is_newer.

(* the checkpoint every deployment is told to restore (redeploy_from_latest: the store's current checkpoint) is the
   GREATEST id published so far in the history, 0 if none - also when the file write of an older, fully acknowledged
   checkpoint is slow (OHoldW / OReleaseW) and returns after a newer checkpoint was created, acknowledged and published *)
Theorem current_is_max_published : forall c l,
  q_install_superseded (qk c) = false ->
  completed (sto (exec c l)) = max_pub (snd (run c init l)) 0.
Proof. exact current_is_max_published_proof. Qed.
Print Assumptions current_is_max_published.

(* ---- checkpoints_resume (repaired code): after ANY history that leaves the job Running - whatever failed before,
   during a deployment or with a checkpoint OR SAVEPOINT in flight (the histories contain OSavepoint: a requested
   savepoint and a periodic checkpoint upgraded to one are pending snapshots like any other) - a tick, and equally a
   savepoint request, starts a fresh checkpoint on the runners of the running assembly (the tick acts only through a
   ticker that is alive: the model's OTick is a no-op otherwise, so the statement includes that the ticker is armed), and the acks of its members, in
   any order, are all accepted and publish it ([holdw = false]: the storage does not hold the snapshot file write). *)
Theorem checkpoints_resume : forall c l acks starter,
  q_keep_pending (qk c) = false -> q_splitters_accumulate (qk c) = false -> q_ticker_once (qk c) = false -> (0 < wc c)%nat ->
  starter = OTick \/ starter = OSavepoint ->
  let s := exec c l in
  stat s = Running -> pend (sto s) = None -> holdw s = false ->
  let id := ctr (sto s) + 1 in
  NoDup acks -> (forall a, In a acks <-> member_ack s id a) ->
  let s1 := fst (step c s starter) in
  let r := run c s1 acks in
  o_started (snd (step c s starter)) = a_srs s /\ o_cid (snd (step c s starter)) = id /\
  o_res (snd (step c s starter)) = 0 /\
  (forall p, pend (sto s1) = Some p -> p_sp p = starter_sp starter) /\
  completed (sto s) < id /\
  pend (sto (fst r)) = None /\ completed (sto (fst r)) = id /\
  Forall (fun b => o_res b = 0) (snd r) /\ (exists b, In b (snd r) /\ o_published b = id) /\
  stat (fst r) = Running.
Proof. exact checkpoints_resume_proof. Qed.
Print Assumptions checkpoints_resume.

(* every deployment begins with NOTHING pending, whatever kind of snapshot was in flight when the assembly was lost;
   so the hypothesis [pend = None] of checkpoints_resume holds when the new assembly becomes Running *)
Theorem start_clears_pending : forall c l o d,
  q_keep_pending (qk c) = false -> q_keep_savepoint (qk c) = false ->
  In d (o_deps (snd (step c (exec c l) o))) -> pend (sto (fst (step c (exec c l) o))) = None.
Proof. exact start_clears_pending_proof. Qed.
Print Assumptions start_clears_pending.

(* a savepoint request on a Running job with a periodic checkpoint in flight folds into it: same id, nothing started,
   members and ack flags kept (so checkpoints_resume_inflight applies to it unchanged) *)
Theorem savepoint_folds : forall c s p,
  stat s = Running -> pend (sto s) = Some p -> p_sp p = false ->
  step c s OSavepoint =
  (set_sto s (MkStore (Some (MkPending (p_id p) (p_ops p) (p_srs p) true)) (completed (sto s)) (ctr (sto s)) (splitters (sto s))),
   MkObs (status_code Running) [] [] (p_id p) 0 0 0).
Proof. exact savepoint_folds_proof. Qed.
Print Assumptions savepoint_folds.

(* a checkpoint still in flight in a Running state belongs to the running assembly (never to a lost one), and the
   acks still missing complete it *)
Theorem checkpoints_resume_inflight : forall c l p acks,
  q_keep_pending (qk c) = false -> q_keep_savepoint (qk c) = false -> q_splitters_accumulate (qk c) = false ->
  let s := exec c l in
  stat s = Running -> pend (sto s) = Some p -> holdw s = false ->
  NoDup acks -> (forall a, In a acks <-> ack_of (p_id p) p a) -> acks <> [] ->
  (forall a, ack_of (p_id p) p a -> member_ack s (p_id p) a) /\
  pend (sto (fst (run c s acks))) = None /\ completed (sto (fst (run c s acks))) = p_id p /\
  Forall (fun b => o_res b = 0) (snd (run c s acks)) /\ stat (fst (run c s acks)) = Running.
Proof. exact checkpoints_resume_inflight_proof. Qed.
Print Assumptions checkpoints_resume_inflight.

(* the surviving operator: after a (re)deploy the barriers of the next checkpoint, from all its runners in any
   order, are accepted and the last one completes the checkpoint - whatever slot the failed assembly left: empty, half
   aligned, or complete but unreported because the job refused the ack ([o] is arbitrary) *)
Theorem operator_slot_resumes : forall q o runners order id,
  q_keep_slot q = false -> q_keep_complete_slot q = false -> sorted runners -> runners <> [] ->
  NoDup order -> (forall x, In x order <-> In x runners) ->
  let o1 := oper_deploy q o runners in
  exists pre_rs, snd (oper_barriers o1 order id true) = pre_rs ++ [2] /\ Forall (fun r => r = 0) pre_rs /\
                 o_slot (fst (oper_barriers o1 order id true)) = None.
Proof. exact operator_slot_resumes_proof. Qed.
Print Assumptions operator_slot_resumes.

(* ---- the code before the repairs violates checkpoints_resume (D18a, D30, D18b): computed witnesses, each
   replayed on the implementation by corpus/job/*.json *)
Theorem checkpoints_resume_refuted_keep_pending :
  let c := cfg_of (MkQuirks true false false false false false false) in
  let s := exec c hist_d18 in
  stat s = Running /\ a_ops s = [1] /\ a_srs s = [0] /\
  forall k, let s' := fst (run c s (repeat OTick k ++ [OAckOp 1 1; OAckSr 0 1; OAckOp 1 2; OAckSr 0 2; OTick])) in
            completed (sto s') = 0 /\ o_started (snd (step c s' OTick)) = [].
Proof. exact checkpoints_resume_refuted_keep_pending_proof. Qed.
Print Assumptions checkpoints_resume_refuted_keep_pending.

Theorem checkpoints_resume_refuted_splitters :
  let c := cfg_of (MkQuirks false true false false false false false) in
  let s := exec c hist_d30 in
  stat s = Running /\ a_ops s = [1] /\ a_srs s = [0] /\ pend (sto s) = None /\
  map o_res (snd (run c s [OTick; OAckOp 1 2; OAckSr 0 2])) = [0; 0; 2] /\
  completed (sto (fst (run c s [OTick; OAckOp 1 2; OAckSr 0 2]))) = 1.
Proof. exact checkpoints_resume_refuted_splitters_proof. Qed.
Print Assumptions checkpoints_resume_refuted_splitters.

(* seeded C15-3 (an abort that spares savepoints): with a requested savepoint, or a checkpoint upgraded to one, in flight
   when the operator leaves, the new assembly runs but ticks start nothing, savepoint requests fail, and no ack completes anything *)
Theorem checkpoints_resume_refuted_keep_savepoint :
  let c := cfg_of (MkQuirks false false false true false false false) in
  forall h, h = hist_sp_a \/ h = hist_sp_b ->
  let s := exec c h in
  stat s = Running /\ a_ops s = [1] /\ a_srs s = [0] /\
  step c s OTick = (s, mk_obs s []) /\ o_res (snd (step c s OSavepoint)) = 1 /\ fst (step c s OSavepoint) = s /\
  completed (sto (fst (run c s [OAckOp 1 1; OAckSr 0 1; OAckOp 1 2; OAckSr 0 2]))) = 0.
Proof. exact checkpoints_resume_refuted_keep_savepoint_proof. Qed.
Print Assumptions checkpoints_resume_refuted_keep_savepoint.

(* seeded C15r2-1 (ticker created once only): after the first recovery the job is Running with a stopped ticker *)
Theorem checkpoints_resume_refuted_ticker_once :
  let c := cfg_of (MkQuirks false false false false true false false) in
  let s := exec c hist_tk in
  stat s = Running /\ a_ops s = [1] /\ a_srs s = [0] /\ pend (sto s) = None /\ completed (sto s) = 1 /\
  ticker s = 2 /\ step c s OTick = (s, mk_obs s []).
Proof. exact checkpoints_resume_refuted_ticker_once_proof. Qed.
Print Assumptions checkpoints_resume_refuted_ticker_once.

(* seeded C15r6-3 (the written snapshot is installed over a newer published one) and the repaired code on the same history *)
Theorem redeploy_from_latest_refuted_install_superseded :
  let deps q := o_deps (last (snd (run (cfg_of q) init hist_slow_write)) (mk_obs init [])) in
  map o_published (snd (run (cfg_of (MkQuirks false false false false false false true)) init hist_slow_write))
    = [0; 0; 0; 0; 0; 0; 0; 0; 0; 2; 1; 0; 0] /\
  deps (MkQuirks false false false false false false true) = [MkDep [1] [0] [1] true] /\
  map o_published (snd (run (cfg_of current) init hist_slow_write)) = [0; 0; 0; 0; 0; 0; 0; 0; 0; 2; 0; 0; 0] /\
  deps current = [MkDep [1] [0] [2] true].
Proof. exact redeploy_from_latest_refuted_install_superseded_proof. Qed.
Print Assumptions redeploy_from_latest_refuted_install_superseded.

Theorem operator_slot_refuted :
  let o1 := fst (oper_barriers (oper_deploy original (MkOper [] None) [0; 1]) [0] 4 true) in
  snd (oper_barriers (oper_deploy original o1 [0; 1]) [1; 0] 6 true) = [1; 3].
Proof. exact operator_slot_refuted_proof. Qed.
Print Assumptions operator_slot_refuted.

(* seeded C15r5-3 (deploy clears only a half-aligned slot) and the repaired code on the same history *)
Theorem operator_slot_refuted_keep_complete :
  let q := MkQuirks false false false false false true false in
  let o1 := fst (oper_barriers (oper_deploy q (MkOper [] None) [0; 1]) [0; 1] 4 false) in
  snd (oper_barriers (oper_deploy q (MkOper [] None) [0; 1]) [0; 1] 4 false) = [0; 5] /\
  o_slot o1 = Some (MkSlot 4 []) /\
  snd (oper_barriers (oper_deploy q o1 [0; 1]) [1; 0] 5 true) = [1; 1] /\
  snd (oper_barriers (oper_deploy current o1 [0; 1]) [1; 0] 5 true) = [0; 2].
Proof. exact operator_slot_refuted_keep_complete_proof. Qed.
Print Assumptions operator_slot_refuted_keep_complete.

(* observed and modelled, not required by the property: a refused ack WITHOUT a redeployment leaves a slot that rejects
   every later checkpoint's barriers *)
Theorem refused_slot_without_redeploy : forall runners id id' sender accept,
  id' <> id ->
  let o := MkOper runners (Some (MkSlot id [])) in
  oper_barrier o sender id' accept = (o, 1) /\
  oper_barrier o sender id accept = oper_finish o id accept.
Proof. exact refused_slot_without_redeploy_proof. Qed.
Print Assumptions refused_slot_without_redeploy.

(* ---- non-vacuity: the hypotheses are satisfiable, the conclusions are reached on a history with faults *)
Definition c2 : cfg := MkCfg 2 5000 current.
(* two operators + standby, two runners; deploy; checkpoint 1 half acknowledged; operator 0 is killed (heartbeats stop,
   the others keep beating); expiry; redeploy on [1,2]; checkpoint 2 completes *)
Definition hist_kill : list op :=
  [ORegOp 0; ORegOp 1; ORegOp 2; ORegSr 0; ORegSr 1; OFin true; OTick; OAckOp 1 1; OAckSr 0 1;
   OAdv 3000; ORegOp 1; ORegOp 2; ORegSr 0; ORegSr 1; OAdv 3000; ORegOp 1; ORegOp 2; OFin true].
Example kill_history_recovers :
  let s := exec c2 hist_kill in
  stat s = Running /\ a_ops s = [1; 2] /\ a_srs s = [0; 1] /\ pend (sto s) = None /\ ctr (sto s) = 1 /\
  completed (sto (fst (run c2 s [OTick; OAckSr 1 2; OAckOp 2 2; OAckOp 1 2; OAckSr 0 2]))) = 2.
Proof. vm_compute. repeat split; reflexivity. Qed.
Example kill_history_deploys :
  map o_deps (snd (run c2 init hist_kill)) =
  [[]; []; []; []; [MkDep [0; 1] [0; 1] [0; 0] true]; []; []; []; []; []; []; []; []; []; []; []; [MkDep [1; 2] [0; 1] [0; 0] true]; []].
Proof. vm_compute. reflexivity. Qed.
Example kill_history_statuses :
  map o_status (snd (run c2 init hist_kill)) = [0; 0; 0; 0; 2; 3; 3; 3; 3; 3; 3; 3; 3; 3; 3; 1; 2; 3].
Proof. vm_compute. reflexivity. Qed.

(* the two savepoint histories on the repaired code: the new assembly starts with nothing pending and checkpoint 2 completes *)
Example savepoint_histories_recover :
  forall h, h = hist_sp_a \/ h = hist_sp_b ->
  let c := cfg_of current in let s := exec c h in
  stat s = Running /\ pend (sto s) = None /\
  completed (sto (fst (run c s [OTick; OAckOp 1 2; OAckSr 0 2]))) = 2 /\
  completed (sto (fst (run c s [OSavepoint; OAckSr 0 2; OAckOp 1 2]))) = 2.
Proof. intros h [-> | ->]; vm_compute; repeat split; reflexivity. Qed.

(* ---- the keyed state of an operator that is redeployed in place (model ost / sstep): for EVERY history of keyed
   events, complete checkpoints and redeployments: a redeployment whose request carries no checkpoint leaves the empty
   state - every key's count is 0, whatever was applied for the failed assembly -; a redeployment from checkpoint id
   leaves exactly the state recorded when that checkpoint was taken; a checkpoint records the state it is taken in; the
   handler is given the number of applications of the key in the current state. *)
Theorem redeploy_restores_checkpoint_state : forall l,
  let s := fst (srun ost0 l) in
  (forall k, applied (fst (sstep s (SRedeploy 0))) = [] /\ snd (sstep (fst (sstep s (SRedeploy 0))) (SEv k)) = 0) /\
  (forall id x, snap_get id (snaps s) = Some x -> applied (fst (sstep s (SRedeploy id))) = x) /\
  (snap_get (next_id s) (snaps (fst (sstep s SCkpt))) = Some (applied s)) /\
  (forall k, snd (sstep s (SEv k)) = count k (applied s)).
Proof. exact redeploy_restores_checkpoint_state_proof. Qed.
Print Assumptions redeploy_restores_checkpoint_state.

Example state_history :
  snd (srun ost0 [SEv 1; SEv 1; SCkpt; SEv 1; SEv 2; SRedeploy 1; SEv 1; SEv 2; SRedeploy 0; SEv 1]) = [0; 1; 1; 2; 0; 0; 2; 0; 0; 0].
Proof. vm_compute. reflexivity. Qed.

(* a standby is registered and the HIGHEST ids are chosen: the deployment goes to [1;2] / [0;1]... the same history with the
   default choice goes to the lowest ids *)
Example choice_example :
  map o_deps (snd (run (MkCfg 2 5000 current) init [ORegOp 0; ORegOp 1; ORegOp 2; ORegSr 0; OChoose [1; 2] [0; 1]; ORegSr 1]))
    = [[]; []; []; []; []; [MkDep [1; 2] [0; 1] [0; 0] true]] /\
  map o_deps (snd (run (MkCfg 2 5000 current) init [ORegOp 0; ORegOp 1; ORegOp 2; ORegSr 0; OChoose [2; 1] [0; 1]; ORegSr 1]))
    = [[]; []; []; []; []; [MkDep [0; 1] [0; 1] [0; 0] true]].
Proof. vm_compute. split; reflexivity. Qed.

(* WHEN the next assembly is started after the running one turned unhealthy is free as well: with a choice supplied
   (OChoose) the evaluation that pauses the job starts the next assembly at once from the standby; without, the job waits
   for the next membership event (today's code). Both are histories the theorems above cover. *)
Example eager_reassembly_example :
  let c := MkCfg 1 5000 current in
  map (fun b => (o_status b, o_deps b))
      (snd (run c init [ORegOp 0; ORegOp 1; ORegSr 0; OFin true; OChoose [1] [0]; ODeregOp 0]))
    = [(0, []); (0, []); (2, [MkDep [0] [0] [0] true]); (3, []); (3, []); (2, [MkDep [1] [0] [0] true])] /\
  map (fun b => (o_status b, o_deps b))
      (snd (run c init [ORegOp 0; ORegOp 1; ORegSr 0; OFin true; ODeregOp 0; ORegOp 1]))
    = [(0, []); (0, []); (2, [MkDep [0] [0] [0] true]); (3, []); (1, []); (2, [MkDep [1] [0] [0] true])].
Proof. vm_compute. split; reflexivity. Qed.
