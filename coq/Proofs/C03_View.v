(* C03: what the fold of mutations is (a finite map: last write wins, deletes stay deleted) and what grouping by
   namespace does to it (every namespace exactly once, nothing lost, nothing added). *)
From Coq Require Import ZifyN ZifyNat ZifyBool.
From RV Require Import Model.StateStore Proofs.C03_Codec Proofs.C03_Store.
Open Scope N_scope.

(* ---------------------------------------------------------------- the order on (namespace, entry key) *)

Definition kgf0 : bytes -> N := fun _ => 0.

Lemma ekey_lt_trans x y z :
  ns_ok (fst x) -> ns_ok (fst y) -> ns_ok (fst z) ->
  ekey_cmp x y = Lt -> ekey_cmp y z = Lt -> ekey_cmp x z = Lt.
Proof.
  destruct x as [a b], y as [c d], z as [e f]. cbn [fst]. intros Hx Hy Hz.
  rewrite <- !(enc_db_order kgf0 []) by assumption. apply bcmp_lt_trans.
Qed.

Lemma ns_cmp_as_ekey a b : ns_cmp a b = ekey_cmp (a, []) (b, []).
Proof. unfold ekey_cmp. cbn [fst snd bcmp]. destruct (ns_cmp a b); reflexivity. Qed.

Lemma ns_lt_trans a b c : ns_ok a -> ns_ok b -> ns_ok c -> ns_cmp a b = Lt -> ns_cmp b c = Lt -> ns_cmp a c = Lt.
Proof. rewrite !ns_cmp_as_ekey. intros Ha Hb Hc. exact (ekey_lt_trans (a, []) (b, []) (c, []) Ha Hb Hc). Qed.

Lemma ekey_cmp_refl x : ekey_cmp x x = Eq.
Proof. now apply ekey_cmp_eq. Qed.

Fixpoint fm_lt_all (x : ekey) (m : flatmap) : Prop :=
  match m with [] => True | (y, _) :: m' => ekey_cmp x y = Lt /\ fm_lt_all x m' end.
Fixpoint fm_sorted (m : flatmap) : Prop :=
  match m with [] => True | (x, _) :: m' => fm_lt_all x m' /\ fm_sorted m' end.

(* sortedness is transported from the byte level, where Proofs/C03_Store.v has it for sm_put / sm_del *)
Lemma fm_lt_all_enc x m : ns_ok (fst x) -> fm_ok m ->
  (fm_lt_all x m <-> lt_all (enc_db kgf0 [] (fst x) (snd x)) (map (encp kgf0 []) m)).
Proof.
  intros Hx. induction m as [|[y w] m IH]; intros Hm; cbn [fm_lt_all map lt_all]; [tauto|].
  inversion Hm as [|? ? Hy Hm']; subst. cbn [fst] in Hy.
  unfold encp at 1. cbn [fst snd]. destruct x as [a b], y as [c d]. cbn [fst snd] in *.
  rewrite enc_db_order by assumption. rewrite (IH Hm'). tauto.
Qed.

Lemma fm_sorted_enc m : fm_ok m -> (fm_sorted m <-> sorted (map (encp kgf0 []) m)).
Proof.
  induction m as [|[x w] m IH]; intros Hm; cbn [fm_sorted map sorted]; [tauto|].
  inversion Hm as [|? ? Hx Hm']; subst. cbn [fst] in Hx.
  unfold encp at 1. cbn [fst snd]. rewrite (fm_lt_all_enc x m Hx Hm'), (IH Hm'). tauto.
Qed.

Lemma fm_sorted_put x v m : ns_ok (fst x) -> fm_ok m -> fm_sorted m -> fm_sorted (fm_put x v m).
Proof.
  intros Hx Hm Hs. apply fm_sorted_enc; [now apply fm_ok_put|].
  rewrite map_encp_fm_put by assumption. apply sorted_sm_put. now apply fm_sorted_enc.
Qed.

Lemma fm_sorted_del x m : ns_ok (fst x) -> fm_ok m -> fm_sorted m -> fm_sorted (fm_del x m).
Proof.
  intros Hx Hm Hs. apply fm_sorted_enc; [now apply fm_ok_del|].
  rewrite map_encp_fm_del by assumption. apply sorted_sm_del. now apply fm_sorted_enc.
Qed.

Definition fm_good (m : flatmap) : Prop := fm_ok m /\ fm_sorted m.

Lemma fm_good_apply ns m mu : ns_ok ns -> fm_good m -> fm_good (fm_apply ns m mu).
Proof.
  intros Hns [H1 H2]. destruct mu as [e v|e]; cbn [fm_apply]; split.
  - now apply fm_ok_put. - now apply fm_sorted_put. - now apply fm_ok_del. - now apply fm_sorted_del.
Qed.

Lemma fm_good_apply_ns m nm : nsm_ok nm -> fm_good m -> fm_good (fm_apply_ns m nm).
Proof.
  intros Hnm. unfold fm_apply_ns. revert m. induction (snd nm) as [|mu ms IH]; intros m Hm; cbn [fold_left]; [exact Hm|].
  apply IH. now apply fm_good_apply.
Qed.

Lemma fm_good_apply_response k m rs : resp_ok rs -> fm_good m -> fm_good (fm_apply_response k m rs).
Proof.
  unfold fm_apply_response. revert m. induction rs as [|kr rs IH]; intros m Hrs Hm; cbn [fold_left]; [exact Hm|].
  inversion Hrs as [|? ? [_ Hkr] Hrs']; subst. apply IH; [exact Hrs'|].
  destruct (beqb (kr_key kr) k); [|exact Hm].
  clear -Hkr Hm. revert m Hm. induction Hkr as [|nm nms Hnm _ IH]; intros m Hm; cbn [fold_left]; [exact Hm|].
  apply IH. now apply fm_good_apply_ns.
Qed.

Lemma fm_good_of_responses k log : Forall resp_ok log -> fm_good (fm_of_responses k log).
Proof.
  unfold fm_of_responses. assert (H0 : fm_good []) by (split; [constructor|exact I]).
  revert H0. generalize (@nil (ekey * bytes)). induction log as [|rs log IH]; intros m Hm Hl; cbn [fold_left]; [exact Hm|].
  inversion Hl; subst. apply IH; [|assumption]. now apply fm_good_apply_response.
Qed.

(* ---------------------------------------------------------------- the fold is a finite map *)

Fixpoint fm_find (x : ekey) (m : flatmap) : option bytes :=
  match m with
  | [] => None
  | (y, w) :: m' => match ekey_cmp x y with Eq => Some w | _ => fm_find x m' end
  end.

Lemma fm_find_lt_all x m : fm_lt_all x m -> fm_find x m = None.
Proof. induction m as [|[y w] m IH]; cbn; [reflexivity|]. intros [-> H]. auto. Qed.

Lemma ekey_cmp_gt_lt x y : ns_ok (fst x) -> ns_ok (fst y) -> ekey_cmp x y = Gt -> ekey_cmp y x = Lt.
Proof.
  destruct x as [a b], y as [c d]. cbn [fst]. intros Hx Hy.
  rewrite <- !(enc_db_order kgf0 []) by assumption. apply bcmp_gt_lt.
Qed.

(* a put is read back; an overwritten value is gone *)
Lemma fm_find_put_same x v m : fm_find x (fm_put x v m) = Some v.
Proof.
  induction m as [|[y w] m IH]; cbn [fm_put fm_find]; [now rewrite ekey_cmp_refl|].
  destruct (ekey_cmp x y) eqn:E; cbn [fm_find]; rewrite ?ekey_cmp_refl, ?E; auto.
Qed.

Lemma fm_find_put_other x y v m : x <> y -> fm_find y (fm_put x v m) = fm_find y m.
Proof.
  intros Hxy. induction m as [|[z w] m IH]; cbn [fm_put fm_find].
  - destruct (ekey_cmp y x) eqn:E; [|reflexivity|reflexivity]. apply ekey_cmp_eq in E. congruence.
  - destruct (ekey_cmp x z) eqn:E; cbn [fm_find].
    + apply ekey_cmp_eq in E. subst z. destruct (ekey_cmp y x) eqn:E'; [|reflexivity|reflexivity].
      apply ekey_cmp_eq in E'. congruence.
    + destruct (ekey_cmp y x) eqn:E'; [|reflexivity|reflexivity]. apply ekey_cmp_eq in E'. congruence.
    + rewrite IH. reflexivity.
Qed.

(* a deleted entry is absent - it cannot reappear unless put again - and nothing else changes *)
Lemma fm_find_del_same x m : fm_good m -> ns_ok (fst x) -> fm_find x (fm_del x m) = None.
Proof.
  intros [Hok Hs] Hx. induction m as [|[y w] m IH]; cbn [fm_del fm_find]; [reflexivity|].
  inversion Hok as [|? ? Hy Hok']; subst. cbn [fst] in Hy. destruct Hs as [Hlt Hs].
  destruct (ekey_cmp x y) eqn:E.
  - apply ekey_cmp_eq in E. subst y. now apply fm_find_lt_all.
  - cbn [fm_find]. rewrite E. apply fm_find_lt_all.
    clear -Hlt E Hx Hy Hok'. induction m as [|[z u] m IH]; cbn in *; [exact I|].
    inversion Hok' as [|? ? Hz Hok'']; subst. destruct Hlt as [L1 L2]. split; [|auto].
    eapply (ekey_lt_trans x y z); eauto.
  - cbn [fm_find]. rewrite E. auto.
Qed.

Lemma fm_find_del_other x y m : x <> y -> fm_find y (fm_del x m) = fm_find y m.
Proof.
  intros Hxy. induction m as [|[z w] m IH]; cbn [fm_del fm_find]; [reflexivity|].
  destruct (ekey_cmp x z) eqn:E; cbn [fm_find].
  - apply ekey_cmp_eq in E. subst z. destruct (ekey_cmp y x) eqn:E'; [|reflexivity|reflexivity].
    apply ekey_cmp_eq in E'. congruence.
  - reflexivity.
  - rewrite IH. reflexivity.
Qed.

(* ---------------------------------------------------------------- grouping by namespace *)

Definition ungroup (g : list ns_state) : list (bytes * entry) :=
  flat_map (fun nse => map (fun e => (fst nse, e)) (snd nse)) g.

Lemma group_ns_nil l : group_ns l = [] -> l = [].
Proof.
  destruct l as [|[ns e] l]; [reflexivity|]. cbn [group_ns].
  destruct (group_ns l) as [|[ns' es] g]; [discriminate|]. destruct (beqb ns ns'); discriminate.
Qed.

(* grouping neither loses nor invents nor reorders an entry *)
Lemma ungroup_group_ns l : ungroup (group_ns l) = l.
Proof.
  induction l as [|[ns e] l IH]; [reflexivity|]. cbn [group_ns].
  destruct (group_ns l) as [|[ns' es] g] eqn:G.
  - apply group_ns_nil in G. subst l. reflexivity.
  - destruct (beqb ns ns') eqn:E.
    + apply beqb_eq in E. subst ns'. unfold ungroup in *. cbn [flat_map fst snd map app] in *. now rewrite IH.
    + unfold ungroup in *. cbn [flat_map fst snd map app] in *. now rewrite IH.
Qed.

Lemma group_ns_nonempty l : Forall (fun nse : ns_state => snd nse <> []) (group_ns l).
Proof.
  induction l as [|[ns e] l IH]; [constructor|]. cbn [group_ns].
  destruct (group_ns l) as [|[ns' es] g]; [repeat constructor; discriminate|].
  inversion IH; subst. destruct (beqb ns ns'); repeat constructor; try discriminate; assumption.
Qed.

Fixpoint ns_lt_all (a : bytes) (l : list bytes) : Prop :=
  match l with [] => True | b :: l' => ns_cmp a b = Lt /\ ns_lt_all a l' end.
Fixpoint ns_strict (l : list bytes) : Prop :=
  match l with [] => True | a :: l' => ns_lt_all a l' /\ ns_strict l' end.

Lemma ns_lt_all_trans a b l : ns_ok a -> ns_ok b -> Forall ns_ok l -> ns_cmp a b = Lt -> ns_lt_all b l -> ns_lt_all a l.
Proof.
  intros Ha Hb Hl Hab. induction l as [|c l IH]; cbn; [trivial|]. inversion Hl as [|? ? Hc Hl']; subst. intros [L1 L2].
  split; [eapply (ns_lt_trans a b c); eauto|auto].
Qed.

Lemma ns_strict_nodup l : ns_strict l -> NoDup l.
Proof.
  induction l as [|a l IH]; cbn; [constructor|]. intros [H1 H2]. constructor; [|auto].
  intros Hin. clear -H1 Hin. induction l as [|b l IHl]; [contradiction|]. cbn in H1. destruct H1 as [L1 L2].
  destruct Hin as [->|Hin]; [|auto]. rewrite (proj2 (ns_cmp_eq a a) eq_refl) in L1. discriminate.
Qed.

Lemma view_cons x v m : view ((x, v) :: m) =
  match view m with
  | (ns', es) :: g => if beqb (fst x) ns' then (fst x, (snd x, v) :: es) :: g else (fst x, [(snd x, v)]) :: (ns', es) :: g
  | [] => [(fst x, [(snd x, v)])]
  end.
Proof. reflexivity. Qed.

(* in ascending order of stored keys the namespaces ascend (by length, then bytes), and the first group is the first key's *)
Lemma view_ns_strict m : fm_good m ->
  ns_strict (map fst (view m)) /\ Forall ns_ok (map fst (view m)) /\
  match m with [] => view m = [] | (x, _) :: _ => exists es g, view m = (fst x, es) :: g end.
Proof.
  intros [Hok Hs]. induction m as [|[[ns e] v] m IH]; [split; [exact I|split; [constructor|reflexivity]]|].
  inversion Hok as [|? ? Hx Hok']; subst. cbn [fst] in Hx. destruct Hs as [Hlt Hs].
  destruct (IH Hok' Hs) as (I1 & I2 & I3). rewrite view_cons. cbn [fst snd].
  destruct m as [|[[ns' e'] v'] m'].
  - rewrite I3. cbn [map fst ns_strict ns_lt_all]. split; [split; exact I|]. split; [constructor; [exact Hx|constructor]|eauto].
  - destruct I3 as (es & g & Ev). rewrite Ev in *. cbn [fst map] in *. destruct I1 as [J1 J2].
    inversion I2 as [|? ? Hns' I2']; subst.
    destruct (beqb ns ns') eqn:E.
    + apply beqb_eq in E. subst ns'. cbn [map fst ns_strict]. split; [split; assumption|]. split; [constructor; assumption|eauto].
    + cbn [map fst ns_strict ns_lt_all].
      assert (Hlt' : ns_cmp ns ns' = Lt).
      { destruct Hlt as [Hlt _]. unfold ekey_cmp in Hlt. cbn [fst snd] in Hlt.
        destruct (ns_cmp ns ns') eqn:C; try discriminate; [|reflexivity].
        apply ns_cmp_eq in C. subst ns'. rewrite (proj2 (beqb_eq ns ns) eq_refl) in E. discriminate. }
      split; [|split].
      * split; [split; [exact Hlt'|]|split; assumption]. eapply (ns_lt_all_trans ns ns'); eauto.
      * constructor; [assumption|constructor; assumption].
      * eauto.
Qed.

(* namespaces_contiguous, on the fold of any responses *)
Theorem namespaces_contiguous_fold k log :
  Forall resp_ok log ->
  let m := fm_of_responses k log in
  ungroup (view m) = map unflat m /\ NoDup (map fst (view m)) /\ Forall (fun nse : ns_state => snd nse <> []) (view m).
Proof.
  intros Hl m. split; [apply ungroup_group_ns|]. split; [|apply group_ns_nonempty].
  apply ns_strict_nodup. apply view_ns_strict. now apply fm_good_of_responses.
Qed.
