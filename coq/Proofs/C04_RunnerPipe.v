(* C04: the invariant of the runner pipeline (Model/RunnerPipe.v) and its consequences.
   For every schedule: what operator i has been given ++ what is still on its way to i, in pipeline order
   (sender, hand-off, batcher, joiner work list, outputStream joined with the pending key-by results, unread input)
   = the sub-sequence of the ideal stream routed to i. *)
From Coq Require Import List NArith Bool Arith Lia.
Import ListNotations.
From RV Require Import Model.RunnerPipe.

(* ---------------------------------------------------------------- small facts *)

Lemma upd_same : forall A (f : nat -> A) i v, upd f i v i = v.
Proof. intros. unfold upd. now rewrite Nat.eqb_refl. Qed.
Lemma upd_other : forall A (f : nat -> A) i j v, j <> i -> upd f i v j = f j.
Proof. intros. unfold upd. destruct (Nat.eqb j i) eqn:E; [apply Nat.eqb_eq in E; contradiction|reflexivity]. Qed.

Lemma b_flush_spec : forall o o' b, b_flush o = (o', b) ->
  b ++ o_batch o' = o_batch o /\ o_batch o' = [] /\ o_snd o' = o_snd o /\ o_out o' = o_out o.
Proof.
  intros o o' b H. unfold b_flush in H. destruct (o_batch o) eqn:E.
  - inversion H; subst. rewrite E. auto.
  - inversion H; subst. cbn. rewrite app_nil_r. auto.
Qed.
Lemma b_flush_tok_spec : forall o t o' b, b_flush_tok o t = (o', b) ->
  b ++ o_batch o' = o_batch o /\ (o_batch o = [] -> b = [] /\ o_batch o' = []) /\ o_snd o' = o_snd o /\ o_out o' = o_out o.
Proof.
  intros o t o' b H. unfold b_flush_tok in H. destruct (N.eqb (o_tok o) t).
  - destruct (b_flush_spec _ _ _ H) as (A & B & C & D). split; [exact A|split; [|split; [exact C|exact D]]].
    intro E. rewrite E in A. destruct b; [auto|discriminate].
  - inversion H; subst. split; [reflexivity|split; [|split; reflexivity]]. intro E. auto.
Qed.

Lemma concat_snoc : forall A (l : list (list A)) b, concat (l ++ [b]) = concat l ++ b.
Proof. intros. rewrite concat_app. cbn. now rewrite app_nil_r. Qed.

Section Inv.
  Variable kb : N -> list kev.
  Variable R : rstage.
  Variable route : list N -> nat.
  Variables (nops mx : nat) (delay : bool).
  Hypothesis Hin : rs_inorder kb R.
  Variable input : list item.

  Notation stT := (st R).

  Definition jhand (s : stT) (i : nat) : list ev :=
    match s_pc R s with JHand j b => if Nat.eqb j i then b else [] | _ => [] end.
  Definition sndb (o : opst) : list ev := match o_snd o with SDel b => b | _ => [] end.
  Definition wproj (i : nat) (w : list work) : list ev :=
    flat_map (fun x => match x with WEv j e => if Nat.eqb j i then [e] else [] | WFlush _ => [] end) w.
  (* outputStream with every placeholder replaced by the key-by result of the record it stands for *)
  Fixpoint expand (q : list qitem) (p : list N) : list ev :=
    match q with
    | [] => []
    | QM m :: q' => EM m :: expand q' p
    | QP :: q' => match p with x :: p' => map (EK x) (kb x) ++ expand q' p' | [] => expand q' [] end
    end.
  Definition nQP (q : list qitem) : nat := length (filter (fun x => match x with QP => true | QM _ => false end) q).

  (* on its way to operator i, in order *)
  Definition inside (s : stT) (i : nat) : list ev :=
    sndb (s_ops R s i) ++ jhand s i ++ o_batch (s_ops R s i) ++ wproj i (s_work R s) ++
    filter (sel route i) (expand (s_outq R s) (s_pend R s) ++ ideal kb (s_todo R s)).
  Definition view (s : stT) (i : nat) : list ev := delivered R s i ++ inside s i.

  Record Inv (s : stT) : Prop := {
    inv_view : forall i, i < nops -> view s i = expected kb route input i;
    inv_qp : nQP (s_outq R s) = length (s_pend R s);
    inv_tr : exists tr popped, rrun R tr (s_r R s) /\ ladds R tr = popped ++ s_pend R s /\ louts R tr = map kb popped;
    inv_hand : forall j b, s_pc R s = JHand j b -> o_batch (s_ops R s j) = []
  }.

  (* ---- list facts about expand / wproj *)
  Lemma expand_app_marks : forall q p ms, expand (q ++ map QM ms) p = expand q p ++ map EM ms.
  Proof.
    induction q as [|x q IH]; intros p ms; cbn [app expand].
    - induction ms; cbn; [reflexivity|now f_equal].
    - destruct x.
      + destruct p; [apply IH|]. rewrite IH. now rewrite app_assoc.
      + rewrite IH. reflexivity.
  Qed.
  Lemma nQP_app : forall q q', nQP (q ++ q') = nQP q + nQP q'.
  Proof. intros. unfold nQP. rewrite filter_app, app_length. reflexivity. Qed.
  Lemma expand_app_QP : forall q p x, nQP q = length p ->
    expand (q ++ [QP]) (p ++ [x]) = expand q p ++ map (EK x) (kb x).
  Proof.
    induction q as [|y q IH]; intros p x H.
    - destruct p; [|discriminate]. cbn. now rewrite app_nil_r.
    - destruct y; cbn [app expand].
      + destruct p as [|z p]; [discriminate|]. cbn [app]. rewrite IH; [now rewrite app_assoc|].
        unfold nQP in *. cbn in H. lia.
      + rewrite IH by exact H. reflexivity.
  Qed.
  Lemma wproj_app : forall i a b, wproj i (a ++ b) = wproj i a ++ wproj i b.
  Proof. intros. unfold wproj. apply flat_map_app. Qed.
  Ltac b2p := repeat match goal with
     | H : (_ <=? _) = true |- _ => apply Nat.leb_le in H
     | H : (_ <=? _) = false |- _ => apply Nat.leb_gt in H
     | H : (_ <? _) = true |- _ => apply Nat.ltb_lt in H
     | H : (_ <? _) = false |- _ => apply Nat.ltb_ge in H
     | H : (Nat.eqb _ _) = true |- _ => apply Nat.eqb_eq in H
     | H : (Nat.eqb _ _) = false |- _ => apply Nat.eqb_neq in H end.
  Lemma wproj_bcast_seq : forall i m n k, wproj i (map (fun j => WEv j (EM m)) (seq k n)) =
    if (k <=? i) && (i <? k + n) then [EM m] else [].
  Proof.
    intros i m n. induction n as [|n IH]; intros k.
    - cbn [seq map]. unfold wproj. cbn [flat_map].
      destruct (k <=? i) eqn:A, (i <? k + 0) eqn:B; cbn [andb]; try reflexivity. b2p; lia.
    - cbn [seq map]. unfold wproj in *. cbn [flat_map]. rewrite IH.
      destruct (Nat.eqb k i) eqn:E, (S k <=? i) eqn:A, (k <=? i) eqn:B, (i <? S k + n) eqn:C, (i <? k + S n) eqn:D;
        cbn [andb app]; try reflexivity; b2p; lia.
  Qed.
  Lemma wproj_bcast : forall i m, i < nops -> wproj i (bcast nops m) = [EM m].
  Proof.
    intros. unfold bcast. rewrite wproj_bcast_seq.
    destruct (0 <=? i) eqn:A, (i <? 0 + nops) eqn:B; cbn [andb]; try reflexivity; b2p; lia.
  Qed.
  Lemma wproj_flushes : forall i n, wproj i (flushes n) = [].
  Proof. intros. unfold flushes, wproj. generalize (seq 0 n). induction l; cbn; auto. Qed.
  Lemma wproj_routed : forall i x res,
    wproj i (map (fun kv => WEv (route (fst kv)) (EK x kv)) res) = filter (sel route i) (map (EK x) res).
  Proof.
    intros. induction res as [|kv res IH]; [reflexivity|].
    cbn [map filter]. unfold wproj in *. cbn [flat_map]. rewrite IH. cbn [sel].
    destruct (Nat.eqb (route (fst kv)) i); reflexivity.
  Qed.

  (* ---- the initial state *)
  Lemma Inv_init : Inv (init R input).
  Proof.
    constructor; cbn.
    - intros i _. reflexivity.
    - reflexivity.
    - exists [], []. repeat split. constructor.
    - discriminate.
  Qed.

  (* ---- the joiner's flush + hand-off *)
  Lemma Inv_j_flush : forall s w i0,
    Inv s -> (forall i, jhand s i = []) -> (forall i, wproj i w = wproj i (s_work R s)) ->
    Inv (j_flush R s w i0).
  Proof.
    intros s w i0 HI Hj Hw. unfold j_flush. destruct (b_flush (s_ops R s i0)) as [o' b] eqn:E.
    destruct (b_flush_spec _ _ _ E) as (A & B & C & D).
    destruct HI as [Hv Hq Ht Hh]. constructor; cbn [set_j s_outq s_pend s_r s_pc s_ops s_todo s_work].
    - intros i Hi. rewrite <- (Hv i Hi). unfold view, inside, delivered, jhand.
      cbn [set_j s_outq s_pend s_r s_pc s_ops s_todo s_work]. rewrite Hw.
      specialize (Hj i). unfold jhand in Hj.
      destruct (Nat.eqb i0 i) eqn:Ei.
      + apply Nat.eqb_eq in Ei. subst i. rewrite upd_same. unfold sndb. rewrite C, D, B, <- A, B.
        rewrite Hj. cbn [app]. rewrite app_nil_r. reflexivity.
      + apply Nat.eqb_neq in Ei. rewrite upd_other by auto. rewrite Hj. reflexivity.
    - exact Hq.
    - exact Ht.
    - intros j b' Hjb. inversion Hjb; subst. rewrite upd_same. exact B.
  Qed.

  (* ---- one step *)
  Lemma Inv_step : forall s a s', Inv s -> step R route nops mx delay s a = Some s' -> Inv s'.
  Proof.
    intros s a s' HI Hs. destruct a; cbn [step] in Hs.
    - (* ARead *)
      destruct HI as [Hv Hq Ht Hh].
      destruct (s_todo R s) as [|it t] eqn:Et; [discriminate|]. destruct it as [x|m|].
      + destruct (rs_add R (s_r R s) x) as [r'|] eqn:Ea; [|discriminate]. inversion Hs; subst s'; clear Hs.
        constructor; cbn [set_r s_outq s_pend s_r s_pc s_ops s_todo s_work].
        * intros i Hi. rewrite <- (Hv i Hi). unfold view, inside, delivered, jhand.
          cbn [set_r s_outq s_pend s_r s_pc s_ops s_todo s_work]. rewrite Et.
          rewrite expand_app_QP by exact Hq. cbn [ideal flat_map ideal1]. now rewrite <- app_assoc.
        * rewrite nQP_app, app_length. cbn. lia.
        * destruct Ht as (tr & popped & Hr & Ha & Ho). exists (tr ++ [LAdd R x]), popped. split; [|split].
          -- econstructor; eauto.
          -- unfold ladds in *. rewrite flat_map_app, Ha. cbn. now rewrite app_assoc.
          -- unfold louts in *. rewrite flat_map_app, Ho. cbn. now rewrite app_nil_r.
        * exact Hh.
      + inversion Hs; subst s'; clear Hs.
        constructor; cbn [set_r s_outq s_pend s_r s_pc s_ops s_todo s_work]; auto.
        * intros i Hi. rewrite <- (Hv i Hi). unfold view, inside, delivered, jhand.
          cbn [set_r s_outq s_pend s_r s_pc s_ops s_todo s_work]. rewrite Et.
          change [QM m] with (map QM [m]). rewrite expand_app_marks. cbn [ideal flat_map ideal1 map].
          now rewrite <- app_assoc.
        * rewrite nQP_app. cbn. lia.
      + destruct (rs_flush R (s_r R s)) as [r'|] eqn:Ea; [|discriminate]. inversion Hs; subst s'; clear Hs.
        constructor; cbn [set_r s_outq s_pend s_r s_pc s_ops s_todo s_work]; auto.
        * intros i Hi. rewrite <- (Hv i Hi). unfold view, inside, delivered, jhand.
          cbn [set_r s_outq s_pend s_r s_pc s_ops s_todo s_work]. rewrite Et.
          change [QM Wm; QM Done] with (map QM [Wm; Done]). rewrite expand_app_marks. cbn [ideal flat_map ideal1 map].
          now rewrite <- app_assoc.
        * rewrite nQP_app. cbn. lia.
        * destruct Ht as (tr & popped & Hr & Ha & Ho). exists (tr ++ [LFlush R]), popped. split; [|split].
          -- econstructor; eauto.
          -- unfold ladds in *. rewrite flat_map_app, Ha. cbn. now rewrite app_nil_r.
          -- unfold louts in *. rewrite flat_map_app, Ho. cbn. now rewrite app_nil_r.
    - (* ARInt *)
      destruct HI as [Hv Hq Ht Hh].
      destruct (rs_int R (s_r R s) a) as [r'|] eqn:Ea; [|discriminate]. inversion Hs; subst s'; clear Hs.
      constructor; cbn [set_r s_outq s_pend s_r s_pc s_ops s_todo s_work]; auto.
      destruct Ht as (tr & popped & Hr & Ha & Ho). exists (tr ++ [LInt R a]), popped. split; [|split].
      + econstructor; eauto.
      + unfold ladds in *. rewrite flat_map_app, Ha. cbn. now rewrite app_nil_r.
      + unfold louts in *. rewrite flat_map_app, Ho. cbn. now rewrite app_nil_r.
    - (* AJoin *)
      unfold j_step in Hs. destruct (s_pc R s) as [|i0|i0|i0 b0] eqn:Epc; [| | |discriminate].
      + (* JIdle *)
        destruct (s_work R s) as [|wk w] eqn:Ew.
        * destruct (s_outq R s) as [|qi q] eqn:Eq; [discriminate|]. destruct qi as [|m].
          -- (* placeholder: receive the key-by result *)
             destruct (rs_out R (s_r R s)) as [[res r']|] eqn:Eo; [|discriminate].
             inversion Hs; subst s'; clear Hs. destruct HI as [Hv Hq Ht Hh].
             destruct Ht as (tr & popped & Hr & Ha & Ho).
             assert (Hr' : rrun R (tr ++ [LOut R res]) r') by (econstructor; eauto).
             destruct (Hin _ _ Hr') as (rest & Hrest).
             unfold ladds, louts in Hrest. rewrite !flat_map_app in Hrest. fold (ladds R tr) (louts R tr) in Hrest.
             cbn in Hrest. rewrite app_nil_r, Ha, Ho, map_app, <- !app_assoc in Hrest.
             apply app_inv_head in Hrest. cbn in Hrest.
             destruct (s_pend R s) as [|x p'] eqn:Ep; [discriminate|]. cbn in Hrest. inversion Hrest; subst res.
             constructor; cbn [set_j s_outq s_pend s_r s_pc s_ops s_todo s_work hd tl].
             ++ intros i Hi. rewrite <- (Hv i Hi). unfold view, inside, delivered, jhand.
                cbn [set_j s_outq s_pend s_r s_pc s_ops s_todo s_work hd tl]. rewrite Epc, Ew, Eq, Ep.
                cbn [expand wproj flat_map app]. rewrite wproj_routed. rewrite <- !app_assoc, !filter_app.
                reflexivity.
             ++ rewrite Eq in Hq. unfold nQP in *. cbn in Hq. lia.
             ++ exists (tr ++ [LOut R (kb x)]), (popped ++ [x]). split; [exact Hr'|split].
                ** unfold ladds in *. rewrite flat_map_app, Ha. cbn. rewrite app_nil_r, <- app_assoc. reflexivity.
                ** unfold louts in *. rewrite flat_map_app, Ho, map_app. reflexivity.
             ++ discriminate.
          -- (* marker: broadcast *)
             inversion Hs; subst s'; clear Hs. destruct HI as [Hv Hq Ht Hh].
             constructor; cbn [set_j s_outq s_pend s_r s_pc s_ops s_todo s_work]; auto.
             ++ intros i Hi. rewrite <- (Hv i Hi). unfold view, inside, delivered, jhand.
                cbn [set_j s_outq s_pend s_r s_pc s_ops s_todo s_work]. rewrite Epc, Ew, Eq.
                rewrite wproj_app, wproj_bcast by exact Hi.
                replace (wproj i match m with Done => flushes nops | _ => [] end) with (@nil ev)
                  by (destruct m; cbn; auto using wproj_flushes).
                cbn [expand wproj flat_map app filter sel]. reflexivity.
             ++ rewrite Eq in Hq. unfold nQP in *. cbn in Hq. exact Hq.
             ++ discriminate.
        * destruct wk as [i0 e|i0].
          -- (* batcher.Add *)
             inversion Hs; subst s'; clear Hs. destruct HI as [Hv Hq Ht Hh].
             constructor; cbn [set_j s_outq s_pend s_r s_pc s_ops s_todo s_work]; auto.
             ++ intros i Hi. rewrite <- (Hv i Hi). unfold view, inside, delivered, jhand.
                cbn [set_j s_outq s_pend s_r s_pc s_ops s_todo s_work]. rewrite Epc, Ew.
                unfold wproj. cbn [flat_map]. fold (wproj i w).
                destruct (Nat.eqb i0 i) eqn:Ei.
                ** apply Nat.eqb_eq in Ei. subst i. rewrite upd_same. unfold sndb. cbn [b_add o_snd o_out o_batch].
                   rewrite <- !app_assoc. reflexivity.
                ** apply Nat.eqb_neq in Ei. rewrite upd_other by auto. reflexivity.
             ++ discriminate.
          -- (* operators.flush() *)
             inversion Hs; subst s'; clear Hs. apply Inv_j_flush; auto.
             ++ intro i. unfold jhand. now rewrite Epc.
             ++ intro i. rewrite Ew. reflexivity.
      + (* JAdded: IsFull *)
        inversion Hs; subst s'; clear Hs. destruct HI as [Hv Hq Ht Hh].
        constructor; cbn [set_ops s_outq s_pend s_r s_pc s_ops s_todo s_work]; auto.
        * intros i Hi. rewrite <- (Hv i Hi). unfold view, inside, delivered, jhand.
          cbn [set_ops s_outq s_pend s_r s_pc s_ops s_todo s_work]. rewrite Epc.
          match goal with |- context[if ?c then JFull _ else JIdle] => destruct c end; reflexivity.
        * intros j b Hj. match type of Hj with context[if ?c then JFull _ else JIdle] => destruct c end; discriminate.
      + (* JFull: Flush(CurrentBatch) and hand-off *)
        inversion Hs; subst s'; clear Hs. apply Inv_j_flush; auto.
        intro i. unfold jhand. now rewrite Epc.
    - (* AExpire *)
      destruct (o_slot (s_ops R s i)) as [t|] eqn:Esl; [|discriminate].
      inversion Hs; subst s'; clear Hs. destruct HI as [Hv Hq Ht Hh].
      constructor; cbn [set_ops s_outq s_pend s_r s_pc s_ops s_todo s_work]; auto.
      + intros k Hk. rewrite <- (Hv k Hk). unfold view, inside, delivered, jhand.
        cbn [set_ops s_outq s_pend s_r s_pc s_ops s_todo s_work].
        destruct (Nat.eq_dec k i) as [->|Hne].
        * rewrite upd_same. unfold sndb. cbn [o_snd o_out o_batch]. reflexivity.
        * rewrite upd_other by auto. reflexivity.
      + intros j b Hj. destruct (Nat.eq_dec j i) as [->|Hne].
        * rewrite upd_same. cbn [o_batch]. eauto.
        * rewrite upd_other by auto. eauto.
    - (* ATimer *)
      destruct (o_snd (s_ops R s i)) eqn:Es; try discriminate.
      destruct (remove1 t (o_late (s_ops R s i))) as [ar|] eqn:Er; [|discriminate].
      inversion Hs; subst s'; clear Hs. destruct HI as [Hv Hq Ht Hh].
      constructor; cbn [set_ops s_outq s_pend s_r s_pc s_ops s_todo s_work]; auto.
      + intros k Hk. rewrite <- (Hv k Hk). unfold view, inside, delivered, jhand.
        cbn [set_ops s_outq s_pend s_r s_pc s_ops s_todo s_work].
        destruct (Nat.eq_dec k i) as [->|Hne].
        * rewrite upd_same. unfold sndb. cbn [o_snd o_out o_batch]. rewrite Es. reflexivity.
        * rewrite upd_other by auto. reflexivity.
      + intros j b Hj. destruct (Nat.eq_dec j i) as [->|Hne].
        * rewrite upd_same. cbn [o_batch]. eauto.
        * rewrite upd_other by auto. eauto.
    - (* ASndFlush *)
      destruct (o_snd (s_ops R s i)) eqn:Es; try discriminate.
      destruct (b_flush_tok (s_ops R s i) t) as [o' b] eqn:Ef.
      inversion Hs; subst s'; clear Hs. destruct HI as [Hv Hq Ht Hh].
      destruct (b_flush_tok_spec _ _ _ _ Ef) as (A & B & C & D).
      constructor; cbn [set_ops s_outq s_pend s_r s_pc s_ops s_todo s_work]; auto.
      + intros k Hk. rewrite <- (Hv k Hk). unfold view, inside, delivered, jhand.
        cbn [set_ops s_outq s_pend s_r s_pc s_ops s_todo s_work].
        destruct (Nat.eq_dec k i) as [->|Hne].
        * rewrite upd_same. unfold sndb. cbn [set_snd o_snd o_out o_batch]. rewrite Es, D. cbn [app].
          destruct (s_pc R s) as [| | |j b0] eqn:Epc; cbn [app]; try (rewrite <- A, <- !app_assoc; reflexivity).
          destruct (Nat.eqb j i) eqn:Ej; [|cbn [app]; rewrite <- A, <- !app_assoc; reflexivity].
          apply Nat.eqb_eq in Ej. subst j. specialize (Hh _ _ eq_refl). destruct (B Hh) as (-> & ->).
          rewrite Hh. reflexivity.
        * rewrite upd_other by auto. reflexivity.
      + intros j b0 Hj. destruct (Nat.eq_dec j i) as [->|Hne].
        * rewrite upd_same. cbn [set_snd o_batch]. apply B. eauto.
        * rewrite upd_other by auto. eauto.
    - (* ASndRecv *)
      destruct (o_snd (s_ops R s i)) eqn:Es; try discriminate.
      destruct (s_pc R s) as [| | |j b0] eqn:Epc; try discriminate.
      destruct (Nat.eqb j i) eqn:Ej; [|discriminate]. apply Nat.eqb_eq in Ej. subst j.
      inversion Hs; subst s'; clear Hs. destruct HI as [Hv Hq Ht Hh].
      constructor; cbn [set_ops s_outq s_pend s_r s_pc s_ops s_todo s_work]; auto.
      + intros k Hk. rewrite <- (Hv k Hk). unfold view, inside, delivered, jhand.
        cbn [set_ops s_outq s_pend s_r s_pc s_ops s_todo s_work]. rewrite Epc.
        destruct (Nat.eq_dec k i) as [->|Hne].
        * rewrite upd_same, Nat.eqb_refl. unfold sndb. cbn [set_snd o_snd o_out o_batch]. rewrite Es. reflexivity.
        * rewrite upd_other by auto. replace (Nat.eqb i k) with false by (symmetry; apply Nat.eqb_neq; auto). reflexivity.
      + discriminate.
    - (* ASndDone *)
      destruct (o_snd (s_ops R s i)) eqn:Es; try discriminate.
      inversion Hs; subst s'; clear Hs. destruct HI as [Hv Hq Ht Hh].
      constructor; cbn [set_ops s_outq s_pend s_r s_pc s_ops s_todo s_work]; auto.
      + intros k Hk. rewrite <- (Hv k Hk). unfold view, inside, delivered, jhand.
        cbn [set_ops s_outq s_pend s_r s_pc s_ops s_todo s_work].
        destruct (Nat.eq_dec k i) as [->|Hne].
        * rewrite upd_same. unfold sndb. cbn [o_snd o_out o_batch]. rewrite Es, concat_snoc.
          rewrite <- !app_assoc. reflexivity.
        * rewrite upd_other by auto. reflexivity.
      + intros j b0 Hj. destruct (Nat.eq_dec j i) as [->|Hne].
        * rewrite upd_same. cbn [o_batch]. eauto.
        * rewrite upd_other by auto. eauto.
  Qed.

  Lemma Inv_run : forall sched s s', Inv s -> run R route nops mx delay s sched = Some s' -> Inv s'.
  Proof.
    induction sched as [|a sched IH]; intros s s' HI Hr; cbn [run] in Hr.
    - inversion Hr; subst. exact HI.
    - destruct (step R route nops mx delay s a) as [s1|] eqn:E; [|discriminate].
      eapply IH; [|exact Hr]. eapply Inv_step; eauto.
  Qed.

  Theorem reachable_Inv : forall sched s, run R route nops mx delay (init R input) sched = Some s -> Inv s.
  Proof. intros. eapply Inv_run; [apply Inv_init|eauto]. Qed.

  (* ---- consequences *)
  Lemma drained_inside : forall s i, i < nops -> drained R nops s = true -> inside s i = [].
  Proof.
    intros s i Hi Hd. unfold drained in Hd.
    destruct (s_todo R s) eqn:Et; [|discriminate]. destruct (s_outq R s) eqn:Eq; [|discriminate].
    destruct (s_work R s) eqn:Ew; [|discriminate]. destruct (s_pc R s) eqn:Epc; try discriminate.
    rewrite forallb_forall in Hd. assert (Ho : op_drained (s_ops R s i) = true) by (apply Hd, in_seq; lia).
    unfold op_drained in Ho. unfold inside, jhand, sndb. rewrite Et, Eq, Ew, Epc.
    destruct (o_batch (s_ops R s i)); [|discriminate]. destruct (o_snd (s_ops R s i)); try discriminate. reflexivity.
  Qed.

  Theorem delivered_prefix : forall sched s i, run R route nops mx delay (init R input) sched = Some s -> i < nops ->
    expected kb route input i = delivered R s i ++ inside s i.
  Proof. intros sched s i Hr Hi. symmetry. apply (inv_view _ (reachable_Inv _ _ Hr) i Hi). Qed.

  Theorem delivered_exact : forall sched s i, run R route nops mx delay (init R input) sched = Some s -> i < nops ->
    drained R nops s = true -> delivered R s i = expected kb route input i.
  Proof.
    intros sched s i Hr Hi Hd. rewrite (delivered_prefix _ _ _ Hr Hi), (drained_inside _ _ Hi Hd). now rewrite app_nil_r.
  Qed.
End Inv.
