(* C16, kinesis reader: one ReadEvents call emits the next consecutive records of exactly one held shard and moves
   that shard's position behind them (or reports it finished and drops it); every other shard keeps its position;
   Checkpoint() lists every held shard with its position. *)
From Coq Require Import List NArith Bool Lia ZifyN ZifyNat ZifyBool.
From RV Require Import Model.HttpReader Model.KinReader Proofs.C16_Http.
Import ListNotations.
Open Scope N_scope.

Lemma in_set_nth {A} : forall (l : list A) i v x y, nth_error l i = Some y ->
  In x (set_nth l i v) <-> x = v \/ (exists j, j <> i /\ nth_error l j = Some x).
Proof.
  induction l as [|a l IH]; intros i v x y H; [destruct i; discriminate|]. destruct i as [|i]; cbn [set_nth nth_error In] in *.
  - split.
    + intros [H1|H1]; [left; auto|]. right. apply In_nth_error in H1. destruct H1 as [j Hj]. exists (S j). split; [discriminate|exact Hj].
    + intros [H1|[j [Hne Hj]]]; [left; auto|]. destruct j as [|j]; [congruence|]. right. eapply nth_error_In. exact Hj.
  - rewrite (IH i v x y H). split.
    + intros [H1|[H1|[j [Hne Hj]]]].
      * right. exists O. split; [discriminate|cbn; congruence].
      * left. exact H1.
      * right. exists (S j). split; [congruence|exact Hj].
    + intros [H1|[j [Hne Hj]]]; [right; left; exact H1|]. destruct j as [|j]; cbn [nth_error] in Hj.
      * left. congruence.
      * right. right. exists j. split; [congruence|exact Hj].
Qed.

Lemma in_del_nth {A} : forall (l : list A) i x y, nth_error l i = Some y ->
  In x (del_nth l i) <-> exists j, j <> i /\ nth_error l j = Some x.
Proof.
  induction l as [|a l IH]; intros i x y H; [destruct i; discriminate|]. destruct i as [|i]; cbn [del_nth nth_error In] in *.
  - split.
    + intro H1. apply In_nth_error in H1. destruct H1 as [j Hj]. exists (S j). split; [discriminate|exact Hj].
    + intros [j [Hne Hj]]. destruct j as [|j]; [congruence|]. eapply nth_error_In. exact Hj.
  - rewrite (IH i x y H). split.
    + intros [H1|[j [Hne Hj]]]; [exists O; split; [discriminate|cbn; congruence] | exists (S j); split; [congruence|exact Hj]].
    + intros [j [Hne Hj]]. destruct j as [|j]; cbn [nth_error] in Hj; [left; congruence|right; exists j; split; [congruence|exact Hj]].
Qed.

(* One read. [s] is the polled shard, [p] its position before, [e] after. *)
Theorem kinesis_read_step : forall limit avail closed r r' recs fin,
  kr_read limit avail closed r = (r', recs, fin) ->
  (kr_shards r = [] /\ r' = r /\ recs = [] /\ fin = []) \/
  (kr_shards r <> [] /\ nth_error (kr_shards r) (kr_idx r) = None /\ r' = r /\ recs = [] /\ fin = []) \/
  exists s p e, nth_error (kr_shards r) (kr_idx r) = Some (s, p) /\ p <= e /\
    (* exactly the next consecutive records of that shard, none beyond what the shard holds unless nothing is read *)
    recs = map (fun i => (s, i)) (h_range p (N.to_nat (e - p))) /\ (e <= N.max p (lookupN avail s)) /\
    (* the polled shard moves behind them, or is finished and dropped; all other entries are untouched *)
    ((fin = [] /\ forall x, In x (kr_shards r') <-> x = (s, e) \/ exists j, j <> kr_idx r /\ nth_error (kr_shards r) j = Some x) \/
     (fin = [s] /\ memN s closed = true /\ lookupN avail s <= e /\
      forall x, In x (kr_shards r') <-> exists j, j <> kr_idx r /\ nth_error (kr_shards r) j = Some x)).
Proof.
  intros limit avail closed r r' recs fin H. unfold kr_read in H.
  destruct (nth_error (kr_shards r) (kr_idx r)) as [[s p]|] eqn:En.
  - right. right. set (a := lookupN avail s) in *. set (e := N.max p (N.min (p + limit) a)) in *.
    exists s, p, e. split; [reflexivity|]. split; [unfold e; lia|].
    destruct ((a <=? e) && memN s closed) eqn:Ef; inversion H; subst r' recs fin; clear H.
    + split; [reflexivity|]. split; [unfold e; lia|]. right. apply andb_true_iff in Ef. destruct Ef as [E1 E2].
      split; [reflexivity|]. split; [exact E2|]. split; [lia|]. cbn [kr_shards]. intro x. eapply in_del_nth. exact En.
    + split; [reflexivity|]. split; [unfold e; lia|]. left. split; [reflexivity|]. cbn [kr_shards]. intro x. eapply in_set_nth. exact En.
  - inversion H; subst. destruct (kr_shards r') eqn:E; [left; auto | right; left; repeat split; auto; discriminate].
Qed.

(* Checkpoint() reports every held shard with its position: nothing is skipped *)
Theorem kinesis_checkpoint_complete : forall r x, In x (kr_shards r) <-> In x (kr_checkpoint r).
Proof. intros. reflexivity. Qed.

(* a recovery hands the checkpointed positions back: the restored reader holds exactly what was checkpointed *)
Theorem kinesis_restore_resumes : forall r, kr_shards (kr_assign (kr_checkpoint r) kr_new) = kr_checkpoint r.
Proof. intros. reflexivity. Qed.
