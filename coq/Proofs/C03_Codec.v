(* C03, byte level: the stored-key codecs of the keyed state store.
   decode_encode, subject_prefix_free, timer_keys_disjoint and the order embedding used by the refinement. *)
From Coq Require Import ZifyN ZifyNat ZifyBool.
From RV Require Import Model.StateStore.
Open Scope N_scope.

Ltac Zify.zify_post_hook ::= Z.div_mod_to_equations.

(* ---------------------------------------------------------------- lists / prefixes *)

Lemma is_prefix_app_inv p q b : is_prefix (p ++ q) b = true -> is_prefix p b = true.
Proof.
  rewrite !is_prefix_spec. intros [s ->]. exists (q ++ s). now rewrite app_assoc.
Qed.

Lemma is_prefix_same_len_app p q a b :
  length p = length q -> is_prefix (p ++ a) (q ++ b) = is_prefix p q && is_prefix a b.
Proof.
  revert q; induction p as [|x p IH]; intros [|y q] Hl; cbn in *; try discriminate; [reflexivity|].
  rewrite IH by lia. now rewrite andb_assoc.
Qed.

Lemma is_prefix_same_len_eq p q : length p = length q -> is_prefix p q = true -> p = q.
Proof.
  revert q; induction p as [|x p IH]; intros [|y q] Hl H; cbn in *; try discriminate; [reflexivity|].
  apply andb_true_iff in H as [H1 H2]. apply N.eqb_eq in H1. subst y. f_equal. apply IH; [lia|exact H2].
Qed.

Lemma is_prefix_refl p : is_prefix p p = true.
Proof. rewrite <- (app_nil_r p) at 2. apply is_prefix_app. Qed.

Lemma bcmp_app_same p a b : bcmp (p ++ a) (p ++ b) = bcmp a b.
Proof. induction p as [|x p IH]; cbn; [reflexivity|]. now rewrite N.compare_refl. Qed.

Lemma bcmp_same_len_app p q a b :
  length p = length q -> bcmp (p ++ a) (q ++ b) = match bcmp p q with Eq => bcmp a b | c => c end.
Proof.
  revert q; induction p as [|x p IH]; intros [|y q] Hl; cbn in *; try discriminate; [reflexivity|].
  destruct (x ?= y); try reflexivity. apply IH. lia.
Qed.

(* ---------------------------------------------------------------- fixed-width integers *)

Lemma be16_length x : length (be16 x) = 2%nat.
Proof. reflexivity. Qed.
Lemma be32_length x : length (be32 x) = 4%nat.
Proof. reflexivity. Qed.
Lemma be64_length x : length (be64 x) = 8%nat.
Proof. reflexivity. Qed.

Lemma be32_decode x : x < 2 ^ 32 -> be_decode (be32 x) = x.
Proof.
  intros H. unfold be_decode, be32. cbn [fold_left].
  rewrite !N.shiftr_div_pow2.
  change (2 ^ 32) with 4294967296 in H.
  change (2 ^ 24) with 16777216. change (2 ^ 16) with 65536. change (2 ^ 8) with 256.
  lia.
Qed.

Lemma be32_inj x y : x < 2 ^ 32 -> y < 2 ^ 32 -> be32 x = be32 y -> x = y.
Proof. intros Hx Hy E. rewrite <- (be32_decode x Hx), <- (be32_decode y Hy). now rewrite E. Qed.

Lemma u32_small x : x < 2 ^ 32 -> u32 x = x.
Proof. apply wrap_small. Qed.
Lemma u8_small x : x < 2 ^ 8 -> u8 x = x.
Proof. apply wrap_small. Qed.

Lemma blen_app a b : blen (a ++ b) = blen a + blen b.
Proof. unfold blen. rewrite app_length. lia. Qed.

(* ---------------------------------------------------------------- shape of the keys *)

Definition hdr (kgf : bytes -> N) (k : bytes) : bytes := be16 (kgf k) ++ [0] ++ be32 (u32 (blen k)).
Definition tail_of (ns e : bytes) : bytes := [u8 (blen ns)] ++ ns ++ e.

Lemma hdr_length kgf k : length (hdr kgf k) = 7%nat.
Proof. reflexivity. Qed.

Lemma enc_subject_eq kgf k : enc_subject kgf k = hdr kgf k ++ k.
Proof. unfold enc_subject, hdr. now rewrite <- !app_assoc. Qed.

Lemma enc_db_eq kgf k ns e : enc_db kgf k ns e = enc_subject kgf k ++ tail_of ns e.
Proof. unfold enc_db, enc_subject, tail_of. now rewrite <- !app_assoc. Qed.

(* the parametrised encoders are the coordinator's encoders of Model/KeyCodec.v *)
Lemma enc_db_is_encode_db_key count k ns e : enc_db (key_group count) k ns e = encode_db_key count k ns e.
Proof. reflexivity. Qed.
Lemma enc_subject_is_encode_subject_key count k : enc_subject (key_group count) k = encode_subject_key count k.
Proof. reflexivity. Qed.
Lemma enc_timer_is_encode_timer_key count k t : enc_timer (key_group count) k t = encode_timer_key count k t.
Proof. reflexivity. Qed.

(* ---------------------------------------------------------------- decode_encode *)

Lemma skipn_app_exact {A} (a b : list A) n : n = length a -> skipn n (a ++ b) = b.
Proof. intros ->. rewrite skipn_app, skipn_all, Nat.sub_diag. reflexivity. Qed.
Lemma firstn_app_exact {A} (a b : list A) n : n = length a -> firstn n (a ++ b) = a.
Proof. intros ->. rewrite firstn_app, firstn_all, Nat.sub_diag. cbn. apply app_nil_r. Qed.

Theorem decode_encode_g kgf k ns e :
  blen ns < 256 -> blen k < 2 ^ 32 -> decode_key (enc_db kgf k ns e) = Some (ns, e).
Proof.
  intros Hns Hk. unfold decode_key, enc_db.
  assert (E3 : skipn 3 (be16 (kgf k) ++ [0] ++ be32 (u32 (blen k)) ++ k ++ [u8 (blen ns)] ++ ns ++ e)
               = be32 (u32 (blen k)) ++ k ++ [u8 (blen ns)] ++ ns ++ e) by reflexivity.
  rewrite E3.
  replace (length (be32 (u32 (blen k)) ++ k ++ [u8 (blen ns)] ++ ns ++ e) <? 4)%nat with false
    by (symmetry; apply Nat.ltb_ge; rewrite app_length, be32_length; lia).
  assert (E4 : firstn 4 (be32 (u32 (blen k)) ++ k ++ [u8 (blen ns)] ++ ns ++ e) = be32 (u32 (blen k)))
    by (apply firstn_app_exact; reflexivity).
  assert (E5 : skipn 4 (be32 (u32 (blen k)) ++ k ++ [u8 (blen ns)] ++ ns ++ e) = k ++ [u8 (blen ns)] ++ ns ++ e)
    by (apply skipn_app_exact; reflexivity).
  rewrite E4, E5. rewrite (u32_small _ Hk), (be32_decode _ Hk).
  rewrite (skipn_app_exact k) by (unfold blen; lia).
  cbn [app]. rewrite (u8_small (blen ns)) by exact Hns.
  replace (N.to_nat (blen ns)) with (length ns) by (unfold blen; lia).
  replace (length (ns ++ e) <? length ns)%nat with false
    by (symmetry; apply Nat.ltb_ge; rewrite app_length; lia).
  rewrite firstn_app_exact, skipn_app_exact by reflexivity. reflexivity.
Qed.

(* the one-byte namespace length wraps: a 256-byte namespace is read back as the empty namespace *)
Lemma ns_len_wrap_refuted_g kgf :
  exists k ns e, blen ns = 256 /\ decode_key (enc_db kgf k ns e) <> Some (ns, e).
Proof.
  exists [], (repeat 0 256), []. split; [reflexivity|].
  intros H. vm_compute in H. discriminate.
Qed.

(* ---------------------------------------------------------------- subject_prefix_free *)

Theorem subject_prefix_free_g kgf k k' ns e :
  blen k < 2 ^ 32 -> blen k' < 2 ^ 32 ->
  (is_prefix (enc_subject kgf k) (enc_db kgf k' ns e) = true <-> k = k').
Proof.
  intros Hk Hk'. split.
  - rewrite enc_db_eq, !enc_subject_eq. rewrite <- app_assoc.
    rewrite is_prefix_same_len_app by reflexivity. intros H. apply andb_true_iff in H as [H1 H2].
    apply is_prefix_same_len_eq in H1; [|reflexivity].
    assert (Hl : blen k = blen k').
    { assert (E : skipn 3 (be16 (kgf k) ++ [0] ++ be32 (u32 (blen k))) = skipn 3 (be16 (kgf k') ++ [0] ++ be32 (u32 (blen k'))))
        by (unfold hdr in H1; now rewrite H1).
      change (be32 (u32 (blen k)) = be32 (u32 (blen k'))) in E.
      rewrite !u32_small in E by assumption. now apply be32_inj. }
    assert (Hl' : length k = length k') by (unfold blen in Hl; lia).
    rewrite <- (app_nil_r k) in H2. rewrite is_prefix_same_len_app in H2 by exact Hl'.
    apply andb_true_iff in H2 as [H2 _]. now apply is_prefix_same_len_eq.
  - intros <-. rewrite enc_db_eq. apply is_prefix_app.
Qed.

(* ---------------------------------------------------------------- timer_keys_disjoint *)

Lemma is_prefix_third_byte (a b : N) (g1 g2 : N) r1 r2 :
  a <> b -> is_prefix (be16 g1 ++ [a] ++ r1) (be16 g2 ++ [b] ++ r2) = false.
Proof.
  intros Hab. rewrite is_prefix_same_len_app by reflexivity.
  cbn [app is_prefix]. apply N.eqb_neq in Hab. rewrite Hab. cbn. apply andb_false_r.
Qed.

(* no timer key lies under a subject-key prefix (so GetState never sees one) ... *)
Theorem timer_not_under_subject kgf k k' t : is_prefix (enc_subject kgf k) (enc_timer kgf k' t) = false.
Proof. unfold enc_subject, enc_timer. apply is_prefix_third_byte. discriminate. Qed.

(* ... and no state key lies under a timer scan prefix (so the timer queue never loads one) *)
Theorem state_not_under_timer_scan kgf g k ns e : is_prefix (timer_scan_prefix g) (enc_db kgf k ns e) = false.
Proof.
  unfold timer_scan_prefix, enc_db. rewrite <- (app_nil_r [1]). apply (is_prefix_third_byte 1 0). discriminate.
Qed.

Lemma enc_timer_ne_enc_db kgf k t k' ns e : enc_timer kgf k t <> enc_db kgf k' ns e.
Proof.
  intros E. pose proof (timer_not_under_subject kgf k' k t) as H.
  rewrite E, enc_db_eq, is_prefix_app in H. discriminate.
Qed.

(* ---------------------------------------------------------------- order embedding *)

Lemma ns_cmp_eq a b : ns_cmp a b = Eq <-> a = b.
Proof.
  unfold ns_cmp. destruct (Nat.compare (length a) (length b)) eqn:E.
  - apply bcmp_eq.
  - split; [discriminate|]. intros ->. rewrite Nat.compare_refl in E. discriminate.
  - split; [discriminate|]. intros ->. rewrite Nat.compare_refl in E. discriminate.
Qed.

Lemma ekey_cmp_eq x y : ekey_cmp x y = Eq <-> x = y.
Proof.
  destruct x as [a b], y as [c d]. unfold ekey_cmp. cbn [fst snd].
  destruct (ns_cmp a c) eqn:E.
  - apply ns_cmp_eq in E. subst c. rewrite bcmp_eq. split; [intros ->; reflexivity|]. intros H. now inversion H.
  - split; [discriminate|]. intros H. inversion H; subst. rewrite (proj2 (ns_cmp_eq c c) eq_refl) in E. discriminate.
  - split; [discriminate|]. intros H. inversion H; subst. rewrite (proj2 (ns_cmp_eq c c) eq_refl) in E. discriminate.
Qed.

(* the byte order of stored keys of one subject IS the order (namespace by length then bytes, entry key) *)
Theorem enc_db_order kgf k ns e ns' e' :
  blen ns < 256 -> blen ns' < 256 ->
  bcmp (enc_db kgf k ns e) (enc_db kgf k ns' e') = ekey_cmp (ns, e) (ns', e').
Proof.
  intros H H'. rewrite !enc_db_eq, bcmp_app_same. unfold tail_of, ekey_cmp, ns_cmp. cbn [fst snd app bcmp].
  rewrite !u8_small by assumption. unfold blen in *.
  destruct (Nat.compare (length ns) (length ns')) eqn:E.
  - apply Nat.compare_eq in E. rewrite E, N.compare_refl. apply bcmp_same_len_app. exact E.
  - apply Nat.compare_lt_iff in E.
    replace (N.of_nat (length ns) ?= N.of_nat (length ns')) with Lt by (symmetry; apply N.compare_lt_iff; lia).
    reflexivity.
  - apply Nat.compare_gt_iff in E.
    replace (N.of_nat (length ns) ?= N.of_nat (length ns')) with Gt by (symmetry; apply N.compare_gt_iff; lia).
    reflexivity.
Qed.

Lemma enc_db_inj kgf k ns e ns' e' :
  blen ns < 256 -> blen ns' < 256 -> enc_db kgf k ns e = enc_db kgf k ns' e' -> (ns, e) = (ns', e').
Proof.
  intros H H' E. apply ekey_cmp_eq. rewrite <- (enc_db_order kgf k) by assumption. now apply bcmp_eq.
Qed.
