(* C10: the specification the theorems of Props/C10.v are stated against, and the oracle of Corr/Check_timers.v
   (definitions only).  The pending timers are a plain duplicate-free list of (subject key, timestamp) pairs: no byte
   encoding, no cache, no DB, no key groups. *)
From RV Require Import Base.Bytes Model.TimerStore Model.TimerRegistry.
Open Scope N_scope.

Definition fired := (bytes * Z)%type.
Definition fired_eqb (a b : fired) : bool := (snd a =? snd b)%Z && beqb (fst a) (fst b).

Record spec := { sp_pending : list fired; sp_ups : list (N * Z); sp_wm : Z }.

(* a fresh registry (start or restore): upstream watermarks and the composite watermark at the epoch *)
Definition spec_new (srids : list N) (pending : list fired) : spec :=
  {| sp_pending := pending; sp_ups := fold_left (fun l id => ups_set id 0%Z l) srids []; sp_wm := 0%Z |}.

Definition sp_add (x : fired) (l : list fired) : list fired := if existsb (fired_eqb x) l then l else x :: l.

(* SetTimer: ignored unless later than the watermark; registering a pending timer again changes nothing *)
Definition sp_set (k : bytes) (t : Z) (s : spec) : spec :=
  if (sp_wm s <? t)%Z then {| sp_pending := sp_add (k, t) (sp_pending s); sp_ups := sp_ups s; sp_wm := sp_wm s |} else s.

Definition is_due (cw : Z) (x : fired) : bool := (snd x <=? cw)%Z.

(* AdvanceWatermark: the sender's watermark is recorded, the composite watermark is the minimum; exactly the pending
   timers with t <= composite are due and leave the pending set.  SetTimer calls made after the n-th yield happen iff at
   least n timers are due; they see the new watermark. *)
Definition sp_advance (sender : N) (wm : Z) (during : list (nat * bytes * Z)) (s : spec) : list fired * spec :=
  let ups := ups_set sender wm (sp_ups s) in
  let cw := ups_min ups in
  let due := filter (is_due cw) (sp_pending s) in
  let rest := filter (fun x => negb (is_due cw x)) (sp_pending s) in
  let rest' := fold_left (fun l e => let '(a, k, t) := e in
                            if (1 <=? a)%nat && (a <=? length due)%nat && (cw <? t)%Z then sp_add (k, t) l else l) during rest in
  (due, {| sp_pending := rest'; sp_ups := ups; sp_wm := cw |}).

(* the due sets of the advances of a history, in order (in no particular order inside one advance) *)
Definition sp_step (srids : list N) (o : op) (s : spec) : list (list fired) * spec :=
  match o with
  | SetTimer k t => ([], sp_set k t s)
  | Advance sender wm => let '(due, s') := sp_advance sender wm [] s in ([due], s')
  | AdvanceSet sender wm during => let '(due, s') := sp_advance sender wm during s in ([due], s')
  | Restore => ([], spec_new srids (sp_pending s))
  end.

Fixpoint spec_run (srids : list N) (ops : list op) (s : spec) : list (list fired) * spec :=
  match ops with
  | [] => ([], s)
  | o :: r => let '(out, s1) := sp_step srids o s in let '(outs, s2) := spec_run srids r s1 in (out ++ outs, s2)
  end.

(* what an advance's output must satisfy with respect to the due set *)
Fixpoint time_sorted (l : list fired) : bool :=
  match l with
  | x :: ((y :: _) as l') => (snd x <=? snd y)%Z && time_sorted l'
  | _ => true
  end.
Definition count_fired (x : fired) (l : list fired) : nat := length (filter (fired_eqb x) l).

(* the guard of the theorems: registered timestamps are in [0, 2^63) ns *)
Definition t_ok (t : Z) : bool := (0 <=? t)%Z && (t <? 2 ^ 63)%Z.
Definition op_ok (o : op) : bool :=
  match o with
  | SetTimer _ t => t_ok t
  | AdvanceSet _ _ during => forallb (fun e => t_ok (snd e)) during
  | _ => true
  end.
