(* C10: the specification the theorems of Props/C10.v are stated against, and the oracle of Corr/Check_timers.v
   (definitions only).  The pending timers are a plain duplicate-free list of (subject key, timestamp) pairs: no byte
   encoding, no cache, no DB, no key groups. *)
From RV Require Import Base.Bytes Model.TimerStore Model.TimerRegistry.
Open Scope N_scope.

Definition fired := (bytes * Z)%type.
Definition fired_eqb (a b : fired) : bool := (snd a =? snd b)%Z && beqb (fst a) (fst b).

Record spec := { sp_pending : list fired; sp_ups : list (N * Z); sp_wm : Z }.

(* a fresh registry (start or restore): upstream watermarks and the composite watermark at the epoch *)
Definition spec_new (srids : list N) (pending : list fired) : spec :=
  {| sp_pending := pending; sp_ups := fold_left (fun l id => ups_set id 0%Z l) srids []; sp_wm := 0%Z |}.

Definition sp_add (x : fired) (l : list fired) : list fired := if existsb (fired_eqb x) l then l else x :: l.

(* SetTimer: ignored unless later than the watermark; registering a pending timer again changes nothing *)
Definition sp_set (k : bytes) (t : Z) (s : spec) : spec :=
  if (sp_wm s <? t)%Z then {| sp_pending := sp_add (k, t) (sp_pending s); sp_ups := sp_ups s; sp_wm := sp_wm s |} else s.

Definition is_due (cw : Z) (x : fired) : bool := (snd x <=? cw)%Z.

(* AdvanceWatermark: the sender's watermark is recorded, the composite watermark is the minimum; exactly the pending
   timers with t <= composite are due and leave the pending set.  SetTimer calls made after the n-th yield happen iff at
   least n timers are due; they see the new watermark. *)
Definition sp_advance (sender : N) (wm : Z) (during : list (nat * bytes * Z)) (s : spec) : list fired * spec :=
  let ups := ups_set sender wm (sp_ups s) in
  let cw := ups_min ups in
  let due := filter (is_due cw) (sp_pending s) in
  let rest := filter (fun x => negb (is_due cw x)) (sp_pending s) in
  let rest' := fold_left (fun l e => let '(a, k, t) := e in
                            if (1 <=? a)%nat && (a <=? length due)%nat && (cw <? t)%Z then sp_add (k, t) l else l) during rest in
  (due, {| sp_pending := rest'; sp_ups := ups; sp_wm := cw |}).

(* AdvanceWatermark whose consumer stops in the body of the k-th item (k = 0: the iterator is never run): [out] is what was
   handed out.  Which of several due timers with equal timestamps come first is not determined, so the specification takes
   the handed-out list as given, says what it must satisfy ([partial_ok] below) and what follows: exactly the handed-out
   timers leave the pending list - they can never be handed out again -, every other timer stays pending; the consumer's
   SetTimer calls after the n-th item happened for n <= length out. *)
Definition removed (out P : list fired) : list fired := filter (fun x => negb (existsb (fired_eqb x) out)) P.
Definition sp_advance_partial (sender : N) (wm : Z) (during : list (nat * bytes * Z)) (out : list fired) (s : spec) : list fired * spec :=
  let ups := ups_set sender wm (sp_ups s) in
  let cw := ups_min ups in
  let due := filter (is_due cw) (sp_pending s) in
  let rest' := fold_left (fun l e => let '(a, k, t) := e in
                            if (1 <=? a)%nat && (a <=? length out)%nat && (cw <? t)%Z then sp_add (k, t) l else l) during
                         (removed out (sp_pending s)) in
  (due, {| sp_pending := rest'; sp_ups := ups; sp_wm := cw |}).

(* what the specification expects of one advance: the due list, and [Some k] if the consumer stops after k items *)
Definition expect := (list fired * option nat)%type.

Definition is_adv (o : op) : bool := match o with SetTimer _ _ | Restore => false | _ => true end.

(* [out]: what this advance handed out (used by AdvancePartial only) *)
Definition sp_step (srids : list N) (o : op) (out : list fired) (s : spec) : list expect * spec :=
  match o with
  | SetTimer k t => ([], sp_set k t s)
  | Advance sender wm => let '(due, s') := sp_advance sender wm [] s in ([(due, None)], s')
  | AdvanceSet sender wm during => let '(due, s') := sp_advance sender wm during s in ([(due, None)], s')
  | AdvancePartial sender wm k during => let '(due, s') := sp_advance_partial sender wm during out s in ([(due, Some k)], s')
  | Restore => ([], spec_new srids (sp_pending s))
  end.

(* the expectations for the advances of a history, in order; [outs] = what the advances handed out, in order *)
Fixpoint spec_run (srids : list N) (ops : list op) (outs : list (list fired)) (s : spec) : list expect * spec :=
  match ops with
  | [] => ([], s)
  | o :: r =>
      let out := if is_adv o then hd [] outs else [] in
      let outs' := if is_adv o then tl outs else outs in
      let '(e, s1) := sp_step srids o out s in
      let '(es, s2) := spec_run srids r outs' s1 in (e ++ es, s2)
  end.

(* what an advance's output must satisfy with respect to the due set *)
Fixpoint time_sorted (l : list fired) : bool :=
  match l with
  | x :: ((y :: _) as l') => (snd x <=? snd y)%Z && time_sorted l'
  | _ => true
  end.
Definition count_fired (x : fired) (l : list fired) : nat := length (filter (fired_eqb x) l).

(* a stopped consumer got: no timer twice, only due timers, in time order, as many as it asked for (or all that are due),
   and no due timer that it did not get is earlier than one it got *)
Definition partial_ok (k : nat) (due out : list fired) : Prop :=
  NoDup out /\ incl out due /\ time_sorted out = true /\ length out = Nat.min k (length due) /\
  forall x y, In x out -> In y due -> ~ In y out -> (snd x <= snd y)%Z.

(* the guard of the theorems: registered timestamps are in [0, 2^63) ns *)
Definition t_ok (t : Z) : bool := (0 <=? t)%Z && (t <? 2 ^ 63)%Z.
Definition op_ok (o : op) : bool :=
  match o with
  | SetTimer _ t => t_ok t
  | AdvanceSet _ _ during => forallb (fun e => t_ok (snd e)) during
  | AdvancePartial _ _ _ during => forallb (fun e => t_ok (snd e)) during
  | _ => true
  end.
