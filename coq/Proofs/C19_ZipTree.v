(* C19: functional zip tree (Model/ZipTree.v) = sorted association list, for EVERY choice of ranks.
   put/get agree with al_put/al_get on the in-order listing; bst is preserved; ascend_prefix = filter is_prefix. *)
From RV Require Import Base.Bytes Model.ZipTree.
From Coq Require Import Sorted.
Open Scope N_scope.

(* ---------- bcmp library ---------- *)
Lemma bcmp_gt_lt a b : bcmp a b = Gt <-> bcmp b a = Lt.
Proof. rewrite (bcmp_antisym a b). destruct (bcmp a b); cbn [CompOpp]; split; congruence. Qed.

Lemma bcmp_gt_trans a b c : bcmp a b = Gt -> bcmp b c = Gt -> bcmp a c = Gt.
Proof.
  intros Hab Hbc. apply bcmp_gt_lt in Hab. apply bcmp_gt_lt in Hbc. apply bcmp_gt_lt.
  eapply bcmp_lt_trans; eassumption.
Qed.

Lemma bcmp_lt_neq a b : bcmp a b = Lt -> a <> b.
Proof. intros H ->. rewrite bcmp_refl in H. discriminate. Qed.

Lemma bcmp_lt_neq' a b : bcmp a b = Lt -> b <> a.
Proof. intros H ->. rewrite bcmp_refl in H. discriminate. Qed.

Lemma beqb_false_lt a b : bcmp a b = Lt -> beqb a b = false.
Proof. intros H. unfold beqb. rewrite H. reflexivity. Qed.

Lemma beqb_false_gt a b : bcmp a b = Gt -> beqb a b = false.
Proof. intros H. unfold beqb. rewrite H. reflexivity. Qed.

Lemma beqb_refl a : beqb a a = true.
Proof. unfold beqb. rewrite bcmp_refl. reflexivity. Qed.

Lemma bcmp_neq_lt_or a b : a <> b -> bcmp a b <> Lt -> bcmp b a = Lt.
Proof.
  intros Hne Hnl. destruct (bcmp a b) eqn:E.
  - apply bcmp_eq in E. contradiction.
  - contradiction.
  - apply bcmp_gt_lt. exact E.
Qed.

(* ---------- all_keys library ---------- *)
Lemma all_keys_imp (P Q : bytes -> Prop) t :
  (forall x, P x -> Q x) -> all_keys P t -> all_keys Q t.
Proof.
  intros HPQ. induction t as [|l IHl k v rk r IHr]; cbn [all_keys]; [auto|].
  intros (Hl & Hk & Hr). auto.
Qed.

Lemma all_keys_Forall (P : bytes -> Prop) t :
  all_keys P t <-> Forall (fun kv => P (fst kv)) (inorder t).
Proof.
  induction t as [|l IHl k v rk r IHr]; cbn [all_keys inorder].
  - split; auto.
  - rewrite Forall_app, Forall_cons_iff, IHl, IHr. cbn [fst]. tauto.
Qed.

Lemma all_keys_In (P : bytes -> Prop) t :
  all_keys P t <-> (forall kv, In kv (inorder t) -> P (fst kv)).
Proof. rewrite all_keys_Forall, Forall_forall. tauto. Qed.

Lemma all_keys_and (P Q : bytes -> Prop) t :
  all_keys P t -> all_keys Q t -> all_keys (fun x => P x /\ Q x) t.
Proof.
  induction t as [|l IHl k v rk r IHr]; cbn [all_keys]; [auto|].
  intros (Hl & Hk & Hr) (Hl' & Hk' & Hr'). auto.
Qed.

Lemma all_keys_lt_trans a b t :
  bcmp a b = Lt -> all_keys (fun x => bcmp b x = Lt) t -> all_keys (fun x => bcmp a x = Lt) t.
Proof. intros Hab. apply all_keys_imp. intros x Hx. eapply bcmp_lt_trans; eassumption. Qed.

Lemma all_keys_gt_trans a b t :
  bcmp b a = Lt -> all_keys (fun x => bcmp x b = Lt) t -> all_keys (fun x => bcmp x a = Lt) t.
Proof. intros Hab. apply all_keys_imp. intros x Hx. eapply bcmp_lt_trans; eassumption. Qed.

(* ---------- replace ---------- *)
Lemma replace_all_keys (P : bytes -> Prop) k v t t' old :
  replace k v t = Some (t', old) -> all_keys P t -> all_keys P t'.
Proof.
  revert t'. induction t as [|l IHl k' v' rk r IHr]; intros t' Hrep; cbn [replace] in Hrep; [discriminate|].
  destruct (bcmp k k') eqn:E.
  - apply bcmp_eq in E. subst k'. inversion Hrep; subst. cbn [all_keys]. tauto.
  - destruct (replace k v l) as [[l' o]|] eqn:R; [|discriminate]. inversion Hrep; subst.
    cbn [all_keys]. intros (Hl & Hk & Hr). specialize (IHl _ eq_refl). tauto.
  - destruct (replace k v r) as [[r' o]|] eqn:R; [|discriminate]. inversion Hrep; subst.
    cbn [all_keys]. intros (Hl & Hk & Hr). specialize (IHr _ eq_refl). tauto.
Qed.

Lemma replace_bst k v t t' old : replace k v t = Some (t', old) -> bst t -> bst t'.
Proof.
  revert t'. induction t as [|l IHl k' v' rk r IHr]; intros t' Hrep; cbn [replace] in Hrep; [discriminate|].
  destruct (bcmp k k') eqn:E.
  - apply bcmp_eq in E. subst k'. inversion Hrep; subst. cbn [bst]. tauto.
  - destruct (replace k v l) as [[l' o]|] eqn:R; [|discriminate]. inversion Hrep; subst.
    cbn [bst]. intros (Hl & Hr & Hal & Har). specialize (IHl _ eq_refl).
    repeat split; auto. eapply replace_all_keys; eassumption.
  - destruct (replace k v r) as [[r' o]|] eqn:R; [|discriminate]. inversion Hrep; subst.
    cbn [bst]. intros (Hl & Hr & Hal & Har). specialize (IHr _ eq_refl).
    repeat split; auto. eapply replace_all_keys; eassumption.
Qed.

Lemma replace_none_absent k v t : bst t -> replace k v t = None -> all_keys (fun x => x <> k) t.
Proof.
  induction t as [|l IHl k' v' rk r IHr]; cbn [bst replace all_keys]; [auto|].
  intros (Hl & Hr & Hal & Har) Hrep.
  destruct (bcmp k k') eqn:E; [discriminate| |].
  - destruct (replace k v l) as [[l' o]|] eqn:R; [discriminate|].
    split; [auto|]. split; [apply bcmp_lt_neq'; exact E|].
    eapply all_keys_imp; [|eapply all_keys_lt_trans; [exact E|exact Har]].
    intros x Hx. apply bcmp_lt_neq'. exact Hx.
  - apply bcmp_gt_lt in E.
    destruct (replace k v r) as [[r' o]|] eqn:R; [discriminate|].
    split; [|split; [apply bcmp_lt_neq; exact E|auto]].
    eapply all_keys_imp; [|eapply all_keys_gt_trans; [exact E|exact Hal]].
    intros x Hx. apply bcmp_lt_neq. exact Hx.
Qed.

(* ---------- unzip ---------- *)
Lemma unzip_all_keys (P : bytes -> Prop) k t :
  all_keys P t -> all_keys P (fst (unzip k t)) /\ all_keys P (snd (unzip k t)).
Proof.
  induction t as [|l IHl k' v' rk r IHr]; cbn [unzip all_keys]; [cbn; auto|].
  intros (Hl & Hk & Hr).
  destruct (bcmp k' k).
  - destruct (unzip k l) as [a b]. cbn [fst snd all_keys] in *. tauto.
  - destruct (unzip k r) as [a b]. cbn [fst snd all_keys] in *. tauto.
  - destruct (unzip k l) as [a b]. cbn [fst snd all_keys] in *. tauto.
Qed.

Lemma unzip_inorder k t : inorder (fst (unzip k t)) ++ inorder (snd (unzip k t)) = inorder t.
Proof.
  induction t as [|l IHl k' v' rk r IHr]; cbn [unzip inorder]; [reflexivity|].
  destruct (bcmp k' k).
  - destruct (unzip k l) as [a b]. cbn [fst snd inorder] in *. rewrite <- IHl, <- app_assoc. reflexivity.
  - destruct (unzip k r) as [a b]. cbn [fst snd inorder] in *. rewrite <- IHr, <- app_assoc. reflexivity.
  - destruct (unzip k l) as [a b]. cbn [fst snd inorder] in *. rewrite <- IHl, <- app_assoc. reflexivity.
Qed.

Lemma unzip_bst k t :
  bst t -> all_keys (fun x => x <> k) t ->
  bst (fst (unzip k t)) /\ bst (snd (unzip k t)) /\
  all_keys (fun x => bcmp x k = Lt) (fst (unzip k t)) /\
  all_keys (fun x => bcmp k x = Lt) (snd (unzip k t)).
Proof.
  induction t as [|l IHl k' v' rk r IHr]; cbn [bst all_keys unzip]; [cbn; auto|].
  intros (Hl & Hr & Hal & Har) (Nl & Nk & Nr).
  assert (Hcase : bcmp k' k = Lt \/ (bcmp k' k <> Lt /\ bcmp k k' = Lt)).
  { destruct (bcmp k' k) eqn:E; [right|left; reflexivity|right].
    - apply bcmp_eq in E. contradiction.
    - split; [discriminate|]. apply bcmp_gt_lt. exact E. }
  destruct Hcase as [E|[E1 E]].
  - rewrite E. specialize (IHr Hr Nr). pose proof (unzip_all_keys _ k r Har) as Hu.
    destruct (unzip k r) as [a b]. cbn [fst snd bst all_keys] in *.
    destruct IHr as (Ba & Bb & La & Lb). destruct Hu as (Ua & Ub).
    repeat split; auto. eapply all_keys_gt_trans; eassumption.
  - specialize (IHl Hl Nl). pose proof (unzip_all_keys _ k l Hal) as Hu.
    assert (Hres : unzip k (Node l k' v' rk r) = (fst (unzip k l), Node (snd (unzip k l)) k' v' rk r)).
    { cbn [unzip]. destruct (bcmp k' k); [|contradiction|]; destruct (unzip k l); reflexivity. }
    cbn [unzip] in Hres. rewrite Hres. clear Hres.
    destruct (unzip k l) as [a b]. cbn [fst snd bst all_keys] in *.
    destruct IHl as (Ba & Bb & La & Lb). destruct Hu as (Ua & Ub).
    repeat split; auto. eapply all_keys_lt_trans; eassumption.
Qed.

(* ---------- insert ---------- *)
Lemma insert_all_keys (P : bytes -> Prop) k v rank t :
  P k -> all_keys P t -> all_keys P (insert k v rank t).
Proof.
  intros Pk. induction t as [|l IHl k' v' rk r IHr]; cbn [insert all_keys]; [auto|].
  intros (Hl & Hk & Hr).
  destruct ((rank <? rk) || ((rank =? rk) && match bcmp k k' with Gt => true | _ => false end)).
  - destruct (bcmp k k'); cbn [all_keys]; auto.
  - pose proof (unzip_all_keys P k (Node l k' v' rk r)) as Hu. cbn [all_keys] in Hu.
    specialize (Hu (conj Hl (conj Hk Hr))).
    destruct (unzip k (Node l k' v' rk r)) as [a b]. cbn [fst snd all_keys] in *. tauto.
Qed.

Lemma insert_bst k v rank t :
  bst t -> all_keys (fun x => x <> k) t -> bst (insert k v rank t).
Proof.
  induction t as [|l IHl k' v' rk r IHr]; [cbn; auto|].
  intros Hb Hn. cbn [insert].
  destruct ((rank <? rk) || ((rank =? rk) && match bcmp k k' with Gt => true | _ => false end)).
  - cbn [bst all_keys] in Hb, Hn. destruct Hb as (Hl & Hr & Hal & Har). destruct Hn as (Nl & Nk & Nr).
    destruct (bcmp k k') eqn:E.
    + apply bcmp_eq in E. symmetry in E. contradiction.
    + cbn [bst]. repeat split; auto. apply insert_all_keys; assumption.
    + apply bcmp_gt_lt in E. cbn [bst]. repeat split; auto. apply insert_all_keys; assumption.
  - pose proof (unzip_bst k _ Hb Hn) as Hu.
    destruct (unzip k (Node l k' v' rk r)) as [a b]. cbn [fst snd] in Hu. cbn [bst]. tauto.
Qed.

Lemma put_bst : forall k v rank t, bst t -> bst (fst (put k v rank t)).
Proof.
  intros k v rank t Hb. unfold put.
  destruct (replace k v t) as [[t' old]|] eqn:R; cbn [fst].
  - eapply replace_bst; eassumption.
  - apply insert_bst; [exact Hb|]. eapply replace_none_absent; eassumption.
Qed.

(* ---------- association-list library ---------- *)
Lemma al_put_app_lt k v l1 l2 :
  Forall (fun kv => bcmp (fst kv) k = Lt) l1 -> al_put k v (l1 ++ l2) = l1 ++ al_put k v l2.
Proof.
  induction l1 as [|[a b] l1 IH]; intros HF; cbn [app al_put]; [reflexivity|].
  apply Forall_cons_iff in HF. destruct HF as [Ha HF]. cbn [fst] in Ha.
  apply bcmp_gt_lt in Ha. rewrite Ha. f_equal. auto.
Qed.

Lemma al_put_app_left k v k' v' l1 l2 :
  bcmp k k' = Lt -> al_put k v (l1 ++ (k', v') :: l2) = al_put k v l1 ++ (k', v') :: l2.
Proof.
  intros Hlt. induction l1 as [|[a b] l1 IH]; cbn [app al_put].
  - rewrite Hlt. reflexivity.
  - destruct (bcmp k a); cbn [app]; [reflexivity|reflexivity|]. f_equal. exact IH.
Qed.

Lemma al_put_gt_all k v l :
  Forall (fun kv => bcmp k (fst kv) = Lt) l -> al_put k v l = (k, v) :: l.
Proof.
  destruct l as [|[a b] l]; intros HF; cbn [al_put]; [reflexivity|].
  apply Forall_cons_iff in HF. destruct HF as [Ha _]. cbn [fst] in Ha. rewrite Ha. reflexivity.
Qed.

Lemma al_get_app k l1 l2 :
  al_get k (l1 ++ l2) = match al_get k l1 with Some v => Some v | None => al_get k l2 end.
Proof.
  induction l1 as [|[a b] l1 IH]; cbn [app al_get]; [reflexivity|].
  destruct (beqb k a); [reflexivity|exact IH].
Qed.

Lemma al_get_none k l : Forall (fun kv => fst kv <> k) l -> al_get k l = None.
Proof.
  induction l as [|[a b] l IH]; intros HF; cbn [al_get]; [reflexivity|].
  apply Forall_cons_iff in HF. destruct HF as [Ha HF]. cbn [fst] in Ha.
  destruct (beqb k a) eqn:E; [|auto]. apply beqb_eq in E. symmetry in E. contradiction.
Qed.

Lemma al_get_al_put_same k v m : al_get k (al_put k v m) = Some v.
Proof.
  induction m as [|[a b] m IH]; cbn [al_put al_get].
  - rewrite beqb_refl. reflexivity.
  - destruct (bcmp k a) eqn:E; cbn [al_get].
    + rewrite beqb_refl. reflexivity.
    + rewrite beqb_refl. reflexivity.
    + rewrite (beqb_false_gt _ _ E). exact IH.
Qed.

Lemma al_get_al_put_other k k' v m : k' <> k -> al_get k' (al_put k v m) = al_get k' m.
Proof.
  intros Hne. assert (Hf : beqb k' k = false).
  { destruct (beqb k' k) eqn:E; [|reflexivity]. apply beqb_eq in E. contradiction. }
  induction m as [|[a b] m IH]; cbn [al_put al_get].
  - rewrite Hf. reflexivity.
  - destruct (bcmp k a) eqn:E; cbn [al_get].
    + apply bcmp_eq in E. subst a. rewrite Hf. reflexivity.
    + rewrite Hf. reflexivity.
    + rewrite IH. reflexivity.
Qed.

(* Forall views of the bst bounds *)
Lemma all_keys_lt_Forall k t :
  all_keys (fun x => bcmp x k = Lt) t -> Forall (fun kv => bcmp (fst kv) k = Lt) (inorder t).
Proof. intros H. apply (proj1 (all_keys_Forall _ t)) in H. exact H. Qed.

Lemma all_keys_gt_Forall k t :
  all_keys (fun x => bcmp k x = Lt) t -> Forall (fun kv => bcmp k (fst kv) = Lt) (inorder t).
Proof. intros H. apply (proj1 (all_keys_Forall _ t)) in H. exact H. Qed.

Lemma all_keys_neq_Forall k t :
  all_keys (fun x => x <> k) t -> Forall (fun kv => fst kv <> k) (inorder t).
Proof. intros H. apply (proj1 (all_keys_Forall _ t)) in H. exact H. Qed.

(* ---------- inorder of replace / insert / put ---------- *)
Lemma inorder_replace k v t t' old :
  bst t -> replace k v t = Some (t', old) -> inorder t' = al_put k v (inorder t).
Proof.
  revert t'. induction t as [|l IHl k' v' rk r IHr]; intros t' Hb Hrep; cbn [replace] in Hrep; [discriminate|].
  cbn [bst] in Hb. destruct Hb as (Hl & Hr & Hal & Har).
  destruct (bcmp k k') eqn:E.
  - apply bcmp_eq in E. subst k'. inversion Hrep; subst. cbn [inorder].
    rewrite al_put_app_lt by (apply all_keys_lt_Forall; exact Hal).
    cbn [al_put]. rewrite bcmp_refl. reflexivity.
  - destruct (replace k v l) as [[l' o]|] eqn:R; [|discriminate]. inversion Hrep; subst.
    cbn [inorder]. rewrite al_put_app_left by exact E. rewrite (IHl _ Hl eq_refl). reflexivity.
  - destruct (replace k v r) as [[r' o]|] eqn:R; [|discriminate]. inversion Hrep; subst.
    cbn [inorder]. pose proof E as E'. apply bcmp_gt_lt in E'.
    rewrite al_put_app_lt by (apply all_keys_lt_Forall; eapply all_keys_gt_trans; eassumption).
    cbn [al_put]. rewrite E. rewrite (IHr _ Hr eq_refl). reflexivity.
Qed.

Lemma inorder_insert k v rank t :
  bst t -> all_keys (fun x => x <> k) t -> inorder (insert k v rank t) = al_put k v (inorder t).
Proof.
  induction t as [|l IHl k' v' rk r IHr]; [cbn; auto|].
  intros Hb Hn. cbn [insert].
  destruct ((rank <? rk) || ((rank =? rk) && match bcmp k k' with Gt => true | _ => false end)).
  - cbn [bst all_keys] in Hb, Hn. destruct Hb as (Hl & Hr & Hal & Har). destruct Hn as (Nl & Nk & Nr).
    destruct (bcmp k k') eqn:E.
    + apply bcmp_eq in E. symmetry in E. contradiction.
    + cbn [inorder]. rewrite al_put_app_left by exact E. rewrite IHl by assumption. reflexivity.
    + cbn [inorder]. pose proof E as E'. apply bcmp_gt_lt in E'.
      rewrite al_put_app_lt by (apply all_keys_lt_Forall; eapply all_keys_gt_trans; eassumption).
      cbn [al_put]. rewrite E. rewrite IHr by assumption. reflexivity.
  - pose proof (unzip_bst k _ Hb Hn) as Hu. pose proof (unzip_inorder k (Node l k' v' rk r)) as Hi.
    destruct (unzip k (Node l k' v' rk r)) as [a b]. cbn [fst snd] in Hu, Hi.
    destruct Hu as (Ba & Bb & La & Lb). rewrite <- Hi. cbn [inorder].
    rewrite al_put_app_lt by (apply all_keys_lt_Forall; exact La).
    rewrite al_put_gt_all by (apply all_keys_gt_Forall; exact Lb). reflexivity.
Qed.

Lemma inorder_put : forall k v rank t, bst t -> inorder (fst (put k v rank t)) = al_put k v (inorder t).
Proof.
  intros k v rank t Hb. unfold put.
  destruct (replace k v t) as [[t' old]|] eqn:R; cbn [fst].
  - eapply inorder_replace; eassumption.
  - apply inorder_insert; [exact Hb|]. eapply replace_none_absent; eassumption.
Qed.

(* ---------- get ---------- *)
Lemma get_inorder : forall k t, bst t -> get k t = al_get k (inorder t).
Proof.
  intros k. induction t as [|l IHl k' v' rk r IHr]; [reflexivity|].
  cbn [bst get inorder]. intros (Hl & Hr & Hal & Har). rewrite al_get_app. cbn [al_get].
  destruct (bcmp k k') eqn:E.
  - apply bcmp_eq in E. subst k'. rewrite beqb_refl.
    rewrite al_get_none; [reflexivity|].
    eapply Forall_impl; [|apply all_keys_lt_Forall; exact Hal].
    intros kv Hkv. apply bcmp_lt_neq. exact Hkv.
  - rewrite (beqb_false_lt _ _ E). rewrite <- (IHl Hl).
    rewrite (al_get_none k (inorder r)); [destruct (get k l); reflexivity|].
    eapply Forall_impl; [|apply all_keys_gt_Forall; eapply all_keys_lt_trans; eassumption].
    intros kv Hkv. apply bcmp_lt_neq'. exact Hkv.
  - rewrite (beqb_false_gt _ _ E). apply bcmp_gt_lt in E.
    rewrite al_get_none; [auto|].
    eapply Forall_impl; [|apply all_keys_lt_Forall; eapply all_keys_gt_trans; eassumption].
    intros kv Hkv. apply bcmp_lt_neq. exact Hkv.
Qed.

Lemma replace_get k v t :
  match replace k v t with Some (_, old) => get k t = Some old | None => get k t = None end.
Proof.
  induction t as [|l IHl k' v' rk r IHr]; cbn [replace get]; [reflexivity|].
  destruct (bcmp k k').
  - reflexivity.
  - destruct (replace k v l) as [[l' o]|]; exact IHl.
  - destruct (replace k v r) as [[r' o]|]; exact IHr.
Qed.

Lemma put_replaced : forall k v rank t, bst t -> snd (put k v rank t) = al_get k (inorder t).
Proof.
  intros k v rank t Hb. rewrite <- get_inorder by exact Hb. unfold put.
  pose proof (replace_get k v t) as H.
  destruct (replace k v t) as [[t' old]|]; cbn [snd]; symmetry; exact H.
Qed.

Lemma get_put_same : forall k v rank t, bst t -> get k (fst (put k v rank t)) = Some v.
Proof.
  intros k v rank t Hb. rewrite get_inorder by (apply put_bst; exact Hb).
  rewrite inorder_put by exact Hb. apply al_get_al_put_same.
Qed.

Lemma get_put_other : forall k k' v rank t, bst t -> k' <> k -> get k' (fst (put k v rank t)) = get k' t.
Proof.
  intros k k' v rank t Hb Hne. rewrite get_inorder by (apply put_bst; exact Hb).
  rewrite inorder_put by exact Hb. rewrite get_inorder by exact Hb.
  apply al_get_al_put_other. exact Hne.
Qed.

(* ---------- sortedness ---------- *)
Definition klt (a b : bytes * bytes) : Prop := bcmp (fst a) (fst b) = Lt.

Lemma StronglySorted_app_mid (l1 l2 : list (bytes * bytes)) x :
  StronglySorted klt l1 -> StronglySorted klt l2 ->
  Forall (fun a => klt a x) l1 -> Forall (fun b => klt x b) l2 ->
  StronglySorted klt (l1 ++ x :: l2).
Proof.
  intros S1 S2 F1 F2. induction l1 as [|a l1 IH]; cbn [app].
  - constructor; assumption.
  - apply StronglySorted_inv in S1. destruct S1 as [S1 Fa].
    apply Forall_cons_iff in F1. destruct F1 as [Hax F1].
    constructor; [auto|].
    apply Forall_app. split; [exact Fa|]. constructor; [exact Hax|].
    eapply Forall_impl; [|exact F2]. intros b Hb. unfold klt in *. eapply bcmp_lt_trans; eassumption.
Qed.

Lemma inorder_sorted : forall t, bst t -> StronglySorted (fun a b => bcmp (fst a) (fst b) = Lt) (inorder t).
Proof.
  change (forall t, bst t -> StronglySorted klt (inorder t)).
  induction t as [|l IHl k v rk r IHr]; cbn [bst inorder]; [constructor|].
  intros (Hl & Hr & Hal & Har). apply StronglySorted_app_mid; auto.
  - apply all_keys_lt_Forall in Hal. exact Hal.
  - apply all_keys_gt_Forall in Har. exact Har.
Qed.

(* ---------- prefixes in lexicographic order ---------- *)
Lemma prefix_ge p x : is_prefix p x = true -> bcmp p x <> Gt.
Proof.
  revert x. induction p as [|a p IH]; intros [|b x] H; cbn [is_prefix bcmp] in *; try discriminate.
  apply andb_true_iff in H. destruct H as [H1 H2]. apply N.eqb_eq in H1. subst b.
  rewrite N.compare_refl. apply IH. exact H2.
Qed.

Lemma prefix_between p x y :
  is_prefix p y = true -> bcmp p x <> Gt -> bcmp x y = Lt -> is_prefix p x = true.
Proof.
  revert x y. induction p as [|a p IH]; intros x y Hy Hpx Hxy; [reflexivity|].
  destruct y as [|b y]; cbn [is_prefix] in Hy; [discriminate|].
  apply andb_true_iff in Hy. destruct Hy as [H1 H2]. apply N.eqb_eq in H1. subst b.
  destruct x as [|c x]; cbn [bcmp] in Hpx; [congruence|].
  cbn [bcmp] in Hxy. cbn [is_prefix].
  destruct (a ?= c) eqn:Eac.
  - apply N.compare_eq in Eac. subst c. rewrite N.compare_refl in Hxy. rewrite N.eqb_refl. cbn [andb].
    eapply IH; eassumption.
  - rewrite N.compare_antisym, Eac in Hxy. cbn [CompOpp] in Hxy. discriminate.
  - congruence.
Qed.

(* ---------- AscendPrefix ---------- *)
Definition stack_list (st : list tree) : list (bytes * bytes) :=
  flat_map (fun n => match n with Leaf => [] | Node _ k v _ r => (k, v) :: inorder r end) st.

Fixpoint take_while {A} (f : A -> bool) (l : list A) : list A :=
  match l with [] => [] | x :: l' => if f x then x :: take_while f l' else [] end.

Definition nonleaf (t : tree) : Prop := t <> Leaf.

Lemma stack_list_cons l k v rk r st :
  stack_list (Node l k v rk r :: st) = (k, v) :: inorder r ++ stack_list st.
Proof. reflexivity. Qed.

Lemma push_left_spine_list r st : stack_list (push_left_spine r st) = inorder r ++ stack_list st.
Proof.
  revert st. induction r as [|l IHl k v rk r IHr]; intros st; cbn [push_left_spine inorder]; [reflexivity|].
  rewrite IHl, stack_list_cons, <- app_assoc. reflexivity.
Qed.

Lemma push_left_spine_nonleaf r st : Forall nonleaf st -> Forall nonleaf (push_left_spine r st).
Proof.
  revert st. induction r as [|l IHl k v rk r IHr]; intros st HF; cbn [push_left_spine]; [exact HF|].
  apply IHl. constructor; [discriminate|exact HF].
Qed.

Lemma ap_descend_nonleaf p t st : Forall nonleaf st -> Forall nonleaf (ap_descend p t st).
Proof.
  revert st. induction t as [|l IHl k v rk r IHr]; intros st HF; cbn [ap_descend]; [exact HF|].
  destruct (beqb k p); [constructor; [discriminate|exact HF]|].
  destruct (bcmp p k); auto. apply IHl. constructor; [discriminate|exact HF].
Qed.

Lemma ap_walk_take_while p fuel st :
  Forall nonleaf st -> (length (stack_list st) < fuel)%nat ->
  ap_walk fuel p st = take_while (fun kv => is_prefix p (fst kv)) (stack_list st).
Proof.
  revert st. induction fuel as [|f IH]; intros st HF Hlen; [lia|].
  cbn [ap_walk]. destruct st as [|[|l k v rk r] st]; [reflexivity| |].
  - apply Forall_cons_iff in HF. destruct HF as [HF _]. exfalso. apply HF. reflexivity.
  - apply Forall_cons_iff in HF. destruct HF as [_ HF].
    rewrite stack_list_cons in *. cbn [take_while fst]. cbn [length] in Hlen.
    destruct (is_prefix p k); [|reflexivity]. f_equal.
    rewrite IH.
    + rewrite push_left_spine_list. reflexivity.
    + apply push_left_spine_nonleaf. exact HF.
    + rewrite push_left_spine_list. lia.
Qed.

(* the descent drops exactly a block of keys < p and leaves keys >= p on the stack *)
Lemma ap_descend_split p t st :
  bst t -> Forall (fun kv => bcmp p (fst kv) <> Gt) (stack_list st) ->
  exists lows,
    inorder t ++ stack_list st = lows ++ stack_list (ap_descend p t st) /\
    Forall (fun kv => bcmp (fst kv) p = Lt) lows /\
    Forall (fun kv => bcmp p (fst kv) <> Gt) (stack_list (ap_descend p t st)).
Proof.
  revert st. induction t as [|l IHl k v rk r IHr]; intros st Hb Hst.
  - exists []. cbn. auto.
  - cbn [bst] in Hb. destruct Hb as (Hl & Hr & Hal & Har). cbn [ap_descend inorder].
    assert (Hge_r : forall q, bcmp q k <> Gt -> Forall (fun kv => bcmp q (fst kv) <> Gt) (inorder r)).
    { intros q Hq. eapply Forall_impl; [|apply all_keys_gt_Forall; exact Har].
      intros kv Hkv. cbn beta in Hkv. destruct (bcmp q k) eqn:Eq'; [| |contradiction].
      - apply bcmp_eq in Eq'. subst q. congruence.
      - rewrite (bcmp_lt_trans _ _ _ Eq' Hkv). discriminate. }
    destruct (beqb k p) eqn:Ekp.
    + apply beqb_eq in Ekp. subst p. exists (inorder l). rewrite stack_list_cons, <- app_assoc.
      split; [reflexivity|]. split; [apply all_keys_lt_Forall; exact Hal|].
      constructor; [cbn [fst]; rewrite bcmp_refl; discriminate|].
      apply Forall_app. split; [|exact Hst]. apply Hge_r. rewrite bcmp_refl. discriminate.
    + destruct (bcmp p k) eqn:E.
      * apply bcmp_eq in E. subst p. rewrite beqb_refl in Ekp. discriminate.
      * destruct (IHl (Node l k v rk r :: st) Hl) as (lows & Hsplit & Hlows & Hge).
        { rewrite stack_list_cons. constructor; [cbn [fst]; rewrite E; discriminate|].
          apply Forall_app. split; [|exact Hst]. apply Hge_r. rewrite E. discriminate. }
        exists lows. rewrite stack_list_cons in Hsplit. rewrite <- app_assoc. cbn [app].
        split; [exact Hsplit|]. split; assumption.
      * apply bcmp_gt_lt in E.
        destruct (IHr st Hr Hst) as (lows & Hsplit & Hlows & Hge).
        exists (inorder l ++ (k, v) :: lows). rewrite <- !app_assoc. cbn [app]. rewrite <- Hsplit.
        split; [reflexivity|]. split; [|exact Hge].
        apply Forall_app. split; [|constructor; [exact E|exact Hlows]].
        apply all_keys_lt_Forall. eapply all_keys_gt_trans; eassumption.
Qed.

Lemma take_while_filter_sorted p (s : list (bytes * bytes)) :
  StronglySorted klt s -> Forall (fun kv => bcmp p (fst kv) <> Gt) s ->
  take_while (fun kv => is_prefix p (fst kv)) s = filter (fun kv => is_prefix p (fst kv)) s.
Proof.
  induction s as [|x s IH]; intros Hs Hge; cbn [take_while filter]; [reflexivity|].
  apply StronglySorted_inv in Hs. destruct Hs as [Hs Hx].
  apply Forall_cons_iff in Hge. destruct Hge as [Hgx Hge].
  destruct (is_prefix p (fst x)) eqn:Epx; [f_equal; auto|].
  symmetry. clear IH Hs. induction s as [|y s IHs]; cbn [filter]; [reflexivity|].
  apply Forall_cons_iff in Hx. destruct Hx as [Hxy Hx].
  apply Forall_cons_iff in Hge. destruct Hge as [_ Hge].
  destruct (is_prefix p (fst y)) eqn:Epy; [|auto].
  unfold klt in Hxy. rewrite (prefix_between p (fst x) (fst y) Epy Hgx Hxy) in Epx. discriminate.
Qed.

Lemma filter_lows_nil p (lows : list (bytes * bytes)) :
  Forall (fun kv => bcmp (fst kv) p = Lt) lows -> filter (fun kv => is_prefix p (fst kv)) lows = [].
Proof.
  induction lows as [|x lows IH]; intros HF; cbn [filter]; [reflexivity|].
  apply Forall_cons_iff in HF. destruct HF as [Hx HF].
  destruct (is_prefix p (fst x)) eqn:E; [|auto].
  apply prefix_ge in E. apply bcmp_gt_lt in Hx. contradiction.
Qed.

Lemma StronglySorted_app_r {A} (R : A -> A -> Prop) l1 l2 :
  StronglySorted R (l1 ++ l2) -> StronglySorted R l2.
Proof.
  induction l1 as [|a l1 IH]; cbn [app]; [auto|].
  intros H. apply StronglySorted_inv in H. destruct H as [H _]. auto.
Qed.

Lemma inorder_length t : length (inorder t) = size t.
Proof.
  induction t as [|l IHl k v rk r IHr]; cbn [inorder size length]; [reflexivity|].
  rewrite app_length. cbn [length]. lia.
Qed.

Lemma ascend_prefix_spec : forall p t, bst t ->
  ascend_prefix p t = filter (fun kv => is_prefix p (fst kv)) (inorder t).
Proof.
  intros p t Hb. unfold ascend_prefix.
  destruct (ap_descend_split p t [] Hb) as (lows & Hsplit & Hlows & Hge); [constructor|].
  cbn [stack_list flat_map] in Hsplit. rewrite app_nil_r in Hsplit.
  pose proof (inorder_sorted t Hb) as Hs. fold klt in Hs. rewrite Hsplit in Hs.
  apply StronglySorted_app_r in Hs.
  rewrite ap_walk_take_while.
  - rewrite take_while_filter_sorted by assumption.
    rewrite Hsplit, filter_app, (filter_lows_nil p lows Hlows). reflexivity.
  - apply ap_descend_nonleaf. constructor.
  - rewrite <- inorder_length, Hsplit, app_length. lia.
Qed.

(* ---------- closure check ---------- *)
Print Assumptions put_bst.
Print Assumptions inorder_put.
Print Assumptions put_replaced.
Print Assumptions get_inorder.
Print Assumptions get_put_same.
Print Assumptions get_put_other.
Print Assumptions inorder_sorted.
Print Assumptions ascend_prefix_spec.
