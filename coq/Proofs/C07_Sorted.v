(* Key-sorted lists of entries: lookup, insertion, merge (specification of kv.MergeEntries), extensionality. *)
From Coq Require Import List NArith Bool Lia.
From RV Require Import Base.Bytes Model.LsmBase.
Import ListNotations.
Open Scope N_scope.

(* ---------- byte-string order ---------- *)

Definition klt (a b : bytes) : Prop := bcmp a b = Lt.

Lemma klt_irrefl a : ~ klt a a.
Proof. unfold klt. rewrite bcmp_refl. discriminate. Qed.
Lemma klt_trans a b c : klt a b -> klt b c -> klt a c.
Proof. apply bcmp_lt_trans. Qed.
Lemma bcmp_gt_lt a b : bcmp a b = Gt -> klt b a.
Proof. intros H. unfold klt. rewrite bcmp_antisym, H. reflexivity. Qed.
Lemma klt_neq a b : klt a b -> a <> b.
Proof. intros H ->. exact (klt_irrefl _ H). Qed.
Lemma beqb_refl a : beqb a a = true.
Proof. apply beqb_eq. reflexivity. Qed.
Lemma beqb_neq a b : a <> b -> beqb a b = false.
Proof. intros H. destruct (beqb a b) eqn:E; [apply beqb_eq in E; contradiction|reflexivity]. Qed.
Lemma beqb_sym a b : beqb a b = beqb b a.
Proof.
  destruct (beqb a b) eqn:E.
  - apply beqb_eq in E. subst. symmetry. apply beqb_refl.
  - symmetry. apply beqb_neq. intros ->. rewrite beqb_refl in E. discriminate.
Qed.
Lemma bleb_true a b : bleb a b = true <-> (a = b \/ klt a b).
Proof.
  unfold bleb, klt. destruct (bcmp a b) eqn:E; split; intros H; auto; try discriminate.
  - left. apply bcmp_eq. exact E.
  - destruct H as [H|H]; [apply bcmp_eq in H|]; congruence.
Qed.
Lemma bleb_false a b : bleb a b = false <-> klt b a.
Proof.
  unfold bleb, klt. rewrite (bcmp_antisym a b). destruct (bcmp a b); cbn; split; intros H; auto; discriminate.
Qed.
Lemma bltb_true a b : bltb a b = true <-> klt a b.
Proof. unfold bltb, klt. destruct (bcmp a b); split; intros H; auto; discriminate. Qed.

(* ---------- sortedness ---------- *)

Fixpoint sorted (t : table) : Prop :=
  match t with
  | [] => True
  | x :: r => (forall y, In y r -> klt (ekey x) (ekey y)) /\ sorted r
  end.

Lemma sorted_app a b :
  sorted (a ++ b) <-> sorted a /\ sorted b /\ (forall x y, In x a -> In y b -> klt (ekey x) (ekey y)).
Proof.
  induction a as [|x a IH]; cbn.
  - split; [intros H; repeat split; auto; intros ? ? []|intros (_ & H & _); exact H].
  - rewrite IH. split.
    + intros (H1 & H2 & H3 & H4). repeat split; auto.
      * intros y Hy. apply H1. apply in_or_app. auto.
      * intros x0 y [<-|Hx] Hy; [apply H1; apply in_or_app; auto|apply H4; auto].
    + intros ((H1 & H2) & H3 & H4). repeat split; auto.
      intros y Hy. apply in_app_or in Hy as [Hy|Hy]; [apply H1; auto|apply H4; auto].
Qed.

Lemma sorted_filter f t : sorted t -> sorted (filter f t).
Proof.
  induction t as [|x t IH]; cbn; [auto|]. intros [H1 H2]. destruct (f x); cbn; [split|]; auto.
  intros y Hy. apply filter_In in Hy as [Hy _]. auto.
Qed.

Lemma sortedb_sorted t : sortedb t = true -> sorted t.
Proof.
  induction t as [|x t IH]; cbn; [auto|]. intros H. apply andb_true_iff in H as [H1 H2].
  specialize (IH H2). split; [|exact IH]. destruct t as [|y t]; [intros ? []|].
  apply bltb_true in H1. cbn in IH. destruct IH as [IH1 _].
  intros z [<-|Hz]; [exact H1|]. eapply klt_trans; [exact H1|apply IH1; exact Hz].
Qed.

(* ---------- lookup ---------- *)

Lemma tbl_get_some k t e : tbl_get k t = Some e -> In e t /\ ekey e = k.
Proof.
  unfold tbl_get. intros H. apply find_some in H as [H1 H2]. split; [exact H1|]. apply beqb_eq. exact H2.
Qed.
Lemma tbl_get_none k t : tbl_get k t = None -> forall e, In e t -> ekey e <> k.
Proof.
  unfold tbl_get. intros H e He Hk. eapply find_none in H; [|exact He]. unfold keyeq in H. rewrite Hk, beqb_refl in H. discriminate.
Qed.
Lemma tbl_get_none_intro k t : (forall e, In e t -> ekey e <> k) -> tbl_get k t = None.
Proof.
  intros H. destruct (tbl_get k t) eqn:E; [|reflexivity]. apply tbl_get_some in E as [E1 E2]. exfalso. eapply H; eauto.
Qed.
Lemma sorted_get t e : sorted t -> In e t -> tbl_get (ekey e) t = Some e.
Proof.
  induction t as [|x t IH]; cbn; [intros _ []|]. intros [H1 H2] [<-|He].
  - unfold tbl_get, keyeq. cbn. rewrite beqb_refl. reflexivity.
  - unfold tbl_get, keyeq. cbn. rewrite beqb_neq; [apply IH; auto|]. apply klt_neq. auto.
Qed.
Lemma sorted_key_inj t e e' : sorted t -> In e t -> In e' t -> ekey e = ekey e' -> e = e'.
Proof.
  intros Hs He He' Hk. pose proof (sorted_get _ _ Hs He) as H1. pose proof (sorted_get _ _ Hs He') as H2.
  rewrite Hk in H1. congruence.
Qed.

Lemma tbl_get_cons k x t : tbl_get k (x :: t) = if beqb (ekey x) k then Some x else tbl_get k t.
Proof. reflexivity. Qed.

Lemma tbl_get_filter (f : entry -> bool) k t :
  sorted t -> tbl_get k (filter f t) = match tbl_get k t with Some e => if f e then Some e else None | None => None end.
Proof.
  induction t as [|x t IH]; [reflexivity|]. intros [H1 H2]. cbn [filter]. rewrite (tbl_get_cons k x t).
  destruct (beqb (ekey x) k) eqn:E.
  - apply beqb_eq in E. destruct (f x); [rewrite tbl_get_cons, (proj2 (beqb_eq _ _) E); reflexivity|].
    apply tbl_get_none_intro. intros e He Hk. apply filter_In in He as [He _]. apply H1 in He.
    rewrite Hk, <- E in He. exact (klt_irrefl _ He).
  - destruct (f x); [rewrite tbl_get_cons, E|]; apply IH; exact H2.
Qed.

Lemma tbl_get_scan p k t :
  sorted t -> tbl_get k (tbl_scan p t) = if is_prefix p k then tbl_get k t else None.
Proof.
  intros Hs. unfold tbl_scan. rewrite tbl_get_filter by exact Hs. destruct (tbl_get k t) eqn:E.
  - apply tbl_get_some in E as [_ <-]. unfold has_prefix. destruct (is_prefix p (ekey e)); reflexivity.
  - destruct (is_prefix p k); reflexivity.
Qed.

(* extensionality of sorted tables *)
Lemma sorted_ext a b : sorted a -> sorted b -> (forall k, tbl_get k a = tbl_get k b) -> a = b.
Proof.
  revert b. induction a as [|x a IH]; intros [|y b] Ha Hb H.
  - reflexivity.
  - specialize (H (ekey y)). rewrite tbl_get_cons, beqb_refl in H. discriminate.
  - specialize (H (ekey x)). rewrite tbl_get_cons, beqb_refl in H. discriminate.
  - cbn in Ha, Hb. destruct Ha as [Ha1 Ha2], Hb as [Hb1 Hb2].
    assert (Hxy : x = y).
    { pose proof (H (ekey x)) as Hx. pose proof (H (ekey y)) as Hy.
      rewrite !tbl_get_cons, beqb_refl in Hx. rewrite !tbl_get_cons, beqb_refl in Hy.
      destruct (beqb (ekey y) (ekey x)) eqn:E; [congruence|].
      rewrite beqb_sym, E in Hy. symmetry in Hx. apply tbl_get_some in Hx as [Hx _]. apply tbl_get_some in Hy as [Hy _].
      apply Hb1 in Hx. apply Ha1 in Hy. exfalso. exact (klt_irrefl _ (klt_trans _ _ _ Hx Hy)). }
    subst y. f_equal. apply IH; auto. intros k. specialize (H k). rewrite !tbl_get_cons in H.
    destruct (beqb (ekey x) k) eqn:E; [|exact H]. apply beqb_eq in E. subst k.
    rewrite !tbl_get_none_intro; auto; intros e He Hk; [apply Hb1 in He|apply Ha1 in He]; rewrite Hk in He; exact (klt_irrefl _ He).
Qed.

(* ---------- memtable insert ---------- *)

Lemma mt_put_in e m x : In x (mt_put e m) -> x = e \/ In x m.
Proof.
  induction m as [|y m IH]; cbn; [intros [<-|[]]; auto|].
  destruct (bcmp (ekey e) (ekey y)); cbn; intros [<-|H]; auto. apply IH in H as [H|H]; auto.
Qed.
Lemma mt_put_has e m : In e (mt_put e m).
Proof. induction m as [|y m IH]; cbn; [auto|]. destruct (bcmp (ekey e) (ekey y)); cbn; auto. Qed.
Lemma mt_put_keeps e m x : In x m -> ekey x <> ekey e -> In x (mt_put e m).
Proof.
  induction m as [|y m IH]; cbn; [intros []|]. intros [<-|H] Hk.
  - destruct (bcmp (ekey e) (ekey y)) eqn:E; cbn; auto. apply bcmp_eq in E. congruence.
  - destruct (bcmp (ekey e) (ekey y)) eqn:E; cbn; auto.
Qed.
Lemma mt_put_sorted e m : sorted m -> sorted (mt_put e m).
Proof.
  induction m as [|y m IH]; cbn; [intros _; split; [intros ? []|exact I]|]. intros [H1 H2].
  destruct (bcmp (ekey e) (ekey y)) eqn:E; cbn.
  - apply bcmp_eq in E. split; [|exact H2]. intros z Hz. rewrite E. auto.
  - split; [|split; auto]. intros z [<-|Hz]; [exact E|]. eapply klt_trans; [exact E|auto].
  - split; [|auto]. intros z Hz. apply mt_put_in in Hz as [->|Hz]; [apply bcmp_gt_lt; exact E|auto].
Qed.
Lemma mt_put_get e m k : sorted m -> tbl_get k (mt_put e m) = if beqb (ekey e) k then Some e else tbl_get k m.
Proof.
  intros Hs. pose proof (mt_put_sorted e m Hs) as Hs'. destruct (beqb (ekey e) k) eqn:E.
  - apply beqb_eq in E. subst k. apply sorted_get; [exact Hs'|apply mt_put_has].
  - destruct (tbl_get k m) eqn:G.
    + apply tbl_get_some in G as [G1 G2]. subst k. apply sorted_get; [exact Hs'|]. apply mt_put_keeps; auto.
      intros Hk. rewrite Hk, beqb_refl in E. discriminate.
    + apply tbl_get_none_intro. intros x Hx Hk. apply mt_put_in in Hx as [->|Hx].
      * rewrite Hk, beqb_refl in E. discriminate.
      * eapply tbl_get_none in G; eauto.
Qed.

(* ---------- merge: [Mx S t] = t holds, per key, a greatest element of the set S of inserted entries ---------- *)

Definition Mx (S : entry -> Prop) (t : table) : Prop :=
  sorted t /\
  (forall e, In e t -> S e) /\
  (forall e, S e -> exists m, tbl_get (ekey e) t = Some m /\ eseq e <= eseq m).

Lemma Mx_nil : Mx (fun _ => False) [].
Proof. repeat split; cbn; intros; contradiction. Qed.

Lemma Mx_ext (S S' : entry -> Prop) t : (forall e, S e <-> S' e) -> Mx S t -> Mx S' t.
Proof.
  intros H (H1 & H2 & H3). repeat split; auto.
  - intros e He. apply H. auto.
  - intros e He. apply H3. apply H. exact He.
Qed.

Lemma ins_in e l x : In x (ins e l) -> x = e \/ In x l.
Proof.
  induction l as [|y l IH]; cbn; [intros [<-|[]]; auto|].
  destruct (bcmp (ekey e) (ekey y)); cbn; intros [H|H]; auto.
  - subst x. unfold newer. destruct (eseq e <? eseq y); auto.
  - apply IH in H as [H|H]; auto.
Qed.
Lemma ins_key_in e l x : In x (ins e l) -> ekey x = ekey e \/ In x l.
Proof. intros H. apply ins_in in H as [->|H]; auto. Qed.

Lemma ins_sorted e l : sorted l -> sorted (ins e l).
Proof.
  induction l as [|y l IH]; cbn; [intros _; split; [intros ? []|exact I]|]. intros [H1 H2].
  destruct (bcmp (ekey e) (ekey y)) eqn:E; cbn.
  - apply bcmp_eq in E. split; [|exact H2]. intros z Hz. unfold newer. destruct (eseq e <? eseq y); [|rewrite E]; auto.
  - split; [|split; auto]. intros z [<-|Hz]; [exact E|]. eapply klt_trans; [exact E|auto].
  - split; [|auto]. intros z Hz. apply ins_in in Hz as [->|Hz]; [apply bcmp_gt_lt; exact E|auto].
Qed.

Lemma ins_get e l k :
  sorted l ->
  tbl_get k (ins e l) =
    if beqb (ekey e) k then Some (match tbl_get k l with Some x => newer x e | None => e end) else tbl_get k l.
Proof.
  induction l as [|y l IH]; cbn [ins]; intros Hs.
  - rewrite tbl_get_cons. destruct (beqb (ekey e) k); reflexivity.
  - cbn in Hs. destruct Hs as [H1 H2]. destruct (bcmp (ekey e) (ekey y)) eqn:E.
    + apply bcmp_eq in E. rewrite !tbl_get_cons. rewrite <- E.
      assert (Hn : ekey (newer y e) = ekey e) by (unfold newer; destruct (eseq e <? eseq y); auto).
      rewrite Hn. destruct (beqb (ekey e) k); reflexivity.
    + rewrite !tbl_get_cons. destruct (beqb (ekey e) k) eqn:Ek; [|reflexivity].
      apply beqb_eq in Ek. subst k. rewrite beqb_neq.
      * rewrite tbl_get_none_intro; [reflexivity|]. intros x Hx Hk. apply H1 in Hx. rewrite Hk in Hx.
        exact (klt_irrefl _ (klt_trans _ _ _ E Hx)).
      * intros Hk. rewrite Hk in E. exact (klt_irrefl _ E).
    + rewrite !tbl_get_cons. destruct (beqb (ekey y) k) eqn:Ey.
      * apply beqb_eq in Ey. subst k. rewrite beqb_neq; [reflexivity|]. intros Hk. rewrite Hk, bcmp_refl in E. discriminate.
      * apply IH. exact H2.
Qed.

Lemma Mx_ins (S : entry -> Prop) t e : Mx S t -> Mx (fun x => x = e \/ S x) (ins e t).
Proof.
  intros (H1 & H2 & H3). split; [apply ins_sorted; exact H1|]. split.
  - intros x Hx. apply ins_in in Hx as [Hx|Hx]; auto.
  - intros x Hx. rewrite ins_get by exact H1. destruct (beqb (ekey e) (ekey x)) eqn:E.
    + apply beqb_eq in E. destruct Hx as [->|Hx].
      * destruct (tbl_get (ekey e) t) as [y|]; (eexists; split; [reflexivity|]); [|lia].
        unfold newer. destruct (eseq e <? eseq y) eqn:L; [apply N.ltb_lt in L|]; lia.
      * destruct (H3 x Hx) as (m & Hm1 & Hm2). rewrite Hm1. eexists; split; [reflexivity|].
        unfold newer. destruct (eseq e <? eseq m) eqn:L; [lia|apply N.ltb_ge in L; lia].
    + destruct Hx as [->|Hx]; [rewrite beqb_refl in E; discriminate|]. apply H3. exact Hx.
Qed.

Lemma Mx_merge_into (S : entry -> Prop) l acc : Mx S acc -> Mx (fun x => In x l \/ S x) (merge_into l acc).
Proof.
  induction l as [|e l IH]; cbn; intros H.
  - eapply Mx_ext; [|exact H]. intros x. split; [auto|intros [[]|Hx]; exact Hx].
  - eapply Mx_ext; [|apply Mx_ins, IH, H]. intros x. cbn. split.
    + intros [->|[Hx|Hx]]; auto.
    + intros [[<-|Hx]|Hx]; auto.
Qed.

Definition ents_of (ls : list table) (e : entry) : Prop := exists l, In l ls /\ In e l.

Lemma Mx_merge_all ls : Mx (ents_of ls) (merge_all ls).
Proof.
  induction ls as [|l ls IH]; cbn.
  - eapply Mx_ext; [|exact Mx_nil]. intros e. split; [intros []|intros (l & [] & _)].
  - eapply Mx_ext; [|apply Mx_merge_into, IH]. intros e. cbn. split.
    + intros [He|(l' & Hl & He)]; [exists l; split; [left; reflexivity|exact He]|exists l'; split; [right; exact Hl|exact He]].
    + intros (l' & [<-|Hl] & He); [left; exact He|right; exists l'; split; assumption].
Qed.

Lemma merge_all_sorted ls : sorted (merge_all ls).
Proof. apply Mx_merge_all. Qed.

(* a set of entries whose versions of one key have pairwise different sequence numbers *)
Definition uniq (S : entry -> Prop) : Prop :=
  forall e e', S e -> S e' -> ekey e = ekey e' -> eseq e = eseq e' -> e = e'.

Lemma Mx_get_max S t m :
  Mx S t -> uniq S -> S m -> (forall e, S e -> ekey e = ekey m -> eseq e <= eseq m) -> tbl_get (ekey m) t = Some m.
Proof.
  intros (H1 & H2 & H3) Hu Hm Hmax. destruct (H3 m Hm) as (x & Hx1 & Hx2). rewrite Hx1. f_equal.
  apply tbl_get_some in Hx1 as [Hx3 Hx4]. apply Hu; auto. specialize (Hmax x (H2 _ Hx3) Hx4). lia.
Qed.
Lemma Mx_get_none S t k : Mx S t -> (forall e, S e -> ekey e <> k) -> tbl_get k t = None.
Proof.
  intros (H1 & H2 & H3) Hn. apply tbl_get_none_intro. intros e He. apply Hn. auto.
Qed.
Lemma Mx_get_spec S t k m :
  Mx S t -> tbl_get k t = Some m -> S m /\ ekey m = k /\ (forall e, S e -> ekey e = k -> eseq e <= eseq m).
Proof.
  intros (H1 & H2 & H3) Hg. pose proof (tbl_get_some _ _ _ Hg) as [Hg1 Hg2]. repeat split; auto.
  intros e He Hk. destruct (H3 e He) as (x & Hx1 & Hx2). rewrite Hk in Hx1. congruence.
Qed.

(* two merges over sets with the same maxima are the same table *)
Lemma Mx_same S S' t t' :
  Mx S t -> Mx S' t' -> uniq (fun e => S e \/ S' e) ->
  (forall e, S e -> exists m, S' m /\ ekey m = ekey e /\ eseq e <= eseq m) ->
  (forall e, S' e -> exists m, S m /\ ekey m = ekey e /\ eseq e <= eseq m) ->
  t = t'.
Proof.
  intros Ht Ht' Hu H12 H21. apply sorted_ext; [apply Ht|apply Ht'|]. intros k.
  destruct (tbl_get k t) as [m|] eqn:G.
  - destruct (Mx_get_spec _ _ _ _ Ht G) as (Gm & Gk & Gmax).
    destruct (H12 m Gm) as (m' & Hm' & Hk' & Hs').
    destruct Ht' as (T1 & T2 & T3). destruct (T3 m' Hm') as (x & Hx1 & Hx2).
    rewrite Hk', Gk in Hx1. rewrite Hx1. f_equal.
    apply tbl_get_some in Hx1 as [Hx3 Hx4]. destruct (H21 x (T2 _ Hx3)) as (y & Hy & Hyk & Hys).
    specialize (Gmax y Hy ltac:(congruence)). symmetry. apply Hu; auto; [congruence|lia].
  - destruct (tbl_get k t') as [m'|] eqn:G'; [|reflexivity]. exfalso.
    destruct (Mx_get_spec _ _ _ _ Ht' G') as (Gm & Gk & _). destruct (H21 m' Gm) as (y & Hy & Hyk & _).
    destruct Ht as (T1 & T2 & T3). destruct (T3 y Hy) as (x & Hx1 & _). rewrite Hyk, Gk in Hx1. congruence.
Qed.
