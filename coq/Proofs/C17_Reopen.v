(* Re-opening a table from its Document: loadFooter reads back exactly the writer's bloom filter and index, so
   Get and ScanPrefix on the re-opened table are the same functions of the same data. *)
From RV Require Import Model.SstTable Proofs.C17_Codec Proofs.C17_Table Proofs.C17_Bloom.
Open Scope N_scope.

Theorem reopen_loads_writer_metadata es :
  blen (ser_entries es) < 4294967296 ->
  table_meta (reopen (write_table es)) = table_meta (write_table es).
Proof.
  intros H. unfold table_meta at 1. cbn [reopen t_meta].
  change (mkT _ _ _ _ _ _ _ None) with (reopen (write_table es)).
  rewrite (load_footer_write_table es H (bloom_of_decode_encode es)). reflexivity.
Qed.

Theorem table_get_reopen_same clamp es key :
  blen (ser_entries es) < 4294967296 ->
  table_get_gen clamp (reopen (write_table es)) key = table_get_gen clamp (write_table es) key.
Proof.
  intros H. unfold table_get_gen. rewrite (reopen_loads_writer_metadata es H), body_of_reopen. reflexivity.
Qed.

Theorem table_scan_reopen_is_filter es p :
  Forall entry_ok es -> blen (ser_entries es) < 4294967296 ->
  table_scan_prefix (reopen (write_table es)) p = Some (scan_spec es p).
Proof.
  intros Hok H. rewrite <- (table_scan_is_filter es p Hok).
  unfold table_scan_prefix. rewrite (reopen_loads_writer_metadata es H), body_of_reopen. reflexivity.
Qed.
