(* Re-opening a table from its Document: loadFooter reads back exactly the writer's bloom filter and index, so
   Get and ScanPrefix on the re-opened table are the same functions of the same data. *)
From RV Require Import Model.SstTable Proofs.C17_Codec Proofs.C17_Table Proofs.C17_Bloom.
Open Scope N_scope.

Theorem reopen_loads_writer_metadata tp es :
  params_ok tp -> blen (ser_entries es) < 4294967296 ->
  table_meta (reopen (write_table tp es)) = table_meta (write_table tp es).
Proof.
  intros Hp H. unfold table_meta at 1.
  change (t_meta (reopen (write_table tp es))) with (@None (bloom * list N)). cbv iota.
  rewrite (load_footer_write_table tp es H (fun r => bloom_of_decode_encode tp es r Hp)). reflexivity.
Qed.

Theorem table_get_reopen_same clamp tp es key :
  params_ok tp -> blen (ser_entries es) < 4294967296 ->
  table_get_gen clamp (reopen (write_table tp es)) key = table_get_gen clamp (write_table tp es) key.
Proof.
  intros Hp H. unfold table_get_gen. rewrite (reopen_loads_writer_metadata tp es Hp H), body_of_reopen. reflexivity.
Qed.

Theorem table_scan_reopen_is_filter tp es p :
  params_ok tp -> Forall entry_ok es -> blen (ser_entries es) < 4294967296 ->
  table_scan_prefix (reopen (write_table tp es)) p = Some (scan_spec es p).
Proof.
  intros Hp Hok H. rewrite <- (table_scan_is_filter tp es p Hok).
  unfold table_scan_prefix. rewrite (reopen_loads_writer_metadata tp es Hp H), body_of_reopen. reflexivity.
Qed.

(* the descriptor round trip (Document, JSON, NewTableFromDocument) keeps the file, the sizes and the key range *)
Theorem reopen_keeps_descriptor t :
  document (reopen t) = document t /\ t_file (reopen t) = t_file t /\
  t_start (reopen t) = t_start t /\ t_end (reopen t) = t_end t.
Proof. repeat split. Qed.

Theorem reopen_range_is_first_last tp es :
  t_start (reopen (write_table tp es)) = first_key es /\ t_end (reopen (write_table tp es)) = last_key es.
Proof. split; reflexivity. Qed.
