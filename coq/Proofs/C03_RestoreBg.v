(* C03: restore over the LSM model, composing C07 and C08 through the specification map - now with C08's background
   actions on the durable side under every schedule (Proofs/C08_Contents.v: flush swap, merging compaction and the WAL
   rotation of Checkpoint leave every read unchanged; [reachc] = databases reachable with contents-preserving actions).

   A state is (LSM database, LSM schedule) x (durable database, durable schedule). Every DB.Put / DB.Delete /
   DB.ScanPrefix of the operator and every redeploy first lets the next list of durable background actions happen:
     DCkpt                          the locked part of Checkpoint on the running database (WAL rotation)
     DFlush n dir next              swap of a flush task that had snapshotted the first n sealed memtables
                                    (skipped if there are fewer: it could not have happened)
     DCompact removed dir next cuts the real compactor's shape: the tables named in [removed] are merged (per key the
                                    entry with the greatest sequence number, delete markers kept), the result cut into
                                    runs at [cuts], one table per run
   so a durable schedule is one interleaving of the operator thread with the durable database's flush and compaction
   tasks and with Checkpoint calls, and every interleaving is such a schedule. (Definitions live here and not in a
   Model file because they use [do_action] / [mk_added] / [merge_newest] of c08c09's proof files.) *)
From Coq Require Import List NArith Bool Lia.
From RV Require Import Model.StateStore Model.StateStoreLsm Model.StateStoreCkpt
  Proofs.C03_Codec Proofs.C03_Store Proofs.C03_OverLsm Proofs.C03_Restore.
From RV Require Model.LsmBase Model.LsmCompaction Model.Lsm Model.Ckpt.
From RV Require Proofs.C07_Sorted Proofs.C07_Spec Proofs.C07_Refine Proofs.C08_Ckpt Proofs.C08_Contents.
Import ListNotations.
Open Scope N_scope.

(* ---------------------------------------------------------------- durable background actions *)

Inductive dact :=
| DCkpt
| DFlush (n : nat) (dir next : N)
| DCompact (removed : list Ckpt.fname) (dir next : N) (cuts : list nat).
Definition dschedule := list (list dact).

Fixpoint split_at {A} (cuts : list nat) (l : list A) : list (list A) :=
  match cuts with [] => [l] | c :: cs => firstn c l :: split_at cs (skipn c l) end.
Fixpoint name_runs (dir next : N) (chunks : list (list Ckpt.entry)) : list (Ckpt.fname * list Ckpt.entry) :=
  match chunks with [] => [] | c :: r => ((dir, 0, next), c) :: name_runs dir (next + 1) r end.

Lemma split_at_concat {A} cuts : forall l : list A, concat (split_at cuts l) = l.
Proof.
  induction cuts as [|c cs IH]; intros l; cbn [split_at concat]; [apply app_nil_r|]. rewrite IH. apply firstn_skipn.
Qed.
Lemma name_runs_snd dir chunks : forall next, map snd (name_runs dir next chunks) = chunks.
Proof. induction chunks as [|c r IH]; intros next; cbn [name_runs map snd]; [reflexivity|]. now rewrite IH. Qed.

Definition compact_runs (d : Ckpt.dbc) (removed : list Ckpt.fname) (dir next : N) (cuts : list nat) :=
  name_runs dir next (split_at cuts (C08_Contents.merge_newest (Ckpt.tables_entries (C08_Contents.rem_tables d removed)))).

Definition dstep (d : Ckpt.dbc) (a : dact) : Ckpt.dbc :=
  match a with
  | DCkpt => C08_Ckpt.do_action d C08_Ckpt.ACheckpoint
  | DFlush n dir next =>
      if (n <=? length (Ckpt.d_sealed d))%nat then C08_Ckpt.do_action d (C08_Ckpt.AFlush n dir next) else d
  | DCompact removed dir next cuts =>
      C08_Ckpt.do_action d (C08_Ckpt.ACompact removed (C08_Contents.mk_added (compact_runs d removed dir next cuts)))
  end.
Definition dsteps (d : Ckpt.dbc) (acts : list dact) : Ckpt.dbc := fold_left dstep acts d.

Definition next_d (sc : dschedule) : list dact * dschedule := match sc with [] => ([], []) | b :: r => (b, r) end.

(* every durable background step keeps the database among those that can exist and leaves every read unchanged *)
Lemma dstep_ok d a : C08_Contents.reachc d ->
  C08_Contents.reachc (dstep d a) /\ forall k, Ckpt.db_get (dstep d a) k = Ckpt.db_get d k.
Proof.
  intros RC. destruct a as [|n dir next|removed dir next cuts]; cbn [dstep].
  - split; [exact (C08_Contents.rc_act d C08_Ckpt.ACheckpoint RC (conj I I))|].
    intros k. exact (C08_Contents.background_keeps_contents d C08_Ckpt.ACheckpoint k RC (conj I I) I).
  - destruct (n <=? length (Ckpt.d_sealed d))%nat eqn:L; [|split; [exact RC|reflexivity]].
    apply Nat.leb_le in L.
    assert (OK : C08_Contents.act_okc d (C08_Ckpt.AFlush n dir next)) by (split; [exact L|exact I]).
    split; [exact (C08_Contents.rc_act d _ RC OK)|]. intros k. exact (C08_Contents.background_keeps_contents d _ k RC OK I).
  - assert (OK : C08_Contents.act_okc d (C08_Ckpt.ACompact removed (C08_Contents.mk_added (compact_runs d removed dir next cuts)))).
    { apply C08_Contents.merge_act_okc; [exact RC|]. unfold compact_runs. rewrite name_runs_snd. apply split_at_concat. }
    split; [exact (C08_Contents.rc_act d _ RC OK)|]. intros k. exact (C08_Contents.background_keeps_contents d _ k RC OK I).
Qed.

Lemma dsteps_ok acts : forall d, C08_Contents.reachc d ->
  C08_Contents.reachc (dsteps d acts) /\ forall k, Ckpt.db_get (dsteps d acts) k = Ckpt.db_get d k.
Proof.
  unfold dsteps. induction acts as [|a acts IH]; intros d RC; cbn [fold_left]; [split; [exact RC|reflexivity]|].
  destruct (dstep_ok d a RC) as [R1 G1]. destruct (IH _ R1) as [R2 G2]. split; [exact R2|]. intros k. now rewrite G2.
Qed.

(* ---------------------------------------------------------------- the pair with both schedules *)

Definition bpair_raw := (lsm_raw * (Ckpt.dbc * dschedule))%type.

(* the durable side after the next batch of its background actions *)
Definition dur_bg (y : Ckpt.dbc * dschedule) : Ckpt.dbc * dschedule :=
  (dsteps (fst y) (fst (next_d (snd y))), snd (next_d (snd y))).

Definition bpair_put (cfg : Lsm.dbcfg) (k v : bytes) (x : bpair_raw) : bpair_raw :=
  (raw_put cfg k v (fst x), (fst (Ckpt.db_write (fst (dur_bg (snd x))) k false v), snd (dur_bg (snd x)))).
Definition bpair_del (cfg : Lsm.dbcfg) (k : bytes) (x : bpair_raw) : bpair_raw :=
  (raw_del cfg k (fst x), (fst (Ckpt.db_write (fst (dur_bg (snd x))) k true []), snd (dur_bg (snd x)))).
Definition bpair_scan (cfg : Lsm.dbcfg) (p : bytes) (x : bpair_raw) : list (bytes * bytes) * bpair_raw :=
  (fst (raw_scan cfg p (fst x)), (snd (raw_scan cfg p (fst x)), dur_bg (snd x))).
(* redeploy: background steps of the saved durable database that happened before the capture are part of [saved];
   the reopened database continues with the current durable schedule *)
Definition bpair_restore (cfg : Lsm.dbcfg) (cur saved : bpair_raw) : bpair_raw :=
  ((lsm_load cfg (C07_Refine.absm (fst (fst saved))), snd (fst cur)),
   (ckpt_reopen (fst (snd saved)), snd (dur_bg (snd cur)))).

Section RestoreBg.
  Variable cfg : Lsm.dbcfg.
  Hypothesis Hcfg : C07_Refine.cfg_ok cfg.

  Definition bagree (x : bpair_raw) : Prop :=
    good (fst (fst x)) /\ C08_Contents.reachc (fst (snd x)) /\
    forall k, Lsm.sm_get k (C07_Refine.absm (fst (fst x))) = Ckpt.db_get (fst (snd x)) k.

  Lemma dur_bg_ok y : C08_Contents.reachc (fst y) ->
    C08_Contents.reachc (fst (dur_bg y)) /\ forall k, Ckpt.db_get (fst (dur_bg y)) k = Ckpt.db_get (fst y) k.
  Proof. intros RC. unfold dur_bg. cbn [fst]. now apply dsteps_ok. Qed.

  Lemma write_reachc d k del v : C08_Contents.reachc d -> C08_Contents.reachc (fst (Ckpt.db_write d k del v)).
  Proof. intros RC. exact (C08_Contents.rc_act d (C08_Ckpt.AWrite k del v) RC (conj I I)). Qed.

  Lemma bpair_put_ok k v x : bagree x -> bagree (bpair_put cfg k v x).
  Proof.
    intros (G & R & A). unfold bagree, bpair_put. cbn [fst snd].
    destruct (raw_put_spec cfg Hcfg k v (fst x) G) as [G' E]. destruct (dur_bg_ok (snd x) R) as [R1 G1].
    split; [exact G'|]. split; [now apply write_reachc|].
    intros k'. rewrite E, <- lsm_sm_put_eq, C07_Spec.sm_put_get by apply C07_Refine.absm_sorted.
    rewrite (C08_Ckpt.db_write_get _ k false v k' (C08_Ckpt.reach_inv _ (C08_Contents.reachc_reach _ R1))), G1, A.
    rewrite (C07_Sorted.beqb_sym k k'). reflexivity.
  Qed.

  Lemma bpair_del_ok k x : bagree x -> bagree (bpair_del cfg k x).
  Proof.
    intros (G & R & A). unfold bagree, bpair_del. cbn [fst snd].
    destruct (raw_del_spec cfg Hcfg k (fst x) G) as [G' E]. destruct (dur_bg_ok (snd x) R) as [R1 G1].
    split; [exact G'|]. split; [now apply write_reachc|].
    intros k'. rewrite E, <- lsm_sm_del_eq, C07_Spec.sm_del_get by apply C07_Refine.absm_sorted.
    rewrite (C08_Ckpt.db_write_get _ k true [] k' (C08_Ckpt.reach_inv _ (C08_Contents.reachc_reach _ R1))), G1, A.
    rewrite (C07_Sorted.beqb_sym k k'). reflexivity.
  Qed.

  Lemma bpair_scan_ok p x : bagree x -> bagree (snd (bpair_scan cfg p x)).
  Proof.
    intros (G & R & A). unfold bagree, bpair_scan. cbn [fst snd].
    destruct (raw_scan_spec cfg Hcfg p (fst x) G) as (_ & G' & E). destruct (dur_bg_ok (snd x) R) as [R1 G1].
    split; [exact G'|]. split; [exact R1|]. intros k. rewrite E, G1. apply A.
  Qed.

  Lemma ckpt_reopen_specc d : C08_Contents.reachc d ->
    C08_Contents.reachc (ckpt_reopen d) /\ forall k, Ckpt.db_get (ckpt_reopen d) k = Ckpt.db_get d k.
  Proof.
    intros R. unfold ckpt_reopen.
    destruct (C08_Contents.checkpoint_exact_dbc d Ckpt.OwnAll (Ckpt.d_mem d) (Ckpt.d_walmax d) R) as (es & E & R' & G).
    rewrite E. split; [exact R'|]. intros k. apply G. reflexivity.
  Qed.

  Lemma bpair_restore_ok cur saved : bagree saved -> bagree (bpair_restore cfg cur saved).
  Proof.
    intros (G & R & A). unfold bagree, bpair_restore. cbn [fst snd].
    destruct (lsm_load_spec cfg Hcfg _ G) as [G' E]. destruct (ckpt_reopen_specc _ R) as [R' D].
    split; [exact G'|]. split; [exact R'|]. intros k. rewrite E, D. apply A.
  Qed.

  Definition bpair_st : Type := { x : bpair_raw | bagree x }.

  Definition bkv_put (k v : bytes) (s : bpair_st) : bpair_st := exist _ _ (bpair_put_ok k v _ (proj2_sig s)).
  Definition bkv_del (k : bytes) (s : bpair_st) : bpair_st := exist _ _ (bpair_del_ok k _ (proj2_sig s)).
  Definition bkv_scan (p : bytes) (s : bpair_st) : option kvlist * bpair_st :=
    (Some (fst (bpair_scan cfg p (proj1_sig s))), exist _ _ (bpair_scan_ok p _ (proj2_sig s))).
  Definition bkv_restore (cur saved : bpair_st) : bpair_st :=
    exist _ _ (bpair_restore_ok (proj1_sig cur) _ (proj2_sig saved)).

  Definition bpair_kv : KV :=
    {| kv_st := bpair_st; kv_put := bkv_put; kv_del := bkv_del; kv_scan := bkv_scan; kv_restore := bkv_restore |}.

  Definition bpair_contents (s : bpair_st) : kvlist := C07_Refine.absm (fst (fst (proj1_sig s))).
  Definition bdurable (s : bpair_st) : Ckpt.dbc := fst (snd (proj1_sig s)).

  Lemma binit_agree sc dsc mem wm : bagree ((Lsm.init cfg, sc), (Ckpt.db_new mem wm, dsc)).
  Proof.
    split; [exact (init_good cfg Hcfg)|]. split; [apply C08_Contents.rc_new|].
    intros k. cbn [fst snd]. rewrite (C07_Refine.absm_init cfg Hcfg). reflexivity.
  Qed.

  Definition bpair_init (sc : schedule) (dsc : dschedule) (mem wm : N) : bpair_st := exist _ _ (binit_agree sc dsc mem wm).

  Lemma bpair_refines_sorted_map :
    (forall k v s, bpair_contents (kv_put bpair_kv k v s) = StateStore.sm_put k v (bpair_contents s)) /\
    (forall k s, bpair_contents (kv_del bpair_kv k s) = StateStore.sm_del k (bpair_contents s)) /\
    (forall p s, fst (kv_scan bpair_kv p s) = Some (StateStore.sm_scan p (bpair_contents s)) /\
                 bpair_contents (snd (kv_scan bpair_kv p s)) = bpair_contents s) /\
    (forall cur s, bpair_contents (kv_restore bpair_kv cur s) = bpair_contents s).
  Proof.
    unfold bpair_contents. repeat split.
    - intros k v [x (G & R & A)]. cbn. apply (raw_put_spec cfg Hcfg). exact G.
    - intros k [x (G & R & A)]. cbn. apply (raw_del_spec cfg Hcfg). exact G.
    - destruct s as [x (G & R & A)]. cbn. f_equal. apply (raw_scan_spec cfg Hcfg). exact G.
    - destruct s as [x (G & R & A)]. cbn. apply (raw_scan_spec cfg Hcfg). exact G.
    - intros [c Hc] [x (G & R & A)]. cbn. apply (lsm_load_spec cfg Hcfg). exact G.
  Qed.

  Theorem restore_over_lsm_bg kgf accept h steps sc dsc mem wm :
    handler_ok h -> Forall step_ok steps ->
    exists y, StateStore.run bpair_kv kgf accept h (init_sys bpair_kv (bpair_init sc dsc mem wm)) steps = Some y /\
              sy_trace y = o_trace (o_run h o_init steps) /\
              C08_Contents.reachc (bdurable (sy_db y)) /\
              forall k, Lsm.sm_get k (bpair_contents (sy_db y)) = Ckpt.db_get (bdurable (sy_db y)) k.
  Proof.
    intros Hh Hs. destruct bpair_refines_sorted_map as (Hp & Hd & Hsc & Hr).
    destruct (refines_per_key_map bpair_kv bpair_contents Hp Hd) with (kgf := kgf) (accept := accept) (h := h) (steps := steps)
      (s0 := bpair_init sc dsc mem wm) as (y & E & T); try assumption.
    - intros p s. destruct (Hsc p s) as [E1 E2]. split; [|exact E2]. rewrite E1. intros l [= <-]. reflexivity.
    - intros p s. destruct (Hsc p s) as [E1 _]. rewrite E1. discriminate.
    - unfold bpair_contents, bpair_init. cbn. apply C07_Refine.absm_init. exact Hcfg.
    - exists y. split; [exact E|]. split; [exact T|].
      destruct (sy_db y) as [x (G & R & A)]. unfold bdurable, bpair_contents. cbn [proj1_sig]. split; [exact R|exact A].
  Qed.
End RestoreBg.
