(* C19: proofs about the partitioned priority queue model (Model/PPQ.v) on top of the heap proofs (C19_Heap.v).
   Invariant [ppq_inv]: the heap slice holds every partition number exactly once, is heap-ordered by the
   partitions' current minimum ([part_lt], empty partitions last), and every partition is sorted. *)
From Coq Require Import List Arith NArith Bool Lia Permutation Sorted.
From Coq Require Import ZifyN ZifyNat ZifyBool.
From RV Require Import Base.Bytes Model.Heap Model.PPQ Proofs.C19_Heap.
Import ListNotations.
Local Open Scope nat_scope.

(* a partition is a sorted multiset of priorities *)
Definition sortedN (l : list N) : Prop := StronglySorted N.le l.

Definition ppq_inv (q : ppq) : Prop :=
  Permutation (heap q) (seq 0 (length (parts q))) /\
  heap_ok (part_lt (parts q)) (heap q) /\
  Forall sortedN (parts q).

(* ------------------------------------------------------------------ *)
(* (a) the comparator is a strict weak order                           *)
(* ------------------------------------------------------------------ *)
Lemma part_lt_swo : forall ps, swo (part_lt ps).
Proof.
  intro ps. unfold swo, part_lt. split.
  - intros a b. destruct (part_peek ps a), (part_peek ps b); intros H;
      try reflexivity; try discriminate. lia.
  - intros a b c. destruct (part_peek ps a), (part_peek ps b), (part_peek ps c);
      intros H1 H2; try reflexivity; try discriminate; lia.
Qed.

(* ------------------------------------------------------------------ *)
(* small library                                                       *)
(* ------------------------------------------------------------------ *)
Lemma nth_upd_neq : forall {A} (l : list A) i j v d, i <> j -> nth j (upd i v l) d = nth j l d.
Proof.
  intros A l. induction l as [|x l IH]; intros i j v d Hij.
  - destruct i; reflexivity.
  - destruct i as [|i], j as [|j]; simpl; try reflexivity; try lia.
    apply IH; lia.
Qed.

Lemma nth_upd_eq : forall {A} (l : list A) i v d, i < length l -> nth i (upd i v l) d = v.
Proof.
  intros A l. induction l as [|x l IH]; intros i v d Hi; simpl in Hi; [lia|].
  destruct i as [|i]; simpl; [reflexivity|]. apply IH; lia.
Qed.

Lemma upd_nth_same : forall {A} (l : list A) i d, upd i (nth i l d) l = l.
Proof.
  intros A l. induction l as [|x l IH]; intros i d.
  - destruct i; reflexivity.
  - destruct i as [|i]; simpl; [reflexivity|]. rewrite IH; reflexivity.
Qed.

Lemma index_of_nth : forall p l i, index_of p l = Some i -> nth_error l i = Some p.
Proof.
  intros p l. induction l as [|q l IH]; intros i H; simpl in H; [discriminate|].
  destruct (Nat.eqb p q) eqn:E.
  - apply Nat.eqb_eq in E. inversion H; subst. reflexivity.
  - destruct (index_of p l) as [k|]; simpl in H; [|discriminate].
    inversion H; subst. simpl. apply IH; reflexivity.
Qed.

Lemma index_of_In : forall p l, In p l -> exists i, index_of p l = Some i.
Proof.
  intros p l. induction l as [|q l IH]; intros H; [contradiction|].
  simpl. destruct (Nat.eqb p q) eqn:E; [exists 0; reflexivity|].
  destruct H as [H|H]; [subst q; rewrite Nat.eqb_refl in E; discriminate|].
  destruct (IH H) as [k Hk]. rewrite Hk. exists (S k); reflexivity.
Qed.

(* ------------------------------------------------------------------ *)
(* (b) changing partition p only changes comparisons involving p       *)
(* ------------------------------------------------------------------ *)
Lemma part_peek_set_neq : forall ps p c a, a <> p -> part_peek (set_part ps p c) a = part_peek ps a.
Proof.
  intros ps p c a Ha. unfold part_peek, set_part. rewrite nth_upd_neq by lia. reflexivity.
Qed.

Lemma part_lt_set_neq : forall ps p c a b, a <> p -> b <> p ->
    part_lt (set_part ps p c) a b = part_lt ps a b.
Proof.
  intros ps p c a b Ha Hb. unfold part_lt. rewrite !part_peek_set_neq by assumption. reflexivity.
Qed.

(* ------------------------------------------------------------------ *)
(* (c) the old heap is ordered under the new comparator except at p    *)
(* ------------------------------------------------------------------ *)
Lemma set_part_except : forall ps p c h i,
    heap_ok (part_lt ps) h -> NoDup h -> nth_error h i = Some p ->
    heap_ok_except (part_lt (set_part ps p c)) h i.
Proof.
  intros ps p c h i Hok Hnd Hi.
  assert (Hne : forall k a, k <> i -> nth_error h k = Some a -> a <> p).
  { intros k a Hk Ha Eap. subst a.
    apply Hk. rewrite NoDup_nth_error in Hnd. apply Hnd.
    - apply nth_error_Some; congruence.
    - congruence. }
  split.
  - intros pp cc a b Hc Np Nc Ha Hb.
    rewrite part_lt_set_neq; [|exact (Hne cc b Nc Hb)|exact (Hne pp a Np Ha)].
    exact (Hok pp cc a b Hc Ha Hb).
  - intros pp cc a b Hpi Hic Ha Hb.
    pose proof (is_child_lt _ _ Hpi) as L1. pose proof (is_child_lt _ _ Hic) as L2.
    assert (Nc : cc <> i) by lia. assert (Np : pp <> i) by lia.
    rewrite part_lt_set_neq; [|exact (Hne cc b Nc Hb)|exact (Hne pp a Np Ha)].
    destruct (part_lt_swo ps) as [_ Htr].
    apply (Htr b p a).
    + exact (Hok i cc p b Hic Hi Hb).
    + exact (Hok pp i a p Hpi Ha Hi).
Qed.

(* ------------------------------------------------------------------ *)
(* partitions: sortedness and contents under ins_sorted / del_first    *)
(* ------------------------------------------------------------------ *)
Lemma ins_sorted_perm : forall x l, Permutation (ins_sorted x l) (x :: l).
Proof.
  intros x l. induction l as [|y l IH]; simpl; [apply Permutation_refl|].
  destruct (x <=? y)%N; [apply Permutation_refl|].
  eapply Permutation_trans; [apply perm_skip; exact IH|apply perm_swap].
Qed.

Lemma ins_sorted_sorted : forall x l, sortedN l -> sortedN (ins_sorted x l).
Proof.
  intros x l. unfold sortedN. induction l as [|y l IH]; intro Hs; simpl.
  - constructor; constructor.
  - inversion Hs as [|y' l' Hs' Hall]; subst.
    destruct (x <=? y)%N eqn:E.
    + constructor; [exact Hs|]. constructor; [lia|].
      eapply Forall_impl; [|exact Hall]. intros z Hz; simpl in Hz. lia.
    + constructor; [apply IH; exact Hs'|].
      apply (Permutation_Forall (Permutation_sym (ins_sorted_perm x l))).
      constructor; [lia|exact Hall].
Qed.

Lemma del_first_incl : forall x l z, In z (del_first x l) -> In z l.
Proof.
  intros x l. induction l as [|y l IH]; intros z Hz; simpl in Hz; [contradiction|].
  destruct (x =? y)%N; [right; exact Hz|].
  destruct Hz as [Hz|Hz]; [left; exact Hz|right; apply IH; exact Hz].
Qed.

Lemma del_first_sorted : forall x l, sortedN l -> sortedN (del_first x l).
Proof.
  intros x l. unfold sortedN. induction l as [|y l IH]; intro Hs; simpl; [constructor|].
  inversion Hs as [|y' l' Hs' Hall]; subst.
  destruct (x =? y)%N; [exact Hs'|].
  constructor; [apply IH; exact Hs'|].
  rewrite Forall_forall in *. intros z Hz. apply Hall. eapply del_first_incl; exact Hz.
Qed.

Lemma del_first_perm : forall x l, In x l -> Permutation (x :: del_first x l) l.
Proof.
  intros x l. induction l as [|y l IH]; intro Hin; [contradiction|]. simpl.
  destruct (x =? y)%N eqn:E.
  - assert (x = y) by lia. subst y. apply Permutation_refl.
  - destruct Hin as [Hin|Hin]; [lia|].
    eapply Permutation_trans; [apply perm_swap|]. apply perm_skip. apply IH; exact Hin.
Qed.

Lemma del_first_absent : forall x l, ~ In x l -> del_first x l = l.
Proof.
  intros x l. induction l as [|y l IH]; intro Hn; [reflexivity|]. simpl.
  destruct (x =? y)%N eqn:E.
  - exfalso. apply Hn. left. lia.
  - rewrite IH; [reflexivity|]. intro H; apply Hn; right; exact H.
Qed.

Lemma sortedN_tail : forall x l, sortedN (x :: l) -> sortedN l.
Proof. intros x l H. inversion H; assumption. Qed.

Lemma Forall_upd : forall {A} (P : A -> Prop) l i v, Forall P l -> P v -> Forall P (upd i v l).
Proof.
  intros A P l. induction l as [|x l IH]; intros i v Hl Hv.
  - destruct i; simpl; constructor.
  - inversion Hl; subst. destruct i as [|i]; simpl; constructor; auto.
Qed.

Lemma concat_upd_add : forall (ps : list (list N)) p c x, p < length ps -> Permutation c (x :: nth p ps []) ->
    Permutation (concat (upd p c ps)) (x :: concat ps).
Proof.
  intros ps. induction ps as [|l ps IH]; intros p c x Hp Hc; simpl in Hp; [lia|].
  destruct p as [|p]; simpl.
  - simpl in Hc. change (x :: l ++ concat ps) with ((x :: l) ++ concat ps).
    apply Permutation_app_tail; exact Hc.
  - simpl in Hc. eapply Permutation_trans.
    + apply Permutation_app_head. apply (IH p c x); [lia|exact Hc].
    + apply Permutation_sym, Permutation_middle.
Qed.

Lemma concat_upd_remove : forall (ps : list (list N)) p c x, p < length ps -> Permutation (x :: c) (nth p ps []) ->
    Permutation (x :: concat (upd p c ps)) (concat ps).
Proof.
  intros ps. induction ps as [|l ps IH]; intros p c x Hp Hc; simpl in Hp; [lia|].
  destruct p as [|p]; simpl.
  - simpl in Hc. change (x :: c ++ concat ps) with ((x :: c) ++ concat ps).
    apply Permutation_app_tail; exact Hc.
  - simpl in Hc. eapply Permutation_trans.
    + apply Permutation_middle.
    + apply Permutation_app_head. apply (IH p c x); [lia|exact Hc].
Qed.

(* ------------------------------------------------------------------ *)
(* (d) ppq_fix re-establishes the invariant                            *)
(* ------------------------------------------------------------------ *)
Lemma ppq_fix_parts : forall q ps' p, parts (ppq_fix q ps' p) = ps'.
Proof. intros q ps' p. unfold ppq_fix. destruct (index_of p (heap q)); reflexivity. Qed.

Lemma ppq_inv_In : forall q p, ppq_inv q -> (In p (heap q) <-> p < length (parts q)).
Proof.
  intros q p [HP _]. split; intro H.
  - apply (Permutation_in _ HP) in H. apply in_seq in H. lia.
  - apply (Permutation_in _ (Permutation_sym HP)). apply in_seq. lia.
Qed.

Lemma ppq_fix_inv : forall q p c, ppq_inv q -> p < length (parts q) -> sortedN c ->
    ppq_inv (ppq_fix q (set_part (parts q) p c) p).
Proof.
  intros q p c Hinv Hp Hc.
  assert (Hin : In p (heap q)) by (apply ppq_inv_In; assumption).
  destruct Hinv as [HP [HO HS]].
  destruct (index_of_In p (heap q) Hin) as [i Hi].
  unfold ppq_fix. rewrite Hi. unfold ppq_inv. simpl.
  pose proof (index_of_nth _ _ _ Hi) as Hnth.
  assert (Hnd : NoDup (heap q)).
  { apply (Permutation_NoDup (Permutation_sym HP)). apply seq_NoDup. }
  split; [|split].
  - unfold set_part. rewrite upd_length.
    eapply Permutation_trans; [apply fix_perm|exact HP].
  - apply (fix_restores _ (part_lt_swo _)).
    + apply nth_error_Some; congruence.
    + apply set_part_except; assumption.
  - unfold set_part. apply Forall_upd; assumption.
Qed.

Lemma ppq_inv_nth_sorted : forall q p, ppq_inv q -> sortedN (nth p (parts q) []).
Proof.
  intros q p [_ [_ HS]].
  destruct (Nat.lt_ge_cases p (length (parts q))) as [H|H].
  - rewrite Forall_forall in HS. apply HS. apply nth_In; exact H.
  - rewrite nth_overflow by exact H. constructor.
Qed.

(* ------------------------------------------------------------------ *)
(* 1. constructor                                                      *)
(* ------------------------------------------------------------------ *)
Lemma fold_push : forall {A} (lt : A -> A -> bool), swo lt -> forall l h,
    heap_ok lt h ->
    heap_ok lt (fold_left (fun h p => push lt p h) l h) /\
    Permutation (fold_left (fun h p => push lt p h) l h) (h ++ l).
Proof.
  intros A lt Hswo l. induction l as [|a l IH]; intros h Hh; simpl.
  - split; [exact Hh|]. rewrite app_nil_r. apply Permutation_refl.
  - destruct (IH (push lt a h) (push_ok lt Hswo a h Hh)) as [H1 H2]. split; [exact H1|].
    eapply Permutation_trans; [exact H2|].
    eapply Permutation_trans; [apply Permutation_app_tail; apply push_perm|].
    simpl. apply Permutation_middle.
Qed.

Theorem ppq_new_inv : forall ps, Forall sortedN ps -> ppq_inv (ppq_new ps).
Proof.
  intros ps HS. unfold ppq_inv, ppq_new. simpl.
  destruct (fold_push (part_lt ps) (part_lt_swo ps) (seq 0 (length ps)) [] (heap_ok_nil _))
    as [H1 H2].
  split; [exact H2|split; [exact H1|exact HS]].
Qed.

(* ------------------------------------------------------------------ *)
(* 2. push / delete / pop preserve the invariant                       *)
(* ------------------------------------------------------------------ *)
Theorem ppq_push_inv : forall x p q, ppq_inv q -> p < length (parts q) -> ppq_inv (ppq_push x p q).
Proof.
  intros x p q Hinv Hp. unfold ppq_push. apply ppq_fix_inv; [exact Hinv|exact Hp|].
  apply ins_sorted_sorted. apply ppq_inv_nth_sorted; exact Hinv.
Qed.

Theorem ppq_delete_inv : forall x p q, ppq_inv q -> p < length (parts q) -> ppq_inv (ppq_delete x p q).
Proof.
  intros x p q Hinv Hp. unfold ppq_delete. apply ppq_fix_inv; [exact Hinv|exact Hp|].
  apply del_first_sorted. apply ppq_inv_nth_sorted; exact Hinv.
Qed.

Lemma peek_In : forall {A} (l : list A) p, peek l = Some p -> In p l.
Proof. intros A l p H. destruct l; simpl in H; [discriminate|]. inversion H; left; reflexivity. Qed.

Theorem ppq_pop_inv : forall q o q', ppq_inv q -> ppq_pop q = (o, q') -> ppq_inv q'.
Proof.
  intros q o q' Hinv Hpop. unfold ppq_pop in Hpop.
  destruct (peek (heap q)) as [p|] eqn:Epk; [|inversion Hpop; subst; exact Hinv].
  destruct (nth p (parts q) []) as [|x rest] eqn:En; [inversion Hpop; subst; exact Hinv|].
  inversion Hpop; subst. apply ppq_fix_inv; [exact Hinv| |].
  - apply ppq_inv_In; [exact Hinv|]. apply peek_In; exact Epk.
  - apply (sortedN_tail x). rewrite <- En. apply ppq_inv_nth_sorted; exact Hinv.
Qed.

(* ------------------------------------------------------------------ *)
(* 3. peek returns the global minimum                                  *)
(* ------------------------------------------------------------------ *)
Lemma concat_nil_all : forall (ps : list (list N)), (forall l, In l ps -> l = []) -> concat ps = [].
Proof.
  intros ps. induction ps as [|l ps IH]; intro H; simpl; [reflexivity|].
  rewrite (H l (or_introl eq_refl)). simpl. apply IH. intros l' Hl'. apply H. right; exact Hl'.
Qed.

Theorem ppq_peek_min : forall q, ppq_inv q ->
    match ppq_peek q with
    | Some x => In x (ppq_contents q) /\ (forall y, In y (ppq_contents q) -> (x <= y)%N)
    | None => ppq_contents q = []
    end.
Proof.
  intros q Hinv. pose proof Hinv as [HP [HO HS]].
  unfold ppq_peek, ppq_contents.
  destruct (heap q) as [|r rest] eqn:Eh; simpl.
  - apply Permutation_length in HP. rewrite seq_length in HP. simpl in HP.
    destruct (parts q); [reflexivity|simpl in HP; discriminate].
  - assert (Hmin : forall k, k < length (parts q) -> part_lt (parts q) k r = false).
    { intros k Hk.
      apply (heap_root_min (part_lt (parts q)) (part_lt_swo _) (r :: rest) r rest HO eq_refl).
      rewrite <- Eh. apply ppq_inv_In; assumption. }
    assert (Hr : r < length (parts q)).
    { apply ppq_inv_In; [exact Hinv|]. rewrite Eh. left; reflexivity. }
    destruct (part_peek (parts q) r) as [x|] eqn:Er.
    + unfold part_peek in Er.
      destruct (nth r (parts q) []) as [|x' t] eqn:Enr; simpl in Er; [discriminate|].
      inversion Er; subst x'. split.
      * apply in_concat. exists (x :: t). split; [rewrite <- Enr; apply nth_In; exact Hr|left; reflexivity].
      * intros y Hy. apply in_concat in Hy. destruct Hy as [l [Hl Hyl]].
        assert (Hsl : sortedN l) by (rewrite Forall_forall in HS; apply HS; exact Hl).
        apply (In_nth _ _ []) in Hl. destruct Hl as [k [Hk Ek]].
        specialize (Hmin k Hk). unfold part_lt, part_peek in Hmin. rewrite Ek, Enr in Hmin.
        destruct l as [|z l']; [contradiction|]. simpl in Hmin.
        assert (Hzy : (z <= y)%N).
        { destruct Hyl as [Hyl|Hyl]; [lia|].
          inversion Hsl as [|z' l'' _ Hall]; subst. rewrite Forall_forall in Hall. apply Hall; exact Hyl. }
        lia.
    + apply concat_nil_all. intros l Hl.
      apply (In_nth _ _ []) in Hl. destruct Hl as [k [Hk Ek]].
      specialize (Hmin k Hk). unfold part_lt in Hmin. rewrite Er in Hmin.
      unfold part_peek in Hmin. rewrite Ek in Hmin.
      destruct l; [reflexivity|simpl in Hmin; discriminate].
Qed.

(* ------------------------------------------------------------------ *)
(* 4. pop returns the global minimum and removes exactly it            *)
(* ------------------------------------------------------------------ *)
Theorem ppq_pop_global_min : forall q x p q', ppq_inv q -> ppq_pop q = (Some (x, p), q') ->
    In x (ppq_contents q) /\ (forall y, In y (ppq_contents q) -> (x <= y)%N) /\
    Permutation (ppq_contents q) (x :: ppq_contents q') /\ p < length (parts q).
Proof.
  intros q x p q' Hinv Hpop.
  pose proof (ppq_peek_min q Hinv) as Hpk.
  unfold ppq_pop in Hpop. unfold ppq_peek in Hpk.
  destruct (peek (heap q)) as [r|] eqn:Epk; [|discriminate].
  destruct (nth r (parts q) []) as [|x' rest] eqn:En; [discriminate|].
  inversion Hpop; subst x' r q'; clear Hpop.
  unfold part_peek in Hpk. rewrite En in Hpk. simpl in Hpk. destruct Hpk as [H1 H2].
  assert (Hp : p < length (parts q)).
  { apply ppq_inv_In; [exact Hinv|]. apply peek_In; exact Epk. }
  split; [exact H1|split; [exact H2|split; [|exact Hp]]].
  unfold ppq_contents. rewrite ppq_fix_parts. unfold set_part.
  apply Permutation_sym. apply concat_upd_remove; [exact Hp|]. rewrite En. apply Permutation_refl.
Qed.

Theorem ppq_pop_none : forall q q', ppq_inv q -> ppq_pop q = (None, q') ->
    ppq_contents q = [] /\ q' = q.
Proof.
  intros q q' Hinv Hpop.
  pose proof (ppq_peek_min q Hinv) as Hpk.
  unfold ppq_pop in Hpop. unfold ppq_peek in Hpk.
  destruct (peek (heap q)) as [r|] eqn:Epk.
  - destruct (nth r (parts q) []) as [|x' rest] eqn:En; [|discriminate].
    unfold part_peek in Hpk. rewrite En in Hpk. simpl in Hpk.
    inversion Hpop; subst. split; [exact Hpk|reflexivity].
  - inversion Hpop; subst. split; [exact Hpk|reflexivity].
Qed.

(* ------------------------------------------------------------------ *)
(* 5. contents after push / delete                                     *)
(* ------------------------------------------------------------------ *)
Theorem ppq_push_contents : forall x p q, p < length (parts q) ->
    Permutation (ppq_contents (ppq_push x p q)) (x :: ppq_contents q).
Proof.
  intros x p q Hp. unfold ppq_contents, ppq_push. rewrite ppq_fix_parts. unfold set_part.
  apply concat_upd_add; [exact Hp|]. apply ins_sorted_perm.
Qed.

Theorem ppq_delete_contents : forall x p q, p < length (parts q) -> In x (nth p (parts q) []) ->
    Permutation (x :: ppq_contents (ppq_delete x p q)) (ppq_contents q).
Proof.
  intros x p q Hp Hin. unfold ppq_contents, ppq_delete. rewrite ppq_fix_parts. unfold set_part.
  apply concat_upd_remove; [exact Hp|]. apply del_first_perm; exact Hin.
Qed.

Theorem ppq_delete_absent : forall x p q, ~ In x (nth p (parts q) []) ->
    ppq_contents (ppq_delete x p q) = ppq_contents q.
Proof.
  intros x p q Hn. unfold ppq_contents, ppq_delete. rewrite ppq_fix_parts. unfold set_part.
  rewrite del_first_absent by exact Hn. rewrite upd_nth_same. reflexivity.
Qed.

(* ------------------------------------------------------------------ *)
(* 6. is_empty                                                         *)
(* ------------------------------------------------------------------ *)
Theorem ppq_is_empty_spec : forall q, ppq_inv q -> (ppq_is_empty q = true <-> ppq_contents q = []).
Proof.
  intros q Hinv. pose proof (ppq_peek_min q Hinv) as Hpk. unfold ppq_is_empty.
  destruct (ppq_peek q) as [x|].
  - destruct Hpk as [Hin _]. split; [discriminate|]. intro E. rewrite E in Hin. contradiction.
  - split; [intros _; exact Hpk|reflexivity].
Qed.

(* audit: all exported theorems are closed *)
Definition C19_ppq_audit :=
  (part_lt_swo, set_part_except, ppq_fix_inv,
   ppq_new_inv, ppq_push_inv, ppq_delete_inv, ppq_pop_inv,
   ppq_peek_min, ppq_pop_global_min, ppq_pop_none,
   ppq_push_contents, ppq_delete_contents, ppq_delete_absent, ppq_is_empty_spec).
Print Assumptions C19_ppq_audit.
