(* C11, source-runner side: proofs about Model/Wmark.v *)
From Coq Require Import ZArith List Bool Lia Sorted.
From RV Require Import Model.Wmark.
Import ListNotations.
Open Scope Z_scope.

Definition instant (p : Z * Z) : Z := tm (fst p) (snd p).

(* ---------- conversions ---------- *)
Lemma NS_pos : 0 < NS.
Proof. unfold NS; lia. Qed.

Lemma instant_pb_new : forall t, instant (pb_new t) = t.
Proof.
  intro t. unfold instant, pb_new, tm. cbn [fst snd].
  pose proof (Z.div_mod t NS) as Hdm. pose proof NS_pos as Hp. lia.
Qed.

Lemma pb_new_normal : forall t, 0 <= snd (pb_new t) < NS.
Proof. intro t. unfold pb_new. cbn [snd]. apply Z.mod_pos_bound. exact NS_pos. Qed.

Lemma pb_roundtrip_l : forall t, as_time (Some (pb_new t)) = t /\ 0 <= snd (pb_new t) < NS.
Proof.
  intro t. split; [|apply pb_new_normal].
  pose proof (instant_pb_new t) as Hi. unfold instant in Hi. unfold as_time. destruct (pb_new t) as [s n]. exact Hi.
Qed.

(* timestamppb.New is injective on instants: equal stamps mean equal instants *)
Lemma pb_new_inj : forall a b, pb_new a = pb_new b -> a = b.
Proof. intros a b Hab. rewrite <- (instant_pb_new a), <- (instant_pb_new b), Hab. reflexivity. Qed.

(* ---------- zmax_list ---------- *)
Lemma zmax_list_ge_d : forall l d, d <= zmax_list d l.
Proof.
  unfold zmax_list. induction l as [|x l IH]; intro d; cbn [fold_left]; [lia|].
  specialize (IH (Z.max d x)). lia.
Qed.

Lemma zmax_list_mono : forall l d d', d <= d' -> zmax_list d l <= zmax_list d' l.
Proof.
  unfold zmax_list. induction l as [|x l IH]; intros d d' Hd; cbn [fold_left]; [lia|].
  apply IH. lia.
Qed.

Lemma zmax_list_ge_in : forall l d x, In x l -> x <= zmax_list d l.
Proof.
  unfold zmax_list. induction l as [|y l IH]; intros d x Hin; [contradiction|].
  cbn [fold_left]. destruct Hin as [->|Hin].
  - pose proof (zmax_list_ge_d l (Z.max d x)) as H. unfold zmax_list in H. lia.
  - apply IH. exact Hin.
Qed.

Lemma zmax_list_in : forall l d, zmax_list d l = d \/ In (zmax_list d l) l.
Proof.
  unfold zmax_list. induction l as [|y l IH]; intro d; cbn [fold_left]; [left; reflexivity|].
  destruct (IH (Z.max d y)) as [He|Hin].
  - rewrite He. destruct (Z.max_spec d y) as [[_ Hm]|[_ Hm]]; rewrite Hm; [right; left; reflexivity|left; reflexivity].
  - right. right. exact Hin.
Qed.

Lemma zmax_list_app : forall l1 l2 d, zmax_list d (l1 ++ l2) = zmax_list (zmax_list d l1) l2.
Proof. intros l1 l2 d. unfold zmax_list. apply fold_left_app. Qed.

(* the largest element of a list that has one *)
Lemma zmax_list_largest : forall l d mx, In mx l -> (forall x, In x l -> x <= mx) -> d <= mx -> zmax_list d l = mx.
Proof.
  intros l d mx Hin Hle Hd.
  pose proof (zmax_list_ge_in l d mx Hin) as Hge.
  destruct (zmax_list_in l d) as [He|Hi]; [lia|].
  specialize (Hle _ Hi). lia.
Qed.

(* ---------- Watermarker ---------- *)
Lemma wm_advance_max : forall w ts, wm_max (wm_advance w ts) = Z.max (wm_max w) ts.
Proof. intros w ts. unfold wm_advance. destruct (wm_max w <? ts) eqn:E; cbn [wm_max]; [apply Z.ltb_lt in E|apply Z.ltb_ge in E]; lia. Qed.

Lemma wm_advance_late : forall w ts, wm_late (wm_advance w ts) = wm_late w.
Proof. intros w ts. unfold wm_advance. destruct (wm_max w <? ts); reflexivity. Qed.

Lemma wm_fold_max : forall tss w, wm_max (fold_left wm_advance tss w) = zmax_list (wm_max w) tss.
Proof.
  induction tss as [|t tss IH]; intro w; cbn [fold_left]; [reflexivity|].
  rewrite IH, wm_advance_max. reflexivity.
Qed.

Lemma wm_fold_late : forall tss w, wm_late (fold_left wm_advance tss w) = wm_late w.
Proof.
  induction tss as [|t tss IH]; intro w; cbn [fold_left]; [reflexivity|].
  rewrite IH, wm_advance_late. reflexivity.
Qed.

(* one step never lowers the watermark: every timestamp, in or out of order *)
Lemma wm_step_monotone : forall w ts, wm_current w <= wm_current (wm_advance w ts).
Proof. intros w ts. unfold wm_current. rewrite wm_advance_max, wm_advance_late. lia. Qed.

Lemma wm_tracks_l : forall late tss, wm_current (wm_run late tss) = zmax_list go_zero_time tss - late - 1.
Proof.
  intros late tss. unfold wm_current, wm_run. rewrite wm_fold_max, wm_fold_late. cbn [wm_new wm_max wm_late]. lia.
Qed.

Lemma wm_below_max_l : forall late tss, 0 <= late -> wm_current (wm_run late tss) < zmax_list go_zero_time tss.
Proof. intros late tss Hl. rewrite wm_tracks_l. lia. Qed.

Lemma wm_below_forwarded_l : forall late tss mx,
  0 <= late -> In mx tss -> (forall x, In x tss -> x <= mx) -> go_zero_time <= mx ->
  wm_current (wm_run late tss) < mx /\ wm_current (wm_run late tss) = mx - late - 1.
Proof.
  intros late tss mx Hl Hin Hle Hz. rewrite wm_tracks_l.
  rewrite (zmax_list_largest tss go_zero_time mx Hin Hle Hz). lia.
Qed.

(* ---------- traces (CurrentWatermark interleaved with AdvanceTime) ---------- *)
Lemma wm_trace_lower : forall ops w p, In p (wm_trace w ops) -> wm_current w <= instant p.
Proof.
  induction ops as [|o ops IH]; intros w p Hin; [contradiction|].
  destruct o as [q|]; cbn [wm_trace] in Hin.
  - apply IH in Hin. pose proof (wm_step_monotone w (as_time q)). lia.
  - destruct Hin as [<-|Hin]; [rewrite instant_pb_new; lia|apply IH; exact Hin].
Qed.

Lemma wm_monotone_l : forall ops w, StronglySorted Z.le (map instant (wm_trace w ops)).
Proof.
  induction ops as [|o ops IH]; intro w; [constructor|].
  destruct o as [q|]; cbn [wm_trace]; [apply IH|].
  cbn [map]. constructor; [apply IH|].
  apply Forall_forall. intros x Hx. apply in_map_iff in Hx. destruct Hx as [p [<- Hp]].
  rewrite instant_pb_new. apply wm_trace_lower with (ops := ops). exact Hp.
Qed.

(* every stamped value, related to exactly the timestamps advanced before it *)
Lemma wm_trace_tracks_gen : forall ops w acc,
  map instant (wm_trace w ops) =
  map (fun fw => zmax_list (wm_max w) fw - wm_late w - 1) (map (fun l => skipn (length acc) l) (wm_forwarded_before acc ops)).
Proof.
  induction ops as [|o ops IH]; intros w acc; [reflexivity|].
  destruct o as [q|]; cbn [wm_trace wm_forwarded_before].
  - rewrite (IH (wm_advance w (as_time q)) (acc ++ [as_time q])).
    rewrite !map_map. apply map_ext_in. intros l Hl.
    rewrite wm_advance_max, wm_advance_late.
    assert (Hpre : exists rest, l = (acc ++ [as_time q]) ++ rest).
    { clear -Hl. revert Hl. generalize (acc ++ [as_time q]) as a. induction ops as [|o ops IH]; intros a Hl; [contradiction|].
      destruct o as [q'|]; cbn [wm_forwarded_before] in Hl.
      - apply IH in Hl. destruct Hl as [rest ->]. exists (as_time q' :: rest). rewrite <- app_assoc. reflexivity.
      - destruct Hl as [<-|Hl]; [exists []; rewrite app_nil_r; reflexivity|apply IH; exact Hl]. }
    destruct Hpre as [rest ->].
    rewrite skipn_app, skipn_all, Nat.sub_diag. cbn [skipn app].
    rewrite <- app_assoc. rewrite skipn_app, skipn_all, Nat.sub_diag. cbn [skipn app].
    unfold zmax_list. cbn [fold_left]. reflexivity.
  - cbn [map]. rewrite skipn_all. unfold zmax_list at 1. cbn [fold_left].
    rewrite instant_pb_new. unfold wm_current. f_equal; [lia|]. apply IH.
Qed.

Lemma wm_trace_tracks_l : forall late ops,
  map instant (wm_trace (wm_new late) ops) =
  map (fun fw => zmax_list go_zero_time fw - late - 1) (wm_forwarded_before [] ops).
Proof.
  intros late ops. rewrite (wm_trace_tracks_gen ops (wm_new late) []). cbn [wm_new wm_max wm_late length].
  rewrite map_map. apply map_ext. intro l. reflexivity.
Qed.

(* ---------- the runner's output stage ---------- *)
Lemma pipe_keyed_spec : forall evs w w' out,
  pipe_keyed w evs = (w', out) ->
  wm_max w' = zmax_list (wm_max w) (sent_ts out) /\ wm_late w' = wm_late w /\
  (forall s, ~ In (SendW s) out).
Proof.
  induction evs as [|[[o id] p] evs IH]; intros w w' out H; cbn [pipe_keyed] in H.
  - inversion H; subst. cbn. repeat split; auto.
  - destruct (pipe_keyed (wm_advance w (as_time p)) evs) as [w2 out2] eqn:E. inversion H; subst.
    destruct (IH _ _ _ E) as [Hm [Hl Hn]]. cbn [sent_ts]. unfold zmax_list in *. cbn [fold_left].
    rewrite Hm, wm_advance_max, Hl, wm_advance_late. repeat split; auto.
    intros s [Hc|Hc]; [discriminate|]. exact (Hn s Hc).
Qed.

Lemma split_no_w : forall out rest pre stamp post,
  (forall s, ~ In (SendW s) out) ->
  out ++ rest = pre ++ SendW stamp :: post ->
  exists pre', pre = out ++ pre' /\ rest = pre' ++ SendW stamp :: post.
Proof.
  induction out as [|x out IH]; intros rest pre stamp post Hn H.
  - exists pre. split; [reflexivity|exact H].
  - destruct pre as [|y pre]; cbn in H.
    + inversion H; subst. exfalso. apply (Hn stamp). left. reflexivity.
    + inversion H; subst. destruct (IH rest pre stamp post) as [pre' [-> Hr]]; auto.
      * intros s Hs. apply (Hn s). right. exact Hs.
      * exists pre'. split; [reflexivity|exact Hr].
Qed.

Lemma sent_ts_app : forall a b, sent_ts (a ++ b) = sent_ts a ++ sent_ts b.
Proof.
  induction a as [|x a IH]; intro b; [reflexivity|].
  destruct x; cbn [app sent_ts]; rewrite ?IH; reflexivity.
Qed.

Lemma stamp_after_forwarded_gen : forall ops w pre stamp post,
  pipe_run w ops = pre ++ SendW stamp :: post ->
  stamp = pb_new (zmax_list (wm_max w) (sent_ts pre) - (wm_late w + 1)).
Proof.
  induction ops as [|o ops IH]; intros w pre stamp post H; cbn [pipe_run] in H.
  - destruct pre; discriminate.
  - destruct o as [evs| | |].
    + destruct (pipe_keyed w evs) as [w1 out] eqn:E.
      destruct (pipe_keyed_spec _ _ _ _ E) as [Hm [Hl Hn]].
      destruct (split_no_w _ _ _ _ _ Hn H) as [pre' [-> Hr]].
      rewrite (IH _ _ _ _ Hr), sent_ts_app, zmax_list_app, Hm, Hl. reflexivity.
    + destruct pre as [|y pre]; cbn in H.
      * inversion H; subst. unfold zmax_list. cbn [sent_ts fold_left]. reflexivity.
      * inversion H; subst. cbn [sent_ts]. eapply IH. eassumption.
    + destruct pre as [|y pre]; cbn in H; [discriminate|].
      inversion H; subst. cbn [sent_ts]. eapply IH. eassumption.
    + eapply IH. eassumption.
Qed.

Lemma stamp_after_forwarded_l : forall ops pre stamp post,
  pipe_run (wm_new 0) ops = pre ++ SendW stamp :: post ->
  stamp = pb_new (zmax_list go_zero_time (sent_ts pre) - 1).
Proof.
  intros ops pre stamp post H. rewrite (stamp_after_forwarded_gen _ _ _ _ _ H). cbn [wm_new wm_max wm_late].
  f_equal.
Qed.

(* consequences for what the operators see: stamps never decrease along the output, and each is strictly
   below the largest timestamp forwarded before it whenever that timestamp is a valid protobuf Timestamp *)
Lemma stamps_monotone_l : forall ops pre s1 mid s2 post,
  pipe_run (wm_new 0) ops = pre ++ SendW s1 :: mid ++ SendW s2 :: post ->
  instant s1 <= instant s2.
Proof.
  intros ops pre s1 mid s2 post H.
  pose proof (stamp_after_forwarded_l _ _ _ _ H) as H1.
  assert (H' : pipe_run (wm_new 0) ops = (pre ++ SendW s1 :: mid) ++ SendW s2 :: post).
  { rewrite H, <- app_assoc. reflexivity. }
  pose proof (stamp_after_forwarded_l _ _ _ _ H') as H2.
  subst s1 s2. rewrite !instant_pb_new, sent_ts_app, zmax_list_app.
  pose proof (zmax_list_ge_d (sent_ts (SendW (pb_new (zmax_list go_zero_time (sent_ts pre) - 1)) :: mid)) (zmax_list go_zero_time (sent_ts pre))).
  lia.
Qed.

Lemma stamp_below_forwarded_l : forall ops pre stamp post t,
  pipe_run (wm_new 0) ops = pre ++ SendW stamp :: post ->
  In t (sent_ts pre) -> (forall x, In x (sent_ts pre) -> x <= t) -> go_zero_time <= t ->
  instant stamp = t - 1.
Proof.
  intros ops pre stamp post t H Hin Hle Hz.
  rewrite (stamp_after_forwarded_l _ _ _ _ H), instant_pb_new.
  rewrite (zmax_list_largest _ _ _ Hin Hle Hz). reflexivity.
Qed.

(* ---------- full statements used by Props/C11.v ---------- *)
Lemma wm_monotone_full : forall late ops,
  StronglySorted Z.le (map instant (wm_trace (wm_new late) ops)) /\
  forall w ts, wm_current w <= wm_current (wm_advance w ts).
Proof. intros late ops. split; [apply wm_monotone_l|apply wm_step_monotone]. Qed.

Lemma wm_tracks_full : forall late,
  (forall tss, wm_current (wm_run late tss) = zmax_list go_zero_time tss - late - 1) /\
  (forall ops, map instant (wm_trace (wm_new late) ops) =
               map (fun fw => zmax_list go_zero_time fw - late - 1) (wm_forwarded_before [] ops)).
Proof. intro late. split; [apply wm_tracks_l|apply wm_trace_tracks_l]. Qed.

Lemma stamp_after_forwarded_full : forall ops pre stamp post,
  pipe_run (wm_new 0) ops = pre ++ SendW stamp :: post ->
  stamp = pb_new (zmax_list go_zero_time (sent_ts pre) - 1) /\ 0 <= snd stamp < NS.
Proof.
  intros ops pre stamp post H. pose proof (stamp_after_forwarded_l _ _ _ _ H) as Hs.
  split; [exact Hs|]. rewrite Hs. apply pb_new_normal.
Qed.

Lemma stamps_monotone_and_below_full : forall ops pre stamp post,
  pipe_run (wm_new 0) ops = pre ++ SendW stamp :: post ->
  (forall mid s2 post', post = mid ++ SendW s2 :: post' -> instant stamp <= instant s2) /\
  (forall t, In t (sent_ts pre) -> (forall x, In x (sent_ts pre) -> x <= t) -> go_zero_time <= t -> instant stamp = t - 1).
Proof.
  intros ops pre stamp post H. split.
  - intros mid s2 post' ->. eapply stamps_monotone_l. exact H.
  - intros t Hin Hle Hz. eapply stamp_below_forwarded_l; eauto.
Qed.
