(* C01 -- the alignment / cut invariant of Sys and, from it, consistent_publication: what the job publishes when the
   last acknowledgement of the pending checkpoint arrives is exact (Sys.ckpt_exact). Stdlib only.

   Sections: (1) barriers in channels; (2) the invariant CutInv: barrier bookkeeping b*, acknowledgement bookkeeping
   s1/a0/c1, channel-content invariant s2, cut-vs-positions pp; (3) one preservation lemma per action;
   (4) publication is exact; (5) the full invariant over all schedules and the unconditional theorems.
   Every candidate invariant was first tested with vm_compute on pseudo-random schedules (see docs/C01.md). *)
From Coq Require Import List NArith Bool Arith Lia.
From RV Require Import Model.Sys Proofs.C01_Sys.
Import ListNotations.
Import Sys.

(* ---------------------------------------------------------------- (1) barriers in channels *)
Definition is_bar (it : item) : bool := match it with IBar => true | IRec _ _ => false end.
Definition nbar (q : list item) : nat := length (filter is_bar q).
Fixpoint before_bar (q : list item) : list item :=
  match q with
  | [] => []
  | IBar :: _ => []
  | IRec s r :: q' => IRec s r :: before_bar q'
  end.

Lemma nbar_app : forall q1 q2, nbar (q1 ++ q2) = nbar q1 + nbar q2.
Proof. intros; unfold nbar; rewrite filter_app, app_length; reflexivity. Qed.

Lemma before_bar_app_has : forall q x, 1 <= nbar q -> before_bar (q ++ x) = before_bar q.
Proof.
  induction q as [|[s r|] q IH]; intros x H; cbn in *.
  - unfold nbar in H; cbn in H; lia.
  - f_equal. apply IH. exact H.
  - reflexivity.
Qed.

Lemma before_bar_none : forall q, nbar q = 0 -> before_bar q = q.
Proof.
  induction q as [|[s r|] q IH]; intros H; cbn in *; [reflexivity| |unfold nbar in H; cbn in H; discriminate].
  f_equal. apply IH. exact H.
Qed.

Lemma before_bar_app_bar : forall q, nbar q = 0 -> before_bar (q ++ [IBar]) = q.
Proof.
  induction q as [|[s r|] q IH]; intros H; cbn in *; [reflexivity| |unfold nbar in H; cbn in H; discriminate].
  f_equal. apply IH. exact H.
Qed.

Lemma memn_In : forall x l, memn x l = true <-> In x l.
Proof.
  intros x l; unfold memn; rewrite existsb_exists; split.
  - intros [y [Hy He]]. apply Nat.eqb_eq in He. subst; exact Hy.
  - intros H. exists x; split; [exact H|apply Nat.eqb_refl].
Qed.
Lemma memn_false : forall x l, memn x l = false -> ~ In x l.
Proof. intros x l H Hin. apply memn_In in Hin. congruence. Qed.

Lemma all_in_spec : forall m l, all_in m l = true -> forall r, r < m -> In r l.
Proof.
  intros m l H r Hr. unfold all_in in H. rewrite forallb_forall in H.
  apply memn_In. apply H. apply in_seq. lia.
Qed.

Lemma In_remove_nth : forall (A : Type) i (l : list A) x, In x (remove_nth i l) -> In x l.
Proof.
  intros A i; induction i as [|i IH]; intros [|a l] x H; cbn in *; try contradiction.
  - right; exact H.
  - destruct H as [->|H]; [left; reflexivity|right; apply IH; exact H].
Qed.

Lemma lookup_in : forall (A : Type) (l : list (nat * A)) o, In o (map fst l) ->
  exists v, In (o, v) l /\ find (fun x => Nat.eqb (fst x) o) l = Some (o, v).
Proof.
  intros A l o; induction l as [|[o' v'] l IH]; intros H; cbn in *; [contradiction|].
  destruct (Nat.eqb_spec o' o) as [->|Hne].
  - exists v'. split; [left; reflexivity|reflexivity].
  - destruct H as [H|H]; [contradiction|]. destruct (IH H) as [v [Hin Hf]]. exists v. split; [right; exact Hin|exact Hf].
Qed.

Section Cut.
Variable splits : list (list rec).
Variable owner : nat -> N -> nat.
(* well-formed configuration (C05): a key is owned by one of the m operators *)
Hypothesis Hown : forall m k, 0 < m -> owner m k < m.

Notation splitl := (Sys.split splits).
Notation nspl := (Sys.nsplits splits).
Notation stepS := (Sys.step splits owner).
Notation runS := (Sys.run splits owner).
Notation pk s k l := (proj s%nat (filter (fun e : entry => N.eqb (rkey (snd e)) k) l)).
Notation want ps s k := (sub k (firstn (ps s) (splitl s))).
Notation ownedby m o := (fun e : entry => owner m (rkey (snd e)) = o).

(* ---------------------------------------------------------------- (2) the invariant *)
(* acknowledgements of the pending checkpoint: already at the job, or in flight with the pending id *)
Definition cur_sr (st : state) (r : nat) (ps : nat -> nat) : Prop :=
  exists p, pend st = Some p /\ (In (r, ps) (p_sr p) \/ In (AckSr (started st) r ps) (inflight st)).
Definition cur_op (st : state) (o : nat) (cut : list entry) : Prop :=
  exists p, pend st = Some p /\ (In (o, cut) (p_op p) \/ In (AckOp (started st) o cut) (inflight st)).

Record CutInv (st : state) : Prop := {
  (* barrier bookkeeping *)
  b1 : forall r o, nbar (chan st r o) <= 1;
  b2 : forall r o, nbar (chan st r o) = 1 ->
         r < n st /\ o < n st /\ bars st r = started st /\ pend st <> None /\ ~ In r (got st o);
  b3 : forall o r, In r (got st o) ->
         r < n st /\ o < n st /\ bars st r = started st /\ pend st <> None /\ nbar (chan st r o) = 0;
  b5 : pend st = None -> forall r o, nbar (chan st r o) = 0 /\ got st o = [];
  b6 : forall r, bars st r <= started st;
  b7 : forall r, r < n st -> started st <= S (bars st r);
  b8 : pend st = None -> forall r, r < n st -> bars st r = started st;
  (* acknowledgement bookkeeping *)
  s1 : forall r ps, cur_sr st r ps -> r < n st /\ bars st r = started st;
  (* channel-content invariant: a runner whose barrier is out, seen from an operator that has not cut yet *)
  s2 : forall r ps, cur_sr st r ps -> forall o s k, o < n st -> s < nspl -> runner_of (n st) s = r -> owner (n st) k = o ->
         (nbar (chan st r o) = 1 -> pk s k (olog st o) ++ in_chan s k (before_bar (chan st r o)) = want ps s k) /\
         (In r (got st o) -> pk s k (olog st o) = want ps s k);
  (* a cut agrees with the positions every runner acknowledged *)
  pp : forall r ps o cut, cur_sr st r ps -> cur_op st o cut ->
         forall s k, s < nspl -> runner_of (n st) s = r -> owner (n st) k = o -> pk s k cut = want ps s k;
  c1 : forall o cut, cur_op st o cut ->
         o < n st /\ (forall r, r < n st -> bars st r = started st) /\ (forall r, nbar (chan st r o) = 0) /\
         got st o = [] /\ Forall (ownedby (n st) o) cut;
  a0 : forall a, In a (inflight st) -> ack_id a <= started st;
  lw : forall o, Forall (ownedby (n st) o) (olog st o)
}.

Ltac simp_st := cbn [n pos chan olog got bars started pend inflight pub].
Ltac simp_all := cbn [n pos chan olog got bars started pend inflight pub] in *.

(* ---------------------------------------------------------------- (3) preservation, one lemma per action *)
Lemma cut_emit : forall st s, CutInv st -> CutInv (stepS st (AEmit s)).
Proof.
  intros st s0 C. unfold Sys.step.
  destruct (Nat.ltb s0 nspl); [|exact C].
  destruct (nth_error (splitl s0) (pos st s0)) as [rc|]; [|exact C].
  set (rn := runner_of (n st) s0). set (o0 := owner (n st) (rkey rc)).
  assert (Hnb : forall r o, nbar (upd2 (chan st) rn o0 (chan st rn o0 ++ [IRec s0 rc]) r o) = nbar (chan st r o)).
  { intros r o. unfold upd2. destruct (Nat.eqb_spec r rn); destruct (Nat.eqb_spec o o0); cbn [andb]; try reflexivity.
    subst. rewrite nbar_app. unfold nbar at 2; cbn. lia. }
  assert (Hbb : forall r o, 1 <= nbar (chan st r o) ->
                 before_bar (upd2 (chan st) rn o0 (chan st rn o0 ++ [IRec s0 rc]) r o) = before_bar (chan st r o)).
  { intros r o H. unfold upd2. destruct (Nat.eqb_spec r rn); destruct (Nat.eqb_spec o o0); cbn [andb]; try reflexivity.
    subst. apply before_bar_app_has. exact H. }
  destruct C as [b1 b2 b3 b5 b6 b7 b8 s1 s2 pp c1 a0 lw].
  constructor; simp_st.
  - intros r o. rewrite Hnb. apply b1.
  - intros r o H. rewrite Hnb in H. apply (b2 r o H).
  - intros o r H. rewrite Hnb. apply (b3 o r H).
  - intros Hp r o. rewrite Hnb. apply (b5 Hp).
  - exact b6.
  - exact b7.
  - exact b8.
  - exact s1.
  - intros r ps Hc o s k Ho Hs Hr Hk. destruct (s2 r ps Hc o s k Ho Hs Hr Hk) as [A B]. split.
    + intros H1. rewrite Hnb in H1. rewrite Hbb by lia. apply A; exact H1.
    + exact B.
  - exact pp.
  - intros o cut Hc. destruct (c1 o cut Hc) as (A & B & Cc & D & E). repeat split; try assumption.
    intros r; rewrite Hnb; apply Cc.
  - exact a0.
  - exact lw.
Qed.

Lemma cut_barrier : forall st r0, delivery_inv splits owner st -> CutInv st -> CutInv (stepS st (ABarrier r0)).
Proof.
  intros st r0 Hd C. unfold Sys.step.
  destruct (Nat.ltb r0 (n st) && Nat.ltb (bars st r0) (started st)) eqn:Hg; [|exact C].
  apply andb_true_iff in Hg. destruct Hg as [Hr0 Hlt]. apply Nat.ltb_lt in Hr0. apply Nat.ltb_lt in Hlt.
  destruct C as [b1 b2 b3 b5 b6 b7 b8 s1 s2 pp c1 a0 lw].
  assert (HbN : S (bars st r0) = started st) by (specialize (b7 r0 Hr0); lia).
  assert (Hpend : pend st <> None) by (intros Hp; specialize (b8 Hp r0 Hr0); lia).
  assert (Hnop : forall o cut, ~ cur_op st o cut).
  { intros o cut Hc. destruct (c1 o cut Hc) as (_ & B & _). specialize (B r0 Hr0). lia. }
  assert (Hz : forall o, nbar (chan st r0 o) = 0).
  { intros o. specialize (b1 r0 o). destruct (Nat.eq_dec (nbar (chan st r0 o)) 1) as [E|E]; [|lia].
    destruct (b2 r0 o E) as (_ & _ & F & _). lia. }
  assert (Hng : forall o, ~ In r0 (got st o)).
  { intros o Hin. destruct (b3 o r0 Hin) as (_ & _ & F & _). lia. }
  set (chan' := fun a b : nat => if Nat.eqb a r0 && Nat.ltb b (n st) then chan st a b ++ [IBar] else chan st a b).
  assert (Hoth : forall r o, r <> r0 -> chan' r o = chan st r o).
  { intros r o Hne. unfold chan'. destruct (Nat.eqb_spec r r0); [contradiction|reflexivity]. }
  assert (Hsr : forall r ps, cur_sr {| n := n st; pos := pos st; chan := chan'; olog := olog st; got := got st;
                                       bars := upd (bars st) r0 (S (bars st r0)); started := started st; pend := pend st;
                                       inflight := inflight st ++ [AckSr (started st) r0 (pos st)]; pub := pub st |} r ps ->
                 cur_sr st r ps \/ (r = r0 /\ ps = pos st)).
  { intros r ps [p [Hp [H|H]]]; simp_all.
    - left. exists p; split; [exact Hp|left; exact H].
    - apply in_app_or in H. destruct H as [H|[H|[]]].
      + left. exists p; split; [exact Hp|right; exact H].
      + right. inversion H; split; reflexivity. }
  assert (Hop : forall o cut, cur_op {| n := n st; pos := pos st; chan := chan'; olog := olog st; got := got st;
                                        bars := upd (bars st) r0 (S (bars st r0)); started := started st; pend := pend st;
                                        inflight := inflight st ++ [AckSr (started st) r0 (pos st)]; pub := pub st |} o cut -> False).
  { intros o cut [p [Hp [H|H]]]; simp_all.
    - apply (Hnop o cut). exists p; split; [exact Hp|left; exact H].
    - apply in_app_or in H. destruct H as [H|[H|[]]]; [|discriminate].
      apply (Hnop o cut). exists p; split; [exact Hp|right; exact H]. }
  fold chan'. fold chan' in Hsr, Hop.
  constructor; simp_st.
  - intros r o. destruct (Nat.eq_dec r r0) as [->|Hne]; [|rewrite Hoth by exact Hne; apply b1].
    unfold chan'. rewrite Nat.eqb_refl. cbn [andb]. destruct (Nat.ltb o (n st)); [|rewrite Hz; lia].
    rewrite nbar_app, Hz. unfold nbar; cbn. lia.
  - intros r o H. destruct (Nat.eq_dec r r0) as [->|Hne].
    + unfold chan' in H. rewrite Nat.eqb_refl in H. cbn [andb] in H.
      destruct (Nat.ltb_spec o (n st)) as [Ho|Ho]; [|rewrite Hz in H; discriminate].
      rewrite upd_same. repeat split; try assumption. apply Hng.
    + rewrite Hoth in H by exact Hne. destruct (b2 r o H) as (A & B & Cc & D & E).
      rewrite upd_other by exact Hne. repeat split; assumption.
  - intros o r H. destruct (b3 o r H) as (A & B & Cc & D & E).
    assert (Hne : r <> r0) by (intros ->; lia).
    rewrite upd_other by exact Hne. rewrite Hoth by exact Hne. repeat split; assumption.
  - intros Hp; contradiction.
  - intros r. unfold upd. destruct (Nat.eqb_spec r r0); [lia|apply b6].
  - intros r Hr. unfold upd. destruct (Nat.eqb_spec r r0); [lia|apply b7; exact Hr].
  - intros Hp; contradiction.
  - intros r ps Hc. destruct (Hsr r ps Hc) as [Hold|[-> ->]].
    + destruct (s1 r ps Hold) as [A B]. assert (Hne : r <> r0) by (intros ->; lia).
      rewrite upd_other by exact Hne. split; assumption.
    + rewrite upd_same. split; assumption.
  - intros r ps Hc o s k Ho Hs Hr Hk. destruct (Hsr r ps Hc) as [Hold|[-> ->]].
    + destruct (s1 r ps Hold) as [A B]. assert (Hne : r <> r0) by (intros ->; lia).
      rewrite Hoth by exact Hne. apply (s2 r ps Hold o s k Ho Hs Hr Hk).
    + split; [|intros Hin; exfalso; apply (Hng o Hin)].
      intros _. unfold chan'. rewrite Nat.eqb_refl. cbn [andb]. apply Nat.ltb_lt in Ho. rewrite Ho.
      rewrite before_bar_app_bar by apply Hz.
      specialize (Hd s k Hs). unfold papp, applied_of in Hd. rewrite Hr, Hk in Hd. exact Hd.
  - intros r ps o cut _ Hc. exfalso. apply (Hop o cut Hc).
  - intros o cut Hc. exfalso. apply (Hop o cut Hc).
  - intros a Hin. apply in_app_or in Hin. destruct Hin as [Hin|[<-|[]]]; [apply a0; exact Hin|cbn; lia].
  - exact lw.
Qed.

Lemma nbar_cons_rec : forall s rc q, nbar (IRec s rc :: q) = nbar q.
Proof. reflexivity. Qed.
Lemma nbar_cons_bar : forall q, nbar (IBar :: q) = S (nbar q).
Proof. reflexivity. Qed.

Lemma cut_deliver : forall st r0 o0, chan_wf owner st -> CutInv st -> CutInv (stepS st (ADeliver r0 o0)).
Proof.
  intros st r0 o0 Hw C. unfold Sys.step.
  destruct (Nat.ltb r0 (n st) && Nat.ltb o0 (n st)) eqn:Hg; [|exact C].
  apply andb_true_iff in Hg. destruct Hg as [Hr0 Ho0]. apply Nat.ltb_lt in Hr0. apply Nat.ltb_lt in Ho0.
  destruct (chan st r0 o0) as [|it q] eqn:Hc; [exact C|].
  destruct it as [s0 rc|].
  - (* ---- a record is applied *)
    destruct (memn r0 (got st o0)) eqn:Hm; [exact C|]. apply memn_false in Hm.
    assert (Hit : runner_of (n st) s0 = r0 /\ owner (n st) (rkey rc) = o0).
    { specialize (Hw r0 o0). rewrite Hc in Hw. inversion Hw; subst. assumption. }
    destruct Hit as [Hrs0 Hok].
    assert (Hnb : forall r o, nbar (upd2 (chan st) r0 o0 q r o) = nbar (chan st r o)).
    { intros r o. unfold upd2. destruct (Nat.eqb_spec r r0); destruct (Nat.eqb_spec o o0); cbn [andb]; try reflexivity.
      subst. rewrite Hc. reflexivity. }
    destruct C as [b1 b2 b3 b5 b6 b7 b8 s1 s2 pp c1 a0 lw].
    constructor; simp_st.
    + intros r o. rewrite Hnb. apply b1.
    + intros r o H. rewrite Hnb in H. apply (b2 r o H).
    + intros o r H. rewrite Hnb. apply (b3 o r H).
    + intros Hp r o. rewrite Hnb. apply (b5 Hp).
    + exact b6.
    + exact b7.
    + exact b8.
    + exact s1.
    + intros r ps Hcur o s k Ho Hs Hr Hk. destruct (s2 r ps Hcur o s k Ho Hs Hr Hk) as [A B].
      destruct (Nat.eq_dec o o0) as [->|Hno].
      * rewrite upd_same. rewrite papp_entry.
        destruct (Nat.eq_dec r r0) as [->|Hnr].
        -- rewrite upd2_same. split; [|intros Hin; contradiction].
           intros H1. rewrite Hc in A. rewrite nbar_cons_rec in A. specialize (A H1).
           cbn [before_bar] in A. rewrite <- app_assoc. exact A.
        -- assert (Hh : hit s k s0 rc = []).
           { unfold hit. destruct (Nat.eqb_spec s0 s) as [->|]; [|reflexivity]. exfalso; apply Hnr; congruence. }
           rewrite Hh, app_nil_r. rewrite upd2_other by (intros [? ?]; contradiction). split; assumption.
      * rewrite upd_other by exact Hno. rewrite upd2_other by (intros [? ?]; contradiction). split; assumption.
    + exact pp.
    + intros o cut Hcur. destruct (c1 o cut Hcur) as (A & B & Cc & D & E). repeat split; try assumption.
      intros r; rewrite Hnb; apply Cc.
    + exact a0.
    + intros o. unfold upd. destruct (Nat.eqb_spec o o0) as [->|]; [|apply lw].
      apply Forall_app; split; [apply lw|]. constructor; [exact Hok|constructor].
  - (* ---- a barrier is received *)
    destruct (memn r0 (got st o0)) eqn:Hm; [exact C|]. apply memn_false in Hm.
    destruct C as [b1 b2 b3 b5 b6 b7 b8 s1 s2 pp c1 a0 lw].
    assert (Hq0 : nbar q = 0) by (specialize (b1 r0 o0); rewrite Hc, nbar_cons_bar in b1; lia).
    assert (H1 : nbar (chan st r0 o0) = 1) by (rewrite Hc, nbar_cons_bar, Hq0; reflexivity).
    destruct (b2 r0 o0 H1) as (_ & _ & HbN & Hpend & _).
    destruct (all_in (n st) (r0 :: got st o0)) eqn:Hall.
    + (* -- the last barrier: the cut is taken and acknowledged *)
      assert (Hmem : forall r, r < n st -> r = r0 \/ In r (got st o0)).
      { intros r Hr. destruct (all_in_spec _ _ Hall r Hr) as [<-|Hin]; [left; reflexivity|right; exact Hin]. }
      assert (Hsr : forall r ps, cur_sr {| n := n st; pos := pos st; chan := upd2 (chan st) r0 o0 q; olog := olog st;
                        got := upd (got st) o0 []; bars := bars st; started := started st; pend := pend st;
                        inflight := inflight st ++ [AckOp (started st) o0 (olog st o0)]; pub := pub st |} r ps -> cur_sr st r ps).
      { intros r ps [p [Hp [H|H]]]; simp_all; exists p; (split; [exact Hp|]); [left; exact H|].
        apply in_app_or in H. destruct H as [H|[H|[]]]; [right; exact H|discriminate]. }
      assert (Hop : forall o cut, cur_op {| n := n st; pos := pos st; chan := upd2 (chan st) r0 o0 q; olog := olog st;
                        got := upd (got st) o0 []; bars := bars st; started := started st; pend := pend st;
                        inflight := inflight st ++ [AckOp (started st) o0 (olog st o0)]; pub := pub st |} o cut ->
                      cur_op st o cut \/ (o = o0 /\ cut = olog st o0)).
      { intros o cut [p [Hp [H|H]]]; simp_all.
        - left. exists p; split; [exact Hp|left; exact H].
        - apply in_app_or in H. destruct H as [H|[H|[]]].
          + left. exists p; split; [exact Hp|right; exact H].
          + right. inversion H; split; reflexivity. }
      assert (Hold0 : forall o cut, cur_op st o cut -> o <> o0).
      { intros o cut Hcur ->. destruct (c1 o0 cut Hcur) as (_ & _ & Cc & _). specialize (Cc r0). lia. }
      assert (Hzero : forall r, nbar (upd2 (chan st) r0 o0 q r o0) = 0).
      { intros r. destruct (Nat.eq_dec r r0) as [->|Hnr]; [rewrite upd2_same; exact Hq0|].
        rewrite upd2_other by (intros [? ?]; contradiction).
        destruct (Nat.eq_dec (nbar (chan st r o0)) 1) as [E|E]; [|specialize (b1 r o0); lia].
        destruct (b2 r o0 E) as (Hr & _ & _ & _ & Hni). destruct (Hmem r Hr) as [->|Hin]; contradiction. }
      constructor; simp_st.
      * intros r o. destruct (Nat.eq_dec r r0) as [->|Hnr]; [destruct (Nat.eq_dec o o0) as [->|Hno]|].
        -- rewrite upd2_same. lia.
        -- rewrite upd2_other by (intros [? ?]; contradiction). apply b1.
        -- rewrite upd2_other by (intros [? ?]; contradiction). apply b1.
      * intros r o H. destruct (Nat.eq_dec o o0) as [->|Hno]; [rewrite Hzero in H; discriminate|].
        rewrite upd2_other in H by (intros [? ?]; contradiction). rewrite upd_other by exact Hno. apply (b2 r o H).
      * intros o r H. unfold upd in H. destruct (Nat.eqb_spec o o0) as [->|Hno]; [destruct H|].
        rewrite upd2_other by (intros [? ?]; contradiction). apply (b3 o r H).
      * intros Hp; contradiction.
      * exact b6.
      * exact b7.
      * intros Hp; contradiction.
      * intros r ps Hcur. apply (s1 r ps (Hsr r ps Hcur)).
      * intros r ps Hcur o s k Ho Hs Hr Hk. apply Hsr in Hcur.
        destruct (Nat.eq_dec o o0) as [->|Hno].
        -- split; [intros H; rewrite Hzero in H; discriminate|rewrite upd_same; intros []].
        -- rewrite upd_other by exact Hno. rewrite upd2_other by (intros [? ?]; contradiction).
           apply (s2 r ps Hcur o s k Ho Hs Hr Hk).
      * intros r ps o cut Hcs Hco s k Hs Hr Hk. apply Hsr in Hcs. destruct (Hop o cut Hco) as [Hold|[-> ->]].
        -- apply (pp r ps o cut Hcs Hold s k Hs Hr Hk).
        -- destruct (s1 r ps Hcs) as [Hrm _]. destruct (s2 r ps Hcs o0 s k Ho0 Hs Hr Hk) as [A B].
           destruct (Hmem r Hrm) as [->|Hin]; [|apply B; exact Hin].
           specialize (A H1). rewrite Hc in A. cbn [before_bar] in A. cbn in A. rewrite app_nil_r in A. exact A.
      * intros o cut Hco. destruct (Hop o cut Hco) as [Hold|[-> ->]].
        -- destruct (c1 o cut Hold) as (A & B & Cc & D & E). pose proof (Hold0 o cut Hold) as Hno.
           repeat split; try assumption.
           ++ intros r. rewrite upd2_other by (intros [? ?]; contradiction). apply Cc.
           ++ rewrite upd_other by exact Hno. exact D.
        -- repeat split.
           ++ exact Ho0.
           ++ intros r Hr. destruct (Hmem r Hr) as [->|Hin]; [exact HbN|]. destruct (b3 o0 r Hin) as (_ & _ & F & _). exact F.
           ++ exact Hzero.
           ++ apply upd_same.
           ++ apply lw.
      * intros a Hin. apply in_app_or in Hin. destruct Hin as [Hin|[<-|[]]]; [apply a0; exact Hin|cbn; lia].
      * exact lw.
    + (* -- not the last barrier: the runner is parked *)
      assert (Hold0 : forall o cut, cur_op st o cut -> o <> o0).
      { intros o cut Hcur ->. destruct (c1 o0 cut Hcur) as (_ & _ & Cc & _). specialize (Cc r0). lia. }
      constructor; simp_st.
      * intros r o. destruct (Nat.eq_dec r r0) as [->|Hnr]; [destruct (Nat.eq_dec o o0) as [->|Hno]|].
        -- rewrite upd2_same. lia.
        -- rewrite upd2_other by (intros [? ?]; contradiction). apply b1.
        -- rewrite upd2_other by (intros [? ?]; contradiction). apply b1.
      * intros r o H. destruct (Nat.eq_dec r r0) as [->|Hnr]; [destruct (Nat.eq_dec o o0) as [->|Hno]|].
        -- rewrite upd2_same in H. lia.
        -- rewrite upd2_other in H by (intros [? ?]; contradiction). rewrite upd_other by exact Hno. apply (b2 r0 o H).
        -- rewrite upd2_other in H by (intros [? ?]; contradiction).
           destruct (b2 r o H) as (A & B & Cc & D & E). repeat split; try assumption.
           unfold upd. destruct (Nat.eqb_spec o o0) as [->|]; [|exact E].
           intros [Heq|Hin]; [apply Hnr; symmetry; exact Heq|apply E; exact Hin].
      * intros o r H. unfold upd in H. destruct (Nat.eqb_spec o o0) as [->|Hno].
        -- destruct H as [<-|Hin].
           ++ rewrite upd2_same. repeat split; assumption.
           ++ assert (Hnr : r <> r0) by (intros ->; contradiction).
              rewrite upd2_other by (intros [? ?]; contradiction). apply (b3 o0 r Hin).
        -- rewrite upd2_other by (intros [? ?]; contradiction). apply (b3 o r H).
      * intros Hp; contradiction.
      * exact b6.
      * exact b7.
      * intros Hp; contradiction.
      * exact s1.
      * intros r ps Hcur o s k Ho Hs Hr Hk. destruct (s2 r ps Hcur o s k Ho Hs Hr Hk) as [A B].
        destruct (Nat.eq_dec o o0) as [->|Hno].
        -- rewrite upd_same. destruct (Nat.eq_dec r r0) as [->|Hnr].
           ++ rewrite upd2_same. split; [intros H; lia|]. intros _.
              specialize (A H1). rewrite Hc in A. cbn [before_bar] in A. cbn in A. rewrite app_nil_r in A. exact A.
           ++ rewrite upd2_other by (intros [? ?]; contradiction). split; [exact A|].
              intros [Heq|Hin]; [exfalso; apply Hnr; symmetry; exact Heq|apply B; exact Hin].
        -- rewrite upd_other by exact Hno. rewrite upd2_other by (intros [? ?]; contradiction). split; assumption.
      * exact pp.
      * intros o cut Hcur. destruct (c1 o cut Hcur) as (A & B & Cc & D & E). pose proof (Hold0 o cut Hcur) as Hno.
        repeat split; try assumption.
        -- intros r. rewrite upd2_other by (intros [? ?]; contradiction). apply Cc.
        -- rewrite upd_other by exact Hno. exact D.
      * exact a0.
      * exact lw.
Qed.

Lemma cut_start : forall st, CutInv st -> CutInv (stepS st AStart).
Proof.
  intros st C. unfold Sys.step. destruct (pend st) as [p|] eqn:Hp; [exact C|].
  destruct C as [b1 b2 b3 b5 b6 b7 b8 s1 s2 pp c1 a0 lw].
  assert (Hz := b5 Hp). assert (Hb := b8 Hp).
  assert (Hnosr : forall r ps, ~ cur_sr {| n := n st; pos := pos st; chan := chan st; olog := olog st; got := got st; bars := bars st;
             started := S (started st); pend := Some {| p_sr := []; p_op := [] |}; inflight := inflight st; pub := pub st |} r ps).
  { intros r ps [p [Hpe [H|H]]]; simp_all.
    - inversion Hpe; subst; destruct H.
    - specialize (a0 _ H). cbn in a0. lia. }
  assert (Hnoop : forall o cut, ~ cur_op {| n := n st; pos := pos st; chan := chan st; olog := olog st; got := got st; bars := bars st;
             started := S (started st); pend := Some {| p_sr := []; p_op := [] |}; inflight := inflight st; pub := pub st |} o cut).
  { intros o cut [p [Hpe [H|H]]]; simp_all.
    - inversion Hpe; subst; destruct H.
    - specialize (a0 _ H). cbn in a0. lia. }
  constructor; simp_st.
  - exact b1.
  - intros r o H. destruct (Hz r o) as [E _]. lia.
  - intros o r H. destruct (Hz r o) as [_ E]. rewrite E in H. destruct H.
  - intros Hd; discriminate.
  - intros r. specialize (b6 r). lia.
  - intros r Hr. rewrite (Hb r Hr). lia.
  - intros Hd; discriminate.
  - intros r ps Hc. exfalso. apply (Hnosr r ps Hc).
  - intros r ps Hc. exfalso. apply (Hnosr r ps Hc).
  - intros r ps o cut Hc. exfalso. apply (Hnosr r ps Hc).
  - intros o cut Hc. exfalso. apply (Hnoop o cut Hc).
  - intros a Hin. specialize (a0 a Hin). lia.
  - exact lw.
Qed.

(* the acknowledgements the job holds after AAck took `a` (of the pending id) were all current before *)
Definition add_ack (a : ack) (p : pending) : pending :=
  match a with
  | AckSr _ r ps => {| p_sr := (r, ps) :: p_sr p; p_op := p_op p |}
  | AckOp _ o c => {| p_sr := p_sr p; p_op := (o, c) :: p_op p |}
  end.

Lemma add_ack_sr : forall st i a p r ps, nth_error (inflight st) i = Some a -> pend st = Some p -> ack_id a = started st ->
  In (r, ps) (p_sr (add_ack a p)) -> cur_sr st r ps.
Proof.
  intros st i a p r ps Hn Hp Hid H. exists p; split; [exact Hp|].
  destruct a as [id r0 ps0|id o0 c0]; cbn in *.
  - destruct H as [H|H]; [|left; exact H]. inversion H; subst. right. apply (nth_error_In _ _ Hn).
  - left; exact H.
Qed.
Lemma add_ack_op : forall st i a p o c, nth_error (inflight st) i = Some a -> pend st = Some p -> ack_id a = started st ->
  In (o, c) (p_op (add_ack a p)) -> cur_op st o c.
Proof.
  intros st i a p o c Hn Hp Hid H. exists p; split; [exact Hp|].
  destruct a as [id r0 ps0|id o0 c0]; cbn in *.
  - left; exact H.
  - destruct H as [H|H]; [|left; exact H]. inversion H; subst. right. apply (nth_error_In _ _ Hn).
Qed.

Lemma step_ack_shape : forall st i,
  stepS st (AAck i) =
  match nth_error (inflight st) i, pend st with
  | Some a, Some p =>
      let rest := remove_nth i (inflight st) in
      if negb (Nat.eqb (ack_id a) (started st)) then
        {| n := n st; pos := pos st; chan := chan st; olog := olog st; got := got st; bars := bars st;
           started := started st; pend := pend st; inflight := rest; pub := pub st |}
      else if complete (n st) (add_ack a p) then
        {| n := n st; pos := pos st; chan := chan st; olog := olog st; got := got st; bars := bars st;
           started := started st; pend := None; inflight := rest; pub := Some (publish (n st) (add_ack a p)) |}
      else
        {| n := n st; pos := pos st; chan := chan st; olog := olog st; got := got st; bars := bars st;
           started := started st; pend := Some (add_ack a p); inflight := rest; pub := pub st |}
  | _, _ => st
  end.
Proof.
  intros st i. unfold Sys.step. destruct (nth_error (inflight st) i) as [a|]; [|reflexivity].
  destruct (pend st) as [p|]; [|reflexivity]. destruct a; reflexivity.
Qed.

Lemma cut_ack : forall st i, CutInv st -> CutInv (stepS st (AAck i)).
Proof.
  intros st i C. rewrite step_ack_shape.
  destruct (nth_error (inflight st) i) as [a|] eqn:Hn; [|exact C].
  destruct (pend st) as [p|] eqn:Hp; [|exact C].
  cbv zeta.
  destruct C as [b1 b2 b3 b5 b6 b7 b8 s1 s2 pp c1 a0 lw].
  destruct (negb (Nat.eqb (ack_id a) (started st))) eqn:Hid.
  - (* rejected: not the pending id *)
    assert (Hsr : forall r ps, cur_sr {| n := n st; pos := pos st; chan := chan st; olog := olog st; got := got st; bars := bars st;
                     started := started st; pend := Some p; inflight := remove_nth i (inflight st); pub := pub st |} r ps -> cur_sr st r ps).
    { intros r ps [p0 [Hp0 [H|H]]]; simp_all; exists p0; (split; [congruence|]); [left; exact H|right; apply (In_remove_nth _ _ _ _ H)]. }
    assert (Hop : forall o c, cur_op {| n := n st; pos := pos st; chan := chan st; olog := olog st; got := got st; bars := bars st;
                     started := started st; pend := Some p; inflight := remove_nth i (inflight st); pub := pub st |} o c -> cur_op st o c).
    { intros o c [p0 [Hp0 [H|H]]]; simp_all; exists p0; (split; [congruence|]); [left; exact H|right; apply (In_remove_nth _ _ _ _ H)]. }
    constructor; simp_st.
    + exact b1.
    + intros r o H. destruct (b2 r o H) as (A & B & Cc & D & E). repeat split; try assumption. discriminate.
    + intros o r H. destruct (b3 o r H) as (A & B & Cc & D & E). repeat split; try assumption. discriminate.
    + intros Hd; discriminate.
    + exact b6.
    + exact b7.
    + intros Hd; discriminate.
    + intros r ps Hc. apply (s1 r ps (Hsr r ps Hc)).
    + intros r ps Hc. apply (s2 r ps (Hsr r ps Hc)).
    + intros r ps o c Hc1 Hc2. apply (pp r ps o c (Hsr r ps Hc1) (Hop o c Hc2)).
    + intros o c Hc. apply (c1 o c (Hop o c Hc)).
    + intros x Hin. apply a0. apply (In_remove_nth _ _ _ _ Hin).
    + exact lw.
  - apply negb_false_iff in Hid. apply Nat.eqb_eq in Hid.
    destruct (complete (n st) (add_ack a p)) eqn:Hcomp.
    + (* the last acknowledgement: published, nothing pending any more *)
      apply andb_true_iff in Hcomp. destruct Hcomp as [Hallsr Hallop].
      assert (Hz : forall r o, nbar (chan st r o) = 0 /\ got st o = []).
      { intros r o. destruct (Nat.lt_ge_cases o (n st)) as [Ho|Ho].
        - pose proof (all_in_spec _ _ Hallop o Ho) as Hin. destruct (lookup_in _ _ _ Hin) as [c [Hc _]].
          destruct (c1 o c (add_ack_op st i a p o c Hn Hp Hid Hc)) as (_ & _ & Cc & D & _). split; [apply Cc|exact D].
        - split.
          + destruct (Nat.eq_dec (nbar (chan st r o)) 1) as [E|E]; [|specialize (b1 r o); lia].
            destruct (b2 r o E) as (_ & F & _). lia.
          + destruct (got st o) as [|x l] eqn:Hg; [reflexivity|].
            assert (Hin : In x (got st o)) by (rewrite Hg; left; reflexivity).
            destruct (b3 o x Hin) as (_ & F & _). lia. }
      assert (Hb : forall r, r < n st -> bars st r = started st).
      { intros r Hr. pose proof (all_in_spec _ _ Hallsr r Hr) as Hin. destruct (lookup_in _ _ _ Hin) as [ps [Hc _]].
        apply (s1 r ps (add_ack_sr st i a p r ps Hn Hp Hid Hc)). }
      constructor; simp_st.
      * exact b1.
      * intros r o H. destruct (Hz r o) as [E _]. lia.
      * intros o r H. destruct (Hz r o) as [_ E]. rewrite E in H. destruct H.
      * intros _. exact Hz.
      * exact b6.
      * exact b7.
      * intros _. exact Hb.
      * intros r ps [p0 [Hd _]]; discriminate.
      * intros r ps [p0 [Hd _]]; discriminate.
      * intros r ps o c [p0 [Hd _]]; discriminate.
      * intros o c [p0 [Hd _]]; discriminate.
      * intros x Hin. apply a0. apply (In_remove_nth _ _ _ _ Hin).
      * exact lw.
    + (* recorded, still pending *)
      assert (Hsr : forall r ps, cur_sr {| n := n st; pos := pos st; chan := chan st; olog := olog st; got := got st; bars := bars st;
                       started := started st; pend := Some (add_ack a p); inflight := remove_nth i (inflight st); pub := pub st |} r ps -> cur_sr st r ps).
      { intros r ps [p0 [Hp0 [H|H]]]; simp_all.
        - inversion Hp0; subst. apply (add_ack_sr st i a p r ps Hn Hp Hid H).
        - exists p; split; [exact Hp|right; apply (In_remove_nth _ _ _ _ H)]. }
      assert (Hop : forall o c, cur_op {| n := n st; pos := pos st; chan := chan st; olog := olog st; got := got st; bars := bars st;
                       started := started st; pend := Some (add_ack a p); inflight := remove_nth i (inflight st); pub := pub st |} o c -> cur_op st o c).
      { intros o c [p0 [Hp0 [H|H]]]; simp_all.
        - inversion Hp0; subst. apply (add_ack_op st i a p o c Hn Hp Hid H).
        - exists p; split; [exact Hp|right; apply (In_remove_nth _ _ _ _ H)]. }
      constructor; simp_st.
      * exact b1.
      * intros r o H. destruct (b2 r o H) as (A & B & Cc & D & E). repeat split; try assumption. discriminate.
      * intros o r H. destruct (b3 o r H) as (A & B & Cc & D & E). repeat split; try assumption. discriminate.
      * intros Hd; discriminate.
      * exact b6.
      * exact b7.
      * intros Hd; discriminate.
      * intros r ps Hc. apply (s1 r ps (Hsr r ps Hc)).
      * intros r ps Hc. apply (s2 r ps (Hsr r ps Hc)).
      * intros r ps o c Hc1 Hc2. apply (pp r ps o c (Hsr r ps Hc1) (Hop o c Hc2)).
      * intros o c Hc. apply (c1 o c (Hop o c Hc)).
      * intros x Hin. apply a0. apply (In_remove_nth _ _ _ _ Hin).
      * exact lw.
Qed.

Lemma cut_restart : forall m pb, CutInv (restart owner m pb).
Proof.
  intros m pb. destruct pb as [c|]; cbn [restart fresh];
  (constructor; simp_st;
   [ intros; cbn; lia
   | intros r o H; cbn in H; discriminate
   | intros o r []
   | intros _ r o; split; reflexivity
   | intros; cbn; lia
   | intros; cbn; lia
   | intros; reflexivity
   | intros r ps [p [Hd _]]; discriminate
   | intros r ps [p [Hd _]]; discriminate
   | intros r ps o cut [p [Hd _]]; discriminate
   | intros o cut [p [Hd _]]; discriminate
   | intros a []
   | ]).
  - intros o. apply Forall_forall. intros e He. apply filter_In in He. destruct He as [_ He]. apply Nat.eqb_eq in He. exact He.
  - intros o. constructor.
Qed.

(* ---------------------------------------------------------------- (4) what is published is exact *)
Lemma filter_foreign : forall (own : N -> nat) k o (l : list entry),
  Forall (fun e : entry => own (rkey (snd e)) = o) l -> own k <> o ->
  filter (fun e : entry => N.eqb (rkey (snd e)) k) l = [].
Proof.
  intros own k o l H Hne. induction H as [|e l He _ IH]; cbn; [reflexivity|].
  destruct (N.eqb_spec (rkey (snd e)) k) as [E|E]; [exfalso; apply Hne; rewrite <- E; exact He|exact IH].
Qed.

Lemma filter_key_flat_map : forall (f : nat -> list entry) (own : N -> nat) k m,
  (forall o, o < m -> Forall (fun e : entry => own (rkey (snd e)) = o) (f o)) ->
  filter (fun e : entry => N.eqb (rkey (snd e)) k) (flat_map f (seq 0 m)) =
  if Nat.ltb (own k) m then filter (fun e : entry => N.eqb (rkey (snd e)) k) (f (own k)) else [].
Proof.
  intros f own k m. induction m as [|m IH]; intros H; [reflexivity|].
  rewrite seq_S, flat_map_app, filter_app. cbn [plus flat_map]. rewrite app_nil_r.
  rewrite IH by (intros o Ho; apply H; lia).
  destruct (Nat.ltb_spec (own k) m) as [L|L]; destruct (Nat.ltb_spec (own k) (S m)) as [L'|L']; try lia.
  - rewrite (filter_foreign own k m (f m)) by (try apply H; lia). apply app_nil_r.
  - assert (E : own k = m) by lia. rewrite E. reflexivity.
  - rewrite (filter_foreign own k m (f m)) by (try apply H; lia). reflexivity.
Qed.

Lemma publication_exact : forall st i, CutInv st -> pub_ok splits st -> pub_ok splits (stepS st (AAck i)).
Proof.
  intros st i C Hpub. rewrite step_ack_shape.
  destruct (nth_error (inflight st) i) as [a|] eqn:Hn; [|exact Hpub].
  destruct (pend st) as [p|] eqn:Hp; [|exact Hpub].
  cbv zeta.
  destruct (negb (Nat.eqb (ack_id a) (started st))) eqn:Hid; [exact Hpub|].
  apply negb_false_iff in Hid. apply Nat.eqb_eq in Hid.
  destruct (complete (n st) (add_ack a p)) eqn:Hcomp; [|exact Hpub].
  apply andb_true_iff in Hcomp. destruct Hcomp as [Hallsr Hallop].
  destruct C as [b1 b2 b3 b5 b6 b7 b8 s1 s2 pp c1 a0 lw].
  unfold pub_ok; simp_st. intros k s Hs. unfold all_cut, publish; cbn [c_n c_cut c_pos].
  assert (Hm : 0 < n st).
  { destruct a as [id r0 ps0|id o0 c0]; cbn in Hid; subst id.
    - assert (Hc : cur_sr st r0 ps0) by (exists p; split; [exact Hp|right; apply (nth_error_In _ _ Hn)]).
      destruct (s1 r0 ps0 Hc). lia.
    - assert (Hc : cur_op st o0 c0) by (exists p; split; [exact Hp|right; apply (nth_error_In _ _ Hn)]).
      destruct (c1 o0 c0 Hc) as (A & _). lia. }
  pose proof (Hown (n st) k Hm) as Ho.
  assert (Hr : runner_of (n st) s < n st) by (unfold runner_of; apply Nat.mod_upper_bound; lia).
  change (proj s (filter (fun e : entry => N.eqb (rkey (snd e)) k) (flat_map (lookup_op (p_op (add_ack a p))) (seq 0 (n st)))) =
          want (lookup_sr (p_sr (add_ack a p)) (runner_of (n st) s)) s k).
  rewrite (filter_key_flat_map (lookup_op (p_op (add_ack a p))) (owner (n st)) k (n st)).
  - apply Nat.ltb_lt in Ho. rewrite Ho. apply Nat.ltb_lt in Ho.
    destruct (lookup_in _ _ _ (all_in_spec _ _ Hallop _ Ho)) as [c [Hc Hfc]].
    destruct (lookup_in _ _ _ (all_in_spec _ _ Hallsr _ Hr)) as [ps [Hps Hfps]].
    unfold lookup_op, lookup_sr. rewrite Hfc, Hfps. cbn [snd].
    apply (pp (runner_of (n st) s) ps (owner (n st) k) c
              (add_ack_sr st i a p _ ps Hn Hp Hid Hps) (add_ack_op st i a p _ c Hn Hp Hid Hc) s k Hs eq_refl eq_refl).
  - intros o Hlt. unfold lookup_op.
    destruct (find (fun x : nat * list entry => Nat.eqb (fst x) o) (p_op (add_ack a p))) as [[o' c]|] eqn:Hf; [|constructor].
    apply find_some in Hf. destruct Hf as [Hin He]. cbn in He. apply Nat.eqb_eq in He. subst o'. cbn [snd].
    destruct (c1 o c (add_ack_op st i a p o c Hn Hp Hid Hin)) as (_ & _ & _ & _ & E). exact E.
Qed.

(* ---------------------------------------------------------------- (5) the full invariant over all schedules *)
Definition Full (st : state) : Prop := Inv splits owner st /\ CutInv st.

Lemma init_full : forall m, Full (init m).
Proof.
  intros m. split; [apply init_inv|]. apply (cut_restart m None).
Qed.

Lemma step_full : forall st a, Full st -> Full (stepS st a).
Proof.
  intros st a [[Hd [Hw Hp]] C].
  destruct a as [s|r|r o| |i|w m].
  - destruct (step_emit splits owner st s Hd Hw) as [H1 H2]. split; [|apply cut_emit; exact C].
    split; [exact H1|split; [exact H2|]]. unfold pub_ok. rewrite pub_unchanged by (intros; discriminate). exact Hp.
  - destruct (step_barrier splits owner st r Hd Hw) as [H1 H2]. split; [|apply cut_barrier; assumption].
    split; [exact H1|split; [exact H2|]]. unfold pub_ok. rewrite pub_unchanged by (intros; discriminate). exact Hp.
  - destruct (step_deliver splits owner st r o Hd Hw) as [H1 H2]. split; [|apply cut_deliver; assumption].
    split; [exact H1|split; [exact H2|]]. unfold pub_ok. rewrite pub_unchanged by (intros; discriminate). exact Hp.
  - destruct (step_start splits owner st Hd Hw) as [H1 H2]. split; [|apply cut_start; exact C].
    split; [exact H1|split; [exact H2|]]. unfold pub_ok. rewrite pub_unchanged by (intros; discriminate). exact Hp.
  - destruct (step_ack splits owner st i Hd Hw) as [H1 H2]. split; [|apply cut_ack; exact C].
    split; [exact H1|split; [exact H2|]]. apply publication_exact; assumption.
  - unfold Sys.step. destruct (Nat.ltb 0 m); [|split; [split; [exact Hd|split; assumption]|exact C]].
    split; [apply restart_inv; exact Hp|apply cut_restart].
Qed.

Lemma run_full : forall sched st, Full st -> Full (runS st sched).
Proof.
  induction sched as [|a sched IH]; intros st H; cbn; [exact H|].
  apply IH. apply step_full; exact H.
Qed.

(* the component guarantee, now a theorem of Sys: every reachable publication is exact *)
Theorem published_checkpoints_are_exact : forall m sched, pub_ok splits (runS (init m) sched).
Proof. intros m sched. destruct (run_full sched (init m) (init_full m)) as [[_ [_ H]] _]. exact H. Qed.

Theorem given_state_is_applied_prefix_full : forall m sched s k, s < nspl ->
  let st := runS (init m) sched in
  exists rest, papp owner st s k ++ rest = sub k (firstn (pos st s) (splitl s)).
Proof.
  intros m sched s k Hs st.
  destruct (run_full sched (init m) (init_full m)) as [[Hd _] _].
  eexists. apply Hd. exact Hs.
Qed.

Theorem exactly_once_full : forall m sched s k, s < nspl ->
  let st := runS (init m) sched in
  drained splits st -> papp owner st s k = sub k (splitl s).
Proof.
  intros m sched s k Hs st [Hpos Hch].
  destruct (run_full sched (init m) (init_full m)) as [[Hd _] _].
  specialize (Hd s k Hs). fold st in Hd. rewrite Hch in Hd. cbn in Hd. rewrite app_nil_r in Hd.
  rewrite Hd, (Hpos s Hs), firstn_all. reflexivity.
Qed.

End Cut.
