(* The specification side of C07: sorted association lists of (key, value), and their relation to tables. *)
From Coq Require Import List NArith Bool Lia.
From RV Require Import Base.Bytes Model.LsmBase Model.LsmCompaction Model.Lsm Proofs.C07_Sorted.
Import ListNotations.
Open Scope N_scope.

Definition smap := list (bytes * bytes).

Fixpoint ksorted (m : smap) : Prop :=
  match m with [] => True | x :: r => (forall y, In y r -> klt (fst x) (fst y)) /\ ksorted r end.

Lemma sm_get_cons k x m : sm_get k (x :: m) = if beqb (fst x) k then Some (snd x) else sm_get k m.
Proof. unfold sm_get. cbn. destruct (beqb (fst x) k); reflexivity. Qed.

Lemma sm_get_in k v m : sm_get k m = Some v -> In (k, v) m.
Proof.
  induction m as [|[k' v'] m IH]; [discriminate|]. rewrite sm_get_cons. cbn. destruct (beqb k' k) eqn:E.
  - apply beqb_eq in E. intros [= ->]. left. congruence.
  - intros H. right. auto.
Qed.
Lemma sm_get_none_lt k m : (forall y, In y m -> klt k (fst y)) -> sm_get k m = None.
Proof.
  induction m as [|x m IH]; [reflexivity|]. intros H. rewrite sm_get_cons. rewrite beqb_neq.
  - apply IH. intros y Hy. apply H. right. exact Hy.
  - intros E. specialize (H x (or_introl eq_refl)). rewrite E in H. exact (klt_irrefl _ H).
Qed.

Lemma kv_ext a b : ksorted a -> ksorted b -> (forall k, sm_get k a = sm_get k b) -> a = b.
Proof.
  revert b. induction a as [|[kx vx] a IH]; intros [|[ky vy] b] Ha Hb H.
  - reflexivity.
  - specialize (H ky). rewrite sm_get_cons in H. cbn in H. rewrite beqb_refl in H. discriminate.
  - specialize (H kx). rewrite sm_get_cons in H. cbn in H. rewrite beqb_refl in H. discriminate.
  - cbn in Ha, Hb. destruct Ha as [Ha1 Ha2], Hb as [Hb1 Hb2].
    assert (Hk : kx = ky).
    { pose proof (H kx) as Hx. pose proof (H ky) as Hy. rewrite !sm_get_cons in Hx, Hy. cbn in Hx, Hy.
      rewrite beqb_refl in Hx, Hy. destruct (beqb ky kx) eqn:E; [apply beqb_eq in E; congruence|].
      rewrite beqb_sym, E in Hy. symmetry in Hx. apply sm_get_in in Hx. apply sm_get_in in Hy.
      apply Hb1 in Hx. apply Ha1 in Hy. cbn in Hx, Hy. exfalso. exact (klt_irrefl _ (klt_trans _ _ _ Hx Hy)). }
    subst ky. pose proof (H kx) as Hx. rewrite !sm_get_cons in Hx. cbn in Hx. rewrite beqb_refl in Hx. injection Hx as ->.
    f_equal. apply IH; auto. intros k. specialize (H k). rewrite !sm_get_cons in H. cbn in H.
    destruct (beqb kx k) eqn:E; [|exact H]. apply beqb_eq in E. subst k.
    rewrite (sm_get_none_lt kx a) by (intros y Hy; apply (Ha1 y Hy)).
    rewrite (sm_get_none_lt kx b) by (intros y Hy; apply (Hb1 y Hy)). reflexivity.
Qed.

(* ---------- sm_put / sm_del ---------- *)

Lemma sm_put_in k v m y : In y (sm_put k v m) -> y = (k, v) \/ In y m.
Proof.
  induction m as [|[k' v'] m IH]; cbn; [intros [<-|[]]; auto|].
  destruct (bcmp k k'); cbn; intros [<-|H]; auto. apply IH in H as [H|H]; auto.
Qed.
Lemma sm_put_sorted k v m : ksorted m -> ksorted (sm_put k v m).
Proof.
  induction m as [|[k' v'] m IH]; cbn; [intros _; split; [intros ? []|exact I]|]. intros [H1 H2].
  destruct (bcmp k k') eqn:E; cbn.
  - apply bcmp_eq in E. subst k'. split; [|exact H2]. exact H1.
  - split; [|split; auto]. intros z [<-|Hz]; [exact E|]. eapply klt_trans; [exact E|apply (H1 z Hz)].
  - split; [|auto]. intros z Hz. apply sm_put_in in Hz as [->|Hz]; [apply bcmp_gt_lt; exact E|apply (H1 z Hz)].
Qed.
Lemma sm_put_get k v m k' : ksorted m -> sm_get k' (sm_put k v m) = if beqb k k' then Some v else sm_get k' m.
Proof.
  induction m as [|[k2 v2] m IH]; cbn [sm_put]; intros Hs.
  - rewrite sm_get_cons. cbn. destruct (beqb k k'); reflexivity.
  - cbn in Hs. destruct Hs as [H1 H2]. destruct (bcmp k k2) eqn:E.
    + apply bcmp_eq in E. subst k2. rewrite !sm_get_cons. cbn. destruct (beqb k k'); reflexivity.
    + rewrite !sm_get_cons. cbn. destruct (beqb k k') eqn:Ek; [reflexivity|]. reflexivity.
    + rewrite !sm_get_cons. cbn. destruct (beqb k2 k') eqn:E2.
      * apply beqb_eq in E2. subst k'. rewrite beqb_neq; [reflexivity|]. intros ->. rewrite bcmp_refl in E. discriminate.
      * apply IH. exact H2.
Qed.

Lemma sm_del_in k m y : In y (sm_del k m) -> In y m.
Proof.
  induction m as [|[k' v'] m IH]; cbn; [auto|]. destruct (beqb k' k); cbn; [auto|]. intros [<-|H]; auto.
Qed.
Lemma sm_del_sorted k m : ksorted m -> ksorted (sm_del k m).
Proof.
  induction m as [|[k' v'] m IH]; cbn; [auto|]. intros [H1 H2]. destruct (beqb k' k); cbn; [exact H2|].
  split; [|auto]. intros y Hy. apply sm_del_in in Hy. apply (H1 y Hy).
Qed.
Lemma sm_del_get k m k' : ksorted m -> sm_get k' (sm_del k m) = if beqb k k' then None else sm_get k' m.
Proof.
  induction m as [|[k2 v2] m IH]; cbn [sm_del]; intros Hs.
  - destruct (beqb k k'); reflexivity.
  - cbn in Hs. destruct Hs as [H1 H2]. destruct (beqb k2 k) eqn:E.
    + apply beqb_eq in E. subst k2. rewrite sm_get_cons. cbn. destruct (beqb k k') eqn:Ek; [|reflexivity].
      apply beqb_eq in Ek. subst k'. apply sm_get_none_lt. intros y Hy. apply (H1 y Hy).
    + rewrite !sm_get_cons. cbn. destruct (beqb k2 k') eqn:E2.
      * apply beqb_eq in E2. subst k'. rewrite beqb_sym, E. reflexivity.
      * apply IH. exact H2.
Qed.

(* ---------- tables as maps ---------- *)

Definition vis (o : option entry) : option bytes :=
  match o with Some e => if edel e then None else Some (eval e) | None => None end.

Lemma kvs_in t y : In y (kvs t) -> exists e, In e t /\ y = (ekey e, eval e).
Proof. unfold kvs. intros H. apply in_map_iff in H as (e & <- & He). exists e. auto. Qed.
Lemma kvs_sorted t : sorted t -> ksorted (kvs t).
Proof.
  induction t as [|x t IH]; cbn; [auto|]. intros [H1 H2]. split; [|auto].
  intros y Hy. apply kvs_in in Hy as (e & He & ->). cbn. auto.
Qed.
Lemma sm_get_kvs k t : sm_get k (kvs t) = option_map eval (tbl_get k t).
Proof.
  induction t as [|x t IH]; [reflexivity|]. cbn [kvs map]. rewrite sm_get_cons, tbl_get_cons. cbn [fst snd].
  destruct (beqb (ekey x) k); [reflexivity|exact IH].
Qed.
Lemma sm_get_live k t : sorted t -> sm_get k (kvs (without_deletes t)) = vis (tbl_get k t).
Proof.
  intros Hs. rewrite sm_get_kvs. unfold without_deletes. rewrite tbl_get_filter by exact Hs.
  destruct (tbl_get k t) as [e|]; [|reflexivity]. unfold live, vis. destruct (edel e); reflexivity.
Qed.

Lemma filter_comm {A} (f g : A -> bool) l : filter f (filter g l) = filter g (filter f l).
Proof.
  induction l as [|x l IH]; [reflexivity|]. cbn. destruct (g x) eqn:G, (f x) eqn:F; cbn; rewrite ?G, ?F, IH; reflexivity.
Qed.
Lemma sm_scan_live p t : sm_scan p (kvs (without_deletes t)) = kvs (without_deletes (tbl_scan p t)).
Proof.
  unfold without_deletes, tbl_scan. rewrite filter_comm. generalize (filter live t). intros l.
  induction l as [|x l IH]; [reflexivity|]. unfold sm_scan, kvs in *. cbn [map filter fst]. unfold has_prefix at 1.
  destruct (is_prefix p (ekey x)); cbn [map]; rewrite IH; reflexivity.
Qed.

Definition get_matches (r : getres) (o : option bytes) : Prop :=
  match o with Some v => r = GFound v | None => r = GDeleted \/ r = GAbsent end.
Lemma to_getres_matches o : get_matches (to_getres o) (vis o).
Proof. destruct o as [e|]; cbn; [destruct (edel e); cbn; auto|auto]. Qed.
