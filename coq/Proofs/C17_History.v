(* Witnesses, computed on the faithful models of the code BEFORE each repair, that the old code violated C17.
   (The WAL witness for D7 is rotate_without_carry_loses_entries in C17_Wal.v, the WriteRun witness for D29 is
   write_run_old_emits_empty_table in C17_WriteRun2.v.) *)
From RV Require Import Model.SstTable Proofs.C17_Codec.
From Coq Require Import ZifyN ZifyNat ZifyBool.
Open Scope N_scope.

Definition entry_okb (e : entry) : bool :=
  (blen (e_key e) <? 4294967296) && (blen (e_val e) <? 4294967296) && (e_seq e <? 18446744073709551616).
Lemma entry_okb_ok es : forallb entry_okb es = true -> Forall entry_ok es.
Proof.
  intros H. apply Forall_forall. intros e He. rewrite forallb_forall in H. specialize (H e He).
  unfold entry_okb in H. unfold entry_ok. lia.
Qed.

Fixpoint rangeN (n : nat) (i : N) : list N := match n with O => [] | S n' => i :: rangeN n' (i + 1) end.

(* D26: 2600 three-byte keys "m??" fill the 32768-bit filter enough that the absent key "a\003\012", which sorts
   before the first key, passes the filter; the binary search answers index 0 / not exact, the old code
   decremented to -1 and indexed offsets[-1]. *)
Definition d26_es : list entry := map (fun i => mkE [109; i / 256; i mod 256] [] (i + 1) false) (rangeN 2600 0).
Definition d26_key : bytes := [97; 3; 12].

Lemma d26_old_get_panics :
  Forall entry_ok d26_es /\ keys_sorted d26_es = true /\ blen (ser_entries d26_es) < 4294967296 /\
  find_key d26_key d26_es = None /\
  bf_might_have (bloom_of default_params d26_es) d26_key = true /\
  table_get_old (write_table default_params d26_es) d26_key = GPanic /\
  table_get (write_table default_params d26_es) d26_key = GNotFound.
Proof.
  split; [apply entry_okb_ok; vm_compute; reflexivity|].
  split; [vm_compute; reflexivity|].
  split; [vm_compute; reflexivity|].
  split; [vm_compute; reflexivity|].
  split; [vm_compute; reflexivity|].
  split; vm_compute; reflexivity.
Qed.

Lemma old_get_panics_before_first_key :
  exists es key, Forall entry_ok es /\ keys_sorted es = true /\ blen (ser_entries es) < 4294967296 /\
                 find_key key es = None /\ table_get_old (write_table default_params es) key = GPanic.
Proof.
  exists d26_es, d26_key. destruct d26_old_get_panics as (H1 & H2 & H3 & H4 & _ & H6 & _).
  split; [exact H1|]. split; [exact H2|]. split; [exact H3|]. split; [exact H4|exact H6].
Qed.
