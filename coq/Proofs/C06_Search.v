(* C06, part 4: completeness of the level search of AllTablesForPrefix (slices.BinarySearchFunc with
   Table.RangePrefixCompare, then the forward scan while RangeContainsPrefix) on a chain of disjoint key ranges. *)
From Coq Require Import List NArith Lia Bool Arith Sorting.Sorted.
From RV Require Import Proofs.C07_Sorted Proofs.C18_Layout.
From RV Require Import Model.Rescale Proofs.C06_Assign Proofs.C06_Rescale Proofs.C06_Clean.
Import ListNotations.

(* RangePrefixCompare = 0  <->  RangeContainsPrefix *)
Lemma cmp_eq_rcp t p : range_prefix_compare t p = Eq <-> range_contains_prefix t p = true.
Proof.
  unfold range_prefix_compare, range_contains_prefix, bleb.
  destruct (is_prefix p (t_start t)), (is_prefix p (t_end t)); cbn [orb]; rewrite ?orb_true_r; try (split; reflexivity).
  rewrite !orb_false_r. rewrite (bcmp_antisym (t_end t) p).
  destruct (bcmp (t_start t) p), (bcmp (t_end t) p); cbn; split; intros H; try reflexivity; try discriminate.
Qed.

Lemma cmp_lt_inv t p : range_prefix_compare t p = Lt ->
  is_prefix p (t_start t) = false /\ is_prefix p (t_end t) = false /\ klt (t_end t) p.
Proof.
  unfold range_prefix_compare. destruct (is_prefix p (t_start t)), (is_prefix p (t_end t)); cbn [orb]; try discriminate.
  destruct (bcmp (t_start t) p); try discriminate; destruct (bcmp (t_end t) p) eqn:E; try discriminate; auto.
Qed.
Lemma cmp_gt_inv t p : range_prefix_compare t p = Gt ->
  is_prefix p (t_start t) = false /\ is_prefix p (t_end t) = false /\ klt p (t_start t).
Proof.
  unfold range_prefix_compare. destruct (is_prefix p (t_start t)), (is_prefix p (t_end t)); cbn [orb]; try discriminate.
  destruct (bcmp (t_start t) p) eqn:E; [destruct (bcmp (t_end t) p); discriminate|destruct (bcmp (t_end t) p); discriminate|].
  intros _. repeat split. apply bcmp_gt_lt. exact E.
Qed.
Lemma cmp_lt_intro t p : startle t -> klt (t_end t) p -> range_prefix_compare t p = Lt.
Proof.
  intros Hs He. unfold range_prefix_compare.
  assert (P1 : is_prefix p (t_end t) = false).
  { destruct (is_prefix p (t_end t)) eqn:E; [|reflexivity]. exfalso. exact (klt_irrefl _ (kle_lt_trans _ _ _ (prefix_le _ _ E) He)). }
  assert (P0 : is_prefix p (t_start t) = false).
  { destruct (is_prefix p (t_start t)) eqn:E; [|reflexivity]. exfalso.
    exact (klt_irrefl _ (kle_lt_trans _ _ _ (prefix_le _ _ E) (kle_lt_trans _ _ _ Hs He))). }
  rewrite P0, P1. cbn [orb]. pose proof (kle_lt_trans _ _ _ Hs He) as Hsp. unfold klt in Hsp, He. rewrite Hsp, He. reflexivity.
Qed.
Lemma cmp_gt_intro t p : startle t -> klt p (t_start t) -> is_prefix p (t_start t) = false -> is_prefix p (t_end t) = false ->
  range_prefix_compare t p = Gt.
Proof.
  intros Hs Hp P0 P1. unfold range_prefix_compare. rewrite P0, P1. cbn [orb].
  unfold klt in Hp. rewrite (bcmp_antisym p (t_start t)), Hp. reflexivity.
Qed.

Section Chain.
  Variables (lvl : list table) (p : bytes).
  Hypothesis Hok : level_ok lvl.
  Let n := length lvl.
  Let cmpf := fun h => range_prefix_compare (nth h lvl dummy_table) p.

  Lemma chain_nth a b : (a < b)%nat -> (b < n)%nat -> klt (t_end (nth a lvl dummy_table)) (t_start (nth b lvl dummy_table)).
  Proof.
    destruct Hok as (_ & _ & Hc). unfold n. clear Hok. revert a b. induction Hc as [|x l Hc IH Hx]; intros a b Hab Hb; cbn [length] in Hb; [lia|].
    rewrite Forall_forall in Hx. destruct b as [|b]; [lia|]. destruct a as [|a]; cbn [nth].
    - apply Hx. apply nth_In. lia.
    - apply IH; lia.
  Qed.
  Lemma startle_nth a : (a < n)%nat -> startle (nth a lvl dummy_table).
  Proof. destruct Hok as (_ & Hs & _). rewrite Forall_forall in Hs. intros H. apply Hs. apply nth_In. exact H. Qed.

  Lemma mono_lt a b : (a < b)%nat -> (b < n)%nat -> cmpf b = Lt -> cmpf a = Lt.
  Proof.
    intros Hab Hb Hc. destruct (cmp_lt_inv _ _ Hc) as (_ & _ & He).
    apply cmp_lt_intro; [apply startle_nth; lia|].
    eapply klt_trans; [apply (chain_nth a b Hab Hb)|]. eapply kle_lt_trans; [apply (startle_nth b Hb)|exact He].
  Qed.
  Lemma mono_gt a b : (a < b)%nat -> (b < n)%nat -> cmpf a = Gt -> cmpf b = Gt.
  Proof.
    intros Hab Hb Hc. destruct (cmp_gt_inv _ _ Hc) as (P0 & _ & Hp).
    pose proof (startle_nth a ltac:(lia)) as Sa. pose proof (startle_nth b Hb) as Sb. pose proof (chain_nth a b Hab Hb) as Hch.
    assert (Hpb : klt p (t_start (nth b lvl dummy_table))).
    { eapply klt_trans; [exact Hp|]. eapply kle_lt_trans; [exact Sa|exact Hch]. }
    apply cmp_gt_intro; [exact Sb|exact Hpb| |].
    - destruct (is_prefix p (t_start (nth b lvl dummy_table))) eqn:E; [|reflexivity]. exfalso.
      rewrite (prefix_between p (t_start (nth a lvl dummy_table)) (t_start (nth b lvl dummy_table)) Hp) in P0; [discriminate| |exact E].
      right. eapply kle_lt_trans; [exact Sa|exact Hch].
    - destruct (is_prefix p (t_end (nth b lvl dummy_table))) eqn:E; [|reflexivity]. exfalso.
      rewrite (prefix_between p (t_start (nth a lvl dummy_table)) (t_end (nth b lvl dummy_table)) Hp) in P0; [discriminate| |exact E].
      eapply kle_trans; [right; eapply kle_lt_trans; [exact Sa|exact Hch]|exact Sb].
  Qed.

  (* slices.BinarySearchFunc: the smallest index whose comparison is not "less" *)
  Lemma bsearch_spec : forall fuel i j, (j - i < fuel)%nat -> (i <= j)%nat -> (j <= n)%nat ->
    (forall h, (h < i)%nat -> cmpf h = Lt) -> (forall h, (j <= h)%nat -> (h < n)%nat -> cmpf h <> Lt) ->
    let r := bsearch fuel cmpf i j in
    (i <= r <= j)%nat /\ (forall h, (h < r)%nat -> cmpf h = Lt) /\ (forall h, (r <= h)%nat -> (h < n)%nat -> cmpf h <> Lt).
  Proof.
    induction fuel as [|fuel IH]; intros i j Hf Hij Hjn Hlo Hhi; [lia|]. cbn [bsearch].
    destruct (Nat.ltb i j) eqn:E.
    - apply Nat.ltb_lt in E. set (h := Nat.div2 (i + j)).
      assert (Hh : (i <= h < j)%nat).
      { unfold h. rewrite Nat.div2_div. split; [apply Nat.div_le_lower_bound; lia|apply Nat.div_lt_upper_bound; lia]. }
      destruct (cmpf h) eqn:Ch.
      + destruct (IH i h) as (A & B & C); [lia|lia|lia|exact Hlo| |].
        * intros k Hk Hkn Hc. destruct (Nat.eq_dec k h) as [->|Hne]; [congruence|]. rewrite (mono_lt h k ltac:(lia) Hkn Hc) in Ch. discriminate.
        * split; [lia|]. split; assumption.
      + destruct (IH (S h) j) as (A & B & C); [lia|lia|lia| |exact Hhi|].
        * intros k Hk. destruct (Nat.eq_dec k h) as [->|Hne]; [exact Ch|]. apply (mono_lt k h); [lia|lia|exact Ch].
        * split; [lia|]. split; assumption.
      + destruct (IH i h) as (A & B & C); [lia|lia|lia|exact Hlo| |].
        * intros k Hk Hkn Hc. destruct (Nat.eq_dec k h) as [->|Hne]; [congruence|]. rewrite (mono_lt h k ltac:(lia) Hkn Hc) in Ch. discriminate.
        * split; [lia|]. split; assumption.
    - apply Nat.ltb_ge in E. assert (i = j) by lia. subst j. split; [lia|]. split; assumption.
  Qed.

  Lemma nth_skipn' {A} (d : A) : forall r l k, nth k (skipn r l) d = nth (r + k) l d.
  Proof.
    induction r as [|r IH]; intros l k; [reflexivity|]. destruct l as [|x l]; cbn [skipn plus nth]; [destruct k; reflexivity|apply IH].
  Qed.

  Lemma take_while_nth {A} (f : A -> bool) (d : A) : forall l k, (k < length l)%nat -> (forall h, (h <= k)%nat -> f (nth h l d) = true) ->
    In (nth k l d) (take_while f l).
  Proof.
    induction l as [|x l IH]; intros k Hk Hf; cbn [length] in Hk; [lia|]. cbn [take_while].
    pose proof (Hf 0%nat ltac:(lia)) as H0. cbn [nth] in H0. rewrite H0. destruct k as [|k]; [left; reflexivity|right]. cbn [nth]. apply IH; [lia|].
    intros h Hh. apply (Hf (S h)). lia.
  Qed.

  Theorem select_complete_chain t e : In t lvl -> tcover t -> In e (t_entries t) -> is_prefix p (e_key e) = true -> In t (select_level lvl p).
  Proof.
    intros Ht Hc He Hp. apply In_nth with (d := dummy_table) in Ht as (it & Hit & Enth). fold n in Hit.
    assert (Ceq : cmpf it = Eq) by (unfold cmpf; rewrite Enth; apply cmp_eq_rcp; eapply rcp_in; eauto).
    destruct (bsearch_spec (S n) 0 n ltac:(lia) ltac:(lia) ltac:(lia) ltac:(intros; lia) ltac:(intros; lia)) as (Hr & Hlo & Hhi).
    set (r := bsearch (S n) cmpf 0 n) in *.
    assert (Hrit : (r <= it)%nat).
    { destruct (Nat.le_gt_cases r it) as [H|H]; [exact H|]. rewrite (Hlo it H) in Ceq. discriminate. }
    assert (Hmid : forall h, (r <= h)%nat -> (h <= it)%nat -> cmpf h = Eq).
    { intros h H1 H2. destruct (cmpf h) eqn:C; [reflexivity|exfalso; exact (Hhi h H1 ltac:(lia) C)|exfalso].
      destruct (Nat.eq_dec h it) as [->|Hne]; [congruence|]. rewrite (mono_gt h it ltac:(lia) Hit C) in Ceq. discriminate. }
    unfold select_level. cbv zeta.
    change (bsearch (S (length lvl)) (fun h => range_prefix_compare (nth h lvl dummy_table) p) 0 (length lvl)) with r.
    change (range_prefix_compare (nth r lvl dummy_table) p) with (cmpf r). change (length lvl) with n.
    replace (Nat.ltb r n) with true by (symmetry; apply Nat.ltb_lt; lia). rewrite (Hmid r ltac:(lia) Hrit).
    rewrite <- Enth. replace it with (r + (it - r))%nat by lia. rewrite <- nth_skipn'.
    apply take_while_nth.
    - rewrite skipn_length. fold n. lia.
    - intros h Hh. rewrite nth_skipn'. apply cmp_eq_rcp. apply (Hmid (r + h)%nat); lia.
  Qed.
End Chain.

(* the hypothesis of Proofs/C06_Clean.v, proved *)
Theorem select_complete_proved : forall lvl p t e,
  level_ok lvl -> In t lvl -> In e (t_entries t) -> is_prefix p (e_key e) = true -> In t (select_level lvl p).
Proof.
  intros lvl p t e Hok Ht He Hp. apply (select_complete_chain lvl p Hok t e Ht); [|exact He|exact Hp].
  destruct Hok as (Hc & _). rewrite Forall_forall in Hc. exact (Hc t Ht).
Qed.

(* ---------- the theorem without the hypothesis, and a non-vacuity instance ---------- *)
Definition rescale_exact_clean_proved := rescale_exact_clean_lemma select_complete_proved.
Definition rescale_exact_clean_handles_proved := rescale_exact_clean_handles select_complete_proved.

(* a write after the restore is what the merged view returns for its key (the memtable's newest entry of a key wins) *)
Lemma write_visible p m (Tb : entry -> Prop) R new :
  Mx (fun x => exists e, x = tr e /\ is_prefix p (e_key e) = true /\ (In e (new :: m) \/ Tb e)) R ->
  uniq (fun x => exists e, x = tr e /\ is_prefix p (e_key e) = true /\ (In e (new :: m) \/ Tb e)) ->
  decr (new :: m) -> (forall e e', In e (new :: m) -> Tb e' -> (e_seq e' < e_seq e)%N) ->
  is_prefix p (e_key new) = true -> LsmBase.tbl_get (e_key new) R = Some (tr new).
Proof.
  intros HM Hu Hd Hab Hp.
  apply (lookup_mem p (new :: m) Tb R HM Hu Hd Hab (e_key new) new (filter (keyb (e_key new)) m) Hp).
  cbn [filter]. unfold keyb at 1. rewrite beqb_refl. reflexivity.
Qed.

Open Scope N_scope.
Lemma docA_LLInv : LLInv (trl docA).
Proof.
  constructor.
  - intros l t Hl Ht. destruct Hl as [<-|[<-|[]]]; [destruct Ht|]. destruct Ht as [<-|[]]. apply sortedb_sorted. vm_compute. reflexivity.
  - intros i l H. destruct i as [|[|i]]; cbn in H; try discriminate. inversion H; subst. split.
    + apply sortedb_sorted. vm_compute. reflexivity.
    + intros t [<-|[]]. discriminate.
  - intros l H. cbn in H. inversion H; subst. exact I.
  - intros i j li lj t t' e e' Hij Hi Hj Ht. destruct i as [|[|[|i]]]; cbn in Hi; try discriminate.
    + inversion Hi; subst. destruct Ht.
    + destruct j as [|[|[|j]]]; cbn in Hj; try discriminate; lia.
Qed.

Lemma d21_docwf : forall rd, In rd d21_recorded -> docwf rd.
Proof.
  assert (K : forall a b : bytes, bcmp a b = Lt -> kle a b) by (intros a b H; right; exact H).
  intros rd [<-|[<-|[]]]; (split; [vm_compute; reflexivity|split]).
  - intros t [<-|[]]. split; [|split; [|split]].
    + intros e [<-|[<-|[]]]; cbn; split; try (left; reflexivity); apply K; reflexivity.
    + apply K. reflexivity.
    + repeat split; cbn; lia.
    + intros e [<-|[<-|[]]]; cbn; lia.
  - intros k. destruct k as [|k]; [repeat constructor|]. unfold lvk. cbn. destruct k; constructor.
  - intros t [<-|[]]. split; [|split; [|split]].
    + intros e [<-|[<-|[]]]; cbn; split; try (left; reflexivity); apply K; reflexivity.
    + apply K. reflexivity.
    + repeat split; cbn; lia.
    + intros e [<-|[<-|[]]]; cbn; lia.
  - intros k. destruct k as [|k]; [repeat constructor|]. unfold lvk. cbn. destruct k; constructor.
Qed.

Example clean_instance :
  pairdisj (map fst d21_recorded) /\ (forall rd, In rd d21_recorded -> docwf rd) /\ LLInv (trl docA) /\
  (forall k, is_prefix [0;0] k = true -> key_in (0, 1) k = true /\ key_in (nth 0 (kg_ranges 2 1) (0, 0)) k = true) /\
  exists st stA, restore_new true 2 1 d21_recorded 0 = Some st /\ restore true (0, 1) [docA] = Some stA /\
                 scan_prefix st [0;0] = scan_prefix stA [0;0] /\ scan_prefix stA [0;0] = [(kA1, 11); (kA2, 12)].
Proof.
  assert (Hd : pairdisj (map fst d21_recorded)).
  { cbn. split; [|split; [intros ? []|exact I]]. intros r' [<-|[]] kg [A B]. unfold includes_kg in *. cbn in *. lia. }
  assert (Hp : forall k, is_prefix [0;0] k = true -> key_in (0, 1) k = true /\ key_in (nth 0 (kg_ranges 2 1) (0, 0)) k = true).
  { intros k H. destruct k as [|b0 [|b1 k]]; cbn [is_prefix] in H; try discriminate.
    - rewrite andb_false_r in H. discriminate.
    - apply andb_true_iff in H as [E0 H]. apply andb_true_iff in H as [E1 _]. apply N.eqb_eq in E0, E1. subst. split; reflexivity. }
  split; [exact Hd|]. split; [exact d21_docwf|]. split; [exact docA_LLInv|]. split; [exact Hp|].
  destruct (restore_new true 2 1 d21_recorded 0) as [st|] eqn:E1; [|vm_compute in E1; discriminate].
  destruct (restore true (0, 1) [docA]) as [stA|] eqn:E2; [|vm_compute in E2; discriminate].
  exists st, stA. split; [reflexivity|]. split; [reflexivity|]. split.
  - apply (rescale_exact_clean_proved 2 1 d21_recorded 0%nat 1%nat (0, 1) docA [0;0] st stA Hd d21_docwf); auto using docA_LLInv.
  - vm_compute in E2. inversion E2; subst. vm_compute. reflexivity.
Qed.
