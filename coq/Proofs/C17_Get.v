(* Table.Get on a table fresh from the writer, for every index spacing sp > 0 and every Bloom filter size:
   Bloom check, binary search over the sparse index (every sp-th entry offset, keys read back from the file
   bytes), then the bounded linear scan, returns exactly the entry with that key (tombstone value dropped) or
   "not found". *)
From RV Require Import Model.SstTable Proofs.C17_Codec.
From Coq Require Import ZifyN ZifyNat ZifyBool.
Open Scope N_scope.

Ltac Zify.zify_post_hook ::= Z.div_mod_to_equations.

(* ------------------------------------------------------------------------------------------------------- *)
(* find_key / get_spec                                                                                       *)
(* ------------------------------------------------------------------------------------------------------- *)

Lemma find_key_none : forall key l,
  (forall e, In e l -> e_key e <> key) -> find_key key l = None.
Proof.
  intros key l; induction l as [|e r IH]; intros Hne; [reflexivity|].
  cbn [find_key]. destruct (beqb (e_key e) key) eqn:Eb.
  - apply beqb_eq in Eb. exfalso. apply (Hne e); [left; reflexivity|exact Eb].
  - apply IH. intros e' Hin. apply Hne. right. exact Hin.
Qed.

Lemma find_key_app_none_l : forall key a b,
  (forall e, In e a -> e_key e <> key) -> find_key key (a ++ b) = find_key key b.
Proof.
  intros key a b; induction a as [|e r IH]; intros Hne; [reflexivity|].
  cbn [app find_key]. destruct (beqb (e_key e) key) eqn:Eb.
  - apply beqb_eq in Eb. exfalso. apply (Hne e); [left; reflexivity|exact Eb].
  - apply IH. intros e' Hin. apply Hne. right. exact Hin.
Qed.

Lemma find_key_app_none_r : forall key a b,
  (forall e, In e b -> e_key e <> key) -> find_key key (a ++ b) = find_key key a.
Proof.
  intros key a b Hne; induction a as [|e r IH].
  - cbn [app]. rewrite (find_key_none key b Hne). reflexivity.
  - cbn [app find_key]. rewrite IH. reflexivity.
Qed.

(* ------------------------------------------------------------------------------------------------------- *)
(* Step 7: the scan loop                                                                                     *)
(* ------------------------------------------------------------------------------------------------------- *)

(* the entries the scan loop visits: those whose start offset is below the end bound *)
Fixpoint block (l : list entry) (off end_ : N) : list entry :=
  match l with
  | [] => []
  | e :: r => if off <? end_ then e :: block r (off + blen (ser_entry e)) end_ else []
  end.

Lemma ser_entry_blen_pos e : 0 < blen (ser_entry e).
Proof. unfold blen. pose proof (ser_entry_len e) as H. lia. Qed.

Lemma scan_get_step : forall f e rest off en key,
  entry_ok e ->
  scan_get (S f) (ser_entry e ++ rest) off en key =
  if off <? en then
    if beqb (e_key e) key then GFound (norm e)
    else scan_get f rest (off + blen (ser_entry e)) en key
  else GNotFound.
Proof.
  intros f e rest off en key (Hk & Hv & Hs).
  cbn [scan_get]. destruct (off <? en); [|reflexivity].
  destruct (ser_entry e ++ rest) as [|b0 d0] eqn:Ed.
  - exfalso. apply app_eq_nil in Ed. destruct Ed as [Ed _]. exact (ser_entry_nonempty e Ed).
  - rewrite <- Ed. clear Ed b0 d0.
    assert (Hlen : forall r, blen (ser_entry e ++ r) - blen r = blen (ser_entry e)).
    { intros r. rewrite blen_app. lia. }
    revert Hlen. unfold ser_entry, norm. rewrite <- !app_assoc.
    rewrite (rd_var_w _ _ Hk), rd_u64_wu64, (u64_small _ Hs), rd_tomb_w.
    destruct e as [k v s d]; cbn [e_key e_val e_seq e_del] in *. destruct d; intros Hlen.
    + cbn [app]. destruct (beqb k key); [reflexivity|].
      specialize (Hlen rest). rewrite <- !app_assoc in Hlen. cbn [app] in Hlen. rewrite Hlen.
      rewrite app_nil_r. reflexivity.
    + rewrite (rd_var_w _ _ Hv). destruct (beqb k key); [reflexivity|].
      specialize (Hlen rest). rewrite <- !app_assoc in Hlen. rewrite Hlen. reflexivity.
Qed.

Lemma scan_get_block : forall l fuel off en key,
  Forall entry_ok l -> (length l < fuel)%nat ->
  scan_get fuel (ser_entries l) off en key = get_spec (block l off en) key.
Proof.
  induction l as [|e r IH]; intros fuel off en key Hok Hf.
  - destruct fuel as [|f]; [cbn in Hf; lia|].
    cbn [scan_get ser_entries flat_map block]. destruct (off <? en); reflexivity.
  - destruct fuel as [|f]; [cbn in Hf; lia|].
    inversion Hok as [|? ? He Hr]; subst.
    rewrite ser_entries_cons, (scan_get_step _ _ _ _ _ _ He).
    cbn [block]. destruct (off <? en); [|reflexivity].
    unfold get_spec. cbn [find_key]. destruct (beqb (e_key e) key); [reflexivity|].
    rewrite IH; [reflexivity|exact Hr|cbn [length] in Hf; lia].
Qed.

(* the end bound is the start offset of the entry just after [a] *)
Lemma block_app_exact : forall a b off,
  block (a ++ b) off (off + blen (ser_entries a)) = a.
Proof.
  induction a as [|e r IH]; intros b off.
  - cbn [app ser_entries flat_map]. change (blen []) with 0. rewrite N.add_0_r.
    destruct b as [|e b]; [reflexivity|]. cbn [block]. rewrite N.ltb_irrefl. reflexivity.
  - cbn [app block]. rewrite ser_entries_cons, blen_app. pose proof (ser_entry_blen_pos e) as Hp.
    replace (off <? off + (blen (ser_entry e) + blen (ser_entries r))) with true by lia.
    rewrite N.add_assoc, IH. reflexivity.
Qed.

(* the end bound is beyond the last entry *)
Lemma block_all : forall l off en,
  off + blen (ser_entries l) <= en -> block l off en = l.
Proof.
  induction l as [|e r IH]; intros off en Hen; [reflexivity|].
  cbn [block]. rewrite ser_entries_cons, blen_app in Hen. pose proof (ser_entry_blen_pos e) as Hp.
  replace (off <? en) with true by lia. rewrite IH; [reflexivity|lia].
Qed.

(* ------------------------------------------------------------------------------------------------------- *)
(* Step 5: slices.BinarySearchFunc                                                                           *)
(* ------------------------------------------------------------------------------------------------------- *)

Section BSearch.
  Local Open Scope nat_scope.
  Variable cmpf : N -> option (option comparison).
  Variable offs : list N.
  Variable c : nat -> comparison.
  Variable n : nat.
  Hypothesis Hcmp : forall h, h < n -> cmpf (nth h offs 0%N) = Some (Some (c h)).
  Hypothesis Hmono : forall h h', h' < h -> h < n -> c h = Lt -> c h' = Lt.

  Lemma div2_mid i j : i < j -> i <= Nat.div2 (i + j) /\ Nat.div2 (i + j) < j.
  Proof. intros H. rewrite Nat.div2_div. split; lia. Qed.

  Lemma bsearch_spec : forall fuel i j,
    i <= j -> j <= n -> j - i < fuel ->
    (forall h, h < i -> c h = Lt) ->
    (forall h, j <= h -> h < n -> c h <> Lt) ->
    exists r, bsearch fuel cmpf offs i j = BsIdx r /\ r <= n /\
              (forall h, h < r -> c h = Lt) /\ (forall h, r <= h -> h < n -> c h <> Lt).
  Proof.
    induction fuel as [|f IH]; intros i j Hij Hjn Hf Hlo Hhi; [lia|].
    cbn [bsearch]. destruct (Nat.ltb i j) eqn:Elt.
    - apply Nat.ltb_lt in Elt. destruct (div2_mid i j Elt) as [Hm1 Hm2].
      set (h := Nat.div2 (i + j)) in *.
      rewrite (Hcmp h) by lia.
      destruct (c h) eqn:Ech.
      + apply IH; [lia|lia|lia|exact Hlo|].
        intros h' Hh' Hh'n Hc. assert (Hx : h' = h \/ h < h') by lia. destruct Hx as [->|Hx]; [congruence|].
        assert (Hc' : c h = Lt) by (apply (Hmono h' h); assumption). congruence.
      + apply IH; [lia|lia|lia| |exact Hhi].
        intros h' Hh'. assert (Hx : h' = h \/ h' < h) by lia. destruct Hx as [->|Hx]; [exact Ech|].
        apply (Hmono h h'); [exact Hx|lia|exact Ech].
      + apply IH; [lia|lia|lia|exact Hlo|].
        intros h' Hh' Hh'n Hc. assert (Hx : h' = h \/ h < h') by lia. destruct Hx as [->|Hx]; [congruence|].
        assert (Hc' : c h = Lt) by (apply (Hmono h' h); assumption). congruence.
    - apply Nat.ltb_ge in Elt. assert (i = j) by lia. subst j.
      exists i. split; [reflexivity|]. split; [lia|]. split; assumption.
  Qed.

  Lemma bsearch_top :
    exists r, bsearch (S n) cmpf offs 0 n = BsIdx r /\ r <= n /\
              (forall h, h < r -> c h = Lt) /\ (forall h, r <= h -> h < n -> c h <> Lt).
  Proof. apply bsearch_spec; lia. Qed.
End BSearch.

(* ------------------------------------------------------------------------------------------------------- *)
(* Lists                                                                                                     *)
(* ------------------------------------------------------------------------------------------------------- *)

Definition dE : entry := mkE [] [] 0 false.
Definition kat (es : list entry) (i : nat) : bytes := e_key (nth i es dE).

Lemma skipn_nth_cons : forall (es : list entry) i,
  (i < length es)%nat -> skipn i es = nth i es dE :: skipn (S i) es.
Proof.
  induction es as [|e r IH]; intros i Hi; [cbn in Hi; lia|].
  destruct i as [|i]; [reflexivity|].
  cbn [length] in Hi. cbn [skipn nth]. rewrite (IH i) by lia. reflexivity.
Qed.

Lemma firstn_add_skipn : forall (es : list entry) i k,
  firstn (i + k) es = firstn i es ++ firstn k (skipn i es).
Proof.
  induction es as [|e r IH]; intros i k.
  - rewrite !firstn_nil, skipn_nil, firstn_nil. reflexivity.
  - destruct i as [|i]; [reflexivity|].
    cbn [Nat.add firstn skipn app]. rewrite IH. reflexivity.
Qed.

Lemma skipn_add : forall (es : list entry) i k, skipn (i + k) es = skipn k (skipn i es).
Proof.
  induction es as [|e r IH]; intros i k.
  - rewrite !skipn_nil. reflexivity.
  - destruct i as [|i]; [reflexivity|]. cbn [Nat.add skipn]. apply IH.
Qed.

Lemma In_firstn_nth : forall (es : list entry) i e,
  In e (firstn i es) -> exists p, (p < i)%nat /\ (p < length es)%nat /\ e = nth p es dE.
Proof.
  induction es as [|x r IH]; intros i e Hin.
  - rewrite firstn_nil in Hin. destruct Hin.
  - destruct i as [|i]; [destruct Hin|].
    cbn [firstn] in Hin. destruct Hin as [<-|Hin].
    + exists 0%nat. cbn [length nth]. repeat split; lia.
    + destruct (IH i e Hin) as (p & Hp1 & Hp2 & Hp3). exists (S p). cbn [length nth]. repeat split; try lia. exact Hp3.
Qed.

Lemma In_skipn_nth : forall (es : list entry) i e,
  In e (skipn i es) -> exists p, (i <= p)%nat /\ (p < length es)%nat /\ e = nth p es dE.
Proof.
  induction es as [|x r IH]; intros i e Hin.
  - rewrite skipn_nil in Hin. destruct Hin.
  - destruct i as [|i].
    + cbn [skipn] in Hin. destruct (In_nth _ _ dE Hin) as (p & Hp & Hnth). exists p. repeat split; [lia|exact Hp|symmetry; exact Hnth].
    + cbn [skipn] in Hin. destruct (IH i e Hin) as (p & Hp1 & Hp2 & Hp3). exists (S p). cbn [length nth]. repeat split; try lia. exact Hp3.
Qed.

(* ------------------------------------------------------------------------------------------------------- *)
(* Step 1: offsets                                                                                           *)
(* ------------------------------------------------------------------------------------------------------- *)

(* start offset of entry number i (i = length es: the end of the entries) *)
Definition eoff (es : list entry) (i : nat) : N := blen (ser_entries (firstn i es)).

Lemma eoff_0 es : eoff es 0 = 0.
Proof. reflexivity. Qed.

Lemma entry_offsets_length : forall es o, length (entry_offsets o es) = length es.
Proof. induction es as [|e r IH]; intros o; [reflexivity|]. cbn [entry_offsets length]. rewrite IH. reflexivity. Qed.

Lemma entry_offsets_nth : forall es o i,
  (i < length es)%nat -> nth i (entry_offsets o es) 0 = o + eoff es i.
Proof.
  induction es as [|e r IH]; intros o i Hi; [cbn in Hi; lia|].
  destruct i as [|i].
  - cbn [entry_offsets nth]. rewrite eoff_0. lia.
  - cbn [length] in Hi. cbn [entry_offsets nth]. rewrite IH by lia.
    unfold eoff. cbn [firstn]. rewrite ser_entries_cons, blen_app. lia.
Qed.

Lemma ser_entries_split es i : ser_entries es = ser_entries (firstn i es) ++ ser_entries (skipn i es).
Proof. rewrite <- ser_entries_app, firstn_skipn. reflexivity. Qed.

Lemma skipn_off es i : skipn (N.to_nat (eoff es i)) (ser_entries es) = ser_entries (skipn i es).
Proof. rewrite (ser_entries_split es i) at 1. unfold eoff. apply skipn_blen. Qed.

Lemma eoff_le_total es i : eoff es i <= blen (ser_entries es).
Proof. rewrite (ser_entries_split es i), blen_app. unfold eoff. lia. Qed.

Lemma eoff_add es i k : eoff es (i + k) = eoff es i + blen (ser_entries (firstn k (skipn i es))).
Proof. unfold eoff. rewrite firstn_add_skipn, ser_entries_app, blen_app. reflexivity. Qed.

Lemma eoff_total es : eoff es (length es) = blen (ser_entries es).
Proof. unfold eoff. rewrite firstn_all. reflexivity. Qed.

(* ------------------------------------------------------------------------------------------------------- *)
(* Step 2: sampling every sp-th offset (any spacing sp > 0)                                                  *)
(* ------------------------------------------------------------------------------------------------------- *)

Lemma sample_nth : forall sp l c j,
  (0 < sp)%nat -> (c < sp)%nat ->
  (c + sp * j < length l)%nat -> nth j (sample sp c l) 0 = u32 (nth (c + sp * j) l 0).
Proof.
  intros sp l; induction l as [|x r IH]; intros c j Hsp Hc Hj; [cbn [length] in Hj; lia|].
  cbn [length] in Hj. destruct c as [|c].
  - cbn [sample]. destruct j as [|j].
    + rewrite Nat.mul_0_r. reflexivity.
    + rewrite Nat.mul_succ_r in *.
      replace (0 + (sp * j + sp))%nat with (S ((sp - 1) + sp * j)) by lia. cbn [nth]. apply IH; lia.
  - cbn [sample]. replace (S c + sp * j)%nat with (S (c + sp * j)) by lia. cbn [nth]. apply IH; lia.
Qed.

Lemma sample_length : forall sp l c j,
  (0 < sp)%nat -> (c < sp)%nat ->
  ((j < length (sample sp c l))%nat <-> (c + sp * j < length l)%nat).
Proof.
  intros sp l; induction l as [|x r IH]; intros c j Hsp Hc.
  - cbn [sample length]. lia.
  - destruct c as [|c].
    + cbn [sample length]. destruct j as [|j]; [rewrite Nat.mul_0_r; lia|].
      assert (Hc' : (sp - 1 < sp)%nat) by lia.
      specialize (IH (sp - 1)%nat j Hsp Hc'). rewrite Nat.mul_succ_r. lia.
    + cbn [sample length]. assert (Hc' : (c < sp)%nat) by lia. specialize (IH c j Hsp Hc'). lia.
Qed.

Lemma index_of_bound tp es j :
  (0 < tp_spacing tp)%nat ->
  ((j < length (index_of tp es))%nat <-> (tp_spacing tp * j < length es)%nat).
Proof.
  intros Hsp. unfold index_of. rewrite (sample_length _ _ 0%nat j Hsp Hsp), entry_offsets_length. lia.
Qed.

Lemma index_of_nth tp es j :
  (0 < tp_spacing tp)%nat ->
  blen (ser_entries es) < 4294967296 -> (tp_spacing tp * j < length es)%nat ->
  nth j (index_of tp es) 0 = eoff es (tp_spacing tp * j).
Proof.
  intros Hsp Hsz Hj. unfold index_of.
  rewrite (sample_nth _ _ 0%nat j Hsp Hsp) by (rewrite entry_offsets_length; lia).
  change (0 + tp_spacing tp * j)%nat with (tp_spacing tp * j)%nat. rewrite entry_offsets_nth by exact Hj.
  rewrite N.add_0_l. apply u32_small. pose proof (eoff_le_total es (tp_spacing tp * j)). lia.
Qed.

(* ------------------------------------------------------------------------------------------------------- *)
(* Step 3: reading a key back from the file                                                                  *)
(* ------------------------------------------------------------------------------------------------------- *)

Lemma read_key_at_off es i :
  Forall entry_ok es -> (i < length es)%nat ->
  read_key_at (ser_entries es) (eoff es i) = Some (Some (kat es i)).
Proof.
  intros Hok Hi. unfold read_key_at. pose proof (eoff_le_total es i) as Hle.
  replace (eoff es i <=? blen (ser_entries es)) with true by lia.
  rewrite skipn_off, (skipn_nth_cons es i Hi), ser_entries_cons.
  assert (He : entry_ok (nth i es dE)).
  { rewrite Forall_forall in Hok. apply Hok. apply nth_In. exact Hi. }
  destruct He as (Hk & _). unfold ser_entry. rewrite <- !app_assoc, (rd_var_w _ _ Hk). reflexivity.
Qed.

(* ------------------------------------------------------------------------------------------------------- *)
(* Step 4: sorted keys                                                                                       *)
(* ------------------------------------------------------------------------------------------------------- *)

Lemma keys_sorted_tail e r : keys_sorted (e :: r) = true -> keys_sorted r = true.
Proof.
  cbn [keys_sorted]. destruct r as [|e' r']; [reflexivity|]. intros H. apply andb_true_iff in H. apply H.
Qed.

Lemma keys_sorted_head : forall r e q,
  keys_sorted (e :: r) = true -> (q < length r)%nat -> bcmp (e_key e) (kat r q) = Lt.
Proof.
  induction r as [|e' r' IH]; intros e q Hs Hq; [cbn in Hq; lia|].
  assert (H1 : bcmp (e_key e) (e_key e') = Lt).
  { cbn [keys_sorted] in Hs. apply andb_true_iff in Hs. destruct Hs as [Hs _]. unfold bltb in Hs.
    destruct (bcmp (e_key e) (e_key e')); congruence. }
  destruct q as [|q]; [exact H1|].
  unfold kat. cbn [nth]. apply (bcmp_lt_trans _ (e_key e')); [exact H1|].
  apply IH; [apply (keys_sorted_tail e); exact Hs|cbn [length] in Hq; lia].
Qed.

Lemma keys_sorted_nth : forall es p q,
  keys_sorted es = true -> (p < q)%nat -> (q < length es)%nat -> bcmp (kat es p) (kat es q) = Lt.
Proof.
  induction es as [|e r IH]; intros p q Hs Hpq Hq; [cbn in Hq; lia|].
  cbn [length] in Hq. destruct q as [|q]; [lia|]. destruct p as [|p].
  - change (kat (e :: r) 0) with (e_key e). change (kat (e :: r) (S q)) with (kat r q).
    apply (keys_sorted_head r e q); [exact Hs|lia].
  - change (kat (e :: r) (S p)) with (kat r p). change (kat (e :: r) (S q)) with (kat r q).
    apply IH; [apply (keys_sorted_tail e); exact Hs|lia|lia].
Qed.

Lemma bcmp_lt_neq a b : bcmp a b = Lt -> a <> b.
Proof. intros H ->. rewrite bcmp_refl in H. discriminate. Qed.

Lemma bcmp_gt_lt a b : bcmp a b = Gt -> bcmp b a = Lt.
Proof. intros H. rewrite bcmp_antisym, H. reflexivity. Qed.

(* ------------------------------------------------------------------------------------------------------- *)
(* Steps 6 and 8: the index search picks the right block; assembling Table.Get                               *)
(* ------------------------------------------------------------------------------------------------------- *)

Definition run_ok (es : list entry) : Prop :=
  Forall entry_ok es /\ keys_sorted es = true /\ blen (ser_entries es) < 4294967296.

Lemma Forall_skipn_ok (es : list entry) i : Forall entry_ok es -> Forall entry_ok (skipn i es).
Proof. intros H. rewrite <- (firstn_skipn i es) in H. apply Forall_app in H. apply H. Qed.

Section Get.
  Variable tp : tparams.
  Variable es : list entry.
  Variable key : bytes.
  Hypothesis Hsp : (0 < tp_spacing tp)%nat.
  Hypothesis Hok : Forall entry_ok es.
  Hypothesis Hs : keys_sorted es = true.
  Hypothesis Hsz : blen (ser_entries es) < 4294967296.

  Local Notation sp := (tp_spacing tp).
  Local Notation m := (length (index_of tp es)).
  Let c (h : nat) : comparison := bcmp (kat es (sp * h)) key.
  Let cmpf : N -> option (option comparison) :=
    fun o => match read_key_at (ser_entries es) o with
             | None => None
             | Some None => Some None
             | Some (Some k) => Some (Some (bcmp k key))
             end.

  (* nothing before block fi / nothing from block fi+1 on has the key; block fi = entries sp*fi .. sp*(fi+1)-1 *)
  Definition before_ok (fi : nat) : Prop :=
    forall p, (p < sp * fi)%nat -> (p < length es)%nat -> kat es p <> key.
  Definition after_ok (fi : nat) : Prop :=
    forall p, (sp * S fi <= p)%nat -> (p < length es)%nat -> kat es p <> key.

  Lemma m_bound j : (j < m)%nat <-> (sp * j < length es)%nat.
  Proof. apply index_of_bound. exact Hsp. Qed.

  Lemma sp_mul_lt h h' : (h' < h)%nat -> (sp * h' + sp <= sp * h)%nat.
  Proof.
    intros Hlt. rewrite <- Nat.mul_succ_r. apply Nat.mul_le_mono_l. lia.
  Qed.

  Lemma cmpf_at h : (h < m)%nat -> cmpf (nth h (index_of tp es) 0) = Some (Some (c h)).
  Proof.
    intros Hh. apply m_bound in Hh. unfold cmpf.
    rewrite (index_of_nth tp es h Hsp Hsz Hh), (read_key_at_off es (sp * h) Hok Hh). reflexivity.
  Qed.

  Lemma c_mono h h' : (h' < h)%nat -> (h < m)%nat -> c h = Lt -> c h' = Lt.
  Proof.
    intros Hlt Hh Hc. apply m_bound in Hh. unfold c in *.
    apply (bcmp_lt_trans _ (kat es (sp * h))); [|exact Hc].
    pose proof (sp_mul_lt h h' Hlt) as Hmul.
    apply keys_sorted_nth; [exact Hs|lia|exact Hh].
  Qed.

  (* step 6 *)
  Lemma locate r (ex : bool) :
    (0 < m)%nat -> (r <= m)%nat ->
    (forall h, (h < r)%nat -> c h = Lt) ->
    (forall h, (r <= h)%nat -> (h < m)%nat -> c h <> Lt) ->
    (ex = true -> (r < m)%nat /\ c r = Eq) ->
    (ex = false -> (r < m)%nat -> c r <> Eq) ->
    let fi := if ex then r else Nat.pred r in
    (fi < m)%nat /\ before_ok fi /\ after_ok fi.
  Proof.
    intros Hm Hrm Hlo Hhi Hex1 Hex0. destruct ex; cbn zeta.
    - destruct (Hex1 eq_refl) as [Hr Hc]. apply m_bound in Hr. unfold c in Hc. apply bcmp_eq in Hc.
      split; [apply m_bound; exact Hr|]. split.
      + intros p Hp Hpl. rewrite <- Hc. apply bcmp_lt_neq. apply keys_sorted_nth; [exact Hs|exact Hp|exact Hr].
      + intros p Hp Hpl. rewrite <- Hc. intros Heq. symmetry in Heq. revert Heq. apply bcmp_lt_neq.
        rewrite Nat.mul_succ_r in Hp.
        apply keys_sorted_nth; [exact Hs|lia|exact Hpl].
    - split; [lia|]. split.
      + intros p Hp Hpl. destruct r as [|r]; [cbn [Nat.pred] in Hp; rewrite Nat.mul_0_r in Hp; lia|].
        cbn [Nat.pred] in Hp.
        assert (Hr : (sp * r < length es)%nat) by (apply m_bound; lia).
        assert (Hc : c r = Lt) by (apply Hlo; lia). unfold c in Hc.
        apply bcmp_lt_neq. apply (bcmp_lt_trans _ (kat es (sp * r))); [|exact Hc].
        apply keys_sorted_nth; [exact Hs|exact Hp|exact Hr].
      + intros p Hp Hpl. assert (Hp' : (sp * r <= p)%nat).
        { destruct r as [|r]; [rewrite Nat.mul_0_r; lia|]. cbn [Nat.pred] in Hp. exact Hp. }
        assert (Hr : (r < m)%nat) by (apply m_bound; lia).
        assert (Hc : c r = Gt).
        { specialize (Hhi r (le_n r) Hr). specialize (Hex0 eq_refl Hr). destruct (c r); congruence. }
        unfold c in Hc. apply bcmp_gt_lt in Hc.
        intros Heq. symmetry in Heq. revert Heq. apply bcmp_lt_neq.
        assert (Hx : (sp * r = p \/ sp * r < p)%nat) by lia. destruct Hx as [<-|Hx]; [exact Hc|].
        apply (bcmp_lt_trans _ (kat es (sp * r))); [exact Hc|].
        apply keys_sorted_nth; [exact Hs|exact Hx|exact Hpl].
  Qed.

  Hypothesis Hne : es <> [].

  Lemma m_pos : (0 < m)%nat.
  Proof. apply m_bound. rewrite Nat.mul_0_r. destruct es; [congruence|cbn [length]; lia]. Qed.

  Lemma search_index_spec :
    exists fi, search_index true (index_of tp es) (ser_entries es) key =
                 SRange (nth fi (index_of tp es) 0)
                        (if Nat.eqb fi (m - 1) then max_int64 else nth (S fi) (index_of tp es) 0) /\
               (fi < m)%nat /\ before_ok fi /\ after_ok fi.
  Proof.
    pose proof m_pos as Hm.
    assert (Hnil : index_of tp es <> []).
    { intros E. rewrite E in Hm. cbn [length] in Hm. lia. }
    unfold search_index, search_index_with. destruct (index_of tp es) as [|o0 offs0] eqn:Eoffs; [congruence|].
    cbv iota. rewrite <- Eoffs. rewrite <- Eoffs in Hm. clear Hnil Eoffs o0 offs0. fold cmpf.
    destruct (bsearch_top cmpf (index_of tp es) c m cmpf_at c_mono) as (r & Hbs & Hrm & Hlo & Hhi).
    rewrite Hbs.
    destruct (Nat.ltb r m) eqn:Elt.
    - apply Nat.ltb_lt in Elt. pose proof (cmpf_at r Elt) as Hcr. unfold cmpf in Hcr. rewrite Hcr. clear Hcr. destruct (c r) eqn:Ecr.
      + exists r. split; [reflexivity|].
        apply (locate r true Hm Hrm Hlo Hhi); [intros _; split; assumption|discriminate].
      + exfalso. apply (Hhi r (le_n r) Elt). exact Ecr.
      + exists (Nat.pred r). split; [cbn [negb andb]; rewrite andb_false_r; reflexivity|].
        apply (locate r false Hm Hrm Hlo Hhi); [discriminate|intros _ _; congruence].
    - apply Nat.ltb_ge in Elt.
      exists (Nat.pred r). split; [cbn [negb andb]; rewrite andb_false_r; reflexivity|].
      apply (locate r false Hm Hrm Hlo Hhi); [discriminate|intros _ Hr; lia].
  Qed.

  (* step 8, the scan after the search *)
  Lemma scan_after_search fi :
    (fi < m)%nat -> before_ok fi -> after_ok fi ->
    let body := ser_entries es in
    let st := nth fi (index_of tp es) 0 in
    let en := if Nat.eqb fi (m - 1) then max_int64 else nth (S fi) (index_of tp es) 0 in
    (if st <=? blen body then scan_get (S (length body)) (skipn (N.to_nat st) body) st en key else GPanic)
    = get_spec es key.
  Proof.
    intros Hfi Hb Ha body st en.
    assert (Hfi' : (sp * fi < length es)%nat) by (apply m_bound; exact Hfi).
    assert (Hst : st = eoff es (sp * fi)) by (apply index_of_nth; assumption).
    pose proof (eoff_le_total es (sp * fi)) as Hle.
    replace (st <=? blen body) with true by (subst body; lia).
    rewrite Hst. subst body. rewrite skipn_off.
    rewrite scan_get_block.
    2: { apply Forall_skipn_ok. exact Hok. }
    2: { rewrite skipn_length. pose proof (ser_entries_len es). lia. }
    set (a := firstn sp (skipn (sp * fi) es)).
    set (b := skipn sp (skipn (sp * fi) es)).
    assert (Hab : skipn (sp * fi) es = a ++ b) by (symmetry; apply firstn_skipn).
    assert (Hb_none : forall e, In e b -> e_key e <> key).
    { intros e Hin. subst b. rewrite <- skipn_add in Hin.
      destruct (In_skipn_nth _ _ _ Hin) as (p & Hp1 & Hp2 & ->).
      apply Ha; [rewrite Nat.mul_succ_r; exact Hp1|exact Hp2]. }
    assert (Hpre_none : forall e, In e (firstn (sp * fi) es) -> e_key e <> key).
    { intros e Hin. destruct (In_firstn_nth _ _ _ Hin) as (p & Hp1 & Hp2 & ->). apply Hb; assumption. }
    assert (Hfind : find_key key es = find_key key a).
    { rewrite <- (firstn_skipn (sp * fi) es) at 1. rewrite (find_key_app_none_l _ _ _ Hpre_none), Hab.
      apply find_key_app_none_r. exact Hb_none. }
    unfold get_spec at 2. rewrite Hfind. fold (get_spec a key).
    destruct (Nat.eqb fi (m - 1)) eqn:Elast.
    - subst en. rewrite block_all.
      + unfold get_spec. rewrite Hab, (find_key_app_none_r _ _ _ Hb_none). reflexivity.
      + pose proof (ser_entries_split es (sp * fi)) as Hsplit.
        assert (Hbl : blen (ser_entries es) = eoff es (sp * fi) + blen (ser_entries (skipn (sp * fi) es))).
        { rewrite Hsplit at 1. rewrite blen_app. reflexivity. }
        unfold max_int64. lia.
    - apply Nat.eqb_neq in Elast.
      assert (Hfi2 : (sp * S fi < length es)%nat) by (apply m_bound; lia).
      assert (Hen : en = eoff es (sp * fi) + blen (ser_entries a)).
      { subst en. rewrite (index_of_nth tp es (S fi) Hsp Hsz Hfi2).
        rewrite Nat.mul_succ_r. apply eoff_add. }
      rewrite Hen, Hab, block_app_exact. reflexivity.
  Qed.
End Get.

Lemma body_of_write_table tp es : body_of (write_table tp es) = ser_entries es.
Proof. unfold body_of, write_table, ser_table. cbn [t_esize t_file]. apply firstn_blen. Qed.

Lemma table_get_empty tp key : table_get (write_table tp []) key = get_spec [] key.
Proof.
  unfold table_get, table_get_gen, table_meta. cbn [write_table t_meta].
  destruct (bf_might_have (bloom_of tp []) key); reflexivity.
Qed.

(* the search path alone (no Bloom filter involved): it never panics or errs and finds exactly the entry *)
Theorem get_via_index_is_find : forall tp es key,
  (0 < tp_spacing tp)%nat -> run_ok es -> es <> [] ->
  let body := ser_entries es in
  match search_index true (index_of tp es) body key with
  | SPanic => GPanic
  | SErr => GErr
  | SRange st en =>
      if st <=? blen body then scan_get (S (length body)) (skipn (N.to_nat st) body) st en key else GPanic
  end = get_spec es key.
Proof.
  intros tp es key Hsp (Hok & Hs & Hsz) Hne body. subst body.
  destruct (search_index_spec tp es key Hsp Hok Hs Hsz Hne) as (fi & Hsi & Hfi & Hb & Ha).
  rewrite Hsi. apply scan_after_search; assumption.
Qed.

(* for every writer spacing > 0 and every Bloom filter without false negatives on the written keys *)
Theorem table_get_is_find_gen : forall tp es key,
  (0 < tp_spacing tp)%nat -> run_ok es ->
  (forall e, In e es -> bf_might_have (bloom_of tp es) (e_key e) = true) ->
  table_get (write_table tp es) key = get_spec es key.
Proof.
  intros tp es key Hsp Hrun Hbloom.
  destruct es as [|e0 es0] eqn:Ees; [apply table_get_empty|]. rewrite <- Ees in *.
  assert (Hne : es <> []) by (rewrite Ees; discriminate). clear Ees e0 es0.
  unfold table_get, table_get_gen, table_meta. rewrite body_of_write_table. cbn [write_table t_meta].
  destruct (bf_might_have (bloom_of tp es) key) eqn:Ebf.
  - apply get_via_index_is_find; assumption.
  - unfold get_spec. rewrite find_key_none; [reflexivity|].
    intros e Hin Heq. rewrite <- Heq, (Hbloom e Hin) in Ebf. discriminate.
Qed.

(* in particular Get never panics and never returns an error on a well-formed run *)
Corollary table_get_total : forall tp es key,
  (0 < tp_spacing tp)%nat -> run_ok es ->
  (forall e, In e es -> bf_might_have (bloom_of tp es) (e_key e) = true) ->
  table_get (write_table tp es) key <> GPanic /\ table_get (write_table tp es) key <> GErr.
Proof.
  intros tp es key Hsp Hrun Hbloom. rewrite (table_get_is_find_gen tp es key Hsp Hrun Hbloom).
  unfold get_spec. destruct (find_key key es); split; discriminate.
Qed.
