(* Whole-history statements: the per-operation lemmas folded over arbitrary operation sequences. *)
From Coq Require Import Sorted Permutation.
From RV Require Import Base.Bytes Model.Heap Model.PPQ Model.ZipTree Model.DsSet Model.SortedMap.
From RV Require Import Proofs.C19_Heap Proofs.C19_PPQ Proofs.C19_ZipTree Proofs.C19_DsSet Proofs.C19_SortedMap.
Open Scope nat_scope.

(* ---- heap ---- *)
Section HeapHist.
  Context {A : Type} (lt : A -> A -> bool).
  Inductive hop := HoPush (x : A) | HoPop | HoFix (i : nat) (v : A).
  (* HoFix i v: the element at position i is changed to v (arbitrarily), then Fix(i) is called *)
  Definition hstep (h : list A) (o : hop) : list A :=
    match o with
    | HoPush x => push lt x h
    | HoPop => snd (pop lt h)
    | HoFix i v => if i <? length h then fix_ lt (upd i v h) i else h
    end.

  Lemma hstep_ok (Hswo : swo lt) h o : heap_ok lt h -> heap_ok lt (hstep h o).
  Proof.
    intros Hok. destruct o as [x| |i v]; cbn [hstep].
    - apply push_ok; assumption.
    - destruct (pop lt h) as [o l'] eqn:E. cbn [snd]. eapply pop_ok; eassumption.
    - destruct (i <? length h) eqn:Ei; [|exact Hok]. apply Nat.ltb_lt in Ei.
      apply fix_restores; [exact Hswo|rewrite upd_length; exact Ei|apply upd_heap_ok_except; assumption].
  Qed.

  Theorem heap_history_ok (Hswo : swo lt) : forall ops, heap_ok lt (fold_left hstep ops []).
  Proof.
    intros ops. assert (H : forall h, heap_ok lt h -> heap_ok lt (fold_left hstep ops h)).
    { induction ops as [|o ops IH]; intros h Hh; [exact Hh|]. cbn [fold_left]. apply IH. apply hstep_ok; assumption. }
    apply H. apply heap_ok_nil.
  Qed.

  (* Pop after any history returns an element that no remaining element is smaller than, and removes exactly it *)
  Theorem heap_history_pop_min (Hswo : swo lt) : forall ops x h',
    pop lt (fold_left hstep ops []) = (Some x, h') ->
    (forall y, In y (fold_left hstep ops []) -> lt y x = false) /\ Permutation (fold_left hstep ops []) (x :: h').
  Proof.
    intros ops x h' Hp. split.
    - eapply (pop_min lt Hswo); [apply heap_history_ok; exact Hswo|exact Hp].
    - apply (pop_perm lt). exact Hp.
  Qed.
End HeapHist.

(* ---- partitioned priority queue ---- *)
Inductive qop := QoPush (x : N) (p : nat) | QoPop | QoDelete (x : N) (p : nat).
Definition qstep (q : ppq) (o : qop) : ppq :=
  match o with
  | QoPush x p => if p <? length (parts q) then ppq_push x p q else q      (* out of range: Go panics *)
  | QoPop => snd (ppq_pop q)
  | QoDelete x p => if p <? length (parts q) then ppq_delete x p q else q
  end.

Lemma qstep_inv q o : ppq_inv q -> ppq_inv (qstep q o).
Proof.
  intros Hq. destruct o as [x p| |x p]; cbn [qstep].
  - destruct (p <? length (parts q)) eqn:E; [|exact Hq]. apply Nat.ltb_lt in E. apply ppq_push_inv; assumption.
  - destruct (ppq_pop q) as [o q'] eqn:E. cbn [snd]. eapply ppq_pop_inv; eassumption.
  - destruct (p <? length (parts q)) eqn:E; [|exact Hq]. apply Nat.ltb_lt in E. apply ppq_delete_inv; assumption.
Qed.

Theorem ppq_history_inv : forall ps ops, Forall sortedN ps -> ppq_inv (fold_left qstep ops (ppq_new ps)).
Proof.
  intros ps ops Hps. assert (H : forall q, ppq_inv q -> ppq_inv (fold_left qstep ops q)).
  { induction ops as [|o ops IH]; intros q Hq; [exact Hq|]. cbn [fold_left]. apply IH. apply qstep_inv. exact Hq. }
  apply H. apply ppq_new_inv. exact Hps.
Qed.

Theorem ppq_history_pop_global_min : forall ps ops x p q', Forall sortedN ps ->
  let q := fold_left qstep ops (ppq_new ps) in
  ppq_pop q = (Some (x, p), q') ->
  In x (ppq_contents q) /\ (forall y, In y (ppq_contents q) -> (x <= y)%N) /\ Permutation (ppq_contents q) (x :: ppq_contents q').
Proof.
  intros ps ops x p q' Hps q Hpop.
  destruct (ppq_pop_global_min q x p q' (ppq_history_inv ps ops Hps) Hpop) as [H1 [H2 [H3 _]]]. auto.
Qed.

Theorem ppq_history_pop_none : forall ps ops q', Forall sortedN ps ->
  let q := fold_left qstep ops (ppq_new ps) in
  ppq_pop q = (None, q') -> ppq_contents q = [].
Proof.
  intros ps ops q' Hps q Hpop. exact (proj1 (ppq_pop_none q q' (ppq_history_inv ps ops Hps) Hpop)).
Qed.

(* ---- zip tree: any sequence of Puts with any ranks ---- *)
Open Scope N_scope.
Definition zput (t : tree) (kvr : bytes * bytes * N) : tree := fst (put (fst (fst kvr)) (snd (fst kvr)) (snd kvr) t).
Definition rput (m : list (bytes * bytes)) (kvr : bytes * bytes * N) := al_put (fst (fst kvr)) (snd (fst kvr)) m.

Theorem zip_history : forall puts,
  let t := fold_left zput puts Leaf in
  bst t /\ inorder t = fold_left rput puts [].
Proof.
  intros puts. assert (H : forall t m, bst t -> inorder t = m ->
    bst (fold_left zput puts t) /\ inorder (fold_left zput puts t) = fold_left rput puts m).
  { induction puts as [|[[k v] r] puts IH]; intros t m Hb Hm; [split; assumption|].
    cbn [fold_left]. apply IH.
    - unfold zput. cbn [fst snd]. apply put_bst. exact Hb.
    - unfold zput, rput. cbn [fst snd]. rewrite inorder_put by exact Hb. rewrite Hm. reflexivity. }
  apply H; [exact I|reflexivity].
Qed.

(* Get and AscendPrefix after any history agree with the sorted association list reference; ranks do not matter *)
Theorem zip_history_get : forall puts k,
  get k (fold_left zput puts Leaf) = al_get k (fold_left rput puts []).
Proof. intros puts k. destruct (zip_history puts) as [Hb Hi]. rewrite get_inorder by exact Hb. rewrite Hi. reflexivity. Qed.

Theorem zip_history_ascend_prefix : forall puts p,
  ascend_prefix p (fold_left zput puts Leaf) = filter (fun kv => is_prefix p (fst kv)) (fold_left rput puts []).
Proof. intros puts p. destruct (zip_history puts) as [Hb Hi]. rewrite ascend_prefix_spec by exact Hb. rewrite Hi. reflexivity. Qed.

Theorem zip_history_put_replaced : forall puts k v rank,
  snd (put k v rank (fold_left zput puts Leaf)) = al_get k (fold_left rput puts []).
Proof. intros puts k v rank. destruct (zip_history puts) as [Hb Hi]. rewrite put_replaced by exact Hb. rewrite Hi. reflexivity. Qed.

Theorem zip_history_sorted : forall puts,
  StronglySorted (fun a b => bcmp (fst a) (fst b) = Lt) (fold_left rput puts []).
Proof. intros puts. destruct (zip_history puts) as [Hb Hi]. rewrite <- Hi. apply inorder_sorted. exact Hb. Qed.

(* ---- insertion-ordered set: any sequence of Add / Without (Added = Add on a clone) ---- *)
Inductive sop := SoAdd (vs : list bytes) | SoWithout (vs : list bytes).
Definition sstep (s : set) (o : sop) : set := match o with SoAdd vs => set_add vs s | SoWithout vs => set_without vs s end.
Definition sref_step (r : list bytes) (o : sop) : list bytes := match o with SoAdd vs => ref_add r vs | SoWithout vs => ref_without r vs end.

Theorem set_history : forall ops,
  let s := fold_left sstep ops set_empty in
  let r := fold_left sref_step ops [] in
  set_slice s = r /\ NoDup r /\ (forall v, set_has v s = true <-> In v r) /\ set_size s = length r.
Proof.
  intros ops. assert (H : forall s r, set_inv s -> set_slice s = r ->
     set_inv (fold_left sstep ops s) /\ set_slice (fold_left sstep ops s) = fold_left sref_step ops r).
  { induction ops as [|o ops IH]; intros s r Hi Hr; [split; assumption|]. cbn [fold_left]. destruct o as [vs|vs]; cbn [sstep sref_step].
    - destruct (set_add_spec vs s Hi) as [H1 H2]. apply IH; [exact H1|rewrite H2, Hr; reflexivity].
    - destruct (set_without_spec vs s Hi) as [H1 H2]. apply IH; [exact H1|rewrite H2, Hr; reflexivity]. }
  destruct (H set_empty [] set_empty_inv eq_refl) as [Hi Hs]. cbv zeta. rewrite <- Hs.
  split; [reflexivity|]. split; [exact (proj1 Hi)|]. split; [intros v; apply set_has_spec; exact Hi|apply set_size_spec].
Qed.

(* ---- sorted map: any sequence of Set / Delete / ordered reads (which sort the key slice in place) ---- *)
Inductive mop := MoSet (k : bytes) (v : N) | MoDelete (k : bytes) | MoRead.
Definition mstep (s : smap) (o : mop) : smap :=
  match o with MoSet k v => fst (smap_set k v s) | MoDelete k => fst (smap_delete k s) | MoRead => fst (smap_all s) end.
Definition mref_step (r : list (bytes * N)) (o : mop) : list (bytes * N) :=
  match o with MoSet k v => rm_put k v r | MoDelete k => rm_del k r | MoRead => r end.

Lemma smap_history_inv : forall ops s, smap_inv s ->
  smap_inv (fold_left mstep ops s) /\ smap_ref (fold_left mstep ops s) = fold_left mref_step ops (smap_ref s).
Proof.
  induction ops as [|o ops IH]; intros s Hi; [split; [exact Hi|reflexivity]|]. cbn [fold_left].
  destruct o as [k v|k|]; cbn [mstep mref_step].
  - pose proof (smap_set_spec k v s Hi) as H. destruct (smap_set k v s) as [s' nw]. destruct H as [H1 [H2 _]]. cbn [fst].
    rewrite <- H2. apply IH. exact H1.
  - pose proof (smap_delete_spec k s Hi) as H. destruct (smap_delete k s) as [s' rm]. destruct H as [H1 [H2 _]]. cbn [fst].
    rewrite <- H2. apply IH. exact H1.
  - pose proof (smap_all_spec s Hi) as H. destruct (smap_all s) as [s' kvs]. destruct H as [H1 [H2 _]]. cbn [fst].
    rewrite <- H2. apply IH. exact H1.
Qed.

Theorem smap_history : forall ops,
  let s := fold_left mstep ops smap_empty in
  let r := fold_left mref_step ops [] in
  snd (smap_all s) = r /\ snd (smap_keys s) = map fst r /\ snd (smap_values s) = map snd r /\
  (forall k, smap_get k s = rm_get k r) /\ smap_size s = length r /\
  StronglySorted (fun a b => bcmp (fst a) (fst b) = Lt) r /\
  (forall k v, snd (smap_set k v s) = match rm_get k r with None => true | Some _ => false end) /\
  (forall k, snd (smap_delete k s) = match rm_get k r with None => false | Some _ => true end).
Proof.
  intros ops. destruct (smap_history_inv ops smap_empty smap_empty_inv) as [Hi Hr]. rewrite smap_empty_ref in Hr.
  cbv zeta. rewrite <- Hr. set (s := fold_left mstep ops smap_empty) in *.
  split; [|split; [|split; [|split; [|split; [|split; [|split]]]]]].
  - pose proof (smap_all_spec s Hi) as H. destruct (smap_all s) as [s' kvs]. destruct H as [_ [_ H]]. exact H.
  - pose proof (smap_keys_spec s Hi) as H. destruct (smap_keys s) as [s' ks]. destruct H as [_ [_ H]]. exact H.
  - pose proof (smap_values_spec s Hi) as H. destruct (smap_values s) as [s' vs]. destruct H as [_ [_ H]]. exact H.
  - intros k. apply smap_get_spec. exact Hi.
  - apply smap_size_spec. exact Hi.
  - apply smap_ref_sorted. exact Hi.
  - intros k v. pose proof (smap_set_spec k v s Hi) as H. destruct (smap_set k v s) as [s' nw]. destruct H as [_ [_ H]]. exact H.
  - intros k. pose proof (smap_delete_spec k s Hi) as H. destruct (smap_delete k s) as [s' rm]. destruct H as [_ [_ H]]. exact H.
Qed.

(* ---- persistent use of Set: a pool of set values; derived sets are new values, the bases stay in use ---- *)
Inductive pop_ :=
| PoNew | PoOf (vs : list bytes) | PoAddInPlace (i : nat) (vs : list bytes)
| PoAdded (i : nat) (vs : list bytes) | PoWithout (i : nat) (vs : list bytes) | PoDiff (i j : nat).
Definition pget (i : nat) (pool : list set) : set := nth i pool set_empty.
Definition rget (i : nat) (pool : list (list bytes)) : list bytes := nth i pool [].
Definition pstep (pool : list set) (o : pop_) : list set :=
  match o with
  | PoNew => pool ++ [set_empty]
  | PoOf vs => pool ++ [set_add vs set_empty]
  | PoAddInPlace i vs => upd i (set_add vs (pget i pool)) pool          (* the only op that changes an existing value *)
  | PoAdded i vs => pool ++ [set_add vs (pget i pool)]
  | PoWithout i vs => pool ++ [set_without vs (pget i pool)]
  | PoDiff i j => pool ++ [set_diff (pget i pool) (pget j pool)]
  end.
Definition prstep (pool : list (list bytes)) (o : pop_) : list (list bytes) :=
  match o with
  | PoNew => pool ++ [[]]
  | PoOf vs => pool ++ [ref_add [] vs]
  | PoAddInPlace i vs => upd i (ref_add (rget i pool) vs) pool
  | PoAdded i vs => pool ++ [ref_add (rget i pool) vs]
  | PoWithout i vs => pool ++ [ref_without (rget i pool) vs]
  | PoDiff i j => pool ++ [filter (fun e => negb (mem e (rget j pool))) (rget i pool)]
  end.

Lemma pget_inv pool i : Forall set_inv pool -> set_inv (pget i pool).
Proof.
  intros H. unfold pget. destruct (nth_in_or_default i pool set_empty) as [Hin|Hd].
  - rewrite Forall_forall in H. apply H. exact Hin.
  - rewrite Hd. apply set_empty_inv.
Qed.

Lemma pget_slice pool i : set_slice (pget i pool) = rget i (map set_slice pool).
Proof. unfold pget, rget. change (@nil bytes) with (set_slice set_empty). apply eq_sym, map_nth. Qed.

Lemma map_upd {A B} (f : A -> B) i v (l : list A) : map f (upd i v l) = upd i (f v) (map f l).
Proof. revert i; induction l as [|x l IH]; intros [|i]; cbn; try reflexivity. rewrite IH. reflexivity. Qed.

Lemma Forall_upd {A} (P : A -> Prop) i v (l : list A) : Forall P l -> P v -> Forall P (upd i v l).
Proof.
  intros Hl Hv. revert i; induction Hl as [|x l Hx Hl IH]; intros [|i]; cbn; try constructor; auto.
Qed.

Lemma pstep_inv pool o : Forall set_inv pool ->
  Forall set_inv (pstep pool o) /\ map set_slice (pstep pool o) = prstep (map set_slice pool) o.
Proof.
  intros H. destruct o as [|vs|i vs|i vs|i vs|i j]; cbn [pstep prstep].
  - split; [apply Forall_app; split; [exact H|constructor; [apply set_empty_inv|constructor]]|rewrite map_app; reflexivity].
  - destruct (set_add_spec vs set_empty set_empty_inv) as [H1 H2].
    split; [apply Forall_app; split; [exact H|constructor; [exact H1|constructor]]|rewrite map_app; cbn [map]; rewrite H2; reflexivity].
  - destruct (set_add_spec vs (pget i pool) (pget_inv pool i H)) as [H1 H2].
    split; [apply Forall_upd; assumption|rewrite map_upd, H2, pget_slice; reflexivity].
  - destruct (set_add_spec vs (pget i pool) (pget_inv pool i H)) as [H1 H2].
    split; [apply Forall_app; split; [exact H|constructor; [exact H1|constructor]]|rewrite map_app; cbn [map]; rewrite H2, pget_slice; reflexivity].
  - destruct (set_without_spec vs (pget i pool) (pget_inv pool i H)) as [H1 H2].
    split; [apply Forall_app; split; [exact H|constructor; [exact H1|constructor]]|rewrite map_app; cbn [map]; rewrite H2, pget_slice; reflexivity].
  - destruct (set_diff_spec (pget i pool) (pget j pool) (pget_inv pool i H) (pget_inv pool j H)) as [H1 H2].
    split; [apply Forall_app; split; [exact H|constructor; [exact H1|constructor]]|rewrite map_app; cbn [map]; rewrite H2, !pget_slice; reflexivity].
Qed.

(* every member of the pool, at every moment, lists exactly its own reference (first-insertion order, no duplicates), and
   Has is membership in it -- whatever was derived from it or from its siblings in the meantime *)
Theorem set_pool_history : forall ops,
  let pool := fold_left pstep ops [] in
  let rpool := fold_left prstep ops [] in
  map set_slice pool = rpool /\
  forall i s, nth_error pool i = Some s ->
    NoDup (set_slice s) /\ (forall v, set_has v s = true <-> In v (set_slice s)) /\ set_size s = length (set_slice s).
Proof.
  intros ops. assert (H : forall pool, Forall set_inv pool ->
     Forall set_inv (fold_left pstep ops pool) /\ map set_slice (fold_left pstep ops pool) = fold_left prstep ops (map set_slice pool)).
  { induction ops as [|o ops IH]; intros pool Hp; [split; [exact Hp|reflexivity]|]. cbn [fold_left].
    destruct (pstep_inv pool o Hp) as [H1 H2]. rewrite <- H2. apply IH. exact H1. }
  destruct (H [] (Forall_nil _)) as [Hinv Hsl]. cbv zeta. split; [exact Hsl|].
  intros i s Hn. rewrite Forall_forall in Hinv. pose proof (Hinv s (nth_error_In _ _ Hn)) as Hs.
  split; [exact (proj1 Hs)|]. split; [intros v; apply set_has_spec; exact Hs|apply set_size_spec].
Qed.

(* deriving a set (Added / Without / Diff / NewSet / SetOf) leaves every existing set value exactly as it was *)
Theorem set_values_immutable_gen : forall pool o i s,
  (forall k vs, o <> PoAddInPlace k vs) -> nth_error pool i = Some s -> nth_error (pstep pool o) i = Some s.
Proof.
  intros pool o i s Hno Hn. destruct o as [|vs|k vs|k vs|k vs|k j]; cbn [pstep];
    try (rewrite nth_error_app1; [exact Hn|apply nth_error_Some; congruence]).
  exfalso. exact (Hno k vs eq_refl).
Qed.

(* AscendPrefix carries no state between ranges: the model iterator is a function of the tree alone, so any number of passes
   (each possibly stopped after n items) over the tree reached by any history list prefixes of the same filtered sorted listing *)
Theorem zip_history_passes : forall puts p (ns : list nat),
  map (fun n => firstn n (ascend_prefix p (fold_left zput puts Leaf))) ns =
  map (fun n => firstn n (filter (fun kv => is_prefix p (fst kv)) (fold_left rput puts []))) ns.
Proof. intros puts p ns. rewrite zip_history_ascend_prefix. reflexivity. Qed.
