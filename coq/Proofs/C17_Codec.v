(* Field codecs (fields.go) and the entry layout of tables: every reader inverts its writer on ALL byte strings. *)
From RV Require Import Model.SstTable.
From Coq Require Import ZifyN ZifyNat ZifyBool.
Open Scope N_scope.

Lemma blen_app a b : blen (a ++ b) = blen a + blen b.
Proof. unfold blen. rewrite app_length. lia. Qed.

Lemma u32_lt x : u32 x < 4294967296.
Proof. unfold u32. pose proof (wrap_lt 32 x) as H. change (2 ^ 32) with 4294967296 in H. exact H. Qed.
Lemma u64_lt x : u64 x < 18446744073709551616.
Proof. unfold u64. pose proof (wrap_lt 64 x) as H. change (2 ^ 64) with 18446744073709551616 in H. exact H. Qed.
Lemma u32_small x : x < 4294967296 -> u32 x = x.
Proof. intros H. unfold u32. apply wrap_small. exact H. Qed.
Lemma u64_small x : x < 18446744073709551616 -> u64 x = x.
Proof. intros H. unfold u64. apply wrap_small. exact H. Qed.

Lemma le32_bytes x : le32 x = [x mod 256; N.shiftr x 8 mod 256; N.shiftr x 16 mod 256; N.shiftr x 24 mod 256].
Proof. reflexivity. Qed.
Lemma le64_bytes x : le64 x =
  [x mod 256; N.shiftr x 8 mod 256; N.shiftr x 16 mod 256; N.shiftr x 24 mod 256;
   N.shiftr x 32 mod 256; N.shiftr x 40 mod 256; N.shiftr x 48 mod 256; N.shiftr x 56 mod 256].
Proof. reflexivity. Qed.

Local Ltac shifts :=
  rewrite ?N.shiftr_div_pow2;
  change (2 ^ 8) with 256; change (2 ^ 16) with 65536; change (2 ^ 24) with 16777216;
  change (2 ^ 32) with 4294967296; change (2 ^ 40) with 1099511627776;
  change (2 ^ 48) with 281474976710656; change (2 ^ 56) with 72057594037927936.

(* x = low byte + 256 * rest, peeled one byte at a time (keeps the proof terms small) *)
Lemma peel x : x = x mod 256 + 256 * (x / 256).
Proof. rewrite N.add_comm. apply N.div_mod. discriminate. Qed.
Lemma shr8 x k : N.shiftr x (k + 8) = N.shiftr x k / 256.
Proof. rewrite <- N.shiftr_shiftr. rewrite (N.shiftr_div_pow2 _ 8). reflexivity. Qed.

Lemma rd_u32_w x r : x < 4294967296 -> rd_u32 (le32 x ++ r) = Some (x, r).
Proof.
  intros H. rewrite le32_bytes. cbn [app rd_u32]. f_equal. f_equal.
  change 24 with (16 + 8). rewrite shr8. change 16 with (8 + 8). rewrite shr8.
  replace (N.shiftr x 8) with (x / 256) by (rewrite N.shiftr_div_pow2; reflexivity).
  set (y1 := x / 256). set (y2 := y1 / 256). set (y3 := y2 / 256).
  assert (H3 : y3 mod 256 = y3).
  { apply N.mod_small. unfold y3, y2, y1. rewrite !N.div_div by discriminate.
    apply N.div_lt_upper_bound; [discriminate|]. exact H. }
  rewrite H3. unfold y3. rewrite <- (peel y2). unfold y2. rewrite <- (peel y1). unfold y1. rewrite <- (peel x). reflexivity.
Qed.

Lemma rd_u64_w x r : x < 18446744073709551616 -> rd_u64 (le64 x ++ r) = Some (x, r).
Proof.
  intros H. rewrite le64_bytes. cbn [app rd_u64]. f_equal. f_equal.
  change 56 with (48 + 8). rewrite shr8. change 48 with (40 + 8). rewrite shr8.
  change 40 with (32 + 8). rewrite shr8. change 32 with (24 + 8). rewrite shr8.
  change 24 with (16 + 8). rewrite shr8. change 16 with (8 + 8). rewrite shr8.
  replace (N.shiftr x 8) with (x / 256) by (rewrite N.shiftr_div_pow2; reflexivity).
  set (y1 := x / 256). set (y2 := y1 / 256). set (y3 := y2 / 256). set (y4 := y3 / 256).
  set (y5 := y4 / 256). set (y6 := y5 / 256). set (y7 := y6 / 256).
  assert (H7 : y7 mod 256 = y7).
  { apply N.mod_small. unfold y7, y6, y5, y4, y3, y2, y1. rewrite !N.div_div by discriminate.
    apply N.div_lt_upper_bound; [discriminate|]. exact H. }
  rewrite H7. unfold y7. rewrite <- (peel y6). unfold y6. rewrite <- (peel y5). unfold y5. rewrite <- (peel y4).
  unfold y4. rewrite <- (peel y3). unfold y3. rewrite <- (peel y2). unfold y2. rewrite <- (peel y1).
  unfold y1. rewrite <- (peel x). reflexivity.
Qed.

Lemma rd_u32_wu32 x r : rd_u32 (w_u32 x ++ r) = Some (u32 x, r).
Proof. unfold w_u32. apply rd_u32_w, u32_lt. Qed.
Lemma rd_u64_wu64 x r : rd_u64 (w_u64 x ++ r) = Some (u64 x, r).
Proof. unfold w_u64. apply rd_u64_w, u64_lt. Qed.

Lemma w_u32_len x : length (w_u32 x) = 4%nat. Proof. reflexivity. Qed.
Lemma w_u64_len x : length (w_u64 x) = 8%nat. Proof. reflexivity. Qed.

Lemma firstn_blen (b r : bytes) : firstn (N.to_nat (blen b)) (b ++ r) = b.
Proof. unfold blen. rewrite Nat2N.id, firstn_app, Nat.sub_diag, firstn_all. cbn [firstn]. apply app_nil_r. Qed.
Lemma skipn_blen (b r : bytes) : skipn (N.to_nat (blen b)) (b ++ r) = r.
Proof. unfold blen. rewrite Nat2N.id, skipn_app, Nat.sub_diag, skipn_all. reflexivity. Qed.

(* ReadVarBytes inverts writeVarBytes for every byte string shorter than 2^32 *)
Lemma rd_var_w b r : blen b < 4294967296 -> rd_var (w_var b ++ r) = Some (b, r).
Proof.
  intros H. unfold rd_var, w_var. rewrite <- app_assoc, rd_u32_wu32, (u32_small _ H).
  rewrite blen_app. replace (blen b <=? blen b + blen r) with true by lia.
  rewrite firstn_blen, skipn_blen. reflexivity.
Qed.

Lemma rd_tomb_w d r : rd_tomb (w_tomb d ++ r) = Some (d, r).
Proof. destruct d; reflexivity. Qed.

(* well-formedness of an entry for the on-disk format: the lengths fit the 32-bit length fields, the sequence
   number fits 64 bits. No condition on the bytes themselves. *)
Definition entry_ok (e : entry) : Prop :=
  blen (e_key e) < 4294967296 /\ blen (e_val e) < 4294967296 /\ e_seq e < 18446744073709551616.

Lemma rd_entry_ser e r : entry_ok e -> rd_entry (ser_entry e ++ r) = Some (norm e, r).
Proof.
  intros (Hk & Hv & Hs). unfold rd_entry, ser_entry, norm. rewrite <- !app_assoc.
  rewrite (rd_var_w _ _ Hk), rd_u64_wu64, (u64_small _ Hs), rd_tomb_w.
  destruct e as [k v s d]; cbn [e_key e_val e_seq e_del] in *. destruct d.
  - reflexivity.
  - rewrite (rd_var_w _ _ Hv). reflexivity.
Qed.

Lemma ser_entry_nonempty e : ser_entry e <> [].
Proof. unfold ser_entry, w_var, w_u32. rewrite le32_bytes. discriminate. Qed.

Lemma ser_entry_len e : (13 <= length (ser_entry e))%nat.
Proof.
  unfold ser_entry, w_var. rewrite !app_length, w_u32_len, w_u64_len. destruct (e_del e); cbn [length w_tomb]; lia.
Qed.

Lemma ser_entries_cons e es : ser_entries (e :: es) = ser_entry e ++ ser_entries es.
Proof. reflexivity. Qed.
Lemma ser_entries_app a b : ser_entries (a ++ b) = ser_entries a ++ ser_entries b.
Proof. unfold ser_entries. apply flat_map_app. Qed.

Lemma parse_entries_ser : forall es fuel,
  Forall entry_ok es -> (length es <= fuel)%nat ->
  parse_entries fuel (ser_entries es) = Some (map norm es).
Proof.
  induction es as [|e es IH]; intros fuel Hok Hf.
  - destruct fuel; reflexivity.
  - rewrite ser_entries_cons. inversion Hok as [|? ? He Hes]; subst.
    destruct fuel as [|f]; [cbn in Hf; lia|].
    cbn [parse_entries]. destruct (ser_entry e ++ ser_entries es) eqn:E.
    + exfalso. apply app_eq_nil in E. destruct E as [E _]. exact (ser_entry_nonempty e E).
    + rewrite <- E, (rd_entry_ser _ _ He), (IH f Hes) by (cbn in Hf; lia). reflexivity.
Qed.

Lemma ser_entries_len es : (length es <= length (ser_entries es))%nat.
Proof.
  induction es as [|e es IH]; [cbn; lia|]. rewrite ser_entries_cons, app_length. pose proof (ser_entry_len e). cbn [length]. lia.
Qed.

(* parse (serialize es) = es, up to the value of a tombstone which the format does not store *)
Theorem parse_serialize es : Forall entry_ok es -> parse_body (ser_entries es) = Some (map norm es).
Proof. intros H. unfold parse_body. apply parse_entries_ser; [exact H|apply ser_entries_len]. Qed.

Lemma norm_id e : (e_del e = true -> e_val e = []) -> norm e = e.
Proof. destruct e as [k v s d]; unfold norm; cbn. destruct d; [intros H; rewrite H; reflexivity|reflexivity]. Qed.

Corollary parse_serialize_exact es :
  Forall entry_ok es -> Forall (fun e => e_del e = true -> e_val e = []) es ->
  parse_body (ser_entries es) = Some es.
Proof.
  intros H Hc. rewrite (parse_serialize es H). f_equal.
  induction Hc as [|e es He _ IH]; [reflexivity|]. cbn [map]. rewrite (norm_id e He).
  inversion H; subst. rewrite IH; auto.
Qed.
