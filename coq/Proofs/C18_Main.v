(* C18: a compaction step on a valid layout, with level-0 tables arriving between Compact and the apply, changes no
   Get / ScanPrefix result and keeps the layout valid. *)
From Coq Require Import List NArith Bool Lia.
From RV Require Import Base.Bytes Model.LsmBase Model.LsmCompaction
  Proofs.C07_Sorted Proofs.C18_Layout Proofs.C18_Apply Proofs.C18_Compact.
Import ListNotations.
Open Scope N_scope.

(* valid layout: the invariant of C18_Layout, at least two levels, no empty table *)
Definition valid (ll : levels) : Prop :=
  LLInv ll /\ (2 <= length ll)%nat /\ (forall l t, In l ll -> In t l -> t <> []).

Definition good_cfg (cfg : ccfg) : Prop := 1 <= c_target cfg /\ 1 <= c_trigger cfg.

Lemma add_l0_vlay extra ll : ll <> [] -> add_l0 extra ll = vlay ll extra.
Proof. destruct ll; [congruence|reflexivity]. Qed.

Lemma valid_sub ll extra : valid (add_l0 extra ll) -> forall t, In t (hd [] ll) -> t <> [].
Proof.
  intros (_ & _ & H) t Ht. destruct ll as [|l0 ll]; [destruct Ht|]. cbn in *. apply (H (l0 ++ extra)); [left; reflexivity|apply in_or_app; left; exact Ht].
Qed.

(* reads of a valid layout are the newest versions *)
Theorem ll_get_newest ll k :
  valid ll ->
  match ll_get k ll with
  | Some m => ents ll m /\ ekey m = k /\ forall e, ents ll e -> ekey e = k -> eseq e <= eseq m
  | None => forall e, ents ll e -> ekey e <> k
  end.
Proof.
  intros (Hv & _ & _). rewrite ll_get_ok by exact Hv. destruct (tbl_get k (view ll)) as [m|] eqn:E.
  - exact (Mx_get_spec _ _ _ _ (ents_view ll) E).
  - intros e He Hk. destruct (ents_view ll) as (_ & _ & H3). destruct (H3 e He) as (x & Hx & _). rewrite Hk in Hx. congruence.
Qed.

Theorem ll_scan_newest ll p : valid ll -> ll_scan p ll = without_deletes (tbl_scan p (view ll)).
Proof. intros (Hv & _ & _). unfold ll_scan. rewrite ll_scan_ok by exact Hv. reflexivity. Qed.

Section Step.
  Variables (tsize : table -> N) (cfg : ccfg) (mcl : nat) (ll : levels) (extra : list table) (cs : changeset) (mcl' : nat).
  Hypothesis Hcfg : good_cfg cfg.
  Hypothesis Hval : valid (add_l0 extra ll).
  Hypothesis Hlen : (2 <= length ll)%nat.
  Hypothesis Hc : compact tsize cfg mcl ll = (Some cs, mcl').

  Let ll1 := add_l0 extra ll.
  Let ll2 := apply_cs cs ll1.

  Lemma step_ne : ll <> [].
  Proof. destruct ll; [cbn in Hlen; lia|discriminate]. Qed.

  Lemma step_good : good_cs ll1 cs.
  Proof.
    unfold ll1. rewrite add_l0_vlay by exact step_ne. destruct Hcfg as [H1 H2]. destruct Hval as (Hv & _ & _).
    rewrite add_l0_vlay in Hv by exact step_ne.
    eapply compact_good; eauto. eapply valid_sub; eauto.
  Qed.

  Theorem step_valid : valid ll2.
  Proof.
    pose proof step_good as Hg. destruct Hval as (Hv & Hl & Hne). split; [apply apply_LLInv; assumption|]. split.
    - unfold ll2. rewrite length_apply. exact Hl.
    - intros l t Hl' Ht. apply In_nth_error in Hl' as (i & Hi). unfold ll2 in Hi. rewrite nth_error_apply in Hi.
      destruct (nth_error ll1 i) as [l1|] eqn:E; [|discriminate]. cbn in Hi. injection Hi as <-.
      apply in_newlvl in Ht. destruct Ht as [[Ht _]|[_ Ht]].
      + apply (Hne l1); [eapply nth_error_In; exact E|exact Ht].
      + apply (g_add _ _ Hg). exact Ht.
  Qed.

  Theorem step_view : view ll2 = view ll1.
  Proof. apply apply_view; [apply Hval|apply step_good]. Qed.

  Theorem step_get k : ll_get k ll2 = ll_get k ll1.
  Proof. rewrite !ll_get_ok; [rewrite step_view; reflexivity|apply Hval|apply step_valid]. Qed.

  Theorem step_scan p : ll_scan p ll2 = ll_scan p ll1.
  Proof. rewrite !ll_scan_newest; [rewrite step_view; reflexivity|exact Hval|apply step_valid]. Qed.

  (* nothing is invented: every entry afterwards was there before *)
  Theorem step_no_new e : ents ll2 e -> ents ll1 e.
  Proof. intros H. pose proof step_good as Hg. destruct Hval as (Hv & _). unfold ll2 in H. eauto using ents_apply_sub. Qed.
End Step.
