(* WriteRun, continued: no empty table is written (repaired code; the old code writes one), the chunk sizes obey the
   target / 1.5 x target rule, and for a strictly key-sorted input the chunks are sorted with ascending, disjoint
   key ranges. *)
From RV Require Import Model.WriteRun Proofs.C17_WriteRun.
From Coq Require Import ZifyN ZifyNat ZifyBool.
Open Scope N_scope.

(* ---------- list helpers ---------- *)
Lemma firstn_length_app {A} (a b : list A) : firstn (length a) (a ++ b) = a.
Proof. induction a as [|x a IH]; cbn [length firstn app]; [destruct b; reflexivity|]. rewrite IH. reflexivity. Qed.

Lemma skipn_length_app {A} (a b : list A) : skipn (length a) (a ++ b) = b.
Proof. induction a as [|x a IH]; cbn [length skipn app]; [reflexivity|exact IH]. Qed.

Lemma fuel_step (buf a1 a2 rest2 : list entry) (f : nat) :
  buf ++ a1 <> [] -> (length buf + length (a1 ++ a2 ++ rest2) < S f)%nat -> (length a2 + length rest2 < f)%nat.
Proof.
  intros Hne Hfuel.
  assert (0 < length (buf ++ a1))%nat as Hpos by (destruct (buf ++ a1); [congruence|cbn [length]; lia]).
  rewrite !app_length in *. lia.
Qed.

(* ---------- one iteration of the outer loop, in terms of the entries pulled by the two inner loops ---------- *)
Lemma loop_step fx target mx f written buf rest :
  let res := write_run_loop fx (S f) target mx written buf (run_size buf) rest in
  (* the stream ends in the first inner loop *)
  (exists a1, rest = a1 /\ run_size (buf ++ a1) < target /\
     ((buf ++ a1 = [] /\ fx && written = true /\ res = []) \/
      ((buf ++ a1 <> [] \/ fx && written = false) /\ res = [buf ++ a1]))) \/
  (* the stream ends in the look-ahead loop *)
  (exists a1 a2, rest = a1 ++ a2 /\ target <= run_size (buf ++ a1) /\
     (a1 <> [] -> run_size buf + run_size (removelast a1) < target) /\
     run_size ((buf ++ a1) ++ a2) < mx /\ res = [(buf ++ a1) ++ a2]) \/
  (* a table is cut and the look-ahead entries are carried over *)
  (exists a1 a2 rest2, rest = a1 ++ a2 ++ rest2 /\ target <= run_size (buf ++ a1) /\
     (a1 <> [] -> run_size buf + run_size (removelast a1) < target) /\
     mx <= run_size ((buf ++ a1) ++ a2) /\
     (a2 <> [] -> run_size (buf ++ a1) + run_size (removelast a2) < mx) /\
     res = (buf ++ a1) :: write_run_loop fx f target mx true a2 (run_size a2) rest2).
Proof.
  intros res. subst res. cbn [write_run_loop].
  destruct (fill target buf (run_size buf) rest) as [[[b1 sz1] rest1] ended1] eqn:F1.
  apply fill_spec in F1. destruct F1 as (a1 & -> & -> & -> & He1 & Hn1 & Hl1).
  destruct ended1.
  - left. destruct (He1 eq_refl) as [-> Hlt]. exists a1. rewrite app_nil_r.
    split; [reflexivity|]. split; [rewrite run_size_app; lia|].
    destruct (buf ++ a1) as [|e0 l0] eqn:Eb.
    + destruct (fx && written).
      * left. repeat split; reflexivity.
      * right. split; [right; reflexivity|reflexivity].
    + right. split; [left; discriminate|reflexivity].
  - specialize (Hn1 eq_refl). right.
    destruct (fill mx (buf ++ a1) (run_size buf + run_size a1) rest1) as [[[b2 sz2] rest2] ended2] eqn:F2.
    apply fill_spec in F2. destruct F2 as (a2 & -> & -> & -> & He2 & Hn2 & Hl2).
    destruct ended2.
    + left. destruct (He2 eq_refl) as [-> Hlt]. exists a1, a2. rewrite app_nil_r.
      split; [reflexivity|]. split; [rewrite run_size_app; lia|]. split; [exact Hl1|].
      split; [rewrite !run_size_app; lia|reflexivity].
    + right. specialize (Hn2 eq_refl). exists a1, a2, rest2.
      split; [reflexivity|]. split; [rewrite run_size_app; lia|]. split; [exact Hl1|].
      split; [rewrite !run_size_app; lia|].
      split; [intros Hne; specialize (Hl2 Hne); rewrite run_size_app; lia|].
      rewrite firstn_length_app, skipn_length_app.
      replace (run_size buf + run_size a1 + run_size a2 - (run_size buf + run_size a1)) with (run_size a2) by lia.
      reflexivity.
Qed.

(* ---------- 1. no empty table ---------- *)
Lemma write_run_loop_nonempty target mx : 1 <= target ->
  forall fuel written buf rest,
  (length buf + length rest < fuel)%nat ->
  (buf <> [] \/ rest <> [] \/ written = true) ->
  Forall (fun c => c <> []) (write_run_loop true fuel target mx written buf (run_size buf) rest).
Proof.
  intros Ht. induction fuel as [|f IH]; intros written buf rest Hfuel Hinv; [lia|].
  destruct (loop_step true target mx f written buf rest)
    as [(a1 & Hr & Hsz & Hres) | [(a1 & a2 & Hr & Hge & Hl1 & Hlt & Hres) | (a1 & a2 & rest2 & Hr & Hge & Hl1 & Hmx & Hl2 & Hres)]].
  - subst a1. destruct Hres as [(Hnil & Hw & ->) | (Hcase & ->)]; [constructor|].
    constructor; [|constructor]. destruct Hcase as [Hne|Hw]; [exact Hne|].
    intros Hnil. apply app_eq_nil in Hnil as [Hb Hrs]. cbn [andb] in Hw.
    destruct Hinv as [Hi|[Hi|Hi]]; congruence.
  - rewrite Hres. constructor; [|constructor]. apply run_size_nonempty. rewrite run_size_app. lia.
  - rewrite Hres. assert (buf ++ a1 <> []) as Hne by (apply run_size_nonempty; lia).
    constructor; [exact Hne|]. apply IH.
    + subst rest. exact (fuel_step buf a1 a2 rest2 f Hne Hfuel).
    + right; right; reflexivity.
Qed.

Theorem write_run_nonempty : forall es target, 1 <= target -> es <> [] ->
  Forall (fun c => c <> []) (write_run es target).
Proof.
  intros es target Ht Hne. unfold write_run, write_run_gen.
  apply (write_run_loop_nonempty target (max_buffer target) Ht (S (length es)) false [] es).
  - cbn [length]. lia.
  - right; left; exact Hne.
Qed.

Lemma write_run_empty : forall target, 1 <= target -> write_run [] target = [[]].
Proof.
  intros target Ht. unfold write_run, write_run_gen. cbn [length write_run_loop fill].
  destruct (0 <? target) eqn:E; [reflexivity|lia].
Qed.

Lemma write_run_not_nil : forall es target, 1 <= target -> write_run es target <> [].
Proof.
  intros es target Ht. destruct es as [|e es].
  - rewrite write_run_empty by exact Ht. discriminate.
  - intros Hnil. pose proof (write_run_concat (e :: es) target Ht) as Hc. rewrite Hnil in Hc. discriminate.
Qed.

(* the code before the repair writes an empty table when the stream ends exactly at a chunk boundary *)
Lemma write_run_old_emits_empty_table : exists es target, 1 <= target /\ es <> [] /\ In [] (write_run_old es target).
Proof.
  exists [mkE [97] (repeat 0 10%nat) 1 false; mkE [98] (repeat 0 200%nat) 2 false], 100.
  split; [lia|]. split; [discriminate|]. vm_compute. right; left; reflexivity.
Qed.

(* ---------- 3. key ranges ---------- *)
Lemma keys_sorted_cons2 e e' r : keys_sorted (e :: e' :: r) = bltb (e_key e) (e_key e') && keys_sorted (e' :: r).
Proof. reflexivity. Qed.

Lemma keys_sorted_tail e r : keys_sorted (e :: r) = true -> keys_sorted r = true.
Proof.
  destruct r as [|e' r]; intros H; [reflexivity|]. rewrite keys_sorted_cons2 in H.
  apply andb_true_iff in H as [_ H]. exact H.
Qed.

Lemma last_key_snoc a e : last_key (a ++ [e]) = e_key e.
Proof. unfold last_key. rewrite rev_app_distr. reflexivity. Qed.

Lemma last_key_cons e a : a <> [] -> last_key (e :: a) = last_key a.
Proof.
  intros Hne. destruct (exists_last Hne) as (a' & x & ->).
  change (e :: a' ++ [x]) with ((e :: a') ++ [x]). rewrite !last_key_snoc. reflexivity.
Qed.

Lemma first_key_app a b : a <> [] -> first_key (a ++ b) = first_key a.
Proof. destruct a as [|e a]; [congruence|reflexivity]. Qed.

Lemma keys_sorted_app a : forall b, keys_sorted (a ++ b) = true ->
  keys_sorted a = true /\ keys_sorted b = true /\
  (a <> [] -> b <> [] -> bltb (last_key a) (first_key b) = true).
Proof.
  induction a as [|e a IH]; intros b H.
  - cbn [app] in H. split; [reflexivity|]. split; [exact H|]. intros Hn; congruence.
  - destruct a as [|e' a'].
    + cbn [app] in H. destruct b as [|e' b'].
      * split; [reflexivity|]. split; [reflexivity|]. intros _ Hn; congruence.
      * pose proof (keys_sorted_tail _ _ H) as Ht. rewrite keys_sorted_cons2 in H.
        apply andb_true_iff in H as [H1 _].
        split; [reflexivity|]. split; [exact Ht|]. intros _ _. exact H1.
    + change ((e :: e' :: a') ++ b) with (e :: e' :: (a' ++ b)) in H.
      rewrite keys_sorted_cons2 in H. apply andb_true_iff in H as [H1 H2].
      destruct (IH b H2) as (Ha & Hb & Hab).
      split; [rewrite keys_sorted_cons2, H1, Ha; reflexivity|]. split; [exact Hb|].
      intros _ Hnb. rewrite last_key_cons by discriminate. apply Hab; [discriminate|exact Hnb].
Qed.

Fixpoint ranges_ascending (chunks : list (list entry)) : Prop :=
  match chunks with
  | [] => True
  | c :: r => match r with
              | [] => True
              | c' :: _ => bltb (last_key c) (first_key c') = true /\ ranges_ascending r
              end
  end.

(* non-empty chunks of a strictly sorted sequence: each is sorted, adjacent key ranges are ascending *)
Lemma chunks_ranges : forall chunks,
  Forall (fun c => c <> []) chunks -> keys_sorted (concat chunks) = true ->
  ranges_ascending chunks /\ Forall (fun c => keys_sorted c = true) chunks.
Proof.
  induction chunks as [|c r IH]; intros Hne Hs.
  - split; [exact I|constructor].
  - cbn [concat] in Hs. apply keys_sorted_app in Hs as (Hc & Hr & Hcr).
    inversion Hne as [|c0 r0 Hc_ne Hr_ne]; subst.
    destruct (IH Hr_ne Hr) as [IHa IHs].
    split; [|constructor; assumption].
    destruct r as [|c' r']; [exact I|].
    cbn [ranges_ascending]. split; [|exact IHa].
    inversion Hr_ne as [|c1 r1 Hc'_ne _]; subst.
    cbn [concat] in Hcr. rewrite first_key_app in Hcr by exact Hc'_ne.
    apply Hcr; [exact Hc_ne|]. intros Hnil. apply app_eq_nil in Hnil as [Hnil _]. congruence.
Qed.

Theorem write_run_ranges : forall es target, 1 <= target -> keys_sorted es = true -> es <> [] ->
  ranges_ascending (write_run es target) /\ Forall (fun c => keys_sorted c = true) (write_run es target).
Proof.
  intros es target Ht Hs Hne. apply chunks_ranges.
  - apply write_run_nonempty; assumption.
  - rewrite write_run_concat by exact Ht. exact Hs.
Qed.

(* globally ordered: every key of an earlier chunk is below every key of a later chunk *)
Lemma bltb_trans a b c : bltb a b = true -> bltb b c = true -> bltb a c = true.
Proof.
  unfold bltb. destruct (bcmp a b) eqn:Eab; try discriminate. destruct (bcmp b c) eqn:Ebc; try discriminate.
  intros _ _. rewrite (bcmp_lt_trans a b c Eab Ebc). reflexivity.
Qed.

Lemma keys_sorted_head_lt : forall r e, keys_sorted (e :: r) = true ->
  forall y, In y r -> bltb (e_key e) (e_key y) = true.
Proof.
  induction r as [|e' r IH]; intros e H y Hin; [destruct Hin|].
  rewrite keys_sorted_cons2 in H. apply andb_true_iff in H as [H1 H2].
  destruct Hin as [->|Hin]; [exact H1|].
  apply (bltb_trans _ (e_key e')); [exact H1|]. apply IH; assumption.
Qed.

Lemma keys_sorted_app_lt : forall a b, keys_sorted (a ++ b) = true ->
  forall x y, In x a -> In y b -> bltb (e_key x) (e_key y) = true.
Proof.
  induction a as [|e a IH]; intros b H x y Hx Hy; [destruct Hx|].
  cbn [app] in H. destruct Hx as [->|Hx].
  - apply (keys_sorted_head_lt _ _ H). apply in_or_app. right; exact Hy.
  - apply (IH b (keys_sorted_tail _ _ H)); assumption.
Qed.

Theorem write_run_globally_ordered : forall es target, 1 <= target -> keys_sorted es = true ->
  forall pre c mid c' post, write_run es target = pre ++ c :: mid ++ c' :: post ->
  forall x y, In x c -> In y c' -> bltb (e_key x) (e_key y) = true.
Proof.
  intros es target Ht Hs pre c mid c' post Heq x y Hx Hy.
  pose proof (write_run_concat es target Ht) as Hc. rewrite Heq in Hc.
  rewrite concat_app in Hc. cbn [concat] in Hc. rewrite concat_app in Hc. cbn [concat] in Hc.
  rewrite <- Hc in Hs. apply keys_sorted_app in Hs as (_ & Hs & _).
  apply (keys_sorted_app_lt _ _ Hs x y Hx). apply in_or_app. right. apply in_or_app. left. exact Hy.
Qed.

(* ---------- 2. size rule ---------- *)
Definition regular_chunk (target : N) (c : list entry) : Prop :=
  target <= run_size c /\ run_size (removelast c) < target.

Fixpoint size_rule (target : N) (chunks : list (list entry)) : Prop :=
  match chunks with
  | [] => True
  | [c] => run_size c < max_buffer target \/ regular_chunk target c
  | c :: r => regular_chunk target c /\ size_rule target r
  end.

Lemma size_rule_single_small target c : run_size c < max_buffer target -> size_rule target [c].
Proof. intros H. cbn [size_rule]. left. exact H. Qed.

Lemma size_rule_cons target c r : regular_chunk target c -> size_rule target r -> size_rule target (c :: r).
Proof.
  intros Hc Hr. destruct r as [|c' r'].
  - cbn [size_rule]. right. exact Hc.
  - split; [exact Hc|exact Hr].
Qed.

Lemma max_buffer_ge target : target <= max_buffer target.
Proof. unfold max_buffer. lia. Qed.

Lemma max_buffer_slack target : max_buffer target <= target + target.
Proof.
  unfold max_buffer. assert (target / 2 <= target) as H by (apply N.div_le_upper_bound; lia). lia.
Qed.

Lemma write_run_loop_size_rule fx target : 1 <= target ->
  forall fuel written buf rest,
  (length buf + length rest < fuel)%nat ->
  (buf = [] \/ run_size (removelast buf) < target) ->
  size_rule target (write_run_loop fx fuel target (max_buffer target) written buf (run_size buf) rest).
Proof.
  intros Ht. induction fuel as [|f IH]; intros written buf rest Hfuel Hinv; [lia|].
  pose proof (max_buffer_ge target) as Hmg. pose proof (max_buffer_slack target) as Hms.
  destruct (loop_step fx target (max_buffer target) f written buf rest)
    as [(a1 & Hr & Hsz & Hres) | [(a1 & a2 & Hr & Hge & Hl1 & Hlt & Hres) | (a1 & a2 & rest2 & Hr & Hge & Hl1 & Hmx & Hl2 & Hres)]].
  - destruct Hres as [(_ & _ & ->) | (_ & ->)]; [exact I|]. apply size_rule_single_small. lia.
  - rewrite Hres. apply size_rule_single_small. exact Hlt.
  - rewrite Hres. assert (buf ++ a1 <> []) as Hne by (apply run_size_nonempty; lia).
    apply size_rule_cons.
    + split; [exact Hge|]. destruct a1 as [|e1 a1'].
      * rewrite app_nil_r in *. destruct Hinv as [Hi|Hi]; [congruence|exact Hi].
      * assert (e1 :: a1' <> []) as Hne1 by discriminate. specialize (Hl1 Hne1).
        rewrite removelast_app by exact Hne1. rewrite run_size_app. exact Hl1.
    + apply IH.
      * subst rest. exact (fuel_step buf a1 a2 rest2 f Hne Hfuel).
      * destruct a2 as [|e2 a2']; [left; reflexivity|right].
        assert (e2 :: a2' <> []) as Hne2 by discriminate. specialize (Hl2 Hne2). lia.
Qed.

Theorem write_run_size_rule : forall es target, 1 <= target -> size_rule target (write_run es target).
Proof.
  intros es target Ht. unfold write_run, write_run_gen.
  apply (write_run_loop_size_rule true target Ht (S (length es)) false [] es).
  - cbn [length]. lia.
  - left; reflexivity.
Qed.
