(* C03: the keyed state store over ANY DKV that refines the sorted-map specification hands the handler
   exactly the fold of the mutations it returned before - refinement proof by a simulation invariant.

   Composition with the DKV properties (C07 reads, C18 compaction, C08 checkpoint/restore) is explicit: Section
   [Refine] takes the DKV operations [K] and the statement "K refines the sorted association list" as hypotheses
   ([H_put], [H_del], [H_scan], [H_restore]); [list_kv_refines] discharges them for the list specification. *)
From Coq Require Import ZifyN ZifyNat ZifyBool.
From RV Require Import Model.StateStore Proofs.C03_Codec.
Open Scope N_scope.

(* ---------------------------------------------------------------- sorted association lists *)

Fixpoint lt_all (k : bytes) (m : kvlist) : Prop :=
  match m with [] => True | (k', _) :: m' => bcmp k k' = Lt /\ lt_all k m' end.
Fixpoint sorted (m : kvlist) : Prop :=
  match m with [] => True | (k, _) :: m' => lt_all k m' /\ sorted m' end.

Lemma lt_all_trans a b m : bcmp a b = Lt -> lt_all b m -> lt_all a m.
Proof.
  intros Hab. induction m as [|[k v] m IH]; cbn; [trivial|]. intros [H1 H2]. split; [|auto].
  eapply bcmp_lt_trans; eauto.
Qed.

Lemma bcmp_gt_lt a b : bcmp a b = Gt -> bcmp b a = Lt.
Proof. intros H. rewrite bcmp_antisym, H. reflexivity. Qed.

Lemma lt_all_sm_put a k v m : bcmp a k = Lt -> lt_all a m -> lt_all a (sm_put k v m).
Proof.
  intros Hak. induction m as [|[k' v'] m IH]; cbn; [tauto|]. intros [H1 H2].
  destruct (bcmp k k') eqn:E; cbn; tauto.
Qed.

Lemma lt_all_sm_del a k m : lt_all a m -> lt_all a (sm_del k m).
Proof.
  induction m as [|[k' v'] m IH]; cbn; [tauto|]. intros [H1 H2].
  destruct (bcmp k k') eqn:E; cbn; tauto.
Qed.

Lemma sorted_sm_put k v m : sorted m -> sorted (sm_put k v m).
Proof.
  induction m as [|[k' v'] m IH]; cbn; [tauto|]. intros [H1 H2].
  destruct (bcmp k k') eqn:E; cbn.
  - apply bcmp_eq in E. subst k'. tauto.
  - repeat split; auto. eapply lt_all_trans; eauto.
  - split; [|auto]. apply lt_all_sm_put; auto. now apply bcmp_gt_lt.
Qed.

Lemma sorted_sm_del k m : sorted m -> sorted (sm_del k m).
Proof.
  induction m as [|[k' v'] m IH]; cbn; [tauto|]. intros [H1 H2].
  destruct (bcmp k k') eqn:E; cbn; try tauto. split; [|auto]. now apply lt_all_sm_del.
Qed.

Lemma lt_all_filter a f m : lt_all a m -> lt_all a (filter f m).
Proof.
  induction m as [|[k v] m IH]; cbn; [tauto|]. intros [H1 H2]. destruct (f (k, v)); cbn; tauto.
Qed.

Lemma sm_put_lt_all k v m : lt_all k m -> sm_put k v m = (k, v) :: m.
Proof. destruct m as [|[k' v'] m]; cbn; [reflexivity|]. intros [-> _]. reflexivity. Qed.

Lemma sm_del_lt_all k m : lt_all k m -> sm_del k m = m.
Proof. destruct m as [|[k' v'] m]; cbn; [reflexivity|]. intros [-> _]. reflexivity. Qed.

(* a prefix scan commutes with a write: the write lands in the scan iff the key has the prefix *)
Lemma scan_sm_put p k v m :
  sorted m -> sm_scan p (sm_put k v m) = if is_prefix p k then sm_put k v (sm_scan p m) else sm_scan p m.
Proof.
  unfold sm_scan. induction m as [|[k' v'] m IH]; cbn [sm_put filter fst sorted].
  - destruct (is_prefix p k); reflexivity.
  - intros [H1 H2]. destruct (bcmp k k') eqn:E.
    + apply bcmp_eq in E. subst k'. cbn [filter fst]. destruct (is_prefix p k); cbn [sm_put]; [|reflexivity].
      now rewrite bcmp_refl.
    + cbn [filter fst]. destruct (is_prefix p k) eqn:Ek; [|reflexivity].
      symmetry. apply sm_put_lt_all.
      apply (lt_all_filter k (fun kv => is_prefix p (fst kv)) ((k', v') :: m)). cbn. split; [exact E|].
      eapply lt_all_trans; eauto.
    + cbn [filter fst]. rewrite (IH H2).
      destruct (is_prefix p k') eqn:Ek', (is_prefix p k) eqn:Ek; cbn [sm_put]; rewrite ?E; reflexivity.
Qed.

Lemma scan_sm_del p k m :
  sorted m -> sm_scan p (sm_del k m) = if is_prefix p k then sm_del k (sm_scan p m) else sm_scan p m.
Proof.
  unfold sm_scan. induction m as [|[k' v'] m IH]; cbn [sm_del filter fst sorted].
  - destruct (is_prefix p k); reflexivity.
  - intros [H1 H2]. destruct (bcmp k k') eqn:E.
    + apply bcmp_eq in E. subst k'. destruct (is_prefix p k); cbn [sm_del]; [|reflexivity].
      now rewrite bcmp_refl.
    + cbn [filter fst]. destruct (is_prefix p k) eqn:Ek; [|reflexivity].
      symmetry. apply sm_del_lt_all.
      apply (lt_all_filter k (fun kv => is_prefix p (fst kv)) ((k', v') :: m)). cbn. split; [exact E|].
      eapply lt_all_trans; eauto.
    + cbn [filter fst]. rewrite (IH H2).
      destruct (is_prefix p k') eqn:Ek', (is_prefix p k) eqn:Ek; cbn [sm_del]; rewrite ?E; reflexivity.
Qed.

(* ---------------------------------------------------------------- one subject's stored keys = its flat map *)

Definition ns_ok (ns : bytes) : Prop := blen ns < 256.
Definition key_ok (k : bytes) : Prop := blen k < 2 ^ 32.
Definition fm_ok (m : flatmap) : Prop := Forall (fun xv => ns_ok (fst (fst xv))) m.

Definition encp (kgf : bytes -> N) (k : bytes) (xv : ekey * bytes) : bytes * bytes :=
  (enc_db kgf k (fst (fst xv)) (snd (fst xv)), snd xv).

Lemma map_encp_fm_put kgf k x v m :
  ns_ok (fst x) -> fm_ok m -> map (encp kgf k) (fm_put x v m) = sm_put (enc_db kgf k (fst x) (snd x)) v (map (encp kgf k) m).
Proof.
  destruct x as [ns e]. cbn [fst snd]. intros Hx.
  induction m as [|[[ns' e'] w] m IH]; intros Hm; [reflexivity|].
  inversion Hm as [|? ? Hy Hm']; subst. cbn [fst] in Hy.
  cbn [fm_put map]. unfold encp at 2. cbn [fst snd sm_put].
  rewrite enc_db_order by assumption.
  destruct (ekey_cmp (ns, e) (ns', e')); cbn [map]; unfold encp at 1; cbn [fst snd]; try reflexivity.
  rewrite IH by assumption. reflexivity.
Qed.

Lemma map_encp_fm_del kgf k x m :
  ns_ok (fst x) -> fm_ok m -> map (encp kgf k) (fm_del x m) = sm_del (enc_db kgf k (fst x) (snd x)) (map (encp kgf k) m).
Proof.
  destruct x as [ns e]. cbn [fst snd]. intros Hx.
  induction m as [|[[ns' e'] w] m IH]; intros Hm; [reflexivity|].
  inversion Hm as [|? ? Hy Hm']; subst. cbn [fst] in Hy.
  cbn [fm_del map]. unfold encp at 2. cbn [fst snd sm_del].
  rewrite enc_db_order by assumption.
  destruct (ekey_cmp (ns, e) (ns', e')); cbn [map]; unfold encp at 1; cbn [fst snd]; try reflexivity.
  rewrite IH by assumption. reflexivity.
Qed.

Lemma fm_ok_put x v m : ns_ok (fst x) -> fm_ok m -> fm_ok (fm_put x v m).
Proof.
  intros Hx. induction m as [|[y w] m IH]; intros Hm; cbn [fm_put].
  - constructor; [exact Hx|constructor].
  - inversion Hm as [|? ? Hy Hm']; subst. unfold fm_ok in *.
    destruct (ekey_cmp x y).
    + constructor; assumption.
    + constructor; assumption.
    + constructor; [assumption|]. apply IH. assumption.
Qed.

Lemma fm_ok_del x m : fm_ok m -> fm_ok (fm_del x m).
Proof.
  induction m as [|[y w] m IH]; intros Hm; cbn [fm_del]; [constructor|].
  inversion Hm as [|? ? Hy Hm']; subst. unfold fm_ok in *.
  destruct (ekey_cmp x y); try assumption. constructor; [assumption|]. apply IH. assumption.
Qed.

Definition unflat (xv : ekey * bytes) : bytes * entry := (fst (fst xv), (snd (fst xv), snd xv)).

Lemma decode_entries_encp kgf k m :
  key_ok k -> fm_ok m -> decode_entries (map (encp kgf k) m) = Some (map unflat m).
Proof.
  intros Hk. induction m as [|[[ns e] v] m IH]; intros Hm; cbn [map decode_entries]; [reflexivity|].
  inversion Hm as [|? ? Hy Hm']; subst. cbn [fst] in Hy.
  unfold encp at 1. cbn [fst snd]. rewrite decode_encode_g by assumption. rewrite IH by assumption. reflexivity.
Qed.

Lemma view_unflat m : view m = group_ns (map unflat m).
Proof. reflexivity. Qed.

(* ---------------------------------------------------------------- the specification machine: a log of responses *)

Record osys := { o_log : list response; o_saved : list (N * list response); o_trace : list (request * response) }.

Definition o_state (log : list response) (k : bytes) : list ns_state := view (fm_of_responses k log).

Definition o_step (h : handler) (a : osys) (st : step) : osys :=
  match st with
  | SBatch [] => a
  | SBatch evs =>
      let rq := {| rq_states := map (fun k => (k, o_state (o_log a) k)) (distinct_keys [] (map fst evs)); rq_events := evs |} in
      let rs := h rq in
      {| o_log := o_log a ++ [rs]; o_saved := o_saved a; o_trace := o_trace a ++ [(rq, rs)] |}
  | STimerDel _ _ => a
  | SCkpt id => {| o_log := o_log a; o_saved := (id, o_log a) :: o_saved a; o_trace := o_trace a |}
  | SRestore id =>
      match lookup_ckpt id (o_saved a) with
      | Some l => {| o_log := l; o_saved := o_saved a; o_trace := o_trace a |}
      | None => a
      end
  end.

Definition o_run (h : handler) (a : osys) (steps : list step) : osys := fold_left (o_step h) steps a.

Definition o_init : osys := {| o_log := []; o_saved := []; o_trace := [] |}.

(* guards: what a response / an event may contain *)
Definition nsm_ok (nm : nsmuts) : Prop := ns_ok (fst nm).
Definition kr_ok (kr : key_result) : Prop := key_ok (kr_key kr) /\ Forall nsm_ok (kr_muts kr).
Definition resp_ok (rs : response) : Prop := Forall kr_ok rs.
Definition handler_ok (h : handler) : Prop := forall rq, resp_ok (h rq).
Definition step_ok (st : step) : Prop :=
  match st with
  | SBatch evs => Forall (fun ev => key_ok (fst ev)) evs
  | STimerDel k _ => key_ok k
  | _ => True
  end.

Lemma fm_of_responses_snoc k log rs :
  fm_of_responses k (log ++ [rs]) = fm_apply_response k (fm_of_responses k log) rs.
Proof. unfold fm_of_responses. rewrite fold_left_app. reflexivity. Qed.

Definition init_sys (K : KV) (s0 : kv_st K) : sys K := {| sy_db := s0; sy_saved := []; sy_trace := [] |}.

Section Refine.
  Variable K : KV.
  Variable contents : kv_st K -> kvlist.
  Hypothesis H_put : forall k v s, contents (kv_put K k v s) = sm_put k v (contents s).
  Hypothesis H_del : forall k s, contents (kv_del K k s) = sm_del k (contents s).
  (* a scan never changes the contents; if it ends without an error it yielded the prefix scan of the contents *)
  Hypothesis H_scan : forall p s,
    (forall l, fst (kv_scan K p s) = Some l -> l = sm_scan p (contents s)) /\ contents (snd (kv_scan K p s)) = contents s.
  (* "no read fault occurs" *)
  Definition scan_total : Prop := forall p s, fst (kv_scan K p s) <> None.
  Hypothesis H_restore : forall cur s, contents (kv_restore K cur s) = contents s.

  Variable kgf : bytes -> N.
  Variable accept : bytes -> Z -> bool.

  (* simulation invariant between a DKV state and a per-subject family of flat maps *)
  Definition Inv (s : kv_st K) (A : bytes -> flatmap) : Prop :=
    sorted (contents s) /\
    (forall k, key_ok k -> sm_scan (enc_subject kgf k) (contents s) = map (encp kgf k) (A k)) /\
    (forall k, fm_ok (A k)).

  Definition upd (A : bytes -> flatmap) (k : bytes) (m : flatmap) : bytes -> flatmap :=
    fun k' => if beqb k k' then m else A k'.

  Lemma beqb_refl k : beqb k k = true.
  Proof. now apply beqb_eq. Qed.
  Lemma beqb_neq k k' : k <> k' -> beqb k k' = false.
  Proof. intros H. destruct (beqb k k') eqn:E; [|reflexivity]. apply beqb_eq in E. contradiction. Qed.

  Lemma inv_apply_mutation s A k ns m :
    key_ok k -> ns_ok ns -> Inv s A -> Inv (apply_mutation K kgf k ns s m) (upd A k (fm_apply ns (A k) m)).
  Proof.
    intros Hk Hns (I1 & I2 & I3). destruct m as [e v|e]; cbn [apply_mutation fm_apply].
    - repeat split.
      + rewrite H_put. now apply sorted_sm_put.
      + intros k' Hk'. rewrite H_put, scan_sm_put by exact I1. unfold upd.
        destruct (is_prefix (enc_subject kgf k') (enc_db kgf k ns e)) eqn:E.
        * apply subject_prefix_free_g in E; try assumption. subst k'. rewrite beqb_refl.
          rewrite (I2 k Hk). symmetry. apply (map_encp_fm_put kgf k (ns, e) v); [exact Hns|apply I3].
        * rewrite beqb_neq; [now apply I2|]. intros ->.
          rewrite (proj2 (subject_prefix_free_g kgf k' k' ns e Hk' Hk') eq_refl) in E. discriminate.
      + intros k'. unfold upd. destruct (beqb k k'); [|apply I3]. apply fm_ok_put; [exact Hns|apply I3].
    - repeat split.
      + rewrite H_del. now apply sorted_sm_del.
      + intros k' Hk'. rewrite H_del, scan_sm_del by exact I1. unfold upd.
        destruct (is_prefix (enc_subject kgf k') (enc_db kgf k ns e)) eqn:E.
        * apply subject_prefix_free_g in E; try assumption. subst k'. rewrite beqb_refl.
          rewrite (I2 k Hk). symmetry. apply (map_encp_fm_del kgf k (ns, e)); [exact Hns|apply I3].
        * rewrite beqb_neq; [now apply I2|]. intros ->.
          rewrite (proj2 (subject_prefix_free_g kgf k' k' ns e Hk' Hk') eq_refl) in E. discriminate.
      + intros k'. unfold upd. destruct (beqb k k'); [|apply I3]. apply fm_ok_del; apply I3.
  Qed.

  (* the invariant only looks at A pointwise *)
  Lemma inv_ext s A B : (forall k, A k = B k) -> Inv s A -> Inv s B.
  Proof.
    intros E (I1 & I2 & I3). repeat split; [exact I1| |].
    - intros k Hk. rewrite <- E. now apply I2.
    - intros k. rewrite <- E. apply I3.
  Qed.

  Lemma upd_upd A k m m' k' : upd (upd A k m) k m' k' = upd A k m' k'.
  Proof. unfold upd. destruct (beqb k k'); reflexivity. Qed.
  Lemma upd_same A k k' : upd A k (A k) k' = A k'.
  Proof. unfold upd. destruct (beqb k k') eqn:E; [|reflexivity]. apply beqb_eq in E. now subst. Qed.
  Lemma upd_at A k m : upd A k m k = m.
  Proof. unfold upd. now rewrite beqb_refl. Qed.

  Lemma inv_apply_ns s A k ns ms :
    key_ok k -> ns_ok ns -> Inv s A ->
    Inv (fold_left (apply_mutation K kgf k ns) ms s) (upd A k (fold_left (fm_apply ns) ms (A k))).
  Proof.
    intros Hk Hns. revert s A. induction ms as [|m ms IH]; intros s A HI; cbn [fold_left].
    - eapply inv_ext; [|exact HI]. intros k'. symmetry. apply upd_same.
    - pose proof (inv_apply_mutation s A k ns m Hk Hns HI) as H1.
      apply IH in H1. eapply inv_ext; [|exact H1]. intros k'. rewrite upd_upd, upd_at. reflexivity.
  Qed.

  Lemma inv_apply_mutations s A k muts :
    key_ok k -> Forall nsm_ok muts -> Inv s A ->
    Inv (apply_mutations K kgf k muts s) (upd A k (fold_left fm_apply_ns muts (A k))).
  Proof.
    intros Hk. unfold apply_mutations. revert s A. induction muts as [|nm muts IH]; intros s A Hm HI; cbn [fold_left].
    - eapply inv_ext; [|exact HI]. intros k'. symmetry. apply upd_same.
    - inversion Hm as [|? ? Hnm Hm']; subst.
      pose proof (inv_apply_ns s A k (fst nm) (snd nm) Hk Hnm HI) as H1.
      apply (IH _ _ Hm') in H1. eapply inv_ext; [|exact H1]. intros k'. rewrite upd_upd, upd_at. reflexivity.
  Qed.

  (* writes and deletes of timer keys are invisible to every subject's state *)
  Lemma inv_timer_put s A k t v : Inv s A -> Inv (kv_put K (enc_timer kgf k t) v s) A.
  Proof.
    intros (I1 & I2 & I3). repeat split; [rewrite H_put; now apply sorted_sm_put| |exact I3].
    intros k' Hk'. rewrite H_put, scan_sm_put by exact I1. rewrite timer_not_under_subject. now apply I2.
  Qed.

  Lemma inv_timer_del s A k t : Inv s A -> Inv (kv_del K (enc_timer kgf k t) s) A.
  Proof.
    intros (I1 & I2 & I3). repeat split; [rewrite H_del; now apply sorted_sm_del| |exact I3].
    intros k' Hk'. rewrite H_del, scan_sm_del by exact I1. rewrite timer_not_under_subject. now apply I2.
  Qed.

  Lemma inv_set_timers s A k ts : Inv s A -> Inv (set_timers K kgf accept k ts s) A.
  Proof.
    unfold set_timers. revert s. induction ts as [|t ts IH]; intros s HI; cbn [fold_left]; [exact HI|].
    apply IH. destruct (accept k t); [now apply inv_timer_put|exact HI].
  Qed.

  Definition A_result (A : bytes -> flatmap) (kr : key_result) : bytes -> flatmap :=
    fun k => if beqb (kr_key kr) k then fold_left fm_apply_ns (kr_muts kr) (A k) else A k.

  Lemma inv_apply_result s A kr : kr_ok kr -> Inv s A -> Inv (apply_result K kgf accept s kr) (A_result A kr).
  Proof.
    intros [Hk Hm] HI. unfold apply_result.
    pose proof (inv_set_timers s A (kr_key kr) (kr_timers kr) HI) as H1.
    pose proof (inv_apply_mutations _ _ (kr_key kr) (kr_muts kr) Hk Hm H1) as H2.
    eapply inv_ext; [|exact H2]. intros k. unfold upd, A_result.
    destruct (beqb (kr_key kr) k) eqn:E; [|reflexivity]. apply beqb_eq in E. now subst.
  Qed.

  Lemma inv_apply_results s A rs :
    resp_ok rs -> Inv s A -> Inv (fold_left (apply_result K kgf accept) rs s) (fun k => fm_apply_response k (A k) rs).
  Proof.
    unfold fm_apply_response. revert s A. induction rs as [|kr rs IH]; intros s A Hrs HI; cbn [fold_left]; [exact HI|].
    inversion Hrs as [|? ? Hkr Hrs']; subst.
    pose proof (inv_apply_result s A kr Hkr HI) as H1. apply (IH _ _ Hrs') in H1.
    eapply inv_ext; [|exact H1]. intros k. reflexivity.
  Qed.

  (* the invariant only looks at the contents *)
  Lemma inv_contents s s' A : contents s' = contents s -> Inv s A -> Inv s' A.
  Proof. intros E. unfold Inv. rewrite E. tauto. Qed.

  (* reading: GetState returns the complete grouped flat map of that subject or an error - nothing in between -,
     never panics, leaves the contents alone *)
  Lemma get_state_inv s A k : key_ok k -> Inv s A ->
    exists s', contents s' = contents s /\
      (get_state K kgf k s = FOk (view (A k)) s' \/ (get_state K kgf k s = FErr s' /\ ~ scan_total)).
  Proof.
    intros Hk (I1 & I2 & I3). unfold get_state.
    destruct (H_scan (enc_subject kgf k) s) as [E1 E2].
    destruct (kv_scan K (enc_subject kgf k) s) as [[l|] s'] eqn:Es; cbn [fst snd] in *; exists s'; (split; [exact E2|]).
    - left. rewrite (E1 l eq_refl), (I2 k Hk), decode_entries_encp by (auto; apply I3). reflexivity.
    - right. split; [reflexivity|]. intros T. apply (T (enc_subject kgf k) s). now rewrite Es.
  Qed.

  Lemma fetch_states_inv ks : forall s A,
    Forall key_ok ks -> Inv s A ->
    exists s', contents s' = contents s /\
      (fetch_states K kgf ks s = FOk (map (fun k => (k, view (A k))) ks) s' \/
       (fetch_states K kgf ks s = FErr s' /\ ~ scan_total)).
  Proof.
    induction ks as [|k ks IH]; intros s A Hks HI; cbn [fetch_states map].
    - exists s. split; [reflexivity|left; reflexivity].
    - inversion Hks as [|? ? Hk Hks']; subst.
      destruct (get_state_inv s A k Hk HI) as (s1 & C1 & [E1|[E1 N1]]); rewrite E1.
      + destruct (IH s1 A Hks' (inv_contents _ _ _ C1 HI)) as (s2 & C2 & [E2|[E2 N2]]); rewrite E2;
          exists s2; (split; [now rewrite C2|]); [left; reflexivity|right; split; [reflexivity|exact N2]].
      + exists s1. split; [exact C1|]. right. split; [reflexivity|exact N1].
  Qed.

  (* a failed read applies nothing: the batch ends with BFailed, the handler is not called, the contents stay *)
  Lemma failed_scan_applies_nothing h evs s s1 A :
    Forall (fun ev => key_ok (fst ev)) evs -> Inv s A ->
    fetch_states K kgf (distinct_keys [] (map fst evs)) s = FErr s1 ->
    process_batch K kgf accept h evs s = Some (BFailed, s1) /\ contents s1 = contents s.
  Proof.
    intros Hev HI E. unfold process_batch. destruct evs as [|ev evs]; [cbn in E; discriminate|]. rewrite E.
    split; [reflexivity|].
    assert (Hkeys : Forall key_ok (distinct_keys [] (map fst (ev :: evs)))).
    { clear -Hev. generalize (@nil bytes). induction Hev as [|x l Hx _ IH]; intros seen; cbn [map distinct_keys]; [constructor|].
      destruct (mem_bytes (fst x) seen); [apply IH|constructor; [exact Hx|apply IH]]. }
    destruct (fetch_states_inv _ s A Hkeys HI) as (s' & C & [E'|[E' _]]); rewrite E in E'; [discriminate|].
    injection E' as <-. exact C.
  Qed.

  Lemma distinct_keys_ok seen l : Forall key_ok l -> Forall key_ok (distinct_keys seen l).
  Proof.
    revert seen. induction l as [|k l IH]; intros seen Hl; cbn [distinct_keys]; [constructor|].
    inversion Hl; subst. destruct (mem_bytes k seen); [auto|]. constructor; auto.
  Qed.

  (* ---------------------------------------------------------------- simulation over histories *)

  Definition A_of (log : list response) : bytes -> flatmap := fun k => fm_of_responses k log.

  Definition saved_rel (p : N * kv_st K) (q : N * list response) : Prop :=
    fst p = fst q /\ Inv (snd p) (A_of (snd q)).

  Definition Sim (y : sys K) (a : osys) : Prop :=
    Inv (sy_db y) (A_of (o_log a)) /\ Forall2 saved_rel (sy_saved y) (o_saved a) /\ sy_trace y = o_trace a.

  Lemma lookup_ckpt_rel id ys os :
    Forall2 saved_rel ys os ->
    match lookup_ckpt id ys, lookup_ckpt id os with
    | Some s, Some l => Inv s (A_of l)
    | None, None => True
    | _, _ => False
    end.
  Proof.
    induction 1 as [|[i s] [j l] ys os [Hij HI] _ IH]; cbn [lookup_ckpt]; [trivial|].
    cbn [fst snd] in *. subst j. destruct (i =? id); [exact HI|exact IH].
  Qed.

  Lemma inv_restore cur s A : Inv s A -> Inv (kv_restore K cur s) A.
  Proof. apply inv_contents. apply H_restore. Qed.

  (* one step: either it is simulated by the specification machine, or it is a batch whose read failed (possible
     only if scans can fail) and then nothing changes that the specification machine could see *)
  Lemma sim_step h y a st :
    handler_ok h -> step_ok st -> Sim y a ->
    exists y', do_step K kgf accept h y st = Some y' /\
      (Sim y' (o_step h a st) \/ (Sim y' a /\ (exists evs, st = SBatch evs) /\ ~ scan_total)).
  Proof.
    intros Hh Hst (HI & HS & HT). destruct st as [evs|k t|id|id]; cbn [do_step o_step].
    - destruct evs as [|ev evs].
      + cbn [process_batch]. eexists; split; [reflexivity|]. left.
        unfold Sim; cbn [sy_db sy_saved sy_trace]. split; [exact HI|split; [exact HS|exact HT]].
      + unfold process_batch.
        set (keys := distinct_keys [] (map fst (ev :: evs))).
        assert (Hkeys : Forall key_ok keys).
        { apply distinct_keys_ok. cbn [step_ok] in Hst. clear -Hst. induction Hst; cbn [map]; constructor; auto. }
        destruct (fetch_states_inv keys _ _ Hkeys HI) as (s1 & Cf & [Ef|[Ef Nf]]); rewrite Ef;
          apply (inv_contents _ _ _ Cf) in HI.
        * eexists; split; [reflexivity|]. left.
          unfold Sim; cbn [sy_db sy_saved sy_trace o_log o_saved o_trace].
          unfold o_state, A_of in *.
          set (rq := {| rq_states := map (fun k => (k, view (fm_of_responses k (o_log a)))) keys; rq_events := ev :: evs |}).
          split; [|split; [exact HS|rewrite HT; reflexivity]].
          pose proof (inv_apply_results _ _ (h rq) (Hh rq) HI) as H1.
          eapply inv_ext; [|exact H1]. intros k. cbn beta. symmetry. apply fm_of_responses_snoc.
        * eexists; split; [reflexivity|]. right. split; [|split; [eexists; reflexivity|exact Nf]].
          unfold Sim; cbn [sy_db sy_saved sy_trace]. split; [exact HI|split; [exact HS|exact HT]].
    - eexists; split; [reflexivity|]. left. unfold Sim; cbn [sy_db sy_saved sy_trace].
      split; [|split; [exact HS|exact HT]]. now apply inv_timer_del.
    - eexists; split; [reflexivity|]. left. unfold Sim; cbn [sy_db sy_saved sy_trace o_log o_saved o_trace].
      split; [exact HI|split; [|exact HT]].
      constructor; [|exact HS]. split; [reflexivity|exact HI].
    - pose proof (lookup_ckpt_rel id _ _ HS) as HL.
      destruct (lookup_ckpt id (sy_saved y)) as [s|], (lookup_ckpt id (o_saved a)) as [l|]; try contradiction.
      + eexists; split; [reflexivity|]. left. unfold Sim; cbn [sy_db sy_saved sy_trace o_log o_saved o_trace].
        split; [|split; [exact HS|exact HT]]. now apply inv_restore.
      + eexists; split; [reflexivity|]. left. split; [exact HI|split; [exact HS|exact HT]].
  Qed.

  (* [pruned steps steps']: steps' is steps without some of its batches (the ones whose read failed) *)
  Inductive pruned : list step -> list step -> Prop :=
  | pr_nil : pruned [] []
  | pr_keep st l l' : pruned l l' -> pruned (st :: l) (st :: l')
  | pr_drop evs l l' : pruned l l' -> pruned (SBatch evs :: l) l'.

  Lemma sim_run h steps : forall y a,
    handler_ok h -> Forall step_ok steps -> Sim y a ->
    exists y' steps', run K kgf accept h y steps = Some y' /\ pruned steps steps' /\ Sim y' (o_run h a steps') /\
                      (scan_total -> steps' = steps).
  Proof.
    induction steps as [|st steps IH]; intros y a Hh Hs HS; cbn [run].
    - exists y, []. split; [reflexivity|]. split; [constructor|]. split; [exact HS|reflexivity].
    - inversion Hs as [|? ? Hst Hs']; subst.
      destruct (sim_step h y a st Hh Hst HS) as (y1 & E & [HS1|(HS1 & (evs & ->) & Nt)]); rewrite E.
      + destruct (IH y1 _ Hh Hs' HS1) as (y' & steps' & R & P & S' & T).
        exists y', (st :: steps'). split; [exact R|]. split; [now constructor|]. split; [exact S'|].
        intros Ht. now rewrite (T Ht).
      + destruct (IH y1 _ Hh Hs' HS1) as (y' & steps' & R & P & S' & T).
        exists y', steps'. split; [exact R|]. split; [now constructor|]. split; [exact S'|].
        intros Ht. contradiction.
  Qed.

  Lemma init_sim s0 : contents s0 = [] -> Sim (init_sys K s0) o_init.
  Proof.
    intros H0. unfold Sim, A_of, init_sys; cbn [sy_db sy_saved sy_trace o_init o_log o_saved o_trace].
    split; [|split; [constructor|reflexivity]].
    unfold Inv. rewrite H0. split; [exact I|split].
    - intros k _. reflexivity.
    - intros k. constructor.
  Qed.

  (* With read faults: the model never panics, and the handler-visible trace is that of the specification machine on
     the history without the batches whose read failed - every handler call still gets the COMPLETE fold of everything
     applied before it; a failed batch is invisible (no call, nothing applied). *)
  Theorem refines_per_key_map_faulty h steps s0 :
    contents s0 = [] -> handler_ok h -> Forall step_ok steps ->
    exists y steps', run K kgf accept h (init_sys K s0) steps = Some y /\ pruned steps steps' /\
                     sy_trace y = o_trace (o_run h o_init steps').
  Proof.
    intros H0 Hh Hs.
    destruct (sim_run h steps (init_sys K s0) o_init Hh Hs (init_sim s0 H0)) as (y & steps' & E & P & (_ & _ & HT) & _).
    exists y, steps'. auto.
  Qed.

  (* The model, started on an empty database, never panics and - when no read fault occurs - produces exactly the
     trace of the specification machine: every request carries, for each distinct key of the batch, the grouped fold
     of all mutations returned for that key so far (since the start or the restored checkpoint). *)
  Theorem refines_per_key_map h steps s0 :
    scan_total -> contents s0 = [] -> handler_ok h -> Forall step_ok steps ->
    exists y, run K kgf accept h (init_sys K s0) steps = Some y /\
              sy_trace y = o_trace (o_run h o_init steps).
  Proof.
    intros Ht H0 Hh Hs.
    destruct (sim_run h steps (init_sys K s0) o_init Hh Hs (init_sim s0 H0)) as (y & steps' & E & P & (_ & _ & HT) & T).
    exists y. rewrite (T Ht) in HT. auto.
  Qed.
End Refine.

(* the list-based specification of the DKV satisfies the hypotheses of [Refine] *)
Lemma list_kv_refines :
  (forall k v s, (fun m : kv_st list_kv => m) (kv_put list_kv k v s) = sm_put k v s) /\
  (forall k s, (fun m : kv_st list_kv => m) (kv_del list_kv k s) = sm_del k s) /\
  (forall p s, fst (kv_scan list_kv p s) = Some (sm_scan p s) /\ snd (kv_scan list_kv p s) = s) /\
  (forall cur s, kv_restore list_kv cur s = s).
Proof. repeat split. Qed.

Theorem refines_per_key_map_list kgf accept h steps :
  handler_ok h -> Forall step_ok steps ->
  exists y, run list_kv kgf accept h (init_sys list_kv []) steps = Some y /\
            sy_trace y = o_trace (o_run h o_init steps).
Proof.
  intros Hh Hs.
  refine (refines_per_key_map list_kv (fun m => m) (fun _ _ _ => eq_refl) (fun _ _ => eq_refl) _
           (fun _ _ => eq_refl) kgf accept h steps [] _ eq_refl Hh Hs).
  - intros p s. split; [|reflexivity]. cbn. intros l [= <-]. reflexivity.
  - intros p s. cbn. discriminate.
Qed.
