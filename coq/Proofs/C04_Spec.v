(* C04: what "operator i receives exactly the sub-sequence of the ideal stream routed to it" means for
   records, keys, splits and markers; the in-order instance of the reorder stage; sender_serialises; the
   stuck tail with MaxDelay = 0. *)
From Coq Require Import List NArith Bool Arith Lia.
Import ListNotations.
From RV Require Import Model.RunnerPipe Proofs.C04_RunnerPipe.

Lemma marker_eq_dec : forall a b : marker, {a = b} + {a <> b}.
Proof. decide equality. apply N.eq_dec. Qed.
Lemma ev_eq_dec : forall a b : ev, {a = b} + {a <> b}.
Proof.
  decide equality; try apply N.eq_dec; try apply marker_eq_dec.
  destruct kv as [k v], kv0 as [k0 v0].
  destruct (list_eq_dec N.eq_dec k k0), (N.eq_dec v v0); subst; auto; right; intro H; inversion H; contradiction.
Qed.

Lemma count_filter : forall (P : ev -> bool) l e,
  count_occ ev_eq_dec (filter P l) e = if P e then count_occ ev_eq_dec l e else 0.
Proof.
  intros P l e. induction l as [|a l IH]; cbn [filter count_occ].
  - destruct (P e); reflexivity.
  - destruct (P a) eqn:Pa; cbn [count_occ]; destruct (ev_eq_dec a e) as [->|Hne].
    + rewrite IH, Pa. reflexivity.
    + exact IH.
    + rewrite IH, Pa. reflexivity.
    + exact IH.
Qed.

Lemma filter_filter_imp : forall (P Q : ev -> bool) l,
  (forall e, P e = true -> Q e = true) -> filter P (filter Q l) = filter P l.
Proof.
  intros P Q l H. induction l as [|a l IH]; [reflexivity|]. cbn [filter].
  destruct (Q a) eqn:Qa; cbn [filter]; destruct (P a) eqn:Pa; try (now rewrite IH).
  rewrite (H a Pa) in Qa. discriminate.
Qed.

Section SpecFacts.
  Variable kb : N -> list kev.
  Variable route : list N -> nat.
  Variable nops : nat.
  Variable input : list item.
  Variable split_of : N -> N.

  (* the events of one split and one key *)
  Definition same_split_key (sp : N) (k : list N) (e : ev) : bool :=
    match e with
    | EK x kv => N.eqb (split_of x) sp && (if list_eq_dec N.eq_dec (fst kv) k then true else false)
    | EM _ => false
    end.

  (* A stream [d] that equals the sub-sequence routed to operator i has every property the text asks for. *)
  Definition exact_ordered_at (i : nat) (d : list ev) : Prop :=
    (* every keyed event of a record whose key the router maps to i: exactly as often as the key-by function
       produced it (once per produced event), and no keyed event of any other key *)
    (forall x kv, count_occ ev_eq_dec d (EK x kv) =
                  if Nat.eqb (route (fst kv)) i then count_occ ev_eq_dec (ideal kb input) (EK x kv) else 0) /\
    (* every marker, as often as it was read *)
    (forall m, count_occ ev_eq_dec d (EM m) = count_occ ev_eq_dec (ideal kb input) (EM m)) /\
    (* same split and same key: the order in which the split produced them (any key routed to i) *)
    (forall sp k, route k = i -> filter (same_split_key sp k) d = filter (same_split_key sp k) (ideal kb input)) /\
    (* a marker read after [pre] and before [post] sits exactly between the events of [pre] and of [post] that are
       routed to i: it overtakes no earlier record and no later record overtakes it *)
    (forall pre m post, ideal kb input = pre ++ EM m :: post ->
                        d = filter (sel route i) pre ++ EM m :: filter (sel route i) post).

  Lemma expected_exact_ordered : forall i, exact_ordered_at i (expected kb route input i).
  Proof.
    intro i. unfold exact_ordered_at, expected. repeat split.
    - intros x kv. rewrite count_filter. reflexivity.
    - intros m. rewrite count_filter. reflexivity.
    - intros sp k Hk. apply filter_filter_imp. intros e He. destruct e as [x kv|m]; [|discriminate].
      unfold same_split_key in He. apply andb_true_iff in He. destruct He as [_ He].
      destruct (list_eq_dec N.eq_dec (fst kv) k) as [Hkv|]; [|discriminate]. unfold sel. rewrite Hkv, Hk. apply Nat.eqb_refl.
    - intros pre m post H. rewrite H, filter_app. reflexivity.
  Qed.

  (* ... and, over all operators: every keyed event at exactly one operator *)
  Lemma one_operator : (forall k, route k < nops) ->
    forall x kv, exists i, i < nops /\
      count_occ ev_eq_dec (expected kb route input i) (EK x kv) = count_occ ev_eq_dec (ideal kb input) (EK x kv) /\
      forall j, j <> i -> count_occ ev_eq_dec (expected kb route input j) (EK x kv) = 0.
  Proof.
    intros Hlt x kv. exists (route (fst kv)). split; [apply Hlt|]. unfold expected. split.
    - rewrite count_filter. cbn. now rewrite Nat.eqb_refl.
    - intros j Hj. rewrite count_filter. cbn.
      destruct (Nat.eqb (route (fst kv)) j) eqn:E; [apply Nat.eqb_eq in E; congruence|reflexivity].
  Qed.
End SpecFacts.

(* ---------------------------------------------------------------- the batched in-order stage satisfies the assumption *)

Section BatchedStage.
  Variable kb : N -> list kev.
  Variable mx : nat.
  Variable delay : bool.
  Let R := batched_stage kb mx delay.

  Lemma batched_inv : forall tr r, rrun R tr r ->
    map kb (ladds R tr) = louts R tr ++ snd r ++ map kb (fst r).
  Proof.
    intros tr r H. induction H as [|tr r x r' H IH E|tr r r' H IH E|tr r a r' H IH E|tr r res r' H IH E].
    - reflexivity.
    - unfold ladds, louts in *. rewrite !flat_map_app. cbn [flat_map app]. rewrite app_nil_r, map_app, IH. cbn in E.
      unfold bs_add in E. inversion E; subst r'; clear E. cbn [fst snd].
      destruct (mx <=? length (fst r ++ [x])); unfold bs_flush; cbn [fst snd map app];
        rewrite ?map_app, <- ?app_assoc; cbn; rewrite ?app_nil_r; reflexivity.
    - unfold ladds, louts in *. rewrite !flat_map_app. cbn [flat_map app]. rewrite !app_nil_r, IH.
      cbn in E. inversion E; subst r'. unfold bs_flush. cbn. now rewrite app_nil_r, app_assoc.
    - unfold ladds, louts in *. rewrite !flat_map_app. cbn [flat_map app]. rewrite !app_nil_r, IH.
      cbn in E. destruct delay; [|discriminate]. destruct (fst r) eqn:Ef; [discriminate|].
      inversion E; subst r'. unfold bs_flush. cbn. rewrite Ef. cbn. now rewrite app_nil_r, app_assoc.
    - unfold ladds, louts in *. rewrite !flat_map_app. cbn [flat_map app]. rewrite !app_nil_r, IH.
      cbn in E. destruct (snd r) eqn:Es; [discriminate|]. inversion E; subst. cbn. now rewrite <- !app_assoc.
  Qed.

  Lemma batched_stage_inorder : rs_inorder kb R.
  Proof. intros tr r H. eexists. apply (batched_inv _ _ H). Qed.
End BatchedStage.

(* ---------------------------------------------------------------- sender_serialises *)

Section Serial.
  Variable kb : N -> list kev.
  Variable R : rstage.
  Variable route : list N -> nat.
  Variables (nops mx : nat) (delay : bool).
  Hypothesis Hin : rs_inorder kb R.
  Variable input : list item.

  (* Between the batcher of operator i and the operator there is at most: one batch held by the sender goroutine
     (being delivered) and, behind it, the full batch the joiner is handing off.  While the joiner is handing a
     batch off the batcher is empty and stays so (a time-out flush finds nothing), hence nothing can overtake the
     hand-off; and everything outside the batcher precedes the batcher's content in operator i's expected stream. *)
  Lemma sender_serialises_lemma : forall sched s,
    run R route nops mx delay (init R input) sched = Some s ->
    (forall j b, s_pc R s = JHand j b -> o_batch (s_ops R s j) = []) /\
    (forall i, i < nops -> exists later,
        expected kb route input i =
        delivered R s i ++ sndb (s_ops R s i) ++ jhand R s i ++ o_batch (s_ops R s i) ++ later).
  Proof.
    intros sched s Hr. pose proof (reachable_Inv kb R route nops mx delay Hin input sched s Hr) as [Hv _ _ Hh].
    split; [exact Hh|]. intros i Hi. eexists. rewrite <- (Hv i Hi). unfold view, inside. reflexivity.
  Qed.
End Serial.

(* ---------------------------------------------------------------- MaxDelay = 0: the tail is stuck *)

(* one record, MaxSize 2, no time-out, the source channel never closed: after the read nothing can move and the
   record's event has not been delivered (the same happens behind any partial batch; finding, code 100) *)
Section Stuck.
  Let kb1 : N -> list kev := fun x => [([x], 0%N)].
  Let R1 := batched_stage kb1 2 false.
  Let rt : list N -> nat := fun _ => 0.

  Lemma delay0_stuck : exists s,
    run R1 rt 1 2 false (init R1 [IRec 7%N]) [ARead R1] = Some s /\
    (forall a, step R1 rt 1 2 false s a = None) /\
    delivered R1 s 0 = [] /\ expected kb1 rt [IRec 7%N] 0 = [EK 7%N ([7%N], 0%N)].
  Proof.
    eexists. split; [reflexivity|]. split; [|split; reflexivity].
    intro a. destruct a as [|a| |i|i t|i|i|i]; reflexivity.
  Qed.
End Stuck.
