(* C06, part 2: what a new operator's database consists of after a rescale, and the witnesses that delimit
   rescale_exact (D21 before its repair; D22 = class recompacted_shared_table, unrepaired). *)
From Coq Require Import List NArith Lia Bool Sorting.Permutation.
From Coq Require Import ZifyN ZifyNat ZifyBool.
From RV Require Import Model.Rescale Proofs.C06_Assign.
Import ListNotations.
Open Scope N_scope.

(* ---------- WAL replay: exactly the owned entries, in order, on top of what was there ---------- *)
Definition payload (e : entry) := (e_key e, e_del e, e_val e).

Lemma replay_spec : forall own es st st', replay own st es = Some st' ->
  s_levels st' = s_levels st /\
  map payload (s_mem st') = rev (map payload (filter (fun e => key_in own (e_key e)) es)) ++ map payload (s_mem st) /\
  s_seq st' = s_seq st + N.of_nat (length (filter (fun e => key_in own (e_key e)) es)) /\
  (forall e, In e (s_mem st') -> In e (s_mem st) \/ (key_in own (e_key e) = true /\ s_seq st < e_seq e)).
Proof.
  intros own es. induction es as [|e es IH]; intros st st' H; cbn [replay] in H.
  - inversion H; subst. cbn [filter map rev app length]. split; [reflexivity|]. split; [reflexivity|]. split; [lia|]. intros e He; left; exact He.
  - cbn [filter]. destruct (key_in own (e_key e)) eqn:Hk.
    + assert (Ho : owns_key own (e_key e) = Some true).
      { unfold key_in in Hk. destruct (owns_key own (e_key e)) as [[|]|]; try discriminate; reflexivity. }
      rewrite Ho in H.
      destruct (IH _ _ H) as (Hl & Hm & Hs & Hin). cbn [db_write s_levels s_mem s_seq] in *.
      split; [exact Hl|]. split; [|split].
      * rewrite Hm. cbn [map rev]. rewrite <- app_assoc. reflexivity.
      * rewrite Hs. cbn [length]. lia.
      * intros x Hx. destruct (Hin x Hx) as [[Hx1|Hx1]|[Hk2 Hq]].
        -- right. subst x. cbn [e_key e_seq]. split; [exact Hk|lia].
        -- left; exact Hx1.
        -- right. split; [exact Hk2|lia].
    + unfold key_in in Hk. destruct (owns_key own (e_key e)) as [[|]|] eqn:Ho; [discriminate Hk|apply IH; exact H|discriminate H].
Qed.

(* ---------- the composite holds exactly the tables and WALs of the given documents ---------- *)
Lemma zip_app_perm : forall a b l, zip_app a b = Some l -> Permutation (concat l) (concat a ++ concat b).
Proof.
  induction a as [|x a IH]; intros b l H; destruct b as [|y b]; cbn [zip_app] in H; try discriminate.
  - inversion H; subst. rewrite app_nil_r. apply Permutation_refl.
  - inversion H; subst. rewrite app_nil_r. apply Permutation_refl.
  - destruct (zip_app a b) as [r|] eqn:Hr; [|discriminate]. inversion H; subst. cbn [concat].
    specialize (IH b r Hr). rewrite <- !app_assoc. apply Permutation_app_head.
    eapply perm_trans; [apply Permutation_app_head; exact IH|].
    rewrite !app_assoc. apply Permutation_app_tail. apply Permutation_app_comm.
Qed.

Definition tables_of (d : ckdoc) : list table := concat (d_levels d).

Lemma merge_into_spec : forall rest c c', merge_into c rest = Some c' ->
  Permutation (tables_of c') (tables_of c ++ flat_map tables_of rest) /\
  d_wals c' = d_wals c ++ flat_map d_wals rest.
Proof.
  induction rest as [|d rest IH]; intros c c' H; cbn [merge_into] in H.
  - inversion H; subst. cbn [flat_map]. rewrite !app_nil_r. split; [apply Permutation_refl|reflexivity].
  - destruct (zip_app (d_levels c) (d_levels d)) as [l|] eqn:Hz; [|discriminate].
    destruct (IH _ _ H) as [Hp Hw]. unfold tables_of in *. cbn [d_levels d_wals flat_map] in *. split.
    + eapply perm_trans; [exact Hp|]. rewrite app_assoc. apply Permutation_app_tail. apply zip_app_perm; exact Hz.
    + rewrite Hw, app_assoc. reflexivity.
Qed.

Lemma ins_table_perm : forall t l, Permutation (ins_table t l) (t :: l).
Proof.
  induction l as [|x l IH]; cbn [ins_table]; [apply Permutation_refl|].
  destruct (bleb (t_start t) (t_start x)); [apply Permutation_refl|].
  eapply perm_trans; [apply perm_skip; exact IH|apply perm_swap].
Qed.
Lemma sort_level_perm : forall l, Permutation (sort_level l) l.
Proof.
  induction l as [|t l IH]; cbn [sort_level fold_right]; [apply perm_nil|].
  eapply perm_trans; [apply ins_table_perm|apply perm_skip; exact IH].
Qed.
Lemma level_list_perm : forall b levels, Permutation (concat (level_list b levels)) (concat levels).
Proof.
  intros b [|l0 deeper]; cbn [level_list]; [apply perm_nil|]. cbn [concat]. apply Permutation_app_head.
  destruct b; [|apply Permutation_refl].
  induction deeper as [|l ls IH]; cbn [map concat]; [apply perm_nil|].
  apply Permutation_app; [apply sort_level_perm|exact IH].
Qed.

Lemma latest_seq_ge : forall levels t, In t (concat levels) -> t_endseq t <= latest_seq levels.
Proof.
  intros levels t. unfold latest_seq. generalize (concat levels) as ts. intros ts.
  assert (G : forall ts acc, acc <= fold_left (fun a t => N.max a (t_endseq t)) ts acc).
  { induction ts0 as [|x ts0 IH]; intros acc; cbn [fold_left]; [lia|]. specialize (IH (N.max acc (t_endseq x))). lia. }
  assert (F : forall ts acc, In t ts -> t_endseq t <= fold_left (fun a t => N.max a (t_endseq t)) ts acc).
  { induction ts0 as [|x ts0 IH]; intros acc Hin; [destruct Hin|]. cbn [fold_left]. destruct Hin as [->|Hin].
    - specialize (G ts0 (N.max acc (t_endseq t))). lia.
    - apply IH; exact Hin. }
  apply F.
Qed.

(* rescale_restores_partial: the database of a new operator after a restore from the documents [docs] (its handles, in
   the order given) contains exactly the tables of those documents (as a multiset: nothing lost, nothing added), its
   memtable holds exactly the OWNED entries of their WALs in handle-then-file order (newest first) and nothing
   foreign, every replayed entry is numbered above every table of the composite, and the counter continues there. *)
Lemma restore_spec : forall sorted own d rest st,
  restore sorted own (d :: rest) = Some st ->
  Permutation (concat (s_levels st)) (flat_map tables_of (d :: rest)) /\
  map payload (s_mem st) = rev (map payload (filter (fun e => key_in own (e_key e)) (concat (flat_map d_wals (d :: rest))))) /\
  (forall e, In e (s_mem st) -> key_in own (e_key e) = true) /\
  (forall e t, In e (s_mem st) -> In t (concat (s_levels st)) -> t_endseq t < e_seq e) /\
  (forall t, In t (concat (s_levels st)) -> t_endseq t <= s_seq st).
Proof.
  intros sorted own d rest st H. unfold restore in H.
  destruct (merge_into d rest) as [c|] eqn:Hm; [|discriminate].
  destruct (merge_into_spec _ _ _ Hm) as [Hp Hw].
  destruct (replay_spec _ _ _ _ H) as (Hl & Hmem & Hseq & Hin). cbn [s_levels s_mem s_seq] in *.
  rewrite Hl. split; [|split; [|split; [|split]]].
  - eapply perm_trans; [apply level_list_perm|]. exact Hp.
  - rewrite Hmem, app_nil_r, Hw. reflexivity.
  - intros e He. destruct (Hin e He) as [[]|[Hk _]]. exact Hk.
  - intros e t He Ht. destruct (Hin e He) as [[]|[_ Hq]]. pose proof (latest_seq_ge _ _ Ht). lia.
  - intros t Ht. pose proof (latest_seq_ge _ _ Ht). lia.
Qed.

(* ---------- D21: before the repair (levels not sorted) a clean scale-in lost flushed state ---------- *)
Definition kA1 : bytes := [0;0;1].  Definition kA2 : bytes := [0;0;2].
Definition kB1 : bytes := [0;1;1;0].  Definition kB2 : bytes := [0;1;2;0].
Definition docA : ckdoc := mkD [[]; [mkT 1 kA1 kA2 2 [mkE kA1 1 false 11; mkE kA2 2 false 12]]] [[]].
Definition docB : ckdoc := mkD [[]; [mkT 2 kB1 kB2 2 [mkE kB1 1 false 21; mkE kB2 2 false 22]]] [[]].
(* two operators, two key groups, acknowledgements recorded [op1, op0], restart with one operator *)
Definition d21_recorded : list (kgrange * ckdoc) := [((1, 2), docB); ((0, 1), docA)].

Lemma d21_unsorted_refuted :
  Permutation (map fst d21_recorded) (kg_ranges 2 2) /\ forallb doc_clean d21_recorded = true /\
  match restore_new false 2 1 d21_recorded 0, restore false (0, 1) [docA] with
  | Some st, Some stA => scan_prefix stA [0;0] = [(kA1, 11); (kA2, 12)] /\ scan_prefix st [0;0] = []
  | _, _ => False
  end.
Proof. split; [apply perm_swap|]. split; vm_compute; [reflexivity|split; reflexivity]. Qed.

Lemma d21_sorted_ok :
  match restore_new true 2 1 d21_recorded 0 with
  | Some st => scan_prefix st [0;0] = [(kA1, 11); (kA2, 12)] /\ scan_prefix st [0;1] = [(kB1, 21); (kB2, 22)]
  | None => False
  end.
Proof. vm_compute. split; reflexivity. Qed.

(* ---------- D22: the full statement is false of the repaired code (class recompacted_shared_table) ---------- *)
(* after a scale-out 1 -> 2 both operators held table 1 = {kA1, kA2, kB1}; operator 1 (key group 1) re-compacted it
   together with its new write kB2 into table 2, operator 0 kept table 1.  Scale-in 2 -> 1, acknowledgements [op1, op0]:
   the level is [table 2; table 1] (equal start keys), the binary search for prefix [0;1;2] probes table 1 (ends
   before the prefix), moves right and finds nothing: kB2 is lost although its old owner had it. *)
Definition docB' : ckdoc := mkD [[]; [mkT 2 kA1 kB2 4 [mkE kA1 1 false 11; mkE kA2 2 false 12; mkE kB1 3 false 21; mkE kB2 4 false 22]]] [[]].
Definition docA' : ckdoc := mkD [[]; [mkT 1 kA1 kB1 3 [mkE kA1 1 false 11; mkE kA2 2 false 12; mkE kB1 3 false 21]]] [[]].
Definition d22_recorded : list (kgrange * ckdoc) := [((1, 2), docB'); ((0, 1), docA')].

(* "each new operator sees, for the keys it owns, exactly the state the old owner had": as a proposition on the model *)
Definition sees_old_state (count n : N) (recorded : list (kgrange * ckdoc)) (i : nat) (p : bytes) : Prop :=
  forall j r d, nth_error recorded j = Some (r, d) ->
    (forall k, is_prefix p k = true -> key_in r k = true) ->       (* the prefix belongs to old operator j ... *)
    (forall k, is_prefix p k = true -> key_in (nth i (kg_ranges count n) (0, 0)) k = true) ->  (* ... and to new operator i *)
    match restore_new true count n recorded i, restore true r [d] with
    | Some st, Some st_old => scan_prefix st p = scan_prefix st_old p
    | _, _ => False
    end.

Definition class_witness (count n : N) (recorded : list (kgrange * ckdoc)) (i : nat) : bool :=
  match pick recorded (nth i (assign_ranges (kg_ranges count n) (map fst recorded)) []) with
  | Some (d :: rest) => match merge_into (snd d) (map snd rest) with
                        | Some c => overlapping_level (d_levels c)
                        | None => false end
  | _ => false
  end.

Lemma rescale_exact_refuted_lemma :
  exists count n recorded i p,
    Permutation (map fst recorded) (kg_ranges count 2) /\
    ~ sees_old_state count n recorded i p /\
    (* the witness lies in the class of the known finding, and outside the clean inputs *)
    class_witness count n recorded i = true /\ forallb doc_clean recorded = false.
Proof.
  - exists 2, 1, d22_recorded, 0%nat, [0;1;2]. split; [apply perm_swap|]. split; [|split; vm_compute; reflexivity].
    intros H. specialize (H 0%nat (1, 2) docB' eq_refl).
    assert (Hk : forall r, (r = (1, 2) \/ r = (0, 2)) -> forall k, is_prefix [0;1;2] k = true -> key_in r k = true).
    { intros r Hr k Hp. destruct k as [|b0 k]; [discriminate Hp|]. destruct k as [|b1 k].
      - cbn [is_prefix] in Hp. rewrite andb_false_r in Hp. discriminate Hp.
      - cbn [is_prefix] in Hp. apply andb_true_iff in Hp. destruct Hp as [E0 Hp]. apply andb_true_iff in Hp. destruct Hp as [E1 _].
        apply N.eqb_eq in E0, E1. subst b0 b1. destruct Hr; subst r; reflexivity. }
    specialize (H (Hk _ (or_introl eq_refl)) (Hk _ (or_intror eq_refl))).
    vm_compute in H. discriminate.
Qed.
