(* C03: restore over the LSM model without a hypothesis, composing C07 (reads of the LSM under any schedule) with C08
   (a checkpoint reopened = the database at the call) through the specification map.

   The DKV is the pair (LSM model, durability model) of Model/StateStoreCkpt.v. Invariant of every state: the LSM side
   has C07's invariant and no read in flight, the durable side is a database that can exist in the sense of C08
   ([reach]), and both hold the same map: sm_get k (absm lsm) = db_get durable k for every key. *)
From Coq Require Import List NArith Bool Lia.
From RV Require Import Model.StateStore Model.StateStoreLsm Model.StateStoreCkpt Proofs.C03_Codec Proofs.C03_Store Proofs.C03_OverLsm.
From RV Require Model.LsmBase Model.LsmCompaction Model.Lsm Model.Ckpt.
From RV Require Proofs.C07_Sorted Proofs.C07_Spec Proofs.C07_Refine Proofs.C08_Ckpt.
Import ListNotations.
Open Scope N_scope.

(* ---------------------------------------------------------------- reloading a map into a new LSM *)

Lemma fold_put_get (m : C07_Spec.smap) : forall acc k,
  C07_Spec.ksorted m -> C07_Spec.ksorted acc ->
  Lsm.sm_get k (fold_left (fun a kv => Lsm.sm_put (fst kv) (snd kv) a) m acc) =
  match Lsm.sm_get k m with Some v => Some v | None => Lsm.sm_get k acc end /\
  C07_Spec.ksorted (fold_left (fun a kv => Lsm.sm_put (fst kv) (snd kv) a) m acc).
Proof.
  induction m as [|[k1 v1] m IH]; intros acc k Hm Ha; cbn [fold_left fst snd].
  - split; [reflexivity|exact Ha].
  - cbn in Hm. destruct Hm as [H1 H2].
    destruct (IH (Lsm.sm_put k1 v1 acc) k H2 (C07_Spec.sm_put_sorted k1 v1 acc Ha)) as [E S]. split; [|exact S].
    rewrite E, C07_Spec.sm_get_cons. cbn [fst snd]. rewrite C07_Spec.sm_put_get by exact Ha.
    destruct (beqb k1 k) eqn:B.
    + apply beqb_eq in B. subst k1. rewrite (C07_Spec.sm_get_none_lt k m); [reflexivity|]. intros y Hy. exact (H1 y Hy).
    + reflexivity.
Qed.

Lemma fold_put_id (m : C07_Spec.smap) :
  C07_Spec.ksorted m -> fold_left (fun a kv => Lsm.sm_put (fst kv) (snd kv) a) m [] = m.
Proof.
  intros Hm. apply C07_Spec.kv_ext; [apply (fold_put_get m [] [] Hm I)|exact Hm|].
  intros k. destruct (fold_put_get m [] k Hm I) as [E _]. rewrite E. destruct (Lsm.sm_get k m); reflexivity.
Qed.

Section Restore.
  Variable cfg : Lsm.dbcfg.
  Hypothesis Hcfg : C07_Refine.cfg_ok cfg.

  Lemma load_from (m : list (bytes * bytes)) : forall st, good st ->
    good (fold_left (fun st kv => fst (Lsm.write cfg st (fst kv) (snd kv) false)) m st) /\
    C07_Refine.absm (fold_left (fun st kv => fst (Lsm.write cfg st (fst kv) (snd kv) false)) m st) =
    fold_left (fun a kv => Lsm.sm_put (fst kv) (snd kv) a) m (C07_Refine.absm st).
  Proof.
    induction m as [|[k v] m IH]; intros st [HI Hrd]; cbn [fold_left fst snd]; [split; [split; assumption|reflexivity]|].
    destruct (Lsm.write cfg st k v false) as [st' rot] eqn:W. cbn [fst].
    destruct (C07_Refine.write_ok cfg st k v false st' rot HI Hrd ltac:(discriminate) W) as (J1 & J2 & J3).
    destruct (IH st' (conj J1 J3)) as [G E]. split; [exact G|]. now rewrite E, J2.
  Qed.

  (* the reloaded LSM has the invariant and serves exactly the map it was given *)
  Lemma lsm_load_spec st : good st ->
    good (lsm_load cfg (C07_Refine.absm st)) /\ C07_Refine.absm (lsm_load cfg (C07_Refine.absm st)) = C07_Refine.absm st.
  Proof.
    intros _. unfold lsm_load. destruct (load_from (C07_Refine.absm st) (Lsm.init cfg) (init_good cfg Hcfg)) as [G E].
    split; [exact G|]. rewrite E, (C07_Refine.absm_init cfg Hcfg). apply fold_put_id. apply C07_Refine.absm_sorted.
  Qed.

  (* ---------------------------------------------------------------- the durable side *)

  Lemma ckpt_reopen_spec d : C08_Ckpt.reach d ->
    C08_Ckpt.reach (ckpt_reopen d) /\ forall k, Ckpt.db_get (ckpt_reopen d) k = Ckpt.db_get d k.
  Proof.
    intros R. unfold ckpt_reopen.
    destruct (C08_Ckpt.checkpoint_exact_db d Ckpt.OwnAll (Ckpt.d_mem d) (Ckpt.d_walmax d) R) as (es & E & R' & G & _).
    rewrite E. split; [exact R'|]. intros k. apply G. reflexivity.
  Qed.

  (* ---------------------------------------------------------------- the pair *)

  Definition agree (x : pair_raw) : Prop :=
    good (fst (fst x)) /\ C08_Ckpt.reach (snd x) /\
    forall k, Lsm.sm_get k (C07_Refine.absm (fst (fst x))) = Ckpt.db_get (snd x) k.

  Lemma pair_put_ok k v x : agree x -> agree (pair_put cfg k v x).
  Proof.
    intros (G & R & A). unfold agree, pair_put. cbn [fst snd].
    destruct (raw_put_spec cfg Hcfg k v (fst x) G) as [G' E]. split; [exact G'|].
    split; [exact (C08_Ckpt.reach_act (snd x) (C08_Ckpt.AWrite k false v) R I)|].
    intros k'. rewrite E, <- lsm_sm_put_eq, C07_Spec.sm_put_get by apply C07_Refine.absm_sorted.
    rewrite (C08_Ckpt.db_write_get _ k false v k' (C08_Ckpt.reach_inv _ R)), A.
    rewrite (C07_Sorted.beqb_sym k k'). reflexivity.
  Qed.

  Lemma pair_del_ok k x : agree x -> agree (pair_del cfg k x).
  Proof.
    intros (G & R & A). unfold agree, pair_del. cbn [fst snd].
    destruct (raw_del_spec cfg Hcfg k (fst x) G) as [G' E]. split; [exact G'|].
    split; [exact (C08_Ckpt.reach_act (snd x) (C08_Ckpt.AWrite k true []) R I)|].
    intros k'. rewrite E, <- lsm_sm_del_eq, C07_Spec.sm_del_get by apply C07_Refine.absm_sorted.
    rewrite (C08_Ckpt.db_write_get _ k true [] k' (C08_Ckpt.reach_inv _ R)), A.
    rewrite (C07_Sorted.beqb_sym k k'). reflexivity.
  Qed.

  Lemma pair_scan_ok p x : agree x -> agree (snd (pair_scan cfg p x)).
  Proof.
    intros (G & R & A). unfold agree, pair_scan. cbn [fst snd].
    destruct (raw_scan_spec cfg Hcfg p (fst x) G) as (_ & G' & E). split; [exact G'|]. split; [exact R|].
    intros k. rewrite E. apply A.
  Qed.

  (* redeploy: the reloaded LSM serves the map of the barrier, and that is the content of the database C08 reopens *)
  Lemma pair_restore_ok cur saved : agree saved -> agree (pair_restore cfg C07_Refine.absm cur saved).
  Proof.
    intros (G & R & A). unfold agree, pair_restore. cbn [fst snd].
    destruct (lsm_load_spec _ G) as [G' E]. destruct (ckpt_reopen_spec _ R) as [R' D].
    split; [exact G'|]. split; [exact R'|]. intros k. rewrite E, D. apply A.
  Qed.

  Definition pair_st : Type := { x : pair_raw | agree x }.

  Definition pkv_put (k v : bytes) (s : pair_st) : pair_st := exist _ _ (pair_put_ok k v _ (proj2_sig s)).
  Definition pkv_del (k : bytes) (s : pair_st) : pair_st := exist _ _ (pair_del_ok k _ (proj2_sig s)).
  Definition pkv_scan (p : bytes) (s : pair_st) : option kvlist * pair_st :=
    (Some (fst (pair_scan cfg p (proj1_sig s))), exist _ _ (pair_scan_ok p _ (proj2_sig s))).
  Definition pkv_restore (cur saved : pair_st) : pair_st :=
    exist _ _ (pair_restore_ok (proj1_sig cur) _ (proj2_sig saved)).

  Definition pair_kv : KV :=
    {| kv_st := pair_st; kv_put := pkv_put; kv_del := pkv_del; kv_scan := pkv_scan; kv_restore := pkv_restore |}.

  Definition pair_contents (s : pair_st) : kvlist := C07_Refine.absm (fst (fst (proj1_sig s))).
  Definition durable (s : pair_st) : Ckpt.dbc := snd (proj1_sig s).

  Lemma init_agree sc mem wm : agree ((Lsm.init cfg, sc), Ckpt.db_new mem wm).
  Proof.
    split; [exact (init_good cfg Hcfg)|]. split; [apply C08_Ckpt.reach_new|].
    intros k. cbn [fst snd]. rewrite (C07_Refine.absm_init cfg Hcfg). reflexivity.
  Qed.

  (* a new database: empty LSM with any schedule ahead, empty durable side with any sizes *)
  Definition pair_init (sc : schedule) (mem wm : N) : pair_st := exist _ _ (init_agree sc mem wm).

  Lemma pair_refines_sorted_map :
    (forall k v s, pair_contents (kv_put pair_kv k v s) = StateStore.sm_put k v (pair_contents s)) /\
    (forall k s, pair_contents (kv_del pair_kv k s) = StateStore.sm_del k (pair_contents s)) /\
    (forall p s, fst (kv_scan pair_kv p s) = Some (StateStore.sm_scan p (pair_contents s)) /\
                 pair_contents (snd (kv_scan pair_kv p s)) = pair_contents s) /\
    (forall cur s, pair_contents (kv_restore pair_kv cur s) = pair_contents s).
  Proof.
    unfold pair_contents. repeat split.
    - intros k v [x (G & R & A)]. cbn. apply (raw_put_spec cfg Hcfg). exact G.
    - intros k [x (G & R & A)]. cbn. apply (raw_del_spec cfg Hcfg). exact G.
    - destruct s as [x (G & R & A)]. cbn. f_equal. apply (raw_scan_spec cfg Hcfg). exact G.
    - destruct s as [x (G & R & A)]. cbn. apply (raw_scan_spec cfg Hcfg). exact G.
    - intros [c Hc] [x (G & R & A)]. cbn. apply lsm_load_spec. exact G.
  Qed.

  (* Every history with checkpoints and redeploys, every flush / compaction schedule before and after them: the
     operator over the pair never panics, the handler-visible trace is the specification machine's (after a redeploy:
     the fold of the mutations up to the barrier of the restored checkpoint, then of those since), and at the end
     (hence, histories being arbitrary, at every moment) the map served equals, key by key, the content of the durable
     database - which went through C08's Checkpoint capture and table-load + WAL-replay at every redeploy - and that
     database is one that can exist in the sense of C08. *)
  Theorem restore_over_lsm kgf accept h steps sc mem wm :
    handler_ok h -> Forall step_ok steps ->
    exists y, StateStore.run pair_kv kgf accept h (init_sys pair_kv (pair_init sc mem wm)) steps = Some y /\
              sy_trace y = o_trace (o_run h o_init steps) /\
              C08_Ckpt.reach (durable (sy_db y)) /\
              forall k, Lsm.sm_get k (pair_contents (sy_db y)) = Ckpt.db_get (durable (sy_db y)) k.
  Proof.
    intros Hh Hs. destruct pair_refines_sorted_map as (Hp & Hd & Hsc & Hr).
    destruct (refines_per_key_map pair_kv pair_contents Hp Hd) with (kgf := kgf) (accept := accept) (h := h) (steps := steps)
      (s0 := pair_init sc mem wm) as (y & E & T); try assumption.
    - intros p s. destruct (Hsc p s) as [E1 E2]. split; [|exact E2]. rewrite E1. intros l [= <-]. reflexivity.
    - intros p s. destruct (Hsc p s) as [E1 _]. rewrite E1. discriminate.
    - unfold pair_contents, pair_init. cbn. apply C07_Refine.absm_init. exact Hcfg.
    - exists y. split; [exact E|]. split; [exact T|].
      destruct (sy_db y) as [x (G & R & A)]. unfold durable, pair_contents. cbn [proj1_sig]. split; [exact R|exact A].
  Qed.
End Restore.
