(* SearchUnique: the repaired half-open binary search finds the (unique) matching element of a slice sorted relative to the
   target; the code before the repair (high = i - 1) does not. *)
From Coq Require Import Sorted.
From RV Require Import Base.Bytes Model.Search.
From Coq Require Import ZifyN ZifyNat ZifyBool.
Ltac Zify.zify_post_hook ::= Z.div_mod_to_equations.
Open Scope nat_scope.

Section SearchProofs.
  Context {E T : Type} (cmp : E -> T -> comparison).

  (* x is strictly sorted relative to target t: for positions i < j, either x[i] is below the target or x[j] is above it
     (so at most one element matches, everything before it is below and everything after it is above) *)
  Definition sorted_for (t : T) (x : list E) : Prop :=
    forall i j ei ej, i < j -> nth_error x i = Some ei -> nth_error x j = Some ej -> cmp ei t = Lt \/ cmp ej t = Gt.

  Lemma div2_mid low high : low < high -> low <= Nat.div2 (low + high) < high.
  Proof. intros H. rewrite Nat.div2_div. lia. Qed.

  Lemma su_loop_spec (x : list E) (t : T) (Hs : sorted_for t x) :
    forall fuel low high,
      high - low < fuel -> low <= high -> high <= length x ->
      (forall k e, k < low -> nth_error x k = Some e -> cmp e t = Lt) ->
      (forall k e, high <= k -> nth_error x k = Some e -> cmp e t = Gt) ->
      match su_loop cmp fuel x t low high with
      | Some i => exists e, nth_error x i = Some e /\ cmp e t = Eq
      | None => forall k e, nth_error x k = Some e -> cmp e t <> Eq
      end.
  Proof.
    induction fuel as [|f IH]; intros low high Hf Hlh Hlen Hlo Hhi; [lia|].
    cbn [su_loop]. destruct (low <? high) eqn:Hlt.
    - apply Nat.ltb_lt in Hlt. pose proof (div2_mid low high Hlt) as Hmid.
      set (i := Nat.div2 (low + high)) in *.
      destruct (nth_error x i) as [e|] eqn:Hnth.
      2:{ apply nth_error_None in Hnth. lia. }
      destruct (cmp e t) eqn:Hc.
      + exists e. split; assumption.
      + apply IH; try lia.
        * intros k e' Hk Hke'. destruct (Nat.eq_dec k i) as [->|Hne].
          -- congruence.
          -- assert (Hki : k < i) by lia. destruct (Hs k i e' e Hki Hke' Hnth) as [H|H]; [exact H|congruence].
        * exact Hhi.
      + apply IH; try lia.
        * exact Hlo.
        * intros k e' Hk Hke'. destruct (Nat.eq_dec k i) as [->|Hne].
          -- congruence.
          -- assert (Hik : i < k) by lia. destruct (Hs i k e e' Hik Hnth Hke') as [H|H]; [congruence|exact H].
    - apply Nat.ltb_ge in Hlt. intros k e Hke Heq.
      destruct (Nat.lt_ge_cases k low) as [Hk|Hk].
      + rewrite (Hlo k e Hk Hke) in Heq. discriminate.
      + assert (Hk' : high <= k) by lia. rewrite (Hhi k e Hk' Hke) in Heq. discriminate.
  Qed.

  Lemma search_unique_sound (x : list E) (t : T) : sorted_for t x ->
    match search_unique cmp x t with
    | Some i => exists e, nth_error x i = Some e /\ cmp e t = Eq
    | None => forall k e, nth_error x k = Some e -> cmp e t <> Eq
    end.
  Proof.
    intros Hs. unfold search_unique. apply su_loop_spec; [exact Hs|lia|lia|lia| |].
    - intros k e Hk. lia.
    - intros k e Hk Hke. assert (nth_error x k = None) by (apply nth_error_None; lia). congruence.
  Qed.

  (* full strength: the result is Some i exactly when x[i] matches the target *)
  Theorem search_unique_finds_gen (x : list E) (t : T) : sorted_for t x ->
    forall i, search_unique cmp x t = Some i <-> exists e, nth_error x i = Some e /\ cmp e t = Eq.
  Proof.
    intros Hs i. pose proof (search_unique_sound x t Hs) as H. split.
    - intros Hr. rewrite Hr in H. exact H.
    - intros [e [Hnth Heq]]. destruct (search_unique cmp x t) as [j|] eqn:Hr.
      + destruct H as [e' [Hnth' Heq']]. f_equal.
        destruct (Nat.lt_trichotomy j i) as [Hji|[Hji|Hji]]; [|exact Hji|].
        * destruct (Hs j i e' e Hji Hnth' Hnth) as [H1|H1]; congruence.
        * destruct (Hs i j e e' Hji Hnth Hnth') as [H1|H1]; congruence.
      + exfalso. exact (H i e Hnth Heq).
  Qed.

  Corollary search_unique_none (x : list E) (t : T) : sorted_for t x ->
    (search_unique cmp x t = None <-> forall e, In e x -> cmp e t <> Eq).
  Proof.
    intros Hs. pose proof (search_unique_sound x t Hs) as H. split.
    - intros Hr e Hin. rewrite Hr in H. apply In_nth_error in Hin as [k Hk]. exact (H k e Hk).
    - intros Hno. destruct (search_unique cmp x t) as [j|]; [|reflexivity].
      destruct H as [e [Hnth Heq]]. exfalso. apply (Hno e); [eapply nth_error_In; eassumption|exact Heq].
  Qed.
End SearchProofs.

(* ---- instances ---- *)
Lemma StronglySorted_nth {A} (R : A -> A -> Prop) (l : list A) : StronglySorted R l ->
  forall i j a b, i < j -> nth_error l i = Some a -> nth_error l j = Some b -> R a b.
Proof.
  induction 1 as [|x l Hs IH Hall]; intros i j a b Hij Ha Hb.
  - destruct i; discriminate.
  - destruct j as [|j]; [lia|]. destruct i as [|i].
    + cbn in Ha. injection Ha as <-. cbn in Hb. apply nth_error_In in Hb.
      rewrite Forall_forall in Hall. auto.
    + cbn in Ha, Hb. eapply IH; [|eassumption|eassumption]. lia.
Qed.

(* a strictly increasing slice of numbers (the textbook case) *)
Lemma sorted_for_N (x : list N) (t : N) : StronglySorted N.lt x -> sorted_for N.compare t x.
Proof.
  intros Hs i j ei ej Hij Hi Hj. pose proof (StronglySorted_nth _ _ Hs i j ei ej Hij Hi Hj) as Hlt.
  destruct (N.compare_spec ei t) as [->|H|H]; [right|left; reflexivity|right].
  - apply N.compare_gt_iff. exact Hlt.
  - apply N.compare_gt_iff. lia.
Qed.

Theorem search_unique_finds_N (x : list N) (t : N) : StronglySorted N.lt x ->
  forall i, search_unique N.compare x t = Some i <-> nth_error x i = Some t.
Proof.
  intros Hs i. rewrite (search_unique_finds_gen N.compare x t (sorted_for_N x t Hs)). split.
  - intros [e [Hn He]]. apply N.compare_eq in He. congruence.
  - intros Hn. exists t. split; [exact Hn|apply N.compare_refl].
Qed.

(* the use in the LSM: tables of a level with disjoint ascending key ranges, Table.RangeKeyCompare *)
Definition ranges_ok (tbls : list (bytes * bytes)) : Prop :=
  Forall (fun tb => bcmp (fst tb) (snd tb) <> Gt) tbls /\ StronglySorted (fun a b => bcmp (snd a) (fst b) = Lt) tbls.
Definition in_range (tb : bytes * bytes) (key : bytes) : Prop := bcmp (fst tb) key <> Gt /\ bcmp (snd tb) key <> Lt.

Lemma range_key_compare_eq tb key : range_key_compare tb key = Eq <-> in_range tb key.
Proof.
  unfold range_key_compare, in_range. destruct (bcmp (fst tb) key), (bcmp (snd tb) key); split; intros H;
    first [reflexivity | discriminate H | (split; discriminate) | (destruct H as [H1 H2]; congruence)].
Qed.

Lemma bcmp_gt_lt a b : bcmp a b = Gt <-> bcmp b a = Lt.
Proof. rewrite (bcmp_antisym a b). destruct (bcmp a b); cbn; split; congruence. Qed.

Lemma bcmp_le_lt_trans a b c : bcmp a b <> Gt -> bcmp b c = Lt -> bcmp a c = Lt.
Proof.
  intros Hab Hbc. destruct (bcmp a b) eqn:E; [| |congruence].
  - apply bcmp_eq in E. subst. exact Hbc.
  - eapply bcmp_lt_trans; eassumption.
Qed.

Lemma sorted_for_ranges tbls key : ranges_ok tbls -> sorted_for range_key_compare key tbls.
Proof.
  intros [Hwf Hs] i j ei ej Hij Hi Hj.
  pose proof (StronglySorted_nth _ _ Hs i j ei ej Hij Hi Hj) as Hlt.   (* end_i < start_j *)
  cbn beta in Hlt.
  unfold range_key_compare.
  destruct (bcmp (fst ej) key) eqn:Esj; [| |right; reflexivity].
  - (* start_j = key: end_i < key *)
    apply bcmp_eq in Esj. subst key. left.
    rewrite Forall_forall in Hwf. pose proof (Hwf ei (nth_error_In _ _ Hi)) as Hwi.
    assert (Hsi : bcmp (fst ei) (fst ej) = Lt) by (eapply bcmp_le_lt_trans; eassumption).
    rewrite Hsi, Hlt. reflexivity.
  - (* start_j < key: end_i < start_j < key *)
    left. assert (He : bcmp (snd ei) key = Lt) by (eapply bcmp_lt_trans; eassumption).
    rewrite Forall_forall in Hwf. pose proof (Hwf ei (nth_error_In _ _ Hi)) as Hwi.
    assert (Hsi : bcmp (fst ei) key = Lt) by (eapply bcmp_le_lt_trans; eassumption).
    rewrite Hsi, He. reflexivity.
Qed.

Theorem search_unique_finds_range tbls key : ranges_ok tbls ->
  forall i, search_unique range_key_compare tbls key = Some i <-> exists tb, nth_error tbls i = Some tb /\ in_range tb key.
Proof.
  intros Hok i. rewrite (search_unique_finds_gen range_key_compare tbls key (sorted_for_ranges tbls key Hok)).
  split; intros [tb [Hn H]]; exists tb; (split; [exact Hn|]); apply range_key_compare_eq; exact H.
Qed.

(* ---- history: the code before the repair ---- *)
Open Scope N_scope.
Theorem search_unique_old_refuted :
  exists (x : list N) (t : N), StronglySorted N.lt x /\ In t x /\ search_unique_old N.compare x t = None.
Proof.
  exists [0; 10], 0. split; [|split].
  - repeat constructor.
  - left; reflexivity.
  - vm_compute. reflexivity.
Qed.
