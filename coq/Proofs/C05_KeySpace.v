(* Proofs for C05: key-group ranges, lookup table, stored-key prefixes, ownership. Stdlib only. *)
From RV Require Import Model.KeyCodec.
From Coq Require Import ZifyN ZifyNat ZifyBool Lia.
Open Scope N_scope.

(* start of range i: the first [bigger] ranges have [minKG + 1] groups *)
Definition rstart (bigger minKG i : N) : N := i * minKG + N.min i bigger.

Lemma rstart_succ bigger minKG i :
  rstart bigger minKG i + minKG + (if i <? bigger then 1 else 0) = rstart bigger minKG (i + 1).
Proof.
  unfold rstart. rewrite N.mul_add_distr_r, N.mul_1_l.
  destruct (N.ltb_spec i bigger); lia.
Qed.

Lemma rstart_mono bigger minKG i j : i <= j -> rstart bigger minKG i <= rstart bigger minKG j.
Proof.
  intros H. unfold rstart.
  apply N.add_le_mono; [apply N.mul_le_mono_r; exact H | lia].
Qed.

Lemma kg_ranges_loop_spec todo : forall i bigger minKG,
  kg_ranges_loop todo i (rstart bigger minKG i) bigger minKG =
  map (fun j => (rstart bigger minKG (i + N.of_nat j), rstart bigger minKG (i + N.of_nat j + 1))) (seq 0 todo).
Proof.
  induction todo as [|todo IH]; intros i bigger minKG; [reflexivity|].
  cbn [kg_ranges_loop seq map]. rewrite rstart_succ.
  change (N.of_nat 0) with 0. rewrite N.add_0_r. f_equal.
  rewrite IH. rewrite <- seq_shift, map_map. apply map_ext. intros j.
  replace (i + 1 + N.of_nat j) with (i + N.of_nat (S j)) by lia. reflexivity.
Qed.

Definition rs_start (count n : N) (i : N) : N := rstart (count mod n) (count / n) i.

Lemma kg_ranges_spec count n :
  kg_ranges count n = map (fun j => (rs_start count n (N.of_nat j), rs_start count n (N.of_nat j + 1))) (seq 0 (N.to_nat n)).
Proof.
  unfold kg_ranges, rs_start.
  replace 0 with (rstart (count mod n) (count / n) 0) at 2 by (unfold rstart; lia).
  rewrite kg_ranges_loop_spec. apply map_ext. intros j. rewrite N.add_0_l. reflexivity.
Qed.

Lemma kg_ranges_length count n : length (kg_ranges count n) = N.to_nat n.
Proof. rewrite kg_ranges_spec, map_length, seq_length. reflexivity. Qed.

Lemma nth_map_seq {A} (f : nat -> A) (d : A) m i : (i < m)%nat -> nth i (map f (seq 0 m)) d = f i.
Proof.
  intros H. rewrite (nth_indep _ d (f O)) by (rewrite map_length, seq_length; exact H).
  rewrite (map_nth f (seq 0 m) O i). rewrite seq_nth by exact H. reflexivity.
Qed.

Lemma kg_ranges_nth count n i : (i < N.to_nat n)%nat ->
  nth i (kg_ranges count n) (0, 0) = (rs_start count n (N.of_nat i), rs_start count n (N.of_nat i + 1)).
Proof. intros H. rewrite kg_ranges_spec. rewrite nth_map_seq by exact H. reflexivity. Qed.

Lemma rs_start_0 count n : rs_start count n 0 = 0.
Proof. unfold rs_start, rstart. lia. Qed.

Lemma rs_start_n count n : 0 < n -> rs_start count n n = count.
Proof.
  intros H. unfold rs_start, rstart.
  assert (count mod n < n) by (apply N.mod_lt; lia).
  rewrite N.min_r by lia. rewrite (N.mul_comm n (count / n)). rewrite (N.mul_comm (count / n) n). symmetry. apply N.div_mod. lia.
Qed.

Lemma rs_start_mono count n i j : i <= j -> rs_start count n i <= rs_start count n j.
Proof. apply rstart_mono. Qed.

Lemma rs_size count n i :
  rs_start count n (i + 1) - rs_start count n i = count / n + (if i <? count mod n then 1 else 0).
Proof.
  unfold rs_start. rewrite <- rstart_succ.
  generalize (rstart (count mod n) (count / n) i) (count / n). intros a b.
  destruct (i <? count mod n); lia.
Qed.

(* every group below the total lies in exactly one range *)
Lemma range_exists (f : N -> N) (kg : N) : forall m : nat,
  f 0 <= kg -> kg < f (N.of_nat m) -> exists j : nat, (j < m)%nat /\ f (N.of_nat j) <= kg /\ kg < f (N.of_nat j + 1).
Proof.
  induction m as [|m IH]; intros H0 Hm.
  - cbn in Hm. lia.
  - destruct (N.ltb_spec kg (f (N.of_nat m))) as [Hlt|Hge].
    + destruct (IH H0 Hlt) as (j & Hj & Hr). exists j. split; [lia|exact Hr].
    + exists m. split; [lia|]. split; [exact Hge|].
      replace (N.of_nat m + 1) with (N.of_nat (S m)) by lia. exact Hm.
Qed.

Lemma group_in_some_range count n kg : 0 < n -> kg < count ->
  exists j : nat, (j < N.to_nat n)%nat /\ includes_kg (nth j (kg_ranges count n) (0,0)) kg = true.
Proof.
  intros Hn Hkg.
  destruct (range_exists (rs_start count n) kg (N.to_nat n)) as (j & Hj & Hlo & Hhi).
  - rewrite rs_start_0. lia.
  - rewrite N2Nat.id, rs_start_n by exact Hn. exact Hkg.
  - exists j. split; [exact Hj|]. rewrite kg_ranges_nth by exact Hj.
    unfold includes_kg. cbn [fst snd]. lia.
Qed.

Lemma range_unique count n kg i j : (i < N.to_nat n)%nat -> (j < N.to_nat n)%nat ->
  includes_kg (nth i (kg_ranges count n) (0,0)) kg = true ->
  includes_kg (nth j (kg_ranges count n) (0,0)) kg = true -> i = j.
Proof.
  intros Hi Hj. rewrite !kg_ranges_nth by assumption. unfold includes_kg. cbn [fst snd]. intros A B.
  destruct (Nat.lt_trichotomy i j) as [L|[E|L]]; [exfalso| exact E | exfalso].
  - pose proof (rs_start_mono count n (N.of_nat i + 1) (N.of_nat j)). lia.
  - pose proof (rs_start_mono count n (N.of_nat j + 1) (N.of_nat i)). lia.
Qed.

(* ---- the lookup table ---- *)

Lemma fill_span_length t : forall len v, (len <= length t)%nat -> length (fill_span t len v) = length t.
Proof.
  induction t as [|x t IH]; intros [|len] v H; cbn in *; try reflexivity; try lia.
  rewrite IH by lia. reflexivity.
Qed.

Lemma fill_span_nth t : forall len v k, (len <= length t)%nat ->
  nth k (fill_span t len v) 0 = if (k <? len)%nat then v else nth k t 0.
Proof.
  induction t as [|x t IH]; intros [|len] v k H; cbn [fill_span length] in *; try lia.
  - destruct k; reflexivity.
  - reflexivity.
  - destruct k as [|k]; cbn [nth]; [reflexivity|]. rewrite IH by lia.
    change (S k <? S len)%nat with (k <? len)%nat. reflexivity.
Qed.

Lemma set_span_length : forall start tbl len v, (start + len <= length tbl)%nat ->
  length (set_span tbl start len v) = length tbl.
Proof.
  induction start as [|s IH]; intros tbl len v H; cbn [set_span].
  - destruct tbl; apply fill_span_length; cbn in *; lia.
  - destruct tbl as [|x t]; cbn in *; [lia|]. rewrite IH by lia. reflexivity.
Qed.

Lemma set_span_nth : forall start tbl len v k, (start + len <= length tbl)%nat ->
  nth k (set_span tbl start len v) 0 = if ((start <=? k) && (k <? start + len))%nat then v else nth k tbl 0.
Proof.
  induction start as [|s IH]; intros tbl len v k H; cbn [set_span].
  - assert (E : set_span tbl 0 len v = fill_span tbl len v) by (destruct tbl; reflexivity).
    cbn [set_span] in E. rewrite E. rewrite fill_span_nth by (cbn in *; lia).
    cbn [Nat.leb andb Nat.add]. reflexivity.
  - destruct tbl as [|x t]; cbn in H; [lia|]. cbn [set_span].
    destruct k as [|k]; cbn [nth].
    + reflexivity.
    + rewrite IH by lia.
      change (S s <=? S k)%nat with (s <=? k)%nat. change (S k <? S s + len)%nat with (k <? s + len)%nat. reflexivity.
Qed.

(* invariant of build_lookup: ranges [i0, i0 + length rs) still to write; everything before is final *)
Lemma build_lookup_inv count n : forall (m : nat) (i0 : nat) tbl,
  (i0 + m = N.to_nat n)%nat -> 0 < n ->
  length tbl = N.to_nat count ->
  (forall j kg, (j < i0)%nat -> rs_start count n (N.of_nat j) <= kg < rs_start count n (N.of_nat j + 1) ->
                nth (N.to_nat kg) tbl 0 = u16 (N.of_nat j)) ->
  let final := build_lookup tbl (N.of_nat i0)
                 (map (fun j => (rs_start count n (N.of_nat j), rs_start count n (N.of_nat j + 1))) (seq i0 m)) in
  length final = N.to_nat count /\
  (forall j kg, (j < N.to_nat n)%nat -> rs_start count n (N.of_nat j) <= kg < rs_start count n (N.of_nat j + 1) ->
                nth (N.to_nat kg) final 0 = u16 (N.of_nat j)).
Proof.
  induction m as [|m IH]; intros i0 tbl Hsum Hn Hlen Hinv; cbn [seq map build_lookup].
  - split; [exact Hlen|]. intros j kg Hj. apply Hinv. lia.
  - set (s := rs_start count n (N.of_nat i0)). set (e := rs_start count n (N.of_nat i0 + 1)).
    assert (Hse : s <= e) by (apply rs_start_mono; lia).
    assert (Hec : e <= count).
    { rewrite <- (rs_start_n count n Hn). apply rs_start_mono. lia. }
    assert (Hfit : (N.to_nat s + N.to_nat (e - s) <= length tbl)%nat) by lia.
    replace (N.of_nat i0 + 1) with (N.of_nat (S i0)) by lia.
    apply IH.
    + lia.
    + exact Hn.
    + rewrite set_span_length by exact Hfit. exact Hlen.
    + intros j kg Hj Hr. rewrite set_span_nth by exact Hfit.
      destruct (Nat.eq_dec j i0) as [->|Hne].
      * fold s in Hr. replace (N.of_nat i0 + 1) with (N.of_nat i0 + 1) in Hr by reflexivity. fold e in Hr.
        replace ((N.to_nat s <=? N.to_nat kg)%nat && (N.to_nat kg <? N.to_nat s + N.to_nat (e - s))%nat) with true by lia.
        reflexivity.
      * assert (Hjl : (j < i0)%nat) by lia.
        assert (rs_start count n (N.of_nat j + 1) <= s) by (apply rs_start_mono; lia).
        replace ((N.to_nat s <=? N.to_nat kg)%nat && (N.to_nat kg <? N.to_nat s + N.to_nat (e - s))%nat) with false by lia.
        apply Hinv; assumption.
Qed.

Lemma range_lookup_spec count n j kg : 0 < n -> (j < N.to_nat n)%nat ->
  rs_start count n (N.of_nat j) <= kg < rs_start count n (N.of_nat j + 1) ->
  nth (N.to_nat kg) (range_lookup count n) 0 = u16 (N.of_nat j).
Proof.
  intros Hn Hj Hr. unfold range_lookup. rewrite kg_ranges_spec.
  pose proof (build_lookup_inv count n (N.to_nat n) 0 (repeat 0 (N.to_nat count))) as H.
  cbn [N.of_nat] in H. apply H; try assumption; try lia.
  apply repeat_length.
Qed.

(* ---- the statements used by Props/C05.v ---- *)

Lemma c05_ranges_contiguous_cover count n : 0 < n ->
  let rs := kg_ranges count n in
  length rs = N.to_nat n /\
  fst (nth 0 rs (0,0)) = 0 /\
  (forall i, (S i < N.to_nat n)%nat -> snd (nth i rs (0,0)) = fst (nth (S i) rs (0,0))) /\
  snd (nth (N.to_nat n - 1) rs (0,0)) = count /\
  (forall i, (i < N.to_nat n)%nat -> fst (nth i rs (0,0)) <= snd (nth i rs (0,0))).
Proof.
  intros Hn rs. subst rs. split; [apply kg_ranges_length|]. split; [|split; [|split]].
  - rewrite kg_ranges_nth by lia. cbn [fst N.of_nat]. apply rs_start_0.
  - intros i Hi. rewrite !kg_ranges_nth by lia. cbn [fst snd]. f_equal. lia.
  - rewrite kg_ranges_nth by lia. cbn [snd].
    replace (N.of_nat (N.to_nat n - 1) + 1) with n by lia. apply rs_start_n. exact Hn.
  - intros i Hi. rewrite kg_ranges_nth by lia. cbn [fst snd]. apply rs_start_mono. lia.
Qed.

Lemma c05_ranges_partition count n kg : 0 < n -> kg < count ->
  exists j, (j < N.to_nat n)%nat /\ includes_kg (nth j (kg_ranges count n) (0,0)) kg = true /\
    forall j', (j' < N.to_nat n)%nat -> includes_kg (nth j' (kg_ranges count n) (0,0)) kg = true -> j' = j.
Proof.
  intros Hn Hkg. destruct (group_in_some_range count n kg Hn Hkg) as (j & Hj & Hin).
  exists j. split; [exact Hj|]. split; [exact Hin|]. intros j' Hj' Hin'. eapply range_unique; eassumption.
Qed.

Lemma c05_ranges_balanced count n i : 0 < n -> (i < N.to_nat n)%nat ->
  let r := nth i (kg_ranges count n) (0,0) in
  snd r - fst r = count / n + (if N.of_nat i <? count mod n then 1 else 0).
Proof. intros Hn Hi r. subst r. rewrite kg_ranges_nth by exact Hi. cbn [fst snd]. apply rs_size. Qed.

Lemma key_group_lt count key : 0 < count -> key_group count key < count.
Proof. intros H. unfold key_group. apply N.mod_lt. lia. Qed.

Lemma c05_lookup_sound count n key : 0 < count -> count <= 65535 -> 0 < n -> n <= 65536 ->
  let i := range_index count n key in
  i < n /\ includes_kg (nth (N.to_nat i) (kg_ranges count n) (0,0)) (key_group count key) = true.
Proof.
  intros Hc Hc2 Hn Hn2 i. subst i.
  pose proof (key_group_lt count key Hc) as Hkg. set (kg := key_group count key) in *.
  destruct (group_in_some_range count n kg Hn Hkg) as (j & Hj & Hin).
  unfold range_index. fold kg.
  assert (Hu : u16 kg = kg) by (apply wrap_small; cbn; lia). rewrite Hu.
  pose proof Hin as Hin2. rewrite kg_ranges_nth in Hin2 by exact Hj. unfold includes_kg in Hin2. cbn [fst snd] in Hin2.
  rewrite (range_lookup_spec count n j kg Hn Hj) by lia.
  assert (Hj16 : u16 (N.of_nat j) = N.of_nat j) by (apply wrap_small; cbn; lia). rewrite Hj16.
  split; [lia|]. rewrite Nat2N.id. exact Hin.
Qed.

Lemma firstn2_be16 x rest : firstn 2 (be16 x ++ rest) = be16 x.
Proof. reflexivity. Qed.

Lemma owns_key_be16 r kg rest : kg < 65536 -> owns_key r (be16 kg ++ rest) = Some (includes_kg r kg).
Proof.
  intros H. unfold be16. cbn [app owns_key].
  change [N.shiftr kg 8 mod 256; kg mod 256] with (be16 kg). rewrite be16_decode by exact H. reflexivity.
Qed.

Lemma c05_stored_under_group count subject ns data t :
  firstn 2 (encode_db_key count subject ns data) = be16 (key_group count subject) /\
  firstn 2 (encode_subject_key count subject) = be16 (key_group count subject) /\
  firstn 2 (encode_timer_key count subject t) = be16 (key_group count subject).
Proof. repeat split. Qed.

Lemma c05_ownership_iff_routed count n own subject ns data t :
  0 < count -> count <= 65535 -> 0 < n -> n <= 65536 -> own < n ->
  let r := nth (N.to_nat own) (kg_ranges count n) (0,0) in
  owns_key r (encode_db_key count subject ns data) = Some (range_index count n subject =? own) /\
  owns_key r (encode_timer_key count subject t) = Some (range_index count n subject =? own).
Proof.
  intros Hc Hc2 Hn Hn2 Hown r.
  pose proof (key_group_lt count subject Hc) as Hkg.
  destruct (c05_lookup_sound count n subject Hc Hc2 Hn Hn2) as [Hi Hin].
  assert (E : includes_kg r (key_group count subject) = (range_index count n subject =? own)).
  { subst r. destruct (N.eqb_spec (range_index count n subject) own) as [Heq|Hne].
    - rewrite <- Heq. exact Hin.
    - destruct (includes_kg (nth (N.to_nat own) (kg_ranges count n) (0, 0)) (key_group count subject)) eqn:E; [|reflexivity].
      exfalso. apply Hne.
      assert (N.to_nat own = N.to_nat (range_index count n subject)).
      { eapply range_unique; try eassumption; lia. }
      lia. }
  unfold encode_db_key, encode_timer_key. rewrite !owns_key_be16 by lia. rewrite E. split; reflexivity.
Qed.

(* the check computes the expected index by searching the ranges; equal to the table lookup *)
Fixpoint find_range (rs : list kgrange) (kg : N) (i : N) : N :=
  match rs with
  | [] => 0
  | r :: rs' => if includes_kg r kg then i else find_range rs' kg (i + 1)
  end.

Lemma find_range_spec rs kg : forall i0 j, (j < length rs)%nat -> includes_kg (nth j rs (0,0)) kg = true ->
  (forall j', (j' < j)%nat -> includes_kg (nth j' rs (0,0)) kg = false) ->
  find_range rs kg i0 = i0 + N.of_nat j.
Proof.
  induction rs as [|r rs IH]; intros i0 j Hj Hin Hbefore; cbn in Hj; [lia|].
  cbn [find_range]. destruct j as [|j].
  - cbn in Hin. rewrite Hin. lia.
  - pose proof (Hbefore O ltac:(lia)) as H0. cbn [nth] in H0. rewrite H0. rewrite (IH (i0 + 1) j); [lia|lia|exact Hin|].
    intros j' Hj'. apply (Hbefore (S j')). lia.
Qed.

Lemma c05_range_index_is_find count n key : 0 < count -> count <= 65535 -> 0 < n -> n <= 65536 ->
  range_index count n key = find_range (kg_ranges count n) (key_group count key) 0.
Proof.
  intros Hc Hc2 Hn Hn2. destruct (c05_lookup_sound count n key Hc Hc2 Hn Hn2) as [Hi Hin].
  rewrite (find_range_spec _ _ 0 (N.to_nat (range_index count n key))).
  - lia.
  - rewrite kg_ranges_length. lia.
  - exact Hin.
  - intros j' Hj'. match goal with |- ?b = false => destruct b eqn:E end; [|reflexivity].
    exfalso. assert (j' = N.to_nat (range_index count n key)); [|lia].
    apply (range_unique count n (key_group count key)); [lia|lia|exact E|exact Hin].
Qed.
