(* C10: the TimerStore (all partitions of an operator's key-group range) over the DKV specification.
   SInv: every partition satisfies the cache-prefix invariant for its own prefix; DBInv: the DB content is a strictly
   sorted list of well-formed timer keys of this range.  GetEarliest returns a globally earliest timer. *)
From RV Require Import Base.Bytes Model.TimerStore Proofs.C10_Sorted Proofs.C10_Queue Proofs.C10_Codec.
From Coq Require Import ZifyN ZifyNat ZifyBool.
Open Scope N_scope.

(* ---------- list plumbing ---------- *)
Lemma length_upd {A} i (x : A) l : length (upd i x l) = length l.
Proof. revert i; induction l as [|y l IH]; intros [|i]; cbn; auto. Qed.

Lemma nth_error_upd_same {A} i (x : A) l : (i < length l)%nat -> nth_error (upd i x l) i = Some x.
Proof. revert i; induction l as [|y l IH]; intros [|i] H; cbn in *; try lia; auto. apply IH. lia. Qed.

Lemma nth_error_upd_other {A} i j (x : A) l : i <> j -> nth_error (upd i x l) j = nth_error l j.
Proof. revert i j; induction l as [|y l IH]; intros [|i] [|j] H; cbn; auto; try congruence. Qed.

Lemma nth_error_map_seq {A} (f : nat -> A) n : forall s i p,
  nth_error (map f (seq s n)) i = Some p -> (i < n)%nat /\ p = f (s + i)%nat.
Proof.
  induction n as [|n IH]; intros s i p H; cbn in H.
  - destruct i; discriminate.
  - destruct i as [|i]; cbn in H.
    + inversion H. split; [lia|]. f_equal. lia.
    + destruct (IH _ _ _ H) as [Hi ->]. split; [lia|]. f_equal. lia.
Qed.

Section Store.
Variable kgf : bytes -> N.
Variables start size : N.
Hypothesis Hrange : start + size <= 65536.

Definition in_range (kg : N) : Prop := start <= kg < start + size.
Definition wf_entry (x : bytes) : Prop :=
  exists key t, x = timer_key (kgf key) t key /\ t_in t /\ in_range (kgf key).
Definition DBInv (d : db) : Prop := ssorted d /\ Forall wf_entry d.

Definition SInv (d : db) (s : tstore) : Prop :=
  ts_start s = start /\ length (ts_parts s) = N.to_nat size /\
  forall i p, nth_error (ts_parts s) i = Some p ->
    k_prefix p = pfx (start + N.of_nat i) /\ PInv d p /\ size_ok p.

Lemma SInv_new d mx : SInv d (tstore_new start size mx).
Proof.
  unfold tstore_new. split; [reflexivity|]. split.
  - cbn. rewrite map_length, seq_length. reflexivity.
  - cbn. intros i p H. apply nth_error_map_seq in H as [Hi ->]. cbn [Nat.add].
    destruct (PInv_new d (start + N.of_nat i) (mx / size)) as [H1 H2]. repeat split; auto.
Qed.

Lemma DBInv_nil : DBInv [].
Proof. split; [exact I|constructor]. Qed.

Lemma part_index_wf d s x : SInv d s -> wf_entry x ->
  exists i p, part_index s x = Some i /\ nth_error (ts_parts s) i = Some p /\ is_prefix (k_prefix p) x = true /\
    (forall j q, j <> i -> nth_error (ts_parts s) j = Some q -> is_prefix (k_prefix q) x = false).
Proof.
  intros (Hst & Hlen & Hp) (key & t & -> & Ht & Hr). unfold in_range in Hr.
  set (kg := kgf key) in *. set (i := N.to_nat (kg - start)).
  assert (Hi : (i < length (ts_parts s))%nat) by (rewrite Hlen; unfold i; lia).
  destruct (nth_error (ts_parts s) i) as [p|] eqn:Ep; [|apply nth_error_None in Ep; lia].
  exists i, p. split; [|split; [exact Ep|split]].
  - unfold part_index. rewrite key_kg_timer by lia. rewrite Hst. fold kg.
    destruct (kg <? start) eqn:E; [lia|]. fold i. destruct (i <? length (ts_parts s))%nat eqn:E2; [reflexivity|lia].
  - destruct (Hp _ _ Ep) as (-> & _). replace (start + N.of_nat i) with kg by (unfold i; lia). apply timer_key_prefix.
  - intros j q Hj Eq. destruct (Hp _ _ Eq) as (-> & _).
    assert ((j < length (ts_parts s))%nat) by (apply nth_error_Some; congruence).
    apply is_prefix_other; unfold i in *; lia.
Qed.

Lemma wf_entry_sins d x : DBInv d -> wf_entry x -> DBInv (sins x d).
Proof.
  intros [Hs Hw] Hx. split; [apply sins_sorted; exact Hs|].
  apply Forall_forall. intros y Hy. apply In_sins in Hy as [->|Hy]; auto. rewrite Forall_forall in Hw. auto.
Qed.

Lemma wf_entry_sdel d x : DBInv d -> DBInv (sdel x d).
Proof.
  intros [Hs Hw]. split; [apply sdel_sorted; exact Hs|].
  apply Forall_forall. intros y Hy. apply In_sdel in Hy as [Hy _]; auto. rewrite Forall_forall in Hw. auto.
Qed.

(* ---------- Push / Delete ---------- *)
Lemma ts_push_spec d s x s' d' :
  SInv d s -> DBInv d -> wf_entry x -> ts_push Q x d s = (s', d') ->
  d' = sins x d /\ SInv d' s' /\ DBInv d'.
Proof.
  intros HS HD Hx E. destruct (part_index_wf d s x HS Hx) as (i & p & Ei & Ep & Hpre & Hoth).
  unfold ts_push in E. rewrite Ei, Ep in E.
  destruct (kq_push Q x d p) as [p' d1] eqn:Ek. inversion E; subst s' d'. clear E.
  destruct HS as (Hst & Hlen & Hp). destruct (Hp _ _ Ep) as (Hpf & HP & Hsz).
  destruct (kq_push_spec d p x p' d1 (proj1 HD) HP Hsz Hpre Ek) as (-> & HP' & Hsz' & Hpf' & _).
  split; [reflexivity|]. split; [|apply wf_entry_sins; auto].
  split; [exact Hst|]. split; [cbn; rewrite length_upd; exact Hlen|].
  cbn [ts_parts]. intros j q Ej. destruct (Nat.eq_dec i j) as [<-|Hne].
  - rewrite nth_error_upd_same in Ej by (apply nth_error_Some; congruence). inversion Ej; subst q.
    repeat split; auto. congruence.
  - rewrite nth_error_upd_other in Ej by exact Hne. destruct (Hp _ _ Ej) as (Hq & HPq & Hsq).
    repeat split; auto. apply PInv_frame_put; auto; [apply (proj1 HD)|]. eapply Hoth; eauto.
Qed.

Lemma ts_delete_spec d s x s' d' :
  SInv d s -> DBInv d -> wf_entry x -> ts_delete Q x d s = (s', d') ->
  d' = sdel x d /\ SInv d' s' /\ DBInv d'.
Proof.
  intros HS HD Hx E. destruct (part_index_wf d s x HS Hx) as (i & p & Ei & Ep & Hpre & Hoth).
  unfold ts_delete in E. rewrite Ei, Ep in E.
  destruct (kq_delete Q x d p) as [p' d1] eqn:Ek. inversion E; subst s' d'. clear E.
  destruct HS as (Hst & Hlen & Hp). destruct (Hp _ _ Ep) as (Hpf & HP & Hsz).
  destruct (kq_delete_spec d p x p' d1 (proj1 HD) HP Hsz Hpre Ek) as (-> & HP' & Hsz' & Hpf' & _).
  split; [reflexivity|]. split; [|apply wf_entry_sdel; auto].
  split; [exact Hst|]. split; [cbn; rewrite length_upd; exact Hlen|].
  cbn [ts_parts]. intros j q Ej. destruct (Nat.eq_dec i j) as [<-|Hne].
  - rewrite nth_error_upd_same in Ej by (apply nth_error_Some; congruence). inversion Ej; subst q.
    repeat split; auto. congruence.
  - rewrite nth_error_upd_other in Ej by exact Hne. destruct (Hp _ _ Ej) as (Hq & HPq & Hsq).
    repeat split; auto. apply PInv_frame_delete; auto; [apply (proj1 HD)|]. eapply Hoth; eauto.
Qed.

(* ---------- GetEarliest ---------- *)
Definition owf (o : option bytes) : Prop := match o with None => True | Some x => wf_entry x end.
Definition ot (o : option bytes) : Z := match o with None => (2 ^ 63)%Z | Some x => key_time x end.

Lemma wf_time x : wf_entry x -> t_in (key_time x).
Proof. intros (key & t & -> & Ht & _). rewrite key_time_timer; auto. Qed.

Lemma peek_lt_ot a b : owf a -> owf b -> peek_lt a b = (ot a <? ot b)%Z.
Proof.
  destruct a as [x|], b as [y|]; cbn [peek_lt ot owf]; intros Ha Hb.
  - destruct Ha as (k1 & t1 & -> & H1 & _). destruct Hb as (k2 & t2 & -> & H2 & _).
    rewrite ts_bytes_lt, !key_time_timer by auto. reflexivity.
  - apply wf_time in Ha. destruct Ha. symmetry. apply Z.ltb_lt. lia.
  - apply wf_time in Hb. destruct Hb. symmetry. apply Z.ltb_ge. lia.
  - reflexivity.
Qed.

Lemma min_peek_spec l : forall best, owf best -> Forall owf l ->
  In (min_peek best l) (best :: l) /\ forall o, In o (best :: l) -> (ot (min_peek best l) <= ot o)%Z.
Proof.
  induction l as [|o l IH]; intros best Hb Hl; cbn [min_peek].
  - split; [left; reflexivity|]. intros o [<-|[]]. lia.
  - inversion Hl as [|? ? Ho Hl']; subst.
    assert (Hb' : owf (if peek_lt o best then o else best)) by (destruct (peek_lt o best); auto).
    destruct (IH _ Hb' Hl') as [Hin Hmin]. split.
    + destruct Hin as [Hin|Hin]; [|right; right; exact Hin].
      rewrite <- Hin. destruct (peek_lt o best); [right; left|left]; reflexivity.
    + assert (H0 := Hmin _ (or_introl eq_refl)).
      rewrite (peek_lt_ot o best Ho Hb) in H0, Hmin |- *.
      intros o' [<-|[<-|Hin']].
      * destruct (ot o <? ot best)%Z eqn:E; [apply Z.ltb_lt in E|apply Z.ltb_ge in E]; lia.
      * destruct (ot o <? ot best)%Z eqn:E; [apply Z.ltb_lt in E|apply Z.ltb_ge in E]; lia.
      * apply Hmin. right. exact Hin'.
Qed.

Lemma head_le_all (l : list bytes) x y : ssorted (x :: l) -> In y (x :: l) -> y = x \/ slt x y.
Proof. intros [Hx _] [->|Hin]; [left; reflexivity|right]. rewrite Forall_forall in Hx. auto. Qed.

Lemma ts_peek_spec d s o s' :
  SInv d s -> DBInv d -> ts_peek Q d s = (o, s') ->
  SInv d s' /\
  match o with
  | None => d = []
  | Some x => In x d /\ forall y, In y d -> (key_time x <= key_time y)%Z
  end.
Proof.
  intros (Hst & Hlen & Hp) [Hds Hdw] E. unfold ts_peek in E. inversion E; subst o s'. clear E.
  set (ps := map (kq_load Q d) (ts_parts s)).
  assert (Hps : forall i p1, nth_error ps i = Some p1 ->
            k_prefix p1 = pfx (start + N.of_nat i) /\ Loaded d p1 /\ size_ok p1).
  { intros i p1 H. unfold ps in H. rewrite nth_error_map in H.
    destruct (nth_error (ts_parts s) i) as [p|] eqn:Ep; [|discriminate]. inversion H; subst p1.
    destruct (Hp _ _ Ep) as (Hpf & HP & Hsz). destruct (kq_load_spec d p Hds HP Hsz) as (HL & Hsz' & Hpf' & _).
    repeat split; auto; try apply HL. congruence. }
  split.
  { split; [exact Hst|]. split; [cbn; unfold ps; rewrite map_length; exact Hlen|].
    cbn. intros i p1 H. destruct (Hps _ _ H) as (A & [B _] & C). auto. }
  (* heads *)
  set (hs := map (fun p => c_peek (k_cache p)) ps).
  assert (Hhs : forall h, In h hs -> exists i p1, nth_error ps i = Some p1 /\ h = hd_error (content p1 d)).
  { intros h Hh. unfold hs in Hh. apply in_map_iff in Hh as (p1 & <- & Hin).
    apply In_nth_error in Hin as [i Hi]. exists i, p1. split; auto.
    destruct (Hps _ _ Hi) as (_ & HL & _). apply peek_loaded. exact HL. }
  assert (Hcont : forall p1 y, In y (content p1 d) -> In y d /\ is_prefix (k_prefix p1) y = true).
  { intros p1 y Hy. unfold content, db_scan in Hy. apply filter_In in Hy. exact Hy. }
  assert (Hwf : Forall owf hs).
  { apply Forall_forall. intros h Hh. destruct (Hhs _ Hh) as (i & p1 & _ & ->).
    destruct (content p1 d) as [|x l] eqn:Ec; cbn; auto.
    rewrite Forall_forall in Hdw. apply Hdw. apply (Hcont p1). rewrite Ec. left. reflexivity. }
  destruct (min_peek_spec hs None I Hwf) as [Hin Hmin]. fold hs.
  (* every DB entry lies in the content of its partition *)
  assert (Hcover : forall y, In y d -> exists i p1, nth_error ps i = Some p1 /\ In y (content p1 d)).
  { intros y Hy. rewrite Forall_forall in Hdw. pose proof (Hdw _ Hy) as (key & t & -> & Ht & Hr). unfold in_range in Hr.
    set (i := N.to_nat (kgf key - start)).
    assert (Hi : (i < length ps)%nat) by (unfold ps; rewrite map_length, Hlen; unfold i; lia).
    destruct (nth_error ps i) as [p1|] eqn:Ep; [|apply nth_error_None in Ep; lia].
    exists i, p1. split; auto. unfold content, db_scan. apply filter_In. split; auto.
    destruct (Hps _ _ Ep) as (-> & _). replace (start + N.of_nat i) with (kgf key) by (unfold i; lia). apply timer_key_prefix. }
  (* the head of y's partition is not later than y *)
  assert (Hhead : forall y, In y d -> exists h, In (Some h) hs /\ (key_time h <= key_time y)%Z).
  { intros y Hy. destruct (Hcover _ Hy) as (i & p1 & Ep & Hyc).
    destruct (content p1 d) as [|h l] eqn:Ec; [contradiction|].
    exists h. split.
    - unfold hs. apply in_map_iff. exists p1. split; [|eapply nth_error_In; eauto].
      destruct (Hps _ _ Ep) as (_ & HL & _). rewrite (peek_loaded d p1 HL), Ec. reflexivity.
    - pose proof (content_sorted p1 d Hds) as Hcs. rewrite Ec in Hcs.
      destruct (head_le_all l h y Hcs Hyc) as [->|Hlt]; [lia|].
      assert (Hh : In h (content p1 d)) by (rewrite Ec; left; reflexivity).
      assert (Hyc' : In y (content p1 d)) by (rewrite Ec; exact Hyc).
      destruct (Hcont _ _ Hh) as [Hhd Hhp]. destruct (Hcont _ _ Hyc') as [_ Hyp].
      rewrite Forall_forall in Hdw.
      destruct (Hdw _ Hhd) as (k1 & t1 & -> & H1 & R1). destruct (Hdw _ Hy) as (k2 & t2 & -> & H2 & R2).
      unfold in_range in *.
      (* same prefix, hence same key group *)
      destruct (Hps _ _ Ep) as (Hpf & _). rewrite Hpf in Hhp, Hyp.
      assert (Ei : (i < length ps)%nat) by (apply nth_error_Some; congruence).
      unfold ps in Ei. rewrite map_length, Hlen in Ei.
      assert (G1 : kgf k1 = start + N.of_nat i).
      { destruct (N.eq_dec (start + N.of_nat i) (kgf k1)) as [e|ne]; [auto|].
        rewrite is_prefix_other in Hhp by lia. discriminate. }
      assert (G2 : kgf k2 = start + N.of_nat i).
      { destruct (N.eq_dec (start + N.of_nat i) (kgf k2)) as [e|ne]; [auto|].
        rewrite is_prefix_other in Hyp by lia. discriminate. }
      rewrite !key_time_timer by auto. unfold slt in Hlt. rewrite G1, <- G2 in Hlt at 1.
      rewrite G2 in Hlt at 1. rewrite <- G2 in Hlt. eapply same_group_order; eauto. }
  destruct (min_peek None hs) as [x|] eqn:Em.
  - destruct Hin as [Hin|Hin]; [discriminate|].
    destruct (Hhs _ Hin) as (i & p1 & Ep & Hx).
    destruct (content p1 d) as [|x' l] eqn:Ec; [discriminate|]. cbn in Hx. inversion Hx; subst x'.
    split.
    + apply (Hcont p1). rewrite Ec. left. reflexivity.
    + intros y Hy. destruct (Hhead _ Hy) as (h & Hh & Hle).
      specialize (Hmin (Some h) (or_intror Hh)). cbn in Hmin. lia.
  - destruct d as [|y d']; [reflexivity|]. exfalso.
    destruct (Hhead y (or_introl eq_refl)) as (h & Hh & _).
    specialize (Hmin (Some h) (or_intror Hh)). cbn in Hmin.
    assert (Hw : wf_entry h). { rewrite Forall_forall in Hwf. apply (Hwf (Some h) Hh). }
    apply wf_time in Hw. destruct Hw. lia.
Qed.

End Store.
