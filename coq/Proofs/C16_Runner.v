(* C16, runner loop: the split positions reported for checkpoint N cover exactly the records emitted
   ahead of barrier N. Proved for every step list (every read batching, assignment and checkpoint timing). *)
From Coq Require Import List NArith Bool Lia ZifyN ZifyNat ZifyBool.
From RV Require Import Model.RunnerLoop.
Import ListNotations.
Open Scope N_scope.

(* ---------- small list facts ---------- *)

Lemma find_app {A} (f : A -> bool) (a b : list A) :
  find f (a ++ b) = match find f a with Some x => Some x | None => find f b end.
Proof. induction a as [|x a IH]; cbn [app find]; [reflexivity|]. destruct (f x); [reflexivity|exact IH]. Qed.

Lemma get_cur_set_same : forall cs s v c, get_cur cs s = Some c -> get_cur (set_cur cs s v) s = Some v.
Proof.
  unfold get_cur. induction cs as [|[a b] r IH]; intros s v c H; cbn [find set_cur fst snd] in *.
  - discriminate.
  - destruct (a =? s) eqn:E; cbn [find fst snd].
    + rewrite N.eqb_refl. reflexivity.
    + rewrite E. eapply IH. exact H.
Qed.

Lemma get_cur_set_other : forall cs s v t, t <> s -> get_cur (set_cur cs s v) t = get_cur cs t.
Proof.
  unfold get_cur. induction cs as [|[a b] r IH]; intros s v t H; cbn [find set_cur fst snd].
  - reflexivity.
  - destruct (a =? s) eqn:E; cbn [find fst snd].
    + apply N.eqb_eq in E. subst a. destruct (s =? t) eqn:E2.
      * apply N.eqb_eq in E2. congruence.
      * reflexivity.
    + destruct (a =? t); [reflexivity|]. apply IH. exact H.
Qed.

Lemma get_cur_app_some : forall cs extra s c, get_cur cs s = Some c -> get_cur (cs ++ extra) s = Some c.
Proof.
  unfold get_cur. induction cs as [|[a b] r IH]; intros extra s c H; cbn [find app fst snd] in *.
  - discriminate.
  - destruct (a =? s); [exact H|]. apply IH. exact H.
Qed.

Lemma in_recs : forall n s from t i, In (Rec t i) (recs s from n) <-> t = s /\ from <= i < from + N.of_nat n.
Proof.
  induction n as [|n IH]; intros s from t i; cbn [recs In].
  - split; [tauto|lia].
  - rewrite IH. split.
    + intros [H|H]; [inversion H; subst; lia | lia].
    + intros [-> H]. destruct (N.eq_dec i from) as [->|Hne]; [left; reflexivity | right; lia].
Qed.

Lemma bar_not_in_recs : forall n s from b, ~ In (Bar b) (recs s from n).
Proof. induction n; intros s from b; cbn [recs In]; [tauto|]. intros [H|H]; [discriminate|]. eapply IHn. exact H. Qed.

(* ---------- one read ---------- *)

(* a split's cursor only grows in a read, and the read emits exactly the records in between *)
Lemma read_batch_spec : forall batch cs cs' evs,
  read_batch cs batch = (cs', evs) ->
  (forall b, ~ In (Bar b) evs) /\
  (forall s, match get_cur cs s with
             | None => get_cur cs' s = None /\ (forall i, ~ In (Rec s i) evs)
             | Some c => exists c', get_cur cs' s = Some c' /\ c <= c' /\
                                    (forall i, In (Rec s i) evs <-> c <= i < c')
             end).
Proof.
  induction batch as [|[s n] r IH]; intros cs cs' evs H; cbn [read_batch] in H.
  - inversion H; subst. split; [intros b []|]. intro s. destruct (get_cur cs' s) as [c|] eqn:E.
    + exists c. split; [reflexivity|]. split; [lia|]. intro i. cbn [In]. lia.
    + split; [reflexivity|]. intros i [].
  - destruct (get_cur cs s) as [c|] eqn:Es.
    + destruct (read_batch (set_cur cs s (c + n)) r) as [cs2 evs2] eqn:Er. inversion H; subst cs' evs. clear H.
      destruct (IH _ _ _ Er) as [Hb Hs]. split.
      * intros b Hin. apply in_app_or in Hin. destruct Hin as [Hin|Hin]; [eapply bar_not_in_recs; exact Hin | eapply Hb; exact Hin].
      * intro t. specialize (Hs t). destruct (N.eq_dec t s) as [->|Hne].
        -- rewrite Es. rewrite (get_cur_set_same _ _ _ _ Es) in Hs. destruct Hs as [c' [Hg [Hle Hin]]].
           exists c'. split; [exact Hg|]. split; [lia|]. intro i. rewrite in_app_iff, in_recs, Hin. lia.
        -- rewrite (get_cur_set_other _ _ _ _ Hne) in Hs. destruct (get_cur cs t) as [ct|] eqn:Et.
           ++ destruct Hs as [c' [Hg [Hle Hin]]]. exists c'. split; [exact Hg|]. split; [exact Hle|].
              intro i. rewrite in_app_iff, in_recs, Hin. split; [intros [[Heq _]|Hx]; [congruence|exact Hx] | intro Hx; right; exact Hx].
           ++ destruct Hs as [Hg Hin]. split; [exact Hg|]. intros i Hx. apply in_app_or in Hx. destruct Hx as [Hx|Hx].
              ** apply in_recs in Hx. destruct Hx as [Heq _]. congruence.
              ** eapply Hin. exact Hx.
    + apply IH. exact H.
Qed.

(* ---------- the invariant of the loop ---------- *)

(* [start st s]: the cursor split s was first assigned with *)
Definition first_assigned (steps : list step) (s : N) : option N :=
  get_cur (flat_map (fun x => match x with SAssign sp => sp | _ => [] end) steps) s.

(* Invariant: the records of split s in the output stream are exactly those from its first assigned
   cursor up to its current cursor; nothing of an unassigned split has been emitted. *)
Definition inv (steps : list step) (st : rstate) : Prop :=
  forall s, match first_assigned steps s with
            | None => get_cur (curs st) s = None /\ (forall i, ~ In (Rec s i) (out st))
            | Some c0 => exists c, get_cur (curs st) s = Some c /\ c0 <= c /\
                                   (forall i, In (Rec s i) (out st) <-> c0 <= i < c)
            end.

Lemma first_assigned_app : forall a b s,
  first_assigned (a ++ b) s = match first_assigned a s with Some c => Some c | None => first_assigned b s end.
Proof.
  intros a b s. unfold first_assigned. rewrite flat_map_app. unfold get_cur. rewrite find_app.
  destruct (find _ (flat_map _ a)); reflexivity.
Qed.

Lemma run_app : forall a b, run (a ++ b) = fold_left do_step b (run a).
Proof. intros. unfold run. apply fold_left_app. Qed.

Lemma inv_run : forall steps, inv steps (run steps).
Proof.
  intro steps. induction steps as [|x steps IH] using rev_ind.
  - intro s. cbn. split; [reflexivity|]. intros i [].
  - intro s. rewrite run_app. cbn [fold_left]. rewrite first_assigned_app. specialize (IH s).
    set (st := run steps) in *. destruct x as [sp|batch|id]; cbn [do_step].
    + (* assign *)
      cbn [curs out]. destruct (first_assigned steps s) as [c0|] eqn:E0.
      * destruct IH as [c [Hg H]]. exists c. split; [apply get_cur_app_some; exact Hg | exact H].
      * destruct IH as [Hg Hout]. unfold first_assigned at 1. cbn [flat_map]. rewrite app_nil_r.
        destruct (get_cur sp s) as [c|] eqn:Es.
        -- exists c. split.
           ++ unfold get_cur in *. rewrite find_app. destruct (find _ (curs st)); [discriminate|]. exact Es.
           ++ split; [lia|]. intro i. split; [intro Hx; exfalso; eapply Hout; exact Hx | lia].
        -- split; [|exact Hout]. unfold get_cur in *. rewrite find_app. destruct (find _ (curs st)); [discriminate|]. exact Es.
    + (* read *)
      destruct (read_batch (curs st) batch) as [cs evs] eqn:Er. cbn [curs out].
      destruct (read_batch_spec _ _ _ _ Er) as [_ Hs]. specialize (Hs s).
      assert (Hfa : first_assigned [SRead batch] s = None) by reflexivity. rewrite Hfa.
      destruct (first_assigned steps s) as [c0|] eqn:E0.
      * destruct IH as [c [Hg [Hle Hin]]]. rewrite Hg in Hs. destruct Hs as [c' [Hg' [Hle' Hin']]].
        exists c'. split; [exact Hg'|]. split; [lia|]. intro i. rewrite in_app_iff, Hin, Hin'. lia.
      * destruct IH as [Hg Hout]. rewrite Hg in Hs. destruct Hs as [Hg' Hin']. split; [exact Hg'|].
        intros i Hx. apply in_app_or in Hx. destruct Hx as [Hx|Hx]; [eapply Hout | eapply Hin']; exact Hx.
    + (* checkpoint *)
      cbn [curs out]. assert (Hfa : first_assigned [SCkpt id] s = None) by reflexivity. rewrite Hfa.
      destruct (first_assigned steps s) as [c0|] eqn:E0.
      * destruct IH as [c [Hg [Hle Hin]]]. exists c. split; [exact Hg|]. split; [exact Hle|].
        intro i. rewrite in_app_iff, Hin. cbn [In]. split; [intros [Hx|[Hx|[]]]; [exact Hx|discriminate] | intro Hx; left; exact Hx].
      * destruct IH as [Hg Hout]. split; [exact Hg|]. intros i Hx. apply in_app_or in Hx.
        destruct Hx as [Hx|[Hx|[]]]; [eapply Hout; exact Hx | discriminate].
Qed.

(* ---------- cutting the stream at a barrier ---------- *)

Lemma before_bar_app_notin : forall id a b, ~ In (Bar id) a -> before_bar id (a ++ b) = a ++ before_bar id b.
Proof.
  induction a as [|e a IH]; intros b H; cbn [app before_bar]; [reflexivity|].
  destruct e as [s i|x].
  - f_equal. apply IH. intro Hx. apply H. right. exact Hx.
  - destruct (x =? id) eqn:E.
    + apply N.eqb_eq in E. subst. exfalso. apply H. left. reflexivity.
    + f_equal. apply IH. intro Hx. apply H. right. exact Hx.
Qed.

Lemma after_bar_app_notin : forall id a b, ~ In (Bar id) a -> after_bar id (a ++ b) = after_bar id b.
Proof.
  induction a as [|e a IH]; intros b H; cbn [app after_bar]; [reflexivity|].
  destruct e as [s i|x].
  - apply IH. intro Hx. apply H. right. exact Hx.
  - destruct (x =? id) eqn:E.
    + apply N.eqb_eq in E. subst. exfalso. apply H. left. reflexivity.
    + apply IH. intro Hx. apply H. right. exact Hx.
Qed.

Lemma before_bar_app_in : forall id a b, In (Bar id) a -> before_bar id (a ++ b) = before_bar id a.
Proof.
  induction a as [|e a IH]; intros b H; [destruct H|]. cbn [app before_bar]. destruct e as [s i|x].
  - f_equal. apply IH. destruct H as [H|H]; [discriminate|exact H].
  - destruct (x =? id) eqn:E; [reflexivity|]. f_equal. apply IH. destruct H as [H|H]; [|exact H].
    inversion H; subst. rewrite N.eqb_refl in E. discriminate.
Qed.

Lemma after_bar_app_in : forall id a b, In (Bar id) a -> after_bar id (a ++ b) = after_bar id a ++ b.
Proof.
  induction a as [|e a IH]; intros b H; [destruct H|]. cbn [app after_bar]. destruct e as [s i|x].
  - apply IH. destruct H as [H|H]; [discriminate|exact H].
  - destruct (x =? id) eqn:E; [reflexivity|]. apply IH. destruct H as [H|H]; [|exact H].
    inversion H; subst. rewrite N.eqb_refl in E. discriminate.
Qed.

(* the barriers in the stream are the checkpoints taken so far, and so are the reports *)
Definition ckpts (steps : list step) : list N := flat_map (fun x => match x with SCkpt id => [id] | _ => [] end) steps.

Lemma bars_are_ckpts : forall steps b, In (Bar b) (out (run steps)) <-> In b (ckpts steps).
Proof.
  intro steps. induction steps as [|x steps IH] using rev_ind; intro b.
  - cbn. tauto.
  - rewrite run_app. cbn [fold_left]. unfold ckpts in *. rewrite flat_map_app, in_app_iff. rewrite <- IH.
    destruct x as [sp|batch|id]; cbn [do_step out flat_map In app].
    + tauto.
    + destruct (read_batch (curs (run steps)) batch) as [cs evs] eqn:Er. cbn [out].
      destruct (read_batch_spec _ _ _ _ Er) as [Hb _]. rewrite in_app_iff. split; [intros [H|H]; [left; exact H | exfalso; eapply Hb; exact H] | intros [H|[]]; left; exact H].
    + rewrite in_app_iff. cbn [In]. split; [intros [H|[H|[]]]; [left; exact H | right; left; congruence] | intros [H|[H|[]]]; [left; exact H | right; left; congruence]].
Qed.

Lemma reports_are_ckpts : forall steps, map fst (reports (run steps)) = ckpts steps.
Proof.
  intro steps. induction steps as [|x steps IH] using rev_ind; [reflexivity|].
  rewrite run_app. cbn [fold_left]. unfold ckpts in *. rewrite flat_map_app. destruct x as [sp|batch|id]; cbn [do_step reports flat_map app].
  - rewrite app_nil_r. exact IH.
  - destruct (read_batch _ batch). cbn [reports]. rewrite app_nil_r. exact IH.
  - rewrite map_app. cbn [map fst]. rewrite IH. reflexivity.
Qed.

(* ---------- the theorem ---------- *)

(* Main statement, on the merged output stream: for a report (id, pos) of a run whose checkpoint ids are
   distinct, and every split s that had been assigned (first with cursor c0) when the snapshot was taken:
   the records of s ahead of barrier id are exactly [c0, pos s), the records behind it are all >= pos s;
   a split that was not assigned then has no position and no record ahead of the barrier. *)
Definition cut_exact (steps : list step) : Prop :=
  forall pre id post, steps = pre ++ SCkpt id :: post -> ~ In id (ckpts pre) ->
    let st := run steps in
    let pos := curs (run pre) in
    In (id, pos) (reports st) /\
    forall s,
      match first_assigned pre s with
      | Some c0 => exists p, get_cur pos s = Some p /\ c0 <= p /\
                   (forall i, In (Rec s i) (before_bar id (out st)) <-> c0 <= i < p) /\
                   (forall i, In (Rec s i) (after_bar id (out st)) -> p <= i)
      | None => get_cur pos s = None /\ (forall i, ~ In (Rec s i) (before_bar id (out st)))
      end.

Lemma out_mono_state : forall post st, exists tail, out (fold_left do_step post st) = out st ++ tail.
Proof.
  induction post as [|x post IH]; intro st; cbn [fold_left].
  - exists []. rewrite app_nil_r. reflexivity.
  - destruct (IH (do_step st x)) as [tail Ht]. rewrite Ht.
    destruct x as [sp|batch|id]; cbn [do_step out].
    + exists tail. reflexivity.
    + destruct (read_batch (curs st) batch) as [cs evs]. cbn [out]. exists (evs ++ tail). rewrite app_assoc. reflexivity.
    + exists ([Bar id] ++ tail). rewrite app_assoc. reflexivity.
Qed.

Lemma out_mono : forall pre post, exists tail, out (fold_left do_step post (run pre)) = out (run pre) ++ tail.
Proof. intros. apply out_mono_state. Qed.

(* whatever is emitted later for a split lies at or beyond its current cursor *)
Lemma tail_beyond_cursor : forall s post st0 tl, out (fold_left do_step post st0) = out st0 ++ tl ->
  forall q, get_cur (curs st0) s = Some q -> forall j, In (Rec s j) tl -> q <= j.
Proof.
  intro s. induction post as [|x post IH]; intros st0 tl Ho q Hq j Hj; cbn [fold_left] in Ho.
  - rewrite <- (app_nil_r (out st0)) in Ho at 1. apply app_inv_head in Ho. subst tl. destruct Hj.
  - destruct x as [sp|batch|id]; cbn [do_step] in Ho.
    + eapply (IH (mkR (curs st0 ++ sp) (out st0) (reports st0)) tl Ho q); [cbn [curs]; apply get_cur_app_some; exact Hq | exact Hj].
    + destruct (read_batch (curs st0) batch) as [cs evs] eqn:Er.
      destruct (read_batch_spec _ _ _ _ Er) as [_ Hs]. specialize (Hs s). rewrite Hq in Hs. destruct Hs as [q' [Hq' [Hle Hin]]].
      destruct (out_mono_state post (mkR cs (out st0 ++ evs) (reports st0))) as [tl2 Ht2].
      pose proof Ht2 as Ht2'. rewrite Ho in Ht2'. cbn [out] in Ht2'. rewrite <- app_assoc in Ht2'. apply app_inv_head in Ht2'. subst tl.
      apply in_app_or in Hj. destruct Hj as [Hj|Hj].
      * apply Hin in Hj. lia.
      * assert (q' <= j); [|lia]. eapply (IH (mkR cs (out st0 ++ evs) (reports st0)) tl2 Ht2 q'); [exact Hq' | exact Hj].
    + destruct (out_mono_state post (mkR (curs st0) (out st0 ++ [Bar id]) (reports st0 ++ [(id, curs st0)]))) as [tl2 Ht2].
      pose proof Ht2 as Ht2'. rewrite Ho in Ht2'. cbn [out] in Ht2'. rewrite <- app_assoc in Ht2'. apply app_inv_head in Ht2'. subst tl.
      destruct Hj as [Hj|Hj]; [discriminate|].
      eapply (IH _ tl2 Ht2 q); [exact Hq | exact Hj].
Qed.

Lemma reports_mono : forall post st r, In r (reports st) -> In r (reports (fold_left do_step post st)).
Proof.
  induction post as [|x post IH]; intros st r H; cbn [fold_left]; [exact H|]. apply IH.
  destruct x as [sp|batch|id]; cbn [do_step reports]; [exact H | destruct (read_batch _ batch); exact H | apply in_or_app; left; exact H].
Qed.

Theorem positions_match_cut_all : forall steps, cut_exact steps.
Proof.
  intros steps pre id post Hsteps Hfresh st pos. subst st pos.
  assert (Hrun : run steps = fold_left do_step post (do_step (run pre) (SCkpt id))).
  { subst steps. rewrite run_app. reflexivity. }
  split.
  - rewrite Hrun. apply reports_mono. cbn [do_step reports]. apply in_or_app. right. left. reflexivity.
  - assert (Hnb : ~ In (Bar id) (out (run pre))) by (rewrite bars_are_ckpts; exact Hfresh).
    (* the stream is: out(pre) ++ [Bar id] ++ tail *)
    assert (Hsplit : exists tail, out (run steps) = out (run pre) ++ Bar id :: tail).
    { assert (Hpre2 : run (pre ++ [SCkpt id]) = do_step (run pre) (SCkpt id)) by (rewrite run_app; reflexivity).
      destruct (out_mono (pre ++ [SCkpt id]) post) as [tail Ht]. exists tail.
      rewrite Hrun, <- Hpre2, Ht, Hpre2. cbn [do_step out]. rewrite <- app_assoc. reflexivity. }
    destruct Hsplit as [tail Hout].
    assert (Hbefore : before_bar id (out (run steps)) = out (run pre)).
    { rewrite Hout, before_bar_app_notin by exact Hnb. cbn [before_bar]. rewrite N.eqb_refl, app_nil_r. reflexivity. }
    assert (Hafter : after_bar id (out (run steps)) = tail).
    { rewrite Hout, after_bar_app_notin by exact Hnb. cbn [after_bar]. rewrite N.eqb_refl. reflexivity. }
    intro s. pose proof (inv_run pre s) as Hpre. pose proof (inv_run steps s) as Hall.
    rewrite Hbefore, Hafter.
    destruct (first_assigned pre s) as [c0|] eqn:E0.
    + destruct Hpre as [p [Hg [Hle Hin]]]. exists p. split; [exact Hg|]. split; [exact Hle|]. split; [exact Hin|].
      intros i Hi.
      eapply (tail_beyond_cursor s post (do_step (run pre) (SCkpt id)) tail); [| cbn [do_step curs]; exact Hg | exact Hi].
      rewrite <- Hrun, Hout. cbn [do_step out]. rewrite <- app_assoc. reflexivity.
    + destruct Hpre as [Hg Hno]. split; [exact Hg | exact Hno].
Qed.

(* ---------- per operator ---------- *)

Lemma before_bar_op_stream : forall route j id o, before_bar id (op_stream route j o) = op_stream route j (before_bar id o).
Proof.
  intros route j id. unfold op_stream. induction o as [|e o IH]; [reflexivity|]. destruct e as [s i|b]; cbn [filter before_bar].
  - destruct (route s i =? j); cbn [filter before_bar]; rewrite IH; [destruct (route s i =? j) eqn:E; reflexivity || reflexivity | reflexivity].
  - destruct (b =? id) eqn:E; cbn [filter before_bar]; rewrite ?E; [reflexivity|]. rewrite IH. reflexivity.
Qed.

Lemma after_bar_op_stream : forall route j id o, after_bar id (op_stream route j o) = op_stream route j (after_bar id o).
Proof.
  intros route j id. unfold op_stream. induction o as [|e o IH]; [reflexivity|]. destruct e as [s i|b]; cbn [filter after_bar].
  - destruct (route s i =? j); cbn [filter after_bar]; exact IH.
  - destruct (b =? id) eqn:E; cbn [filter after_bar]; rewrite ?E; [reflexivity|exact IH].
Qed.

Lemma in_op_stream_rec : forall route j o s i, In (Rec s i) (op_stream route j o) <-> In (Rec s i) o /\ route s i = j.
Proof. intros. unfold op_stream. rewrite filter_In. rewrite N.eqb_eq. tauto. Qed.

(* What the operators see: operator j holds, ahead of barrier id, exactly the records routed to it that lie
   before the reported positions, and behind the barrier only records at or beyond them. *)
Definition cut_exact_ops (steps : list step) : Prop :=
  forall (route : N -> N -> N) j pre id post, steps = pre ++ SCkpt id :: post -> ~ In id (ckpts pre) ->
    let st := run steps in
    let pos := curs (run pre) in
    In (id, pos) (reports st) /\
    forall s,
      match first_assigned pre s with
      | Some c0 => exists p, get_cur pos s = Some p /\
                   (forall i, In (Rec s i) (before_bar id (op_stream route j (out st))) <-> (c0 <= i < p /\ route s i = j)) /\
                   (forall i, In (Rec s i) (after_bar id (op_stream route j (out st))) -> p <= i)
      | None => get_cur pos s = None /\ (forall i, ~ In (Rec s i) (before_bar id (op_stream route j (out st))))
      end.

Theorem positions_match_cut_ops : forall steps, cut_exact_ops steps.
Proof.
  intros steps route j pre id post Hsteps Hfresh st pos. subst st pos.
  destruct (positions_match_cut_all steps pre id post Hsteps Hfresh) as [Hrep Hs]. split; [exact Hrep|].
  intro s. specialize (Hs s). rewrite before_bar_op_stream, after_bar_op_stream.
  destruct (first_assigned pre s) as [c0|].
  - destruct Hs as [p [Hg [Hle [Hb Ha]]]]. exists p. split; [exact Hg|]. split.
    + intro i. rewrite in_op_stream_rec, Hb. tauto.
    + intros i Hi. apply in_op_stream_rec in Hi. apply Ha. tauto.
  - destruct Hs as [Hg Hno]. split; [exact Hg|]. intros i Hi. apply in_op_stream_rec in Hi. eapply Hno. apply Hi.
Qed.

(* resumption: a split assigned with cursor c emits nothing below c, and its first record is c *)
Theorem resume_from_cursor : forall steps s c0, first_assigned steps s = Some c0 ->
  forall i, In (Rec s i) (out (run steps)) -> c0 <= i.
Proof.
  intros steps s c0 H i Hi. pose proof (inv_run steps s) as Hinv. rewrite H in Hinv.
  destruct Hinv as [c [_ [_ Hin]]]. apply Hin in Hi. lia.
Qed.

(* ---------- assignment rounds: FIFO, none dropped, none duplicated ---------- *)

Definition slot_list (st : astate) : list (list (N * N)) := match slot st with Some r => [r] | None => [] end.

Lemma a_inv : forall steps, acked (a_run steps) = delivered (a_run steps) ++ slot_list (a_run steps).
Proof.
  intro steps. unfold a_run. induction steps as [|x steps IH] using rev_ind; [reflexivity|].
  rewrite fold_left_app. cbn [fold_left]. set (st := fold_left a_step steps a_init) in *.
  unfold slot_list in *. destruct x as [r|]; unfold a_step; destruct (slot st) as [r0|] eqn:E; cbn [slot acked delivered].
  - rewrite E. exact IH.
  - rewrite IH. rewrite app_nil_r. reflexivity.
  - rewrite IH. rewrite app_nil_r. reflexivity.
  - rewrite E. exact IH.
Qed.

(* Every acknowledged round reaches the reader: at any moment the acknowledged rounds are the delivered ones plus
   at most the one in the slot, in order; once the loop has taken the slot they are equal, so every split of an
   acknowledged round is given to the reader exactly as often as it was acknowledged. *)
Theorem assignment_rounds_fifo : forall steps,
  acked (a_run steps) = delivered (a_run steps) ++ slot_list (a_run steps) /\
  (slot (a_run steps) = None -> concat (delivered (a_run steps)) = concat (acked (a_run steps))) /\
  delivered (a_run (steps ++ [ATake])) = acked (a_run (steps ++ [ATake])).
Proof.
  intro steps. split; [apply a_inv|]. split.
  - intro H. rewrite (a_inv steps). unfold slot_list. rewrite H, app_nil_r. reflexivity.
  - pose proof (a_inv steps) as Hi. unfold a_run in *. rewrite fold_left_app. cbn [fold_left].
    set (st := fold_left a_step steps a_init) in *. unfold a_step, slot_list in *. destruct (slot st) as [r|]; cbn [acked delivered].
    + symmetry. exact Hi.
    + rewrite Hi, app_nil_r. reflexivity.
Qed.
