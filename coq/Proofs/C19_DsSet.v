(* C19: util/ds/set.go insertion-ordered set (Model/DsSet.v): the map/slice pair stays coherent (set_inv) and the
   slice is exactly the reference "duplicate-free list in first-insertion order" under Add / Without / Diff. *)
From RV Require Import Base.Bytes Model.DsSet.
Open Scope N_scope.

Definition set_inv (s : set) : Prop := NoDup (sl s) /\ forall v, mem v (sm s) = mem v (sl s).

(* ---------- mem library ---------- *)
Lemma ds_beqb_refl a : beqb a a = true.
Proof. apply beqb_eq. reflexivity. Qed.

Lemma mem_In v l : mem v l = true <-> In v l.
Proof.
  unfold mem. rewrite existsb_exists. split.
  - intros [x [Hin Hb]]. apply beqb_eq in Hb. subst x. exact Hin.
  - intros Hin. exists v. split; [exact Hin | apply ds_beqb_refl].
Qed.

Lemma mem_false_In v l : mem v l = false <-> ~ In v l.
Proof.
  rewrite <- mem_In. destruct (mem v l); split; intros H; congruence.
Qed.

Lemma mem_app v l1 l2 : mem v (l1 ++ l2) = mem v l1 || mem v l2.
Proof. unfold mem. apply existsb_app. Qed.

Lemma mem_cons v x l : mem v (x :: l) = beqb v x || mem v l.
Proof. reflexivity. Qed.

Lemma mem_filter f v l : mem v (filter f l) = mem v l && f v.
Proof.
  induction l as [|x l IH]; cbn [filter]; [reflexivity|].
  destruct (f x) eqn:Hfx.
  - rewrite !mem_cons, IH. destruct (beqb v x) eqn:Hb; cbn [orb andb]; [|reflexivity].
    apply beqb_eq in Hb. subst x. rewrite Hfx. reflexivity.
  - rewrite mem_cons, IH. destruct (beqb v x) eqn:Hb; cbn [orb andb]; [|reflexivity].
    apply beqb_eq in Hb. subst x. rewrite Hfx. rewrite andb_false_r. reflexivity.
Qed.

Lemma NoDup_snoc (x : bytes) l : NoDup l -> ~ In x l -> NoDup (l ++ [x]).
Proof.
  intros Hnd Hni. induction Hnd as [|y l Hy Hnd IH]; cbn [app].
  - constructor; [intros []|constructor].
  - constructor.
    + rewrite in_app_iff. intros [Hin|[Heq|[]]]; [contradiction|].
      subst y. apply Hni. left. reflexivity.
    + apply IH. intros Hin. apply Hni. right. exact Hin.
Qed.

(* ---------- 1. empty ---------- *)
Theorem set_empty_inv : set_inv set_empty.
Proof. split; [constructor | reflexivity]. Qed.

(* ---------- 2. add ---------- *)
Lemma set_add1_spec v s :
  set_inv s ->
  set_inv (set_add1 s v) /\ sl (set_add1 s v) = (if mem v (sl s) then sl s else sl s ++ [v]).
Proof.
  intros [Hnd Hm]. unfold set_add1, set_has. rewrite (Hm v).
  destruct (mem v (sl s)) eqn:Hv.
  - split; [split; assumption | reflexivity].
  - cbn [sl sm]. split; [|reflexivity]. split; cbn [sl sm].
    + apply NoDup_snoc; [exact Hnd | apply mem_false_In; exact Hv].
    + intros w. rewrite mem_cons, mem_app, (Hm w). cbn [mem existsb]. rewrite orb_false_r.
      apply orb_comm.
Qed.

Theorem set_add_spec : forall vs s, set_inv s ->
  set_inv (set_add vs s) /\ set_slice (set_add vs s) = ref_add (set_slice s) vs.
Proof.
  unfold set_add, ref_add, set_slice.
  induction vs as [|v vs IH]; intros s Hinv; cbn [fold_left].
  - split; [exact Hinv | reflexivity].
  - destruct (set_add1_spec v s Hinv) as [Hinv1 Hsl1].
    destruct (IH _ Hinv1) as [Hinv2 Hsl2]. split; [exact Hinv2|].
    rewrite Hsl2, Hsl1. reflexivity.
Qed.

(* ---------- 3. without ---------- *)
Theorem set_without_spec : forall vs s, set_inv s ->
  set_inv (set_without vs s) /\ set_slice (set_without vs s) = ref_without (set_slice s) vs.
Proof.
  intros vs s [Hnd Hm]. split; [|reflexivity]. unfold set_without. split; cbn [sl sm].
  - apply NoDup_filter. exact Hnd.
  - intros v. rewrite !mem_filter, (Hm v). reflexivity.
Qed.

(* ---------- 4. has ---------- *)
Theorem set_has_spec : forall v s, set_inv s -> (set_has v s = true <-> In v (set_slice s)).
Proof.
  intros v s [_ Hm]. unfold set_has, set_slice. rewrite (Hm v). apply mem_In.
Qed.

(* ---------- 5. the reference vocabulary ---------- *)
Theorem ref_add_in : forall ref vs v, In v (ref_add ref vs) <-> In v ref \/ In v vs.
Proof.
  unfold ref_add. intros ref vs; revert ref.
  induction vs as [|x vs IH]; intros ref v; cbn [fold_left].
  - cbn [In]. tauto.
  - rewrite IH. destruct (mem x ref) eqn:Hx.
    + apply mem_In in Hx. cbn [In]. split.
      * intros [H|H]; auto.
      * intros [H|[H|H]]; auto. subst x. auto.
    + rewrite in_app_iff. cbn [In]. tauto.
Qed.

Theorem ref_add_nodup : forall ref vs, NoDup ref -> NoDup (ref_add ref vs).
Proof.
  unfold ref_add. intros ref vs; revert ref.
  induction vs as [|x vs IH]; intros ref Hnd; cbn [fold_left]; [exact Hnd|].
  apply IH. destruct (mem x ref) eqn:Hx; [exact Hnd|].
  apply NoDup_snoc; [exact Hnd | apply mem_false_In; exact Hx].
Qed.

Theorem ref_add_prefix : forall ref vs, exists t, ref_add ref vs = ref ++ t.
Proof.
  unfold ref_add. intros ref vs; revert ref.
  induction vs as [|x vs IH]; intros ref; cbn [fold_left].
  - exists []. rewrite app_nil_r. reflexivity.
  - destruct (mem x ref).
    + apply IH.
    + destruct (IH (ref ++ [x])) as [t Ht]. exists ([x] ++ t). rewrite Ht, app_assoc. reflexivity.
Qed.

Theorem ref_without_in : forall ref vs v, In v (ref_without ref vs) <-> In v ref /\ ~ In v vs.
Proof.
  intros ref vs v. unfold ref_without. rewrite filter_In, negb_true_iff, mem_false_In. tauto.
Qed.

(* ---------- 6. size, diff ---------- *)
Theorem set_size_spec : forall s, set_size s = length (set_slice s).
Proof. reflexivity. Qed.

Lemma set_diff_fold s2 : forall l d,
  set_inv d -> NoDup l -> (forall x, In x l -> ~ In x (sl d)) ->
  let d' := fold_left (fun d e => if set_has e s2 then d else set_add1 d e) l d in
  set_inv d' /\ sl d' = sl d ++ filter (fun e => negb (set_has e s2)) l.
Proof.
  induction l as [|e l IH]; intros d Hinv Hnd Hdisj; cbn [fold_left filter].
  - split; [exact Hinv | rewrite app_nil_r; reflexivity].
  - inversion Hnd as [|e' l' He Hnd']; subst e' l'.
    destruct (set_has e s2) eqn:He2; cbn [negb].
    + apply IH; [exact Hinv | exact Hnd' |].
      intros x Hx. apply Hdisj. right. exact Hx.
    + destruct (set_add1_spec e d Hinv) as [Hinv1 Hsl1].
      assert (Hed : mem e (sl d) = false).
      { apply mem_false_In. apply Hdisj. left. reflexivity. }
      rewrite Hed in Hsl1.
      assert (Hdisj1 : forall x, In x l -> ~ In x (sl (set_add1 d e))).
      { intros x Hx. rewrite Hsl1, in_app_iff. intros [Hin|[Heq|[]]].
        - revert Hin. apply Hdisj. right. exact Hx.
        - subst x. contradiction. }
      destruct (IH _ Hinv1 Hnd' Hdisj1) as [Hinv2 Hsl2]. split; [exact Hinv2|].
      rewrite Hsl2, Hsl1, <- app_assoc. reflexivity.
Qed.

Theorem set_diff_spec : forall s s2, set_inv s -> set_inv s2 ->
  set_inv (set_diff s s2) /\
  set_slice (set_diff s s2) = filter (fun e => negb (mem e (set_slice s2))) (set_slice s).
Proof.
  intros s s2 [Hnd _] [_ Hm2]. unfold set_diff, set_slice.
  destruct (set_diff_fold s2 (sl s) set_empty set_empty_inv Hnd) as [Hinv Hsl].
  { intros x _ []. }
  split; [exact Hinv|]. rewrite Hsl. cbn [set_empty sl app].
  apply filter_ext. intros e. unfold set_has. rewrite (Hm2 e). reflexivity.
Qed.

Print Assumptions set_empty_inv.
Print Assumptions set_add_spec.
Print Assumptions set_without_spec.
Print Assumptions set_has_spec.
Print Assumptions ref_add_in.
Print Assumptions ref_add_nodup.
Print Assumptions ref_add_prefix.
Print Assumptions ref_without_in.
Print Assumptions set_size_spec.
Print Assumptions set_diff_spec.
