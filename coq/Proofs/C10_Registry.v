(* C10: the TimerRegistry over the store: the loop of AdvanceWatermark fires exactly the DB entries with t <= watermark,
   earliest first, and the whole system refines the pending-set specification of Proofs/C10_Spec.v for every history. *)
From RV Require Import Base.Bytes Model.TimerStore Model.TimerRegistry.
From RV Require Import Proofs.C10_Sorted Proofs.C10_Queue Proofs.C10_Codec Proofs.C10_Store Proofs.C10_Spec.
From Coq Require Import ZifyN ZifyNat ZifyBool Permutation Sorting.Sorted.
Open Scope N_scope.

Lemma fired_eqb_eq a b : fired_eqb a b = true <-> a = b.
Proof.
  unfold fired_eqb. destruct a as [k1 t1], b as [k2 t2]. cbn. rewrite andb_true_iff, Z.eqb_eq, beqb_eq.
  split; [intros [-> ->]; reflexivity|intros H; inversion H; auto].
Qed.

Lemma existsb_fired x l : existsb (fired_eqb x) l = true <-> In x l.
Proof.
  rewrite existsb_exists. split.
  - intros (y & Hy & E). apply fired_eqb_eq in E. subst. exact Hy.
  - intros H. exists x. split; auto. apply fired_eqb_eq. reflexivity.
Qed.

Lemma In_sp_add x y l : In y (sp_add x l) <-> y = x \/ In y l.
Proof.
  unfold sp_add. destruct (existsb (fired_eqb x) l) eqn:E.
  - apply existsb_fired in E. split; [auto|]. intros [->|H]; auto.
  - cbn. intuition.
Qed.

Lemma NoDup_sp_add x l : NoDup l -> NoDup (sp_add x l).
Proof.
  unfold sp_add. destruct (existsb (fired_eqb x) l) eqn:E; auto.
  intros H. constructor; auto. intros Hin. apply existsb_fired in Hin. congruence.
Qed.

Lemma NoDup_map_local {A B} (f : A -> B) l :
  NoDup l -> (forall x y, In x l -> In y l -> f x = f y -> x = y) -> NoDup (map f l).
Proof.
  induction l as [|a l IH]; cbn; intros Hn Hinj; constructor.
  - inversion Hn as [|? ? Ha Hl]; subst. intros Hin. apply in_map_iff in Hin as (y & Hy & Hin).
    apply Ha. rewrite <- (Hinj y a); auto.
  - inversion Hn; subst. apply IH; auto.
Qed.

Lemma Forall2_imp {A B} (P Q : A -> B -> Prop) l1 l2 :
  (forall a b, P a b -> Q a b) -> Forall2 P l1 l2 -> Forall2 Q l1 l2.
Proof. intros H F. induction F; constructor; auto. Qed.

Lemma filter_len_le {A} (f : A -> bool) l : (length (filter f l) <= length l)%nat.
Proof. induction l as [|x l IH]; cbn; [lia|]. destruct (f x); cbn; lia. Qed.

Lemma during_fold_spec cw L during : forall rest,
  NoDup rest ->
  let P' := fold_left (fun l e => let '(a, k, t) := e in
              if (1 <=? a)%nat && (a <=? L)%nat && (cw <? t)%Z then sp_add (k, t) l else l) during rest in
  NoDup P' /\ forall x, In x P' <-> In x rest \/ exists a k t, In (a, k, t) during /\ (0 < a <= L)%nat /\ (cw < t)%Z /\ x = (k, t).
Proof.
  induction during as [|[[a k] t] r IH]; intros rest Hn; cbn [fold_left].
  - split; auto. intros x. split; [auto|]. intros [H|(a & k & t & [] & _)]. exact H.
  - destruct ((1 <=? a)%nat && (a <=? L)%nat && (cw <? t)%Z) eqn:C.
    + destruct (IH (sp_add (k, t) rest) (NoDup_sp_add _ _ Hn)) as [Hn' M]. split; [exact Hn'|].
      apply andb_true_iff in C as [C C3]. apply andb_true_iff in C as [C1 C2].
      apply Nat.leb_le in C1. apply Nat.leb_le in C2. apply Z.ltb_lt in C3.
      intros x. rewrite M, In_sp_add. split.
      * intros [[->|H]|(a' & k' & t' & Hin & Hx)]; auto.
        -- right. exists a, k, t. repeat split; auto; try lia. left. reflexivity.
        -- right. exists a', k', t'. split; [right; exact Hin|exact Hx].
      * intros [H|(a' & k' & t' & [Hin|Hin] & Hx)]; auto.
        -- inversion Hin; subst a' k' t'. left. left. tauto.
        -- right. exists a', k', t'. auto.
    + destruct (IH rest Hn) as [Hn' M]. split; [exact Hn'|]. intros x. rewrite M. split.
      * intros [H|(a' & k' & t' & Hin & Hx)]; auto. right. exists a', k', t'. split; [right; exact Hin|exact Hx].
      * intros [H|(a' & k' & t' & [Hin|Hin] & Hx)]; auto.
        -- inversion Hin; subst a' k' t'. exfalso. destruct Hx as (Ha & Hw & _).
           assert ((1 <=? a)%nat = true) by (apply Nat.leb_le; lia).
           assert ((a <=? L)%nat = true) by (apply Nat.leb_le; lia).
           assert ((cw <? t)%Z = true) by (apply Z.ltb_lt; lia).
           rewrite H, H0, H1 in C. discriminate.
        -- right. exists a', k', t'. auto.
Qed.

Section Registry.
Variable kgf : bytes -> N.
Variables start size cache : N.
Variable srids : list N.
Hypothesis Hrange : start + size <= 65536.

Definition cfg : config :=
  {| cf_q := Q; cf_kgf := kgf; cf_start := start; cf_size := size; cf_cache := cache; cf_srids := srids |}.

Notation wf_entry := (wf_entry kgf start size).
Notation DBInv := (DBInv kgf start size).
Notation SInv := (SInv start size).
Notation in_range := (in_range start size).

Definition enc (x : fired) : bytes := timer_key (kgf (fst x)) (snd x) (fst x).
Definition dec (b : bytes) : fired := (key_subject b, key_time b).
Definition fired_ok (x : fired) : Prop := t_in (snd x) /\ in_range (kgf (fst x)).

Lemma dec_enc x : fired_ok x -> dec (enc x) = x.
Proof. intros [Ht _]. unfold dec, enc. rewrite key_subject_timer, key_time_timer by exact Ht. destruct x; reflexivity. Qed.

Lemma enc_wf x : fired_ok x -> wf_entry (enc x).
Proof. intros [Ht Hr]. exists (fst x), (snd x). auto. Qed.

Lemma enc_dec b : wf_entry b -> enc (dec b) = b /\ fired_ok (dec b).
Proof.
  intros (key & t & -> & Ht & Hr). unfold enc, dec. cbn [fst snd].
  rewrite key_subject_timer, key_time_timer by exact Ht. split; [reflexivity|]. split; cbn [fst snd]; auto.
Qed.

Lemma key_time_enc x : fired_ok x -> key_time (enc x) = snd x.
Proof. intros [Ht _]. apply key_time_timer. exact Ht. Qed.

(* the DB content represents the pending list *)
Definition Pend (d : db) (P : list fired) : Prop :=
  NoDup P /\ Forall fired_ok P /\ forall b, In b d <-> In b (map enc P).

(* ---------- SetTimer ---------- *)
Lemma store_set_spec wm k t s d s' d' :
  SInv d s -> DBInv d -> fired_ok (k, t) ->
  store_set Q kgf wm k t s d = (s', d') ->
  SInv d' s' /\ DBInv d' /\ forall b, In b d' <-> In b d \/ ((wm <? t)%Z = true /\ b = enc (k, t)).
Proof.
  intros HS HD Hok E. unfold store_set in E. destruct (wm <? t)%Z eqn:Ew; cbn [negb] in E.
  - destruct (ts_push_spec kgf start size Hrange d s _ s' d' HS HD (enc_wf _ Hok) E) as (-> & HS' & HD').
    split; [exact HS'|]. split; [exact HD'|]. intros b. split.
    + intros H. apply In_sins in H as [->|H]; auto.
    + intros [H|[_ ->]]; apply In_sins; auto.
  - inversion E; subst. split; [exact HS|]. split; [exact HD|]. intros b. split; [auto|].
    intros [H|[C _]]; [auto|discriminate].
Qed.

Definition dur_ok (e : nat * bytes * Z) : Prop := fired_ok (snd (fst e), snd e).

Lemma during_sets_spec wm n during : forall s d s' d',
  SInv d s -> DBInv d -> Forall dur_ok during ->
  during_sets Q kgf wm n during s d = (s', d') ->
  SInv d' s' /\ DBInv d' /\
  forall b, In b d' <-> In b d \/ exists a k t, In (a, k, t) during /\ a = n /\ (wm < t)%Z /\ b = enc (k, t).
Proof.
  unfold during_sets. induction during as [|[[a k] t] r IH]; intros s d s' d' HS HD Hok E; cbn [fold_left] in E.
  - inversion E; subst. split; [exact HS|]. split; [exact HD|]. intros b. split; [auto|].
    intros [H|(a & k & t & [] & _)]. exact H.
  - inversion Hok as [|? ? Ho Hr]; subst. cbn [fst snd] in E.
    destruct (Nat.eqb a n) eqn:Ea.
    + destruct (store_set Q kgf wm k t s d) as [s1 d1] eqn:E1.
      destruct (store_set_spec wm k t s d s1 d1 HS HD Ho E1) as (HS1 & HD1 & M1).
      destruct (IH _ _ _ _ HS1 HD1 Hr E) as (HS' & HD' & M'). split; [exact HS'|]. split; [exact HD'|]. intros b. split.
      * intros H. apply M' in H as [H|(a' & k' & t' & Hin & Hx)].
        -- apply M1 in H as [H|[Hw ->]]; auto. right. exists a, k, t. apply Nat.eqb_eq in Ea. apply Z.ltb_lt in Hw.
           repeat split; auto. left. reflexivity.
        -- right. exists a', k', t'. split; [right; exact Hin|exact Hx].
      * intros [H|(a' & k' & t' & [Hin|Hin] & Hx)]; apply M'.
        -- left. apply M1. auto.
        -- inversion Hin; subst a' k' t'. destruct Hx as (_ & Hw & ->). left. apply M1. right. split; auto. apply Z.ltb_lt. exact Hw.
        -- right. exists a', k', t'. auto.
    + destruct (IH _ _ _ _ HS HD Hr E) as (HS' & HD' & M'). split; [exact HS'|]. split; [exact HD'|]. intros b. split.
      * intros H. apply M' in H as [H|(a' & k' & t' & Hin & Hx)]; auto.
        right. exists a', k', t'. split; [right; exact Hin|exact Hx].
      * intros [H|(a' & k' & t' & [Hin|Hin] & Hx)]; apply M'; auto.
        -- inversion Hin; subst a' k' t'. destruct Hx as (-> & _). rewrite Nat.eqb_refl in Ea. discriminate.
        -- right. exists a', k', t'. auto.
Qed.

(* ---------- the firing loop ---------- *)
Definition due_d (cw : Z) (d : db) : list bytes := filter (fun b => (key_time b <=? cw)%Z) d.
Definition le_time (a b : fired) : Prop := (snd a <= snd b)%Z.

(* [fuel] rounds of the loop, for ANY fuel (a consumer that stops after [fuel] items; enough fuel = a drained iterator):
   the handed-out entries [fb] are distinct due entries, earliest first, no due entry that was not handed out is earlier
   than one that was; if the fuel was not used up every due entry was handed out; exactly the handed-out entries left
   the DB (delete-then-yield: nothing handed out stays, nothing else goes). *)
Lemma fire_spec_gen fuel : forall cw n during s d acc out s' d',
  SInv d s -> DBInv d -> Forall dur_ok during ->
  fire Q kgf fuel cw n during s d acc = (out, s', d') ->
  exists fb, out = rev acc ++ map dec fb /\ NoDup fb /\ (forall b, In b fb -> In b (due_d cw d)) /\
    StronglySorted le_time (map dec fb) /\
    (forall x y, In x fb -> In y (due_d cw d) -> ~ In y fb -> (key_time x <= key_time y)%Z) /\
    (length fb <= fuel)%nat /\ ((length fb < fuel)%nat -> forall y, In y (due_d cw d) -> In y fb) /\
    SInv d' s' /\ DBInv d' /\
    forall b, In b d' <->
      (In b d /\ ~ In b fb) \/
      (exists a k t, In (a, k, t) during /\ (n < a <= n + length fb)%nat /\ (cw < t)%Z /\ b = enc (k, t)).
Proof.
  induction fuel as [|f IH]; intros cw n during s d acc out s' d' HS HD Hdur E.
  { cbn [fire] in E. inversion E; subst out s' d'. exists []. cbn [map length]. rewrite app_nil_r.
    split; [reflexivity|]. split; [constructor|]. split; [intros b []|]. split; [constructor|].
    split; [intros x y []|]. split; [lia|]. split; [lia|]. split; [exact HS|]. split; [exact HD|].
    intros b. split; [intros H; left; split; [exact H|intros []]|].
    intros [[H _]|(a & k & t & _ & Ha & _)]; [exact H|lia]. }
  cbn [fire] in E.
  destruct (ts_peek Q d s) as [o s1] eqn:Ep.
  destruct (ts_peek_spec kgf start size Hrange d s o s1 HS HD Ep) as (HS1 & Ho).
  destruct o as [x|].
  - destruct Ho as (Hx & Hmin).
    destruct (cw <? key_time x)%Z eqn:Ec.
    + (* the earliest timer is not due: nothing is *)
      apply Z.ltb_lt in Ec. inversion E; subst out s' d'. exists [].
      assert (Hnone : forall y, In y (due_d cw d) -> False).
      { intros y Hy. unfold due_d in Hy. apply filter_In in Hy as [Hy Hc]. apply Z.leb_le in Hc. specialize (Hmin _ Hy). lia. }
      cbn [map length]. rewrite app_nil_r.
      split; [reflexivity|]. split; [constructor|]. split; [intros b []|]. split; [constructor|].
      split; [intros x0 y []|]. split; [lia|]. split; [intros _ y Hy; exact (Hnone y Hy)|]. split; [exact HS1|]. split; [exact HD|].
      intros b. split; [intros H; left; split; [exact H|intros []]|].
      intros [[H _]|(a & k & t & _ & Ha & _)]; [exact H|lia].
    + apply Z.ltb_ge in Ec.
      assert (Hwx : wf_entry x). { destruct HD as [_ Hw]. rewrite Forall_forall in Hw. auto. }
      destruct (ts_delete Q x d s1) as [s2 d2] eqn:Ed.
      destruct (ts_delete_spec kgf start size Hrange d s1 x s2 d2 HS1 HD Hwx Ed) as (-> & HS2 & HD2).
      destruct (during_sets Q kgf cw (S n) during s2 (sdel x d)) as [s3 d3] eqn:Eds.
      destruct (during_sets_spec cw (S n) during _ _ _ _ HS2 HD2 Hdur Eds) as (HS3 & HD3 & M3).
      assert (Hsd : ssorted d) by apply HD.
      (* the due entries of d3 are those of d without x *)
      assert (Hmem : forall b, In b (due_d cw d3) <-> In b (due_d cw d) /\ b <> x).
      { intros b. unfold due_d. rewrite !filter_In. rewrite M3. rewrite (In_sdel x d b Hsd). split.
        - intros [[[Hb Hne]|(a & k & t & Hin & _ & Hw & ->)] Hc]; [tauto|].
          exfalso. rewrite Forall_forall in Hdur. specialize (Hdur _ Hin). unfold dur_ok in Hdur. cbn in Hdur.
          rewrite key_time_enc in Hc by exact Hdur. cbn in Hc. apply Z.leb_le in Hc. lia.
        - intros [[Hb Hc] Hne]. split; auto. }
      assert (Hxdue : In x (due_d cw d)).
      { unfold due_d. apply filter_In. split; auto. apply Z.leb_le. exact Ec. }
      destruct (IH cw (S n) during s3 d3 _ out s' d' HS3 HD3 Hdur E) as (fb & -> & Hnd & Hsub & Hso & Hear & Hlen & Hall & HS' & HD' & M').
      assert (Hxfb : ~ In x fb). { intros H. apply Hsub, Hmem in H. tauto. }
      exists (x :: fb). split; [|split; [|split; [|split; [|split; [|split; [|split; [|split; [|split]]]]]]]]; auto.
      * cbn [rev map]. rewrite <- app_assoc. reflexivity.
      * constructor; auto.
      * intros b [<-|Hb]; [exact Hxdue|]. apply Hsub, Hmem in Hb. tauto.
      * cbn [map]. constructor; auto. apply Forall_forall. intros y Hy. apply in_map_iff in Hy as (b & <- & Hb).
        unfold le_time, dec. cbn [snd]. apply Hmin.
        apply Hsub, Hmem in Hb. destruct Hb as [Hb _]. unfold due_d in Hb. apply filter_In in Hb. tauto.
      * intros x0 y [<-|Hx0] Hy Hny.
        -- apply Hmin. unfold due_d in Hy. apply filter_In in Hy. tauto.
        -- apply Hear; auto.
           ++ apply Hmem. split; auto. intros ->. apply Hny. left. reflexivity.
           ++ intros H. apply Hny. right. exact H.
      * cbn [length]. lia.
      * cbn [length]. intros Hl y Hy. destruct (list_eq_dec N.eq_dec y x) as [->|Hne]; [left; reflexivity|right].
        apply Hall; [lia|]. apply Hmem. auto.
      * intros b. rewrite M'. cbn [length]. split.
        -- intros [[Hb Hc]|(a & k & t & Hin & Ha & Hw & ->)].
           ++ apply M3 in Hb as [Hb|(a & k & t & Hin & -> & Hw & ->)].
              ** apply In_sdel in Hb as [Hb Hne]; auto. left. split; auto. intros [<-|H]; [congruence|auto].
              ** right. exists (S n), k, t. repeat split; auto; lia.
           ++ right. exists a, k, t. repeat split; auto; lia.
        -- intros [[Hb Hc]|(a & k & t & Hin & Ha & Hw & ->)].
           ++ left. split.
              ** apply M3. left. apply In_sdel; auto. split; auto. intros ->. apply Hc. left. reflexivity.
              ** intros H. apply Hc. right. exact H.
           ++ destruct (Nat.eq_dec a (S n)) as [->|Hne].
              ** left. split.
                 --- apply M3. right. exists (S n), k, t. auto.
                 --- intros H. apply Hsub in H. unfold due_d in H. apply filter_In in H as [_ H].
                     rewrite Forall_forall in Hdur. specialize (Hdur _ Hin). unfold dur_ok in Hdur. cbn in Hdur.
                     rewrite key_time_enc in H by exact Hdur. cbn in H. apply Z.leb_le in H. lia.
              ** right. exists a, k, t. repeat split; auto; lia.
  - (* empty DB *)
    subst d. inversion E; subst out s' d'. exists []. cbn [map length]. rewrite app_nil_r.
    split; [reflexivity|]. split; [constructor|]. split; [intros b []|]. split; [constructor|].
    split; [intros x y []|]. split; [lia|]. split; [intros _ y []|]. split; [exact HS1|]. split; [exact HD|].
    intros b. split; [intros []|].
    intros [[[] _]|(a & k & t & _ & Ha & _)]. lia.
Qed.

(* a drained iterator: more fuel than due entries *)
Lemma fire_spec fuel : forall cw n during s d acc out s' d',
  SInv d s -> DBInv d -> Forall dur_ok during ->
  (length (due_d cw d) < fuel)%nat ->
  fire Q kgf fuel cw n during s d acc = (out, s', d') ->
  exists fb, out = rev acc ++ map dec fb /\ Permutation fb (due_d cw d) /\ StronglySorted le_time (map dec fb) /\
    SInv d' s' /\ DBInv d' /\
    forall b, In b d' <->
      (In b d /\ (cw < key_time b)%Z) \/
      (exists a k t, In (a, k, t) during /\ (n < a <= n + length fb)%nat /\ (cw < t)%Z /\ b = enc (k, t)).
Proof.
  intros cw n during s d acc out s' d' HS HD Hdur Hfuel E.
  destruct (fire_spec_gen fuel _ _ _ _ _ _ _ _ _ HS HD Hdur E) as (fb & Ho & Hnd & Hsub & Hso & _ & _ & Hall & HS' & HD' & M).
  assert (Hnd2 : NoDup (due_d cw d)) by (apply ssorted_NoDup, filter_sorted, HD).
  assert (Hle : (length fb <= length (due_d cw d))%nat) by (apply NoDup_incl_length; auto).
  assert (Hall' : forall y, In y (due_d cw d) -> In y fb) by (apply Hall; lia).
  exists fb. split; [exact Ho|]. split; [apply NoDup_Permutation; auto; intros b; split; auto|].
  split; [exact Hso|]. split; [exact HS'|]. split; [exact HD'|].
  intros b. rewrite M. split.
  - intros [[Hb Hn]|H]; [left|right; exact H]. split; auto.
    destruct (cw <? key_time b)%Z eqn:Ec; [apply Z.ltb_lt; exact Ec|]. exfalso. apply Hn, Hall'.
    unfold due_d. apply filter_In. split; auto. apply Z.leb_le. apply Z.ltb_ge in Ec. exact Ec.
  - intros [[Hb Hc]|H]; [left|right; exact H]. split; auto.
    intros H. apply Hsub in H. unfold due_d in H. apply filter_In in H as [_ H]. apply Z.leb_le in H. lia.
Qed.


(* ---------- refinement of the pending-set specification ---------- *)
Definition Rel (st : sys) (sp : spec) : Prop :=
  SInv (snd st) (r_store (fst st)) /\ DBInv (snd st) /\
  r_ups (fst st) = sp_ups sp /\ r_wm (fst st) = sp_wm sp /\ Pend (snd st) (sp_pending sp).

Definition op_okc (o : op) : Prop :=
  match o with
  | SetTimer k t => fired_ok (k, t)
  | AdvanceSet _ _ during => Forall dur_ok during
  | AdvancePartial _ _ _ during => Forall dur_ok during
  | _ => True
  end.

Lemma In_map_sp_add x P b : In b (map enc (sp_add x P)) <-> b = enc x \/ In b (map enc P).
Proof.
  rewrite !in_map_iff. split.
  - intros (y & <- & Hy). apply In_sp_add in Hy as [->|Hy]; [left; reflexivity|right; eauto].
  - intros [->|(y & <- & Hy)]; [exists x|exists y]; split; auto; apply In_sp_add; auto.
Qed.

Lemma Rel_init : Rel (sys_new cfg []) (spec_new srids []).
Proof.
  split; [apply SInv_new|]. split; [apply DBInv_nil|]. split; [reflexivity|]. split; [reflexivity|].
  split; [constructor|]. split; [constructor|]. intros b. cbn. tauto.
Qed.

Lemma set_timer_rel st sp k t : Rel st sp -> fired_ok (k, t) -> Rel (set_timer Q kgf k t st) (sp_set k t sp).
Proof.
  destruct st as [r d]. intros (HS & HD & Hu & Hw & Hn & Hok & Hm) Hx. cbn [fst snd] in *.
  unfold set_timer. destruct (store_set Q kgf (r_wm r) k t (r_store r) d) as [s' d'] eqn:E.
  destruct (store_set_spec _ _ _ _ _ _ _ HS HD Hx E) as (HS' & HD' & M).
  unfold sp_set. rewrite <- Hw. destruct (r_wm r <? t)%Z eqn:Ew.
  - split; [exact HS'|]. split; [exact HD'|]. split; [exact Hu|]. split; [reflexivity|]. cbn [sp_pending fst snd].
    split; [apply NoDup_sp_add; exact Hn|]. split.
    + apply Forall_forall. intros y Hy. apply In_sp_add in Hy as [->|Hy]; auto. rewrite Forall_forall in Hok. auto.
    + intros b. rewrite M, In_map_sp_add, Hm. intuition.
  - split; [exact HS'|]. split; [exact HD'|]. split; [exact Hu|]. split; [exact Hw|]. cbn [fst snd].
    split; [exact Hn|]. split; [exact Hok|]. intros b. rewrite M, Hm. split; [intros [H|[C _]]; [auto|discriminate]|auto].
Qed.

Lemma restore_rel st sp : Rel st sp -> Rel (sys_new cfg (snd st)) (spec_new srids (sp_pending sp)).
Proof.
  intros (HS & HD & Hu & Hw & HP). split; [apply SInv_new|]. split; [exact HD|]. split; [reflexivity|]. split; [reflexivity|]. exact HP.
Qed.

Lemma dec_inj_wf a b : wf_entry a -> wf_entry b -> dec a = dec b -> a = b.
Proof. intros Ha Hb E. rewrite <- (proj1 (enc_dec a Ha)), <- (proj1 (enc_dec b Hb)), E. reflexivity. Qed.

Lemma due_perm d P cw : DBInv d -> Pend d P -> Permutation (map dec (due_d cw d)) (filter (is_due cw) P).
Proof.
  intros [Hs Hw] (Hn & Hok & Hm). rewrite Forall_forall in Hw, Hok. apply NoDup_Permutation.
  - apply NoDup_map_local.
    + apply ssorted_NoDup, filter_sorted, Hs.
    + intros x y Hx Hy. unfold due_d in Hx, Hy. apply filter_In in Hx as [Hx _]. apply filter_In in Hy as [Hy _].
      apply dec_inj_wf; auto.
  - apply NoDup_filter. exact Hn.
  - intros y. rewrite in_map_iff, filter_In. unfold due_d. split.
    + intros (b & <- & Hb). apply filter_In in Hb as [Hb Hc]. apply Hm in Hb. apply in_map_iff in Hb as (x & <- & Hx).
      rewrite dec_enc by auto. split; auto. unfold is_due. rewrite key_time_enc in Hc by auto. exact Hc.
    + intros [Hy Hc]. exists (enc y). split; [apply dec_enc; auto|]. apply filter_In. split.
      * apply Hm. apply in_map. exact Hy.
      * rewrite key_time_enc by auto. exact Hc.
Qed.

Lemma advance_rel st sp sender wm during out st' :
  Rel st sp -> Forall dur_ok during ->
  advance Q kgf None sender wm during st = (out, st') ->
  Permutation out (fst (sp_advance sender wm during sp)) /\ StronglySorted le_time out /\ NoDup out /\
  Rel st' (snd (sp_advance sender wm during sp)).
Proof.
  destruct st as [r d]. intros (HS & HD & Hu & Hw & HP) Hdur E. cbn [fst snd] in *.
  unfold advance in E. rewrite Hu in E.
  set (ups := ups_set sender wm (sp_ups sp)) in *. set (cw := ups_min ups) in *.
  destruct (fire Q kgf (S (length d + length during)) cw 0 during (r_store r) d []) as [[o s'] d'] eqn:Ef.
  inversion E; subst out st'. clear E.
  assert (Hfuel : (length (due_d cw d) < S (length d + length during))%nat).
  { unfold due_d. pose proof (filter_len_le (fun b => (key_time b <=? cw)%Z) d). lia. }
  destruct (fire_spec _ _ _ _ _ _ _ _ _ _ HS HD Hdur Hfuel Ef) as (fb & -> & Hp & Hso & HS' & HD' & M).
  cbn [rev app].
  assert (Hperm : Permutation (map dec fb) (filter (is_due cw) (sp_pending sp))).
  { rewrite <- (due_perm d _ cw HD HP). apply Permutation_map. exact Hp. }
  assert (HP0 := HP).
  unfold sp_advance. fold ups. fold cw. cbn [fst snd].
  destruct HP as (Hn & Hok & Hm). rewrite Forall_forall in Hok.
  split; [exact Hperm|]. split; [exact Hso|].
  split; [apply (Permutation_NoDup (Permutation_sym Hperm)), NoDup_filter, Hn|].
  split; [exact HS'|]. split; [exact HD'|]. split; [reflexivity|]. split; [reflexivity|]. cbn [sp_pending].
  set (L := length (filter (is_due cw) (sp_pending sp))).
  assert (HL : length fb = L).
  { unfold L. rewrite <- (Permutation_length Hperm), map_length. reflexivity. }
  destruct (during_fold_spec cw L during (filter (fun x => negb (is_due cw x)) (sp_pending sp))
              (NoDup_filter _ Hn)) as [Hn' M'].
  split; [exact Hn'|]. split.
  - apply Forall_forall. intros x Hx. apply M' in Hx as [Hx|(a & k & t & Hin & _ & _ & ->)].
    + apply filter_In in Hx as [Hx _]. auto.
    + rewrite Forall_forall in Hdur. apply (Hdur _ Hin).
  - intros b. rewrite M, in_map_iff. rewrite HL. split.
    + intros [[Hb Hc]|(a & k & t & Hin & Ha & Hw' & ->)].
      * apply Hm in Hb. apply in_map_iff in Hb as (x & <- & Hx). exists x. split; [reflexivity|].
        apply M'. left. apply filter_In. split; auto. unfold is_due. rewrite key_time_enc in Hc by auto.
        apply negb_true_iff. apply Z.leb_gt. exact Hc.
      * exists (k, t). split; [reflexivity|]. apply M'. right. exists a, k, t. repeat split; auto; lia.
    + intros (x & <- & Hx). apply M' in Hx as [Hx|(a & k & t & Hin & Ha & Hw' & ->)].
      * apply filter_In in Hx as [Hx Hc]. left. split.
        -- apply Hm. apply in_map. exact Hx.
        -- rewrite key_time_enc by auto. unfold is_due in Hc. apply negb_true_iff in Hc. apply Z.leb_gt in Hc. exact Hc.
      * right. exists a, k, t. repeat split; auto; lia.
Qed.

Lemma sorted_time_sorted l : StronglySorted le_time l -> time_sorted l = true.
Proof.
  induction l as [|x l IH]; intros H; [reflexivity|].
  inversion H as [|? ? Hs Hf]; subst. destruct l as [|y l]; [reflexivity|].
  specialize (IH Hs). inversion Hf; subst.
  change (time_sorted (x :: y :: l)) with ((snd x <=? snd y)%Z && time_sorted (y :: l)).
  rewrite IH, andb_true_r. apply Z.leb_le. assumption.
Qed.

(* the consumer stops after k items: what was handed out satisfies [partial_ok] and exactly that left the pending set *)
Lemma advance_partial_rel st sp sender wm k during out st' :
  Rel st sp -> Forall dur_ok during ->
  advance Q kgf (Some k) sender wm during st = (out, st') ->
  partial_ok k (fst (sp_advance_partial sender wm during out sp)) out /\
  Rel st' (snd (sp_advance_partial sender wm during out sp)).
Proof.
  destruct st as [r d]. intros (HS & HD & Hu & Hw & HP) Hdur E. cbn [fst snd] in *.
  unfold advance in E. rewrite Hu in E.
  set (ups := ups_set sender wm (sp_ups sp)) in *. set (cw := ups_min ups) in *.
  destruct (fire Q kgf k cw 0 during (r_store r) d []) as [[o s'] d'] eqn:Ef.
  inversion E; subst out st'. clear E.
  destruct (fire_spec_gen _ _ _ _ _ _ _ _ _ _ HS HD Hdur Ef) as (fb & -> & Hnd & Hsub & Hso & Hear & Hlen & Hall & HS' & HD' & M).
  cbn [rev app].
  pose proof (due_perm d _ cw HD HP) as Hdp.
  destruct HP as (Hn & Hok & Hm). rewrite Forall_forall in Hok.
  assert (Hdw : forall b, In b d -> wf_entry b). { destruct HD as [_ Hw']. rewrite Forall_forall in Hw'. exact Hw'. }
  assert (Hfbw : forall b, In b fb -> In b d /\ (key_time b <= cw)%Z).
  { intros b Hb. apply Hsub in Hb. unfold due_d in Hb. apply filter_In in Hb as [Hb Hc]. apply Z.leb_le in Hc. auto. }
  (* an element of P is handed out iff its encoding is *)
  assert (Hout : forall x, In x (sp_pending sp) -> (In x (map dec fb) <-> In (enc x) fb)).
  { intros x Hx. split.
    - intros Hi. apply in_map_iff in Hi as (b & Eb & Hb). destruct (Hfbw _ Hb) as [Hbd _].
      destruct (enc_dec b (Hdw _ Hbd)) as [Ee _]. rewrite Eb in Ee. rewrite Ee. exact Hb.
    - intros Hi. apply in_map_iff. exists (enc x). split; [apply dec_enc; auto|exact Hi]. }
  unfold sp_advance_partial. fold ups. fold cw. cbn [fst snd].
  set (due := filter (is_due cw) (sp_pending sp)).
  assert (Hdl : length (due_d cw d) = length due).
  { unfold due. rewrite <- (Permutation_length Hdp), map_length. reflexivity. }
  assert (Hdue : forall y, In y due -> In (enc y) (due_d cw d) /\ In y (sp_pending sp)).
  { intros y Hy. unfold due in Hy. apply filter_In in Hy as [Hy Hc]. split; auto.
    unfold due_d. apply filter_In. split; [apply Hm, in_map; exact Hy|]. rewrite key_time_enc by auto. exact Hc. }
  split.
  - (* partial_ok *)
    split; [|split; [|split; [|split]]].
    + apply NoDup_map_local; auto. intros x y Hx Hy. apply dec_inj_wf; apply Hdw; apply Hfbw; auto.
    + intros y Hy. apply (Permutation_in _ Hdp). apply in_map_iff in Hy as (b & <- & Hb). apply in_map, Hsub, Hb.
    + apply sorted_time_sorted, Hso.
    + rewrite map_length, <- Hdl.
      assert (Hle : (length fb <= length (due_d cw d))%nat).
      { apply NoDup_incl_length; auto. }
      destruct (Nat.lt_ge_cases (length fb) k) as [Hlt|Hge].
      * assert (Hge' : (length (due_d cw d) <= length fb)%nat).
        { apply NoDup_incl_length; [apply ssorted_NoDup, filter_sorted, HD|]. intros y Hy. apply Hall; auto. }
        lia.
      * lia.
    + intros x y Hx Hy Hny. apply in_map_iff in Hx as (b & <- & Hb). destruct (Hdue _ Hy) as [Hyd Hyp].
      unfold dec at 1. cbn [snd]. rewrite <- (key_time_enc y) by auto. apply Hear; auto.
      intros H. apply Hny. apply Hout; auto.
  - split; [exact HS'|]. split; [exact HD'|]. split; [reflexivity|]. split; [reflexivity|]. cbn [sp_pending].
    rewrite (map_length dec fb).
    destruct (during_fold_spec cw (length fb) during (removed (map dec fb) (sp_pending sp))
                (NoDup_filter _ Hn)) as [Hn' M'].
    assert (Hrem : forall x, In x (removed (map dec fb) (sp_pending sp)) <-> In x (sp_pending sp) /\ ~ In x (map dec fb)).
    { intros x. unfold removed. rewrite filter_In, negb_true_iff. split.
      - intros [Hx Hc]. split; auto. intros Hi. apply existsb_fired in Hi. congruence.
      - intros [Hx Hc]. split; auto. destruct (existsb (fired_eqb x) (map dec fb)) eqn:Ee; auto.
        apply existsb_fired in Ee. contradiction. }
    split; [exact Hn'|]. split.
    + apply Forall_forall. intros x Hx. apply M' in Hx as [Hx|(a & k0 & t & Hin & _ & _ & ->)].
      * apply Hrem in Hx as [Hx _]. auto.
      * rewrite Forall_forall in Hdur. apply (Hdur _ Hin).
    + intros b. rewrite M, in_map_iff. split.
      * intros [[Hb Hc]|(a & k0 & t & Hin & Ha & Hw' & ->)].
        -- apply Hm in Hb. apply in_map_iff in Hb as (x & <- & Hx). exists x. split; [reflexivity|].
           apply M'. left. apply Hrem. split; auto. intros Hi. apply Hc. apply Hout; auto.
        -- exists (k0, t). split; [reflexivity|]. apply M'. right. exists a, k0, t. repeat split; auto; lia.
      * intros (x & <- & Hx). apply M' in Hx as [Hx|(a & k0 & t & Hin & Ha & Hw' & ->)].
        -- apply Hrem in Hx as [Hx Hc]. left. split; [apply Hm, in_map; exact Hx|]. intros Hi. apply Hc. apply Hout; auto.
        -- right. exists a, k0, t. repeat split; auto; lia.
Qed.

Definition out_ok (out : list fired) (e : expect) : Prop :=
  match snd e with
  | None => Permutation out (fst e) /\ time_sorted out = true /\ NoDup out
  | Some k => partial_ok k (fst e) out
  end.

Theorem run_refines ops : forall st sp outs st',
  Rel st sp -> Forall op_okc ops ->
  run cfg ops st = (outs, st') ->
  Forall2 out_ok outs (fst (spec_run srids ops outs sp)) /\ Rel st' (snd (spec_run srids ops outs sp)).
Proof.
  induction ops as [|o r IH]; intros st sp outs st' HR Hok E; cbn [run spec_run] in *.
  - inversion E; subst. split; [constructor|exact HR].
  - inversion Hok as [|? ? Ho Hr]; subst.
    destruct (step cfg o st) as [out st1] eqn:Es.
    destruct (run cfg r st1) as [outs2 st2] eqn:Er. inversion E; subst outs st'. clear E.
    destruct o as [k t|sender wm|sender wm during|sender wm k during|]; cbn [step sp_step is_adv cfg cf_q cf_kgf] in *.
    + inversion Es; subst out st1. cbn [app].
      destruct (spec_run srids r outs2 (sp_set k t sp)) as [dues sp2] eqn:Esp.
      pose proof (IH _ _ _ _ (set_timer_rel st sp k t HR Ho) Hr Er) as H. rewrite Esp in H. exact H.
    + destruct (advance Q kgf None sender wm [] st) as [o1 st1'] eqn:Ea. inversion Es; subst out st1. cbn [app hd tl].
      destruct (advance_rel st sp sender wm [] o1 st1' HR (Forall_nil _) Ea) as (Hp & Hso & Hnd & HR1).
      destruct (sp_advance sender wm [] sp) as [due sp1] eqn:Esa. cbn [fst snd] in *.
      destruct (spec_run srids r outs2 sp1) as [dues sp2] eqn:Esp.
      pose proof (IH _ _ _ _ HR1 Hr Er) as H. rewrite Esp in H. cbn [fst snd app] in *.
      split; [constructor; [|apply H]|apply H]. unfold out_ok. cbn [fst snd]. repeat split; auto. apply sorted_time_sorted, Hso.
    + destruct (advance Q kgf None sender wm during st) as [o1 st1'] eqn:Ea. inversion Es; subst out st1. cbn [app hd tl].
      destruct (advance_rel st sp sender wm during o1 st1' HR Ho Ea) as (Hp & Hso & Hnd & HR1).
      destruct (sp_advance sender wm during sp) as [due sp1] eqn:Esa. cbn [fst snd] in *.
      destruct (spec_run srids r outs2 sp1) as [dues sp2] eqn:Esp.
      pose proof (IH _ _ _ _ HR1 Hr Er) as H. rewrite Esp in H. cbn [fst snd app] in *.
      split; [constructor; [|apply H]|apply H]. unfold out_ok. cbn [fst snd]. repeat split; auto. apply sorted_time_sorted, Hso.
    + destruct (advance Q kgf (Some k) sender wm during st) as [o1 st1'] eqn:Ea. inversion Es; subst out st1. cbn [app hd tl].
      destruct (advance_partial_rel st sp sender wm k during o1 st1' HR Ho Ea) as (Hp & HR1).
      destruct (sp_advance_partial sender wm during o1 sp) as [due sp1] eqn:Esa. cbn [fst snd] in *.
      destruct (spec_run srids r outs2 sp1) as [dues sp2] eqn:Esp.
      pose proof (IH _ _ _ _ HR1 Hr Er) as H. rewrite Esp in H. cbn [fst snd app] in *.
      split; [constructor; [|apply H]|apply H]. exact Hp.
    + inversion Es; subst out st1. cbn [app].
      destruct (spec_run srids r outs2 (spec_new srids (sp_pending sp))) as [dues sp2] eqn:Esp.
      pose proof (IH _ _ _ _ (restore_rel st sp HR) Hr Er) as H. rewrite Esp in H. exact H.
Qed.

Lemma Pend_perm d P : DBInv d -> Pend d P -> Permutation d (map enc P).
Proof.
  intros [Hs _] (Hn & Hok & Hm). rewrite Forall_forall in Hok. apply NoDup_Permutation; auto.
  - apply ssorted_NoDup, Hs.
  - apply NoDup_map_local; auto. intros x y Hx Hy E. rewrite <- (dec_enc x), <- (dec_enc y), E; auto.
Qed.

(* the invariant the property names, on every partition of a reachable state *)
Definition cache_inv (st : sys) : Prop :=
  forall i p, nth_error (ts_parts (r_store (fst st))) i = Some p ->
    (exists rest, db_scan (k_prefix p) (snd st) = c_items (k_cache p) ++ rest /\ (k_all p = true -> rest = [])) /\
    c_size (k_cache p) = sum_len (c_items (k_cache p)).

Theorem refinement ops :
  Forall op_okc ops ->
  let outs := fst (run cfg ops (sys_new cfg [])) in
  Forall2 out_ok outs (fst (spec_run srids ops outs (spec_new srids []))) /\
  Permutation (snd (snd (run cfg ops (sys_new cfg [])))) (map enc (sp_pending (snd (spec_run srids ops outs (spec_new srids []))))) /\
  cache_inv (snd (run cfg ops (sys_new cfg []))).
Proof.
  intros Hok. destruct (run cfg ops (sys_new cfg [])) as [outs st'] eqn:E.
  destruct (run_refines ops _ _ _ _ Rel_init Hok E) as [H2 HR]. cbn [fst snd].
  split; [exact H2|split].
  - destruct HR as (_ & HD & _ & _ & HP). apply Pend_perm; auto.
  - destruct HR as ((_ & _ & Hp) & _). intros i p Ei. destruct (Hp _ _ Ei) as (_ & HP & Hsz). split; [exact HP|exact Hsz].
Qed.

End Registry.
