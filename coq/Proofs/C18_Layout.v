(* Valid level layouts and the correctness of LevelList.Get / ScanPrefix on them:
   both return, per key, the entry with the greatest sequence number of the whole layout ([view]). *)
From Coq Require Import List NArith Bool Lia.
From RV Require Import Base.Bytes Model.LsmBase Proofs.C07_Sorted.
Import ListNotations.
Open Scope N_scope.

(* ---------- byte-string facts for prefixes and ranges ---------- *)

Definition kle (a b : bytes) : Prop := a = b \/ klt a b.

Lemma kle_trans a b c : kle a b -> kle b c -> kle a c.
Proof. intros [->|H1] [->|H2]; unfold kle; auto. right. eapply klt_trans; eauto. Qed.
Lemma kle_lt_trans a b c : kle a b -> klt b c -> klt a c.
Proof. intros [->|H1] H2; auto. eapply klt_trans; eauto. Qed.
Lemma klt_le_trans a b c : klt a b -> kle b c -> klt a c.
Proof. intros H1 [<-|H2]; auto. eapply klt_trans; eauto. Qed.
Lemma kle_total a b : kle a b \/ klt b a.
Proof.
  unfold kle, klt. rewrite (bcmp_antisym a b). destruct (bcmp a b) eqn:E; cbn; auto. left. left. apply bcmp_eq. exact E.
Qed.
Lemma bleb_kle a b : bleb a b = true <-> kle a b.
Proof. apply bleb_true. Qed.

Lemma prefix_le p x : is_prefix p x = true -> kle p x.
Proof.
  revert x. induction p as [|a p IH]; intros [|b x] H; cbn in H; try discriminate.
  - left. reflexivity.
  - right. reflexivity.
  - apply andb_true_iff in H as [H1 H2]. apply N.eqb_eq in H1. subst b.
    destruct (IH _ H2) as [->|H3]; [left; reflexivity|right]. unfold klt in *. cbn. rewrite N.compare_refl. exact H3.
Qed.

Lemma prefix_between p f x : klt p f -> kle f x -> is_prefix p x = true -> is_prefix p f = true.
Proof.
  revert f x. induction p as [|a p IH]; intros f x H1 H2 H3; [reflexivity|].
  destruct x as [|c x]; [discriminate|]. cbn in H3. apply andb_true_iff in H3 as [H3 H4]. apply N.eqb_eq in H3. subst c.
  destruct f as [|b f]; [discriminate|]. unfold klt in H1. cbn in H1. cbn.
  assert (Hab : a = b /\ klt p f /\ kle f x).
  { destruct H2 as [H2|H2].
    - injection H2 as -> ->. rewrite N.compare_refl in H1. repeat split; auto. left. reflexivity.
    - unfold klt in H2. cbn in H2. destruct (a ?= b) eqn:E1; try discriminate.
      + apply N.compare_eq in E1. subst b. rewrite N.compare_refl in H2. repeat split; auto. right. exact H2.
      + rewrite N.compare_antisym, E1 in H2. cbn in H2. discriminate. }
  destruct Hab as (-> & Hp & Hf). rewrite N.eqb_refl. cbn. eapply IH; eauto.
Qed.

(* ---------- key range of a sorted table ---------- *)

Lemma first_key_le t e : sorted t -> In e t -> kle (first_key t) (ekey e).
Proof. destruct t as [|x t]; [intros _ []|]. cbn. intros [H _] [<-|He]; [left; reflexivity|right; auto]. Qed.

Lemma last_key_ge t e : sorted t -> In e t -> kle (ekey e) (last_key t).
Proof.
  unfold last_key. revert e. induction t as [|x t IH]; intros e; [intros _ []|]. intros [H1 H2] He.
  destruct t as [|y t]; [destruct He as [<-|[]]; left; reflexivity|].
  change (last (map ekey (x :: y :: t)) []) with (last (map ekey (y :: t)) []).
  destruct He as [<-|He]; [|apply IH; auto].
  right. eapply klt_le_trans; [apply (H1 y); left; reflexivity|]. apply IH; [exact H2|left; reflexivity].
Qed.

Lemma last_key_in t : t <> [] -> exists e, In e t /\ ekey e = last_key t.
Proof.
  unfold last_key. induction t as [|x t IH]; [congruence|]. intros _. destruct t as [|y t].
  - exists x. split; [left; reflexivity|reflexivity].
  - change (last (map ekey (x :: y :: t)) []) with (last (map ekey (y :: t)) []).
    destruct IH as (e & He & Hk); [discriminate|]. exists e. split; [right; exact He|exact Hk].
Qed.

Lemma range_contains_in t e : sorted t -> In e t -> range_contains (ekey e) t = true.
Proof.
  intros Hs He. unfold range_contains. apply andb_true_iff. split; apply bleb_kle; [apply first_key_le|apply last_key_ge]; auto.
Qed.

Lemma range_contains_prefix_in p t e : sorted t -> In e t -> is_prefix p (ekey e) = true -> range_contains_prefix p t = true.
Proof.
  intros Hs He Hp. unfold range_contains_prefix.
  destruct (is_prefix p (first_key t)) eqn:E1; [rewrite orb_true_r; reflexivity|].
  destruct (is_prefix p (last_key t)) eqn:E2; [rewrite orb_true_r; reflexivity|].
  rewrite !orb_false_r. apply andb_true_iff. split; apply bleb_kle.
  - destruct (kle_total (first_key t) p) as [H|H]; [exact H|]. exfalso.
    rewrite (prefix_between p (first_key t) (ekey e) H (first_key_le _ _ Hs He) Hp) in E1. discriminate.
  - eapply kle_trans; [apply prefix_le; exact Hp|apply last_key_ge; auto].
Qed.

(* ---------- lookups in concatenations ---------- *)

Lemma tbl_get_app k a b : tbl_get k (a ++ b) = match tbl_get k a with Some e => Some e | None => tbl_get k b end.
Proof.
  induction a as [|x a IH]; [reflexivity|]. cbn [app]. rewrite !tbl_get_cons. destruct (beqb (ekey x) k); auto.
Qed.

Lemma sorted_concat_in l t : sorted (concat l) -> In t l -> sorted t.
Proof.
  induction l as [|x l IH]; [intros _ []|]. cbn. intros H [<-|Ht]; apply sorted_app in H as (H1 & H2 & _); auto.
Qed.

Lemma in_concat_iff (l : list table) e : In e (concat l) <-> exists t, In t l /\ In e t.
Proof. rewrite in_concat. split; intros (t & H1 & H2); exists t; auto. Qed.

Lemma sorted_concat_filter (f : table -> bool) l : sorted (concat l) -> sorted (concat (filter f l)).
Proof.
  induction l as [|x l IH]; [auto|]. cbn. intros H. apply sorted_app in H as (H1 & H2 & H3).
  destruct (f x); cbn; [|auto]. apply sorted_app. repeat split; auto.
  intros a b Ha Hb. apply H3; auto. apply in_concat_iff in Hb as (t & Ht & Hb). apply filter_In in Ht as [Ht _].
  apply in_concat_iff. exists t. auto.
Qed.

(* in a level whose concatenation is sorted an entry key lives in one table *)
Lemma sorted_concat_same_table l t t' e e' :
  sorted (concat l) -> In t l -> In t' l -> In e t -> In e' t' -> ekey e = ekey e' -> t = t' /\ e = e'.
Proof.
  induction l as [|x l IH]; [intros _ []|]. cbn. intros H Ht Ht' He He' Hk.
  apply sorted_app in H as (H1 & H2 & H3).
  assert (Hc : forall y b, In y l -> In b y -> In b (concat l)) by (intros y b Hy Hb; apply in_concat_iff; exists y; auto).
  destruct Ht as [<-|Ht], Ht' as [<-|Ht'].
  - split; [reflexivity|]. exact (sorted_key_inj _ _ _ H1 He He' Hk).
  - exfalso. specialize (H3 e e' He (Hc _ _ Ht' He')). rewrite Hk in H3. exact (klt_irrefl _ H3).
  - exfalso. specialize (H3 e' e He' (Hc _ _ Ht He)). rewrite Hk in H3. exact (klt_irrefl _ H3).
  - apply IH; auto.
Qed.

(* ---------- valid layouts ---------- *)

Definition ents (ll : levels) (e : entry) : Prop := exists l t, In l ll /\ In t l /\ In e t.
Definition view (ll : levels) : table := merge_all (concat ll).

(* level 0 (and the memtables above it) in chronological order: every sequence number of an earlier table is
   below every sequence number of a later one *)
Fixpoint sep (cs : list table) : Prop :=
  match cs with
  | [] => True
  | x :: r => (forall y e e', In y r -> In e x -> In e' y -> eseq e < eseq e') /\ sep r
  end.

Definition deep_ok (l : list table) : Prop := sorted (concat l) /\ forall t, In t l -> t <> [].

Record LLInv (ll : levels) : Prop := mkLLInv {
  v_sorted : forall l t, In l ll -> In t l -> sorted t;
  v_deep : forall i l, nth_error ll (S i) = Some l -> deep_ok l;
  v_sep : forall l, nth_error ll 0 = Some l -> sep l;
  v_ord : forall i j li lj t t' e e', (i < j)%nat -> nth_error ll i = Some li -> nth_error ll j = Some lj ->
            In t li -> In t' lj -> In e t -> In e' t' -> ekey e = ekey e' -> eseq e' < eseq e
}.

Lemma sep_in cs t t' e e' : sep cs -> In t cs -> In t' cs -> In e t -> In e' t' -> eseq e = eseq e' -> t = t' \/ False.
Proof.
  induction cs as [|x r IH]; [intros _ []|]. cbn. intros [H1 H2] [<-|Ht] [<-|Ht'] He He' Hs; auto.
  - specialize (H1 _ _ _ Ht' He He'). lia.
  - specialize (H1 _ _ _ Ht He' He). lia.
Qed.

Lemma sep_filter (f : table -> bool) cs : sep cs -> sep (filter f cs).
Proof.
  induction cs as [|x r IH]; [auto|]. cbn. intros [H1 H2]. destruct (f x); cbn; auto. split; auto.
  intros y e e' Hy. apply filter_In in Hy as [Hy _]. eauto.
Qed.

Lemma sep_app a b : sep (a ++ b) <-> sep a /\ sep b /\ (forall x y e e', In x a -> In y b -> In e x -> In e' y -> eseq e < eseq e').
Proof.
  induction a as [|x a IH]; cbn.
  - split.
    + intros H. split; [exact I|]. split; [exact H|]. intros ? ? ? ? [].
    + intros (_ & H & _). exact H.
  - rewrite IH. split.
    + intros (H1 & H2 & H3 & H4). split; [split; [|exact H2]|split; [exact H3|]].
      * intros y e e' Hy He He'. apply (H1 y e e'); auto. apply in_or_app. left. exact Hy.
      * intros x0 y e e' [<-|Hx] Hy He He'.
        -- apply (H1 y e e'); auto. apply in_or_app. right. exact Hy.
        -- apply (H4 x0 y e e'); auto.
    + intros ((H1 & H2) & H3 & H4). split; [|split; [exact H2|split; [exact H3|]]].
      * intros y e e' Hy He He'. apply in_app_or in Hy as [Hy|Hy]; [apply (H1 y e e'); auto|apply (H4 x y e e'); auto].
      * intros x0 y e e' Hx Hy He He'. apply (H4 x0 y e e'); auto.
Qed.

Lemma ents_view ll : Mx (ents ll) (view ll).
Proof.
  unfold view. eapply Mx_ext; [|apply Mx_merge_all]. intros e. unfold ents_of, ents. split.
  - intros (t & Ht & He). apply in_concat in Ht as (l & Hl & Ht). exists l, t. auto.
  - intros (l & t & Hl & Ht & He). exists t. split; [|exact He]. apply in_concat. exists l. auto.
Qed.

Lemma nth_error_tl {A} (l : list A) i : nth_error (tl l) i = nth_error l (S i).
Proof. destruct l; [destruct i|]; reflexivity. Qed.

Lemma LLInv_uniq ll : LLInv ll -> uniq (ents ll).
Proof.
  intros Hv e e' (l & t & Hl & Ht & He) (l' & t' & Hl' & Ht' & He') Hk Hs.
  apply In_nth_error in Hl as (i & Hi). apply In_nth_error in Hl' as (j & Hj).
  destruct (Nat.lt_trichotomy i j) as [Hij|[Hij|Hij]].
  - pose proof (v_ord _ Hv _ _ _ _ _ _ _ _ Hij Hi Hj Ht Ht' He He' Hk). lia.
  - subst j. assert (l' = l) by congruence. subst l'. destruct i as [|i].
    + destruct (sep_in _ _ _ _ _ (v_sep _ Hv _ Hi) Ht Ht' He He' Hs) as [->|[]].
      apply (sorted_key_inj t' e e'); auto. eapply v_sorted; [exact Hv|eapply nth_error_In; exact Hi|exact Ht'].
    + destruct (v_deep _ Hv _ _ Hi) as [Hd _]. exact (proj2 (sorted_concat_same_table _ _ _ _ _ Hd Ht Ht' He He' Hk)).
  - pose proof (v_ord _ Hv _ _ _ _ _ _ _ _ Hij Hj Hi Ht' Ht He' He (eq_sym Hk)). lia.
Qed.

(* the greatest version of a key in the layout is what [view] holds *)
Lemma view_max ll m :
  LLInv ll -> ents ll m -> (forall e, ents ll e -> ekey e = ekey m -> eseq e <= eseq m) -> tbl_get (ekey m) (view ll) = Some m.
Proof. intros Hv Hm Hmax. eapply Mx_get_max; eauto using ents_view, LLInv_uniq. Qed.
Lemma view_none ll k : (forall e, ents ll e -> ekey e <> k) -> tbl_get k (view ll) = None.
Proof. intros H. eapply Mx_get_none; eauto using ents_view. Qed.

(* ---------- LevelList.Get ---------- *)

Lemma l0_pick_spec hs acc r :
  fold_left l0_pick hs acc = r ->
  match r with
  | Some m => (acc = Some m \/ In (Some m) hs) /\
              (forall x, acc = Some x \/ In (Some x) hs -> eseq x <= eseq m)
  | None => acc = None /\ forall x, ~ In (Some x) hs
  end.
Proof.
  revert acc r. induction hs as [|h hs IH]; cbn [fold_left]; intros acc r H.
  - subst r. destruct acc as [a|].
    + split; [left; reflexivity|]. intros x [Hx|[]]. injection Hx as <-. lia.
    + split; [reflexivity|]. intros x [].
  - specialize (IH _ _ H). destruct r as [m|].
    + destruct IH as [IH1 IH2]. split.
      * destruct IH1 as [IH1|IH1]; [|right; right; exact IH1]. destruct h as [v|]; cbn in IH1; [|left; exact IH1].
        destruct acc as [n|]; [|injection IH1 as <-; right; left; reflexivity].
        destruct (eseq n <? eseq v); [injection IH1 as <-; right; left; reflexivity|left; exact IH1].
      * intros x [Hx|[Hx|Hx]]; [| |apply IH2; right; exact Hx].
        -- subst acc. destruct h as [v|]; cbn in IH2; [|apply IH2; left; reflexivity].
           destruct (eseq x <? eseq v) eqn:L; [|apply IH2; left; reflexivity]. apply N.ltb_lt in L.
           specialize (IH2 v (or_introl eq_refl)). lia.
        -- subst h. cbn in IH2. destruct acc as [n|]; [|apply IH2; left; reflexivity].
           destruct (eseq n <? eseq x) eqn:L; [apply IH2; left; reflexivity|]. apply N.ltb_ge in L.
           specialize (IH2 n (or_introl eq_refl)). lia.
    + destruct IH as [IH1 IH2]. destruct h as [v|]; cbn in IH1.
      * destruct acc as [n|]; [destruct (eseq n <? eseq v)|]; discriminate.
      * split; [exact IH1|]. intros x [Hx|Hx]; [discriminate|]. exact (IH2 x Hx).
Qed.

Lemma first_some_spec {A B} (f : A -> option B) xs :
  match first_some (map f xs) with
  | Some m => exists j x, nth_error xs j = Some x /\ f x = Some m /\ forall i y, (i < j)%nat -> nth_error xs i = Some y -> f y = None
  | None => forall x, In x xs -> f x = None
  end.
Proof.
  induction xs as [|x xs IH]; cbn; [intros ? []|]. destruct (f x) as [m|] eqn:E.
  - exists 0%nat, x. repeat split; auto. intros i y Hi. lia.
  - destruct (first_some (map f xs)) as [m|].
    + destruct IH as (j & y & H1 & H2 & H3). exists (S j), y. repeat split; auto.
      intros i z Hi Hz. destruct i as [|i]; cbn in Hz; [congruence|]. eapply H3; eauto. lia.
    + intros y [<-|Hy]; auto.
Qed.

Lemma lvl_get_spec k l : deep_ok l -> lvl_get k l = tbl_get k (concat l).
Proof.
  unfold lvl_get. induction l as [|t l IH]; [reflexivity|]. intros [Hs Hne]. cbn [concat find].
  cbn in Hs. pose proof Hs as Hs'. apply sorted_app in Hs' as (H1 & H2 & H3). rewrite tbl_get_app.
  assert (Hd : deep_ok l) by (split; [exact H2|intros x Hx; apply Hne; right; exact Hx]).
  destruct (range_contains k t) eqn:E.
  - destruct (tbl_get k t) eqn:G; [reflexivity|]. symmetry. apply tbl_get_none_intro. intros e He Hk.
    unfold range_contains in E. apply andb_true_iff in E as [_ E]. apply bleb_kle in E.
    destruct (last_key_in t (Hne t (or_introl eq_refl))) as (z & Hz & Hzk). rewrite <- Hzk in E.
    specialize (H3 z e Hz He). rewrite Hk in H3. exact (klt_irrefl _ (kle_lt_trans _ _ _ E H3)).
  - rewrite (tbl_get_none_intro k t); [apply IH; exact Hd|]. intros e He Hk.
    rewrite <- Hk, range_contains_in in E; auto; discriminate.
Qed.

Lemma ents_cons l ll e : ents (l :: ll) e <-> (exists t, In t l /\ In e t) \/ ents ll e.
Proof.
  unfold ents. split.
  - intros (l' & t & [<-|Hl] & Ht & He); [left; exists t; auto|right; exists l', t; auto].
  - intros [(t & Ht & He)|(l' & t & Hl & Ht & He)]; [exists l, t; cbn; auto|exists l', t; cbn; auto].
Qed.

Lemma ents_nth ll e : ents ll e <-> exists i l t, nth_error ll i = Some l /\ In t l /\ In e t.
Proof.
  unfold ents. split.
  - intros (l & t & Hl & Ht & He). apply In_nth_error in Hl as (i & Hi). exists i, l, t. auto.
  - intros (i & l & t & Hi & Ht & He). exists l, t. split; [eapply nth_error_In; eauto|auto].
Qed.

Theorem ll_get_ok ll k : LLInv ll -> ll_get k ll = tbl_get k (view ll).
Proof.
  intros Hv. unfold ll_get. destruct ll as [|l0 deep].
  - cbn. reflexivity.
  - cbn [hd tl].
    assert (Hl0 : forall t e, In t l0 -> In e t -> ekey e = k -> In (Some e) (map (tbl_get k) (filter (range_contains k) l0))).
    { intros t e Ht He Hk. apply in_map_iff. exists t.
      assert (Hst : sorted t) by (eapply v_sorted; eauto; left; reflexivity). split.
      - rewrite <- Hk. apply sorted_get; auto.
      - apply filter_In. split; [exact Ht|]. rewrite <- Hk. apply range_contains_in; auto. }
    pose proof (l0_pick_spec (map (tbl_get k) (filter (range_contains k) l0)) None _ eq_refl) as Hp.
    destruct (fold_left l0_pick (map (tbl_get k) (filter (range_contains k) l0)) None) as [m|].
    + destruct Hp as [[Hp|Hp] Hmax]; [discriminate|].
      apply in_map_iff in Hp as (t & Hg & Ht). apply filter_In in Ht as [Ht _]. apply tbl_get_some in Hg as [Hm Hk].
      subst k. symmetry. apply view_max; [exact Hv|exists l0, t; cbn; auto|].
      intros e He Hke. apply ents_nth in He as (i & l & t' & Hi & Ht' & He). destruct i as [|i].
      * cbn in Hi. injection Hi as <-. apply Hmax. right. eapply Hl0; eauto.
      * assert (eseq e < eseq m); [|lia].
        eapply (v_ord _ Hv 0%nat (S i)); try exact Hi; try reflexivity; eauto. lia.
    + destruct Hp as [_ Hnone].
      assert (Hno0 : forall t e, In t l0 -> In e t -> ekey e <> k).
      { intros t e Ht He Hk. eapply Hnone. eapply Hl0; eauto. }
      pose proof (first_some_spec (lvl_get k) deep) as Hf.
      assert (Hlg : forall i l, nth_error deep i = Some l -> lvl_get k l = tbl_get k (concat l)).
      { intros i l Hi. apply lvl_get_spec. eapply (v_deep _ Hv i). exact Hi. }
      destruct (first_some (map (lvl_get k) deep)) as [m|].
      * destruct Hf as (j & l & Hj & Hg & Hbefore). rewrite (Hlg _ _ Hj) in Hg.
        apply tbl_get_some in Hg as [Hm Hk]. apply in_concat_iff in Hm as (t & Ht & Hm). subst k.
        symmetry. apply view_max; [exact Hv|exists l, t; split; [right; eapply nth_error_In; eauto|auto]|].
        intros e He Hke. apply ents_nth in He as (i & l' & t' & Hi & Ht' & He). destruct i as [|i].
        -- cbn in Hi. injection Hi as <-. exfalso. eapply Hno0; eauto.
        -- cbn in Hi. destruct (Nat.lt_trichotomy i j) as [Hij|[Hij|Hij]].
           ++ exfalso. specialize (Hbefore _ _ Hij Hi). rewrite (Hlg _ _ Hi) in Hbefore.
              eapply tbl_get_none in Hbefore; [apply Hbefore; exact Hke|]. apply in_concat_iff. exists t'. auto.
           ++ subst i. assert (l' = l) by congruence. subst l'.
              destruct (v_deep _ Hv j l Hj) as [Hd _].
              destruct (sorted_concat_same_table _ _ _ _ _ Hd Ht' Ht He Hm Hke) as [_ ->]. lia.
           ++ assert (eseq e < eseq m); [|lia].
              eapply (v_ord _ Hv (S j) (S i)); try exact Hi; try exact Hj; eauto. lia.
      * symmetry. apply view_none. intros e He Hk. apply ents_nth in He as (i & l & t & Hi & Ht & He). destruct i as [|i].
        -- cbn in Hi. injection Hi as <-. eapply Hno0; eauto.
        -- cbn in Hi. specialize (Hf l (nth_error_In _ _ Hi)). rewrite (Hlg _ _ Hi) in Hf.
           eapply tbl_get_none in Hf; [apply Hf; exact Hk|]. apply in_concat_iff. exists t. auto.
Qed.

(* ---------- LevelList.ScanPrefixEntries ---------- *)

Lemma Mx_scan S t p : Mx S t -> Mx (fun e => S e /\ has_prefix p e = true) (tbl_scan p t).
Proof.
  intros (H1 & H2 & H3). split; [apply sorted_filter; exact H1|]. split.
  - intros e He. apply filter_In in He as [He Hp]. auto.
  - intros e [He Hp]. destruct (H3 e He) as (m & Hm1 & Hm2). exists m. split; [|exact Hm2].
    rewrite tbl_get_scan by exact H1. unfold has_prefix in Hp. rewrite Hp. exact Hm1.
Qed.

Lemma Mx_uniq_eq S t t' : Mx S t -> Mx S t' -> uniq S -> t = t'.
Proof.
  intros H1 H2 Hu. eapply Mx_same; eauto.
  - intros e e' [He|He] [He'|He']; apply Hu; auto.
  - intros e He. exists e. repeat split; auto. lia.
  - intros e He. exists e. repeat split; auto. lia.
Qed.

Theorem ll_scan_ok ll p : LLInv ll -> ll_scan_entries p ll = tbl_scan p (view ll).
Proof.
  intros Hv. unfold ll_scan_entries.
  eapply (Mx_uniq_eq (fun e => ents ll e /\ has_prefix p e = true)).
  - eapply Mx_ext; [|apply Mx_merge_all]. intros e. unfold ents_of, ents. split.
    + intros (s & Hs & He). apply in_map_iff in Hs as (t & <- & Ht). apply filter_In in Ht as [Ht _].
      apply filter_In in He as [He Hp]. apply in_concat in Ht as (l & Hl & Ht). split; [exists l, t; auto|exact Hp].
    + intros [(l & t & Hl & Ht & He) Hp]. exists (tbl_scan p t). split; [|apply filter_In; auto].
      apply in_map_iff. exists t. split; [reflexivity|]. apply filter_In. split; [apply in_concat; exists l; auto|].
      eapply range_contains_prefix_in; eauto. eapply v_sorted; eauto.
  - apply Mx_scan, ents_view.
  - intros e e' [He _] [He' _]. apply (LLInv_uniq _ Hv); auto.
Qed.
