(* One transient read failure during the index search of Table.Get: the search either reports the error or did not
   touch the failing offset and returns what the healthy search returns. It never turns the failure into an answer. *)
From RV Require Import Model.SstTable.
Open Scope N_scope.

Section Fault.
  Variable rk : N -> option (option bytes).
  Variable bad : N.
  Variable key : bytes.

  Let cmpf := fun off => match rk off with
                         | None => None | Some None => Some None | Some (Some k) => Some (Some (bcmp k key)) end.
  Let cmpf' := fun off => match faulty rk bad off with
                          | None => None | Some None => Some None | Some (Some k) => Some (Some (bcmp k key)) end.

  Lemma cmpf'_cases off : cmpf' off = Some None \/ cmpf' off = cmpf off.
  Proof. unfold cmpf', cmpf, faulty. destruct (off =? bad); [left; reflexivity|right; reflexivity]. Qed.

  Lemma bsearch_fault offs : forall fuel i j,
    bsearch fuel cmpf' offs i j = BsErr \/ bsearch fuel cmpf' offs i j = bsearch fuel cmpf offs i j.
  Proof.
    induction fuel as [|f IH]; intros i j; [right; reflexivity|].
    cbn [bsearch]. destruct (Nat.ltb i j); [|right; reflexivity].
    destruct (cmpf'_cases (nth (Nat.div2 (i + j)) offs 0)) as [E|E]; rewrite E; [left; reflexivity|].
    destruct (cmpf (nth (Nat.div2 (i + j)) offs 0)) as [[[]|]|]; try (right; reflexivity); apply IH.
  Qed.

  Theorem search_fault_surfaces clamp offs :
    search_index_with (faulty rk bad) clamp offs key = SErr \/
    search_index_with (faulty rk bad) clamp offs key = search_index_with rk clamp offs key.
  Proof.
    unfold search_index_with. destruct offs as [|o offs]; [right; reflexivity|].
    cbv zeta. fold cmpf cmpf'. set (l := o :: offs).
    destruct (bsearch_fault l (S (length l)) 0 (length l)) as [E|E]; rewrite E; [left; reflexivity|].
    destruct (bsearch (S (length l)) cmpf l 0 (length l)) as [i| |]; try (right; reflexivity).
    destruct (Nat.ltb i (length l)); [|right; reflexivity].
    destruct (cmpf'_cases (nth i l 0)) as [E2|E2]; unfold cmpf', cmpf in E2; rewrite E2; [left; reflexivity|right; reflexivity].
  Qed.
End Fault.
