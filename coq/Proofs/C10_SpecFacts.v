(* C10: what the pending-set specification itself says, in the words of the property. *)
From RV Require Import Base.Bytes Model.TimerStore Model.TimerRegistry Proofs.C10_Spec Proofs.C10_Registry.
From Coq Require Import Permutation.
Open Scope N_scope.

(* a restore keeps exactly the pending timers *)
Lemma sp_restore_keeps srids out s : sp_pending (snd (sp_step srids Restore out s)) = sp_pending s.
Proof. reflexivity. Qed.

(* a timer at or before the watermark is ignored *)
Lemma sp_set_guard k t s : (t <= sp_wm s)%Z -> sp_set k t s = s.
Proof. intros H. unfold sp_set. destruct (sp_wm s <? t)%Z eqn:E; [apply Z.ltb_lt in E; lia|reflexivity]. Qed.

(* registering the identical timer again changes nothing *)
Lemma sp_set_idem k t s : sp_set k t (sp_set k t s) = sp_set k t s.
Proof.
  unfold sp_set. destruct (sp_wm s <? t)%Z eqn:E; cbn [sp_wm sp_pending sp_ups]; rewrite E; [|reflexivity].
  f_equal. unfold sp_add at 1.
  assert (H : existsb (fired_eqb (k, t)) (sp_add (k, t) (sp_pending s)) = true).
  { apply existsb_fired. apply In_sp_add. left. reflexivity. }
  rewrite H. reflexivity.
Qed.

(* an accepted registration makes the timer pending, once *)
Lemma sp_set_pending k t s : (sp_wm s < t)%Z -> NoDup (sp_pending s) ->
  In (k, t) (sp_pending (sp_set k t s)) /\ NoDup (sp_pending (sp_set k t s)).
Proof.
  intros H Hn. unfold sp_set. apply Z.ltb_lt in H. rewrite H. cbn [sp_pending]. split.
  - apply In_sp_add. left. reflexivity.
  - apply NoDup_sp_add. exact Hn.
Qed.

(* an advance fires exactly the pending timers with t <= the new composite watermark; afterwards nothing at or before
   the watermark is pending, in particular nothing that just fired *)
Lemma sp_advance_facts sender wm during s :
  NoDup (sp_pending s) ->
  let due := fst (sp_advance sender wm during s) in
  let s' := snd (sp_advance sender wm during s) in
  sp_wm s' = ups_min (ups_set sender wm (sp_ups s)) /\
  NoDup due /\
  (forall x, In x due <-> In x (sp_pending s) /\ (snd x <= sp_wm s')%Z) /\
  NoDup (sp_pending s') /\
  (forall x, In x (sp_pending s') -> (sp_wm s' < snd x)%Z) /\
  (forall x, In x due -> ~ In x (sp_pending s')) /\
  (forall x, In x (sp_pending s) -> (sp_wm s' < snd x)%Z -> In x (sp_pending s')).
Proof.
  intros Hn. unfold sp_advance. cbn [fst snd sp_wm sp_pending].
  set (cw := ups_min (ups_set sender wm (sp_ups s))).
  set (due := filter (is_due cw) (sp_pending s)).
  destruct (during_fold_spec cw (length due) during (filter (fun x => negb (is_due cw x)) (sp_pending s))
              (NoDup_filter _ Hn)) as [Hn' M].
  assert (Hafter : forall x, In x (fold_left
            (fun l e => let '(a, k, t) := e in
               if (1 <=? a)%nat && (a <=? length due)%nat && (cw <? t)%Z then sp_add (k, t) l else l) during
            (filter (fun x => negb (is_due cw x)) (sp_pending s))) -> (cw < snd x)%Z).
  { intros x Hx. apply M in Hx as [Hx|(a & k & t & _ & _ & Hw & ->)]; [|exact Hw].
    apply filter_In in Hx as [_ Hc]. unfold is_due in Hc. apply negb_true_iff, Z.leb_gt in Hc. exact Hc. }
  split; [reflexivity|]. split; [apply NoDup_filter, Hn|]. split; [|split; [exact Hn'|split; [exact Hafter|split]]].
  - intros x. unfold due. rewrite filter_In. unfold is_due. rewrite Z.leb_le. tauto.
  - intros x Hx Hin. apply Hafter in Hin. apply filter_In in Hx as [_ Hc]. unfold is_due in Hc. apply Z.leb_le in Hc. lia.
  - intros x Hx Hc. apply M. left. apply filter_In. split; auto. unfold is_due. apply negb_true_iff, Z.leb_gt. exact Hc.
Qed.

(* a consumer that stops: what it was handed is not pending any more - it can never be handed out again -, every other
   pending timer is still pending, nothing else appears except what the consumer itself registered *)
Lemma sp_advance_partial_facts sender wm during out s :
  NoDup (sp_pending s) ->
  let s' := snd (sp_advance_partial sender wm during out s) in
  sp_wm s' = ups_min (ups_set sender wm (sp_ups s)) /\
  NoDup (sp_pending s') /\
  (forall x, In x out -> In x (sp_pending s') -> exists a k t, In (a, k, t) during /\ (sp_wm s' < t)%Z /\ x = (k, t)) /\
  (forall x, In x (sp_pending s) -> ~ In x out -> In x (sp_pending s')) /\
  (forall x, In x (sp_pending s') -> In x (sp_pending s) \/ exists a k t, In (a, k, t) during /\ x = (k, t)).
Proof.
  intros Hn. unfold sp_advance_partial. cbn [fst snd sp_wm sp_pending].
  set (cw := ups_min (ups_set sender wm (sp_ups s))).
  destruct (during_fold_spec cw (length out) during (removed out (sp_pending s)) (NoDup_filter _ Hn)) as [Hn' M].
  assert (Hrem : forall x, In x (removed out (sp_pending s)) <-> In x (sp_pending s) /\ ~ In x out).
  { intros x. unfold removed. rewrite filter_In, negb_true_iff. split.
    - intros [Hx Hc]. split; auto. intros Hi. apply existsb_fired in Hi. congruence.
    - intros [Hx Hc]. split; auto. destruct (existsb (fired_eqb x) out) eqn:Ee; auto.
      apply existsb_fired in Ee. contradiction. }
  split; [reflexivity|]. split; [exact Hn'|]. split; [|split].
  - intros x Hx Hp. apply M in Hp as [Hp|(a & k & t & Hin & _ & Hw & ->)].
    + apply Hrem in Hp. tauto.
    + exists a, k, t. auto.
  - intros x Hx Hnx. apply M. left. apply Hrem. auto.
  - intros x Hx. apply M in Hx as [Hx|(a & k & t & Hin & _ & _ & ->)].
    + left. apply Hrem in Hx. tauto.
    + right. exists a, k, t. auto.
Qed.
