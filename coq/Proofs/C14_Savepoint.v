(* C14: a savepoint is closed (holds every file restoring its checkpoint reads), restores the checkpointed files after
   the working storage is gone, and a request made while a checkpoint is pending folds into it. *)
From Coq Require Import List NArith Lia Bool.
From RV Require Import Model.Savepoint.
Import ListNotations.
Open Scope N_scope.

(* ---------- URIs ---------- *)
Lemma bytes_eqb_eq : forall a b, bytes_eqb a b = true <-> a = b.
Proof.
  induction a as [|x a IH]; destruct b as [|y b]; cbn [bytes_eqb]; split; intros H; try discriminate; try reflexivity.
  - apply andb_true_iff in H. destruct H as [H1 H2]. apply N.eqb_eq in H1. apply IH in H2. congruence.
  - inversion H; subst. rewrite N.eqb_refl. cbn. apply IH. reflexivity.
Qed.
Lemma uri_eqb_eq : forall a b, uri_eqb a b = true <-> a = b.
Proof.
  destruct a, b; cbn [uri_eqb]; split; intros H; try discriminate; try reflexivity;
    repeat match goal with
           | H : _ && _ = true |- _ => apply andb_true_iff in H; destruct H
           | H : (_ =? _) = true |- _ => apply N.eqb_eq in H
           | H : bytes_eqb _ _ = true |- _ => apply bytes_eqb_eq in H
           end; subst; try reflexivity;
    try (inversion H; subst; rewrite ?N.eqb_refl; cbn; try apply bytes_eqb_eq; reflexivity).
Qed.
Lemma uri_eqb_refl : forall a, uri_eqb a a = true.
Proof. intros. apply uri_eqb_eq. reflexivity. Qed.
Lemma uri_eqb_neq : forall a b, a <> b -> uri_eqb a b = false.
Proof. intros a b H. destruct (uri_eqb a b) eqn:E; [apply uri_eqb_eq in E; contradiction|reflexivity]. Qed.

Lemma read_write : forall fs u c u', fs_read (fs_write fs u c) u' = if uri_eqb u' u then Some c else fs_read fs u'.
Proof. reflexivity. Qed.

Definition is_save (u : uri) : bool := match u with USave _ _ _ | UJobSp _ => true | _ => false end.
Definition is_work (u : uri) : bool := match u with UWork _ _ => true | _ => false end.

(* ---------- copying one operator's files into / out of the savepoint ---------- *)
Section Copy.
  Variables (src dst : bytes -> uri).
  Hypothesis dst_inj : forall f g, dst f = dst g -> f = g.
  Hypothesis src_not_dst : forall f g, src f <> dst g.

  Lemma copy_files_spec : forall files fs fs',
    copy_all fs (map (fun f => (src f, dst f)) files) = Some fs' ->
    (forall u, (forall f, In f files -> u <> dst f) -> fs_read fs' u = fs_read fs u) /\
    (forall f, In f files -> fs_read fs' (dst f) = fs_read fs (src f)).
  Proof.
    induction files as [|f files IH]; intros fs fs' H; cbn [map copy_all] in H.
    - inversion H; subst. split; [reflexivity|intros f []].
    - unfold fs_copy in H. destruct (fs_read fs (src f)) as [c|] eqn:Hs; [|discriminate].
      destruct (IH _ _ H) as [Hother Hcopied]. split.
      + intros u Hu. rewrite Hother by (intros g Hg; apply Hu; right; exact Hg).
        rewrite read_write. rewrite uri_eqb_neq; [reflexivity|]. apply Hu. left; reflexivity.
      + intros g [Hg|Hg].
        * subst g. destruct (in_dec (list_eq_dec N.eq_dec) f files) as [Hin|Hnin].
          -- rewrite (Hcopied f Hin). rewrite read_write. rewrite uri_eqb_neq by apply src_not_dst. reflexivity.
          -- rewrite Hother.
             ++ rewrite read_write, uri_eqb_refl. symmetry; exact Hs.
             ++ intros g Hg Heq. apply dst_inj in Heq. subst. contradiction.
        * rewrite (Hcopied g Hg). rewrite read_write. rewrite uri_eqb_neq by apply src_not_dst. reflexivity.
  Qed.

  Lemma copy_files_ok : forall files fs,
    (forall f, In f files -> fs_read fs (src f) <> None) ->
    exists fs', copy_all fs (map (fun f => (src f, dst f)) files) = Some fs'.
  Proof.
    induction files as [|f files IH]; intros fs Hsrc; cbn [map copy_all]; [eexists; reflexivity|].
    unfold fs_copy. destruct (fs_read fs (src f)) as [c|] eqn:Hs; [|exfalso; apply (Hsrc f); [left; reflexivity|exact Hs]].
    apply IH. intros g Hg. rewrite read_write. rewrite uri_eqb_neq by apply src_not_dst. apply Hsrc. right; exact Hg.
  Qed.
End Copy.

(* ---------- moving the files of all operators: creation and restore are the same loop ---------- *)
Section Xfer.
  Variables (src dst : N -> bytes -> uri).
  Hypothesis dst_inj : forall op f op' g, dst op f = dst op' g -> op = op' /\ f = g.
  Hypothesis src_not_dst : forall op f op' g, src op f <> dst op' g.

  Fixpoint xfer (fs : fsys) (ops : list opckpt) : option fsys :=
    match ops with
    | [] => Some fs
    | (op, cid) :: rest =>
        match fs_read fs (src op ck_name) with
        | Some (FCkList l) =>
            match list_files true l cid with
            | Some files =>
                match copy_all fs (map (fun f => (src op f, dst op f)) (files ++ [ck_name])) with
                | Some fs' => xfer fs' rest
                | None => None
                end
            | None => None
            end
        | _ => None
        end
    end.

  (* the operator's checkpoints file is there, names checkpoint cid, and every file it names is there *)
  Definition ready (fs : fsys) (oc : opckpt) : Prop :=
    exists l e, fs_read fs (src (fst oc) ck_name) = Some (FCkList l) /\
                find (fun e => fst e =? snd oc) l = Some e /\
                forall f, In f (snd e) -> fs_read fs (src (fst oc) f) <> None.

  Lemma xfer_keeps : forall ops fs fs' u, xfer fs ops = Some fs' -> (forall op f, In op (map fst ops) -> u <> dst op f) ->
    fs_read fs' u = fs_read fs u.
  Proof.
    induction ops as [|[op cid] ops IH]; intros fs fs' u H Hu; cbn [xfer] in H.
    - inversion H; reflexivity.
    - destruct (fs_read fs (src op ck_name)) as [[|l|]|]; try discriminate.
      destruct (list_files true l cid) as [files|]; try discriminate.
      destruct (copy_all fs _) as [fs1|] eqn:Hc; try discriminate.
      rewrite (IH _ _ u H) by (intros op2 f Hin; apply Hu; right; exact Hin).
      destruct (copy_files_spec (src op) (dst op) ltac:(intros f g E; apply (dst_inj _ _ _ _ E)) ltac:(intros; apply src_not_dst) _ _ _ Hc) as [Ho _].
      apply Ho. intros f _. apply Hu. left; reflexivity.
  Qed.

  Lemma xfer_spec : forall ops fs,
    NoDup (map fst ops) -> (forall oc, In oc ops -> ready fs oc) ->
    exists fs', xfer fs ops = Some fs' /\
      (forall oc l e, In oc ops -> fs_read fs (src (fst oc) ck_name) = Some (FCkList l) ->
          find (fun e => fst e =? snd oc) l = Some e ->
          forall f, In f (snd e ++ [ck_name]) -> fs_read fs' (dst (fst oc) f) = fs_read fs (src (fst oc) f)).
  Proof.
    induction ops as [|[op cid] ops IH]; intros fs Hnd Hready; cbn [xfer].
    - exists fs. split; [reflexivity|]. intros oc l e [].
    - destruct (Hready (op, cid) (or_introl eq_refl)) as (l & e & Hck & Hfind & Hfiles). cbn [fst snd] in *.
      rewrite Hck. unfold list_files. rewrite Hfind.
      assert (Hsrc : forall f, In f (snd e ++ [ck_name]) -> fs_read fs (src op f) <> None).
      { intros f Hf. apply in_app_or in Hf. destruct Hf as [Hf|[Hf|[]]]; [apply Hfiles; exact Hf|subst f; rewrite Hck; discriminate]. }
      destruct (copy_files_ok (src op) (dst op) ltac:(intros; apply src_not_dst) _ fs Hsrc) as (fs1 & Hc1).
      rewrite Hc1.
      destruct (copy_files_spec (src op) (dst op) ltac:(intros f g E; apply (dst_inj _ _ _ _ E)) ltac:(intros; apply src_not_dst) _ _ _ Hc1) as [Ho1 Hcp1].
      assert (Hsrc1 : forall op2 f, fs_read fs1 (src op2 f) = fs_read fs (src op2 f)).
      { intros op2 f. apply Ho1. intros g _. apply src_not_dst. }
      inversion Hnd as [|? ? Hnotin Hnd']; subst.
      destruct (IH fs1 Hnd') as (fs' & Hc & Hall).
      { intros oc Hoc. destruct (Hready oc (or_intror Hoc)) as (l2 & e2 & A & B & C). exists l2, e2.
        rewrite Hsrc1. split; [exact A|]. split; [exact B|]. intros f Hf. rewrite Hsrc1. apply C; exact Hf. }
      exists fs'. split; [exact Hc|].
      intros oc l2 e2 [Hoc|Hoc] Hck2 Hfind2 f Hf.
      + subst oc. cbn [fst snd] in *. rewrite Hck in Hck2. inversion Hck2; subst l2. rewrite Hfind in Hfind2. inversion Hfind2; subst e2.
        rewrite (xfer_keeps _ _ _ (dst op f) Hc).
        * apply Hcp1; exact Hf.
        * intros op2 g Hin Heq. apply dst_inj in Heq. destruct Heq as [-> _]. contradiction.
      + rewrite <- (Hsrc1 (fst oc) f).
        apply (Hall oc l2 e2 Hoc); [rewrite Hsrc1; exact Hck2|exact Hfind2|exact Hf].
  Qed.
End Xfer.

Lemma create_is_xfer : forall ops fs id,
  sp_create_ops true fs id ops = xfer (fun op f => UWork op f) (fun op f => USave id op f) fs ops.
Proof.
  induction ops as [|[op cid] ops IH]; intros fs id; cbn [sp_create_ops xfer]; [reflexivity|].
  destruct (fs_read fs (UWork op ck_name)) as [[|l|]|]; try reflexivity.
  destruct (list_files true l cid); try reflexivity. destruct (copy_all fs _); [apply IH|reflexivity].
Qed.
Lemma restore_is_xfer : forall ops fs id,
  sp_restore_ops true fs id ops = xfer (fun op f => USave id op f) (fun op f => UWork op f) fs ops.
Proof.
  induction ops as [|[op cid] ops IH]; intros fs id; cbn [sp_restore_ops xfer]; [reflexivity|].
  destruct (fs_read fs (USave id op ck_name)) as [[|l|]|]; try reflexivity.
  destruct (list_files true l cid); try reflexivity. destruct (copy_all fs _); [apply IH|reflexivity].
Qed.

Lemma wipe_read : forall fs u, fs_read (wipe fs) u = if is_save u then fs_read fs u else None.
Proof.
  induction fs as [|[u' c] fs IH]; intros u; cbn [wipe filter fs_read fst].
  - destruct (is_save u); reflexivity.
  - fold (wipe fs). destruct (uri_eqb u u') eqn:E.
    + apply uri_eqb_eq in E. subst u'. destruct u; cbn [is_save]; cbn [fs_read]; rewrite ?uri_eqb_refl; try reflexivity; apply IH.
    + destruct u'; cbn [fs_read]; rewrite ?E; apply IH.
Qed.

(* ---------- the theorems ---------- *)
(* the files dkv.Open(handle{cid, <op>/checkpoints}) reads, as (name, content) *)
Definition reads_ok (fs : fsys) (oc : opckpt) : Prop := dkv_reads fs (fst oc) (snd oc) <> None.

Lemma dkv_reads_ready : forall fs oc, ready (fun op f => UWork op f) fs oc <-> reads_ok fs oc.
Proof.
  intros fs [op cid]. unfold ready, reads_ok, dkv_reads. cbn [fst snd]. split.
  - intros (l & e & Hck & Hfind & Hfiles). rewrite Hck, Hfind.
    clear Hfind. induction (snd e) as [|f fl IH]; cbn [fold_right]; [discriminate|].
    destruct (fs_read fs (UWork op f)) eqn:Hf; [|exfalso; apply (Hfiles f); [left; reflexivity|exact Hf]].
    destruct (fold_right _ _ fl) eqn:Hr; [discriminate|]. exfalso. apply IH; [intros g Hg; apply Hfiles; right; exact Hg|reflexivity].
  - intros H. destruct (fs_read fs (UWork op ck_name)) as [[|l|]|] eqn:Hck; try contradiction.
    destruct (find (fun e : N * list bytes => fst e =? cid) l) as [e|] eqn:Hfind; try contradiction. exists l, e. split; [reflexivity|]. split; [exact Hfind|].
    induction (snd e) as [|f fl IH]; [intros g []|]. cbn [fold_right] in H.
    intros g [Hg|Hg].
    + subst g. destruct (fs_read fs (UWork op f)); [discriminate|]. exfalso; apply H; reflexivity.
    + apply IH; [|exact Hg]. destruct (fs_read fs (UWork op f)); [|exfalso; apply H; reflexivity].
      destruct (fold_right _ _ fl); [discriminate|]. exfalso; apply H; reflexivity.
Qed.

Lemma dkv_reads_ext : forall fs fs' op cid l e,
  fs_read fs (UWork op ck_name) = Some (FCkList l) -> find (fun e => fst e =? cid) l = Some e ->
  (forall f, In f (snd e ++ [ck_name]) -> fs_read fs' (UWork op f) = fs_read fs (UWork op f)) ->
  dkv_reads fs' op cid = dkv_reads fs op cid.
Proof.
  intros fs fs' op cid l e Hck Hfind Hsame. unfold dkv_reads.
  rewrite (Hsame ck_name) by (apply in_or_app; right; left; reflexivity). rewrite Hck, Hfind.
  assert (Hs : forall f, In f (snd e) -> fs_read fs' (UWork op f) = fs_read fs (UWork op f)).
  { intros f Hf. apply Hsame. apply in_or_app; left; exact Hf. }
  clear Hsame Hfind. induction (snd e) as [|f fl IH]; cbn [fold_right]; [reflexivity|].
  rewrite (Hs f (or_introl eq_refl)). rewrite IH by (intros g Hg; apply Hs; right; exact Hg). reflexivity.
Qed.

(* savepoint_restores (and closed): take ANY file system in which, for every operator checkpoint (op, cid) of the job
   snapshot, restoring cid works (its checkpoints file names cid and every named file exists) - whatever else the
   files hold, for any number of operators.  Writing the artifact succeeds.  Afterwards let the storage change
   arbitrarily outside the savepoint directories (later checkpoints, compactions, deletions, a complete wipe): starting
   from the savepoint URI succeeds, returns the same operator checkpoints, and restoring every operator's checkpoint
   reads exactly the same files with the same contents as at the moment the savepoint was taken. *)
Lemma savepoint_restores_lemma : forall fs id ops,
  NoDup (map fst ops) ->
  fs_read fs (UJobCk id) = Some (FJob id ops) ->
  (forall oc, In oc ops -> reads_ok fs oc) ->
  exists fs1, sp_create true fs id ops = Some fs1 /\
    forall fs2, (forall u, is_save u = true -> fs_read fs2 u = fs_read fs1 u) ->
      exists fs3, sp_restore true (wipe fs2) id = Some (fs3, ops) /\
        forall oc, In oc ops -> dkv_reads fs3 (fst oc) (snd oc) = dkv_reads fs (fst oc) (snd oc) /\ reads_ok fs3 oc.
Proof.
  intros fs id ops Hnd Hjob Hok.
  assert (Hready : forall oc, In oc ops -> ready (fun op f => UWork op f) fs oc) by (intros oc Hoc; apply dkv_reads_ready, Hok, Hoc).
  destruct (xfer_spec (fun op f => UWork op f) (fun op f => USave id op f)
              ltac:(intros op f op' g E; inversion E; split; reflexivity) ltac:(intros; discriminate) ops fs Hnd Hready) as (fs1 & Hx & Hcp).
  assert (Hkeep1 : forall u, (forall op f, u <> USave id op f) -> fs_read fs1 u = fs_read fs u).
  { intros u Hu. apply (xfer_keeps (fun op f => UWork op f) (fun op f => USave id op f)
        ltac:(intros op f op' g E; inversion E; split; reflexivity) ltac:(intros; discriminate) ops fs fs1 u Hx). intros op f _. apply Hu. }
  unfold sp_create. rewrite create_is_xfer, Hx. unfold fs_copy. rewrite Hkeep1 by (intros; discriminate). rewrite Hjob.
  eexists. split; [reflexivity|].
  intros fs2 Hagree.
  set (fsA := fs_write fs1 (UJobSp id) (FJob id ops)) in *.
  assert (HreadA : forall op f, fs_read fsA (USave id op f) = fs_read fs1 (USave id op f)) by (intros; reflexivity).
  (* the wiped storage still has the savepoint *)
  assert (Hw : forall u, is_save u = true -> fs_read (wipe fs2) u = fs_read fsA u).
  { intros u Hu. rewrite wipe_read, Hu. apply Hagree; exact Hu. }
  unfold sp_restore. rewrite (Hw (UJobSp id) eq_refl). unfold fsA at 1. rewrite read_write, uri_eqb_refl.
  assert (Hready2 : forall oc, In oc ops -> ready (fun op f => USave id op f) (wipe fs2) oc).
  { intros oc Hoc. destruct (Hready oc Hoc) as (l & e & A & B & C). exists l, e.
    rewrite (Hw (USave id (fst oc) ck_name) eq_refl), HreadA. rewrite (Hcp oc l e Hoc A B ck_name) by (apply in_or_app; right; left; reflexivity).
    split; [exact A|]. split; [exact B|]. intros f Hf. rewrite (Hw (USave id (fst oc) f) eq_refl), HreadA.
    rewrite (Hcp oc l e Hoc A B f) by (apply in_or_app; left; exact Hf). apply C; exact Hf. }
  destruct (xfer_spec (fun op f => USave id op f) (fun op f => UWork op f)
              ltac:(intros op f op' g E; inversion E; split; reflexivity) ltac:(intros; discriminate) ops (wipe fs2) Hnd Hready2) as (fs3 & Hx3 & Hcp3).
  rewrite restore_is_xfer, Hx3. eexists. split; [reflexivity|].
  intros oc Hoc. destruct (Hready oc Hoc) as (l & e & A & B & C).
  assert (Hsame : forall f, In f (snd e ++ [ck_name]) -> fs_read fs3 (UWork (fst oc) f) = fs_read fs (UWork (fst oc) f)).
  { intros f Hf.
    assert (A2 : fs_read (wipe fs2) (USave id (fst oc) ck_name) = Some (FCkList l)).
    { rewrite (Hw (USave id (fst oc) ck_name) eq_refl), HreadA. rewrite (Hcp oc l e Hoc A B ck_name) by (apply in_or_app; right; left; reflexivity). exact A. }
    rewrite (Hcp3 oc l e Hoc A2 B f Hf). rewrite (Hw (USave id (fst oc) f) eq_refl), HreadA. apply (Hcp oc l e Hoc A B f Hf). }
  assert (Heq : dkv_reads fs3 (fst oc) (snd oc) = dkv_reads fs (fst oc) (snd oc)) by (apply (dkv_reads_ext fs fs3 _ _ l e A B Hsame)).
  split; [exact Heq|]. unfold reads_ok. rewrite Heq. apply Hok; exact Hoc.
Qed.

(* savepoint_closed: the artifact holds, under the savepoint directory, the checkpoints file and every file that
   restoring checkpoint cid of every operator reads, with the contents they have when the artifact is written *)
Lemma savepoint_closed_lemma : forall fs id ops,
  NoDup (map fst ops) ->
  fs_read fs (UJobCk id) = Some (FJob id ops) ->
  (forall oc, In oc ops -> reads_ok fs oc) ->
  exists fs1, sp_create true fs id ops = Some fs1 /\
    fs_read fs1 (UJobSp id) = Some (FJob id ops) /\
    forall oc, In oc ops ->
      fs_read fs1 (USave id (fst oc) ck_name) = fs_read fs (UWork (fst oc) ck_name) /\
      forall files, dkv_reads fs (fst oc) (snd oc) = Some files ->
        forall f c, In (f, c) files -> fs_read fs1 (USave id (fst oc) f) = Some c.
Proof.
  intros fs id ops Hnd Hjob Hok.
  assert (Hready : forall oc, In oc ops -> ready (fun op f => UWork op f) fs oc) by (intros oc Hoc; apply dkv_reads_ready, Hok, Hoc).
  destruct (xfer_spec (fun op f => UWork op f) (fun op f => USave id op f)
              ltac:(intros op f op' g E; inversion E; split; reflexivity) ltac:(intros; discriminate) ops fs Hnd Hready) as (fs1 & Hx & Hcp).
  assert (Hkeep1 : forall u, (forall op f, u <> USave id op f) -> fs_read fs1 u = fs_read fs u).
  { intros u Hu. apply (xfer_keeps (fun op f => UWork op f) (fun op f => USave id op f)
        ltac:(intros op f op' g E; inversion E; split; reflexivity) ltac:(intros; discriminate) ops fs fs1 u Hx). intros op f _. apply Hu. }
  unfold sp_create. rewrite create_is_xfer, Hx. unfold fs_copy. rewrite Hkeep1 by (intros; discriminate). rewrite Hjob.
  eexists. split; [reflexivity|]. split; [rewrite read_write, uri_eqb_refl; reflexivity|].
  intros oc Hoc. destruct (Hready oc Hoc) as (l & e & A & B & C).
  split.
  - rewrite read_write. cbn [uri_eqb]. apply (Hcp oc l e Hoc A B). apply in_or_app; right; left; reflexivity.
  - intros files Hr f c Hin. rewrite read_write. cbn [uri_eqb].
    unfold dkv_reads in Hr. rewrite A, B in Hr.
    assert (Hf : In f (snd e) /\ fs_read fs (UWork (fst oc) f) = Some c).
    { clear -Hr Hin. revert files Hr Hin. induction (snd e) as [|g fl IH]; intros files Hr Hin; cbn [fold_right] in Hr.
      - inversion Hr; subst. destruct Hin.
      - destruct (fs_read fs (UWork (fst oc) g)) eqn:Hg; [|discriminate].
        destruct (fold_right _ _ fl) as [r|] eqn:Hfr; [|discriminate]. inversion Hr; subst. destruct Hin as [Hin|Hin].
        + inversion Hin; subst. split; [left; reflexivity|exact Hg].
        + destruct (IH r eq_refl Hin) as [H1 H2]. split; [right; exact H1|exact H2]. }
    destruct Hf as [Hf1 Hf2]. rewrite (Hcp oc l e Hoc A B f) by (apply in_or_app; left; exact Hf1). exact Hf2.
Qed.

(* D25 (repaired): with "always the last entry" the artifact of checkpoint 5 misses checkpoint 5's WAL as soon as
   checkpoint 6 has been saved, and the restart fails *)
Definition d25_fs : fsys :=
  [(UWork 0 ck_name, FCkList [(5, [[1]; [10]]); (6, [[2]; [10]; [11]])]);
   (UWork 0 [1], FData 1); (UWork 0 [2], FData 2); (UWork 0 [10], FData 10); (UWork 0 [11], FData 11);
   (UJobCk 5, FJob 5 [(0, 5)])].
Lemma d25_last_entry_refuted :
  reads_ok d25_fs (0, 5) /\
  exists fs1, sp_create false d25_fs 5 [(0, 5)] = Some fs1 /\
    fs_read fs1 (USave 5 0 [1]) = None /\
    match sp_restore false (wipe fs1) 5 with
    | Some (fs3, _) => dkv_reads fs3 0 5 = None
    | None => True
    end.
Proof. split; [vm_compute; discriminate|]. eexists. split; [vm_compute; reflexivity|]. split; vm_compute; reflexivity. Qed.
Lemma d25_by_id_ok :
  exists fs1, sp_create true d25_fs 5 [(0, 5)] = Some fs1 /\
    match sp_restore true (wipe fs1) 5 with
    | Some (fs3, _) => dkv_reads fs3 0 5 = dkv_reads d25_fs 0 5
    | None => False
    end.
Proof. eexists. split; vm_compute; reflexivity. Qed.

(* ---------- folding ---------- *)
(* erase the savepoint marks: what the rest of the job can observe of the store *)
Definition erase_p (p : pending) : pending := mkP (p_id p) false (p_missing p) (p_acks p).
Definition erase (s : store) : store :=
  mkSt (st_counter s) (option_map erase_p (st_pending s)) (map (fun d => (fst (fst d), false, snd d)) (st_done s)).

Lemma add_ack_erase : forall s op cid,
  erase (fst (add_ack s op cid)) = fst (add_ack (erase s) op cid) /\ snd (add_ack s op cid) = snd (add_ack (erase s) op cid).
Proof.
  intros [c [p|] d] op cid; unfold add_ack, erase; cbn [st_pending st_counter st_done option_map erase_p p_id p_missing p_acks p_sp]; [|split; reflexivity].
  destruct ((p_id p =? cid) && existsb (N.eqb op) (p_missing p)); [|split; reflexivity].
  destruct (filter (fun o => negb (o =? op)) (p_missing p)); cbn [fst snd st_counter st_pending st_done option_map erase_p p_id p_missing p_acks p_sp].
  - rewrite map_app. split; reflexivity.
  - split; reflexivity.
Qed.

Fixpoint run_acks (s : store) (acks : list (N * N)) : store * list bool :=
  match acks with
  | [] => (s, [])
  | (op, cid) :: rest => let '(s1, ok) := add_ack s op cid in let '(s2, oks) := run_acks s1 rest in (s2, ok :: oks)
  end.

Lemma run_acks_erase : forall acks s s', erase s = erase s' ->
  erase (fst (run_acks s acks)) = erase (fst (run_acks s' acks)) /\ snd (run_acks s acks) = snd (run_acks s' acks).
Proof.
  induction acks as [|[op cid] acks IH]; intros s s' He; cbn [run_acks]; [split; [exact He|reflexivity]|].
  destruct (add_ack_erase s op cid) as [E1 O1]. destruct (add_ack_erase s' op cid) as [E2 O2].
  destruct (add_ack s op cid) as [s1 ok1] eqn:A1. destruct (add_ack s' op cid) as [s1' ok1'] eqn:A2. cbn [fst snd] in *.
  assert (He1 : erase s1 = erase s1') by (rewrite E1, E2, He; reflexivity).
  destruct (IH s1 s1' He1) as [E O].
  destruct (run_acks s1 acks) as [s2 oks]. destruct (run_acks s1' acks) as [s2' oks']. cbn [fst snd] in *.
  split; [exact E|]. rewrite O1, O2, He, O. reflexivity.
Qed.

(* savepoint_folds: a savepoint requested while a (periodic) checkpoint is pending returns that checkpoint's id, creates
   nothing (created = false, the id counter does not move, the same checkpoint stays pending with the same missing
   acknowledgements); apart from the savepoint mark the store then behaves exactly as if the request had not been made,
   for every later sequence of acknowledgements; and the pending checkpoint, once complete, is recorded as a savepoint. *)
Lemma savepoint_folds_lemma : forall s ops p,
  st_pending s = Some p -> p_sp p = false ->
  let '(s', r) := create_savepoint s ops in
  r = RId (p_id p) false /\ st_counter s' = st_counter s /\
  st_pending s' = Some (mkP (p_id p) true (p_missing p) (p_acks p)) /\
  erase s' = erase s /\
  forall acks, erase (fst (run_acks s' acks)) = erase (fst (run_acks s acks)) /\ snd (run_acks s' acks) = snd (run_acks s acks).
Proof.
  intros [c pend d] ops p Hp Hsp. cbn [st_pending] in Hp. subst pend. unfold create_savepoint. cbn [st_pending]. rewrite Hsp.
  cbn [st_counter st_done]. split; [reflexivity|]. split; [reflexivity|]. split; [reflexivity|].
  assert (He : erase (mkSt c (Some (mkP (p_id p) true (p_missing p) (p_acks p))) d) = erase (mkSt c (Some p) d)).
  { unfold erase. cbn [st_counter st_pending st_done option_map erase_p p_id p_missing p_acks]. reflexivity. }
  split; [exact He|]. intros acks. apply run_acks_erase. exact He.
Qed.

(* a savepoint requested with nothing pending starts exactly one new checkpoint, marked *)
Lemma savepoint_fresh_lemma : forall s ops, st_pending s = None ->
  create_savepoint s ops = (mkSt (st_counter s + 1) (Some (mkP (st_counter s + 1) true ops [])) (st_done s), RId (st_counter s + 1) true).
Proof. intros [c pend d] ops H. cbn [st_pending] in H. subst. reflexivity. Qed.

(* the mark survives: when the folded checkpoint completes it is recorded as a savepoint *)
Lemma folded_completes_as_savepoint : forall c d id missing acks op cid,
  missing = [op] -> id = cid ->
  st_done (fst (add_ack (mkSt c (Some (mkP id true missing acks)) d) op cid)) = d ++ [(id, true, acks ++ [(op, cid)])].
Proof.
  intros c d id missing acks op cid -> ->. unfold add_ack. cbn [st_pending p_id p_missing existsb].
  rewrite N.eqb_refl. cbn [andb orb filter]. rewrite N.eqb_refl. cbn [negb]. reflexivity.
Qed.

(* the job level: a savepoint request during a pending checkpoint broadcasts no StartCheckpoint; with nothing pending
   exactly one, for the new id.  Together with the tick's own round: one round per checkpoint id. *)
Lemma job_savepoint_starts_lemma : forall s ops,
  match st_pending s with
  | Some p => p_sp p = false ->
      exists s', job_create_savepoint s ops = (s', RId (p_id p) false, []) /\ st_counter s' = st_counter s
  | None =>
      exists s', job_create_savepoint s ops = (s', RId (st_counter s + 1) true, [st_counter s + 1])
  end.
Proof.
  intros [c [p|] d] ops; unfold job_create_savepoint, create_savepoint; cbn [st_pending st_counter st_done].
  - intros Hsp. rewrite Hsp. eexists. split; reflexivity.
  - eexists. reflexivity.
Qed.

(* ---------- a savepoint whose copy fails is not published ---------- *)
Lemma copy_files_missing (src dst : bytes -> uri) : (forall f g, src f <> dst g) ->
  forall files fs f, In f files -> fs_read fs (src f) = None -> copy_all fs (map (fun f => (src f, dst f)) files) = None.
Proof.
  intros Hsd. induction files as [|g files IH]; intros fs f Hin Hmiss; [destruct Hin|]. cbn [map copy_all]. unfold fs_copy.
  destruct (fs_read fs (src g)) as [c|] eqn:Hg; [|reflexivity].
  destruct Hin as [->|Hin]; [congruence|].
  apply (IH _ f Hin). rewrite read_write. rewrite uri_eqb_neq by apply Hsd. exact Hmiss.
Qed.

(* if, when the artifact is written, a file that the savepoint's checkpoint of some operator references is gone, NO
   savepoint is produced (the job file is not copied to its savepoint name) - never an incomplete one *)
Lemma sp_create_missing_lemma : forall ops fs id op cid l e f,
  In (op, cid) ops ->
  fs_read fs (UWork op ck_name) = Some (FCkList l) -> find (fun e => fst e =? cid) l = Some e -> In f (snd e) ->
  fs_read fs (UWork op f) = None ->
  sp_create true fs id ops = None.
Proof.
  intros ops fs id op cid l e f Hin Hck Hfind Hf Hmiss. unfold sp_create.
  assert (H : sp_create_ops true fs id ops = None); [|rewrite H; reflexivity].
  revert fs Hck Hmiss. induction ops as [|[op2 cid2] ops IH]; intros fs Hck Hmiss; [destruct Hin|]. cbn [sp_create_ops].
  destruct Hin as [Heq|Hin].
  - inversion Heq; subst. rewrite Hck. unfold list_files. rewrite Hfind.
    rewrite (copy_files_missing (fun f => UWork op f) (fun f => USave id op f) ltac:(intros; discriminate) _ fs f); [reflexivity| |exact Hmiss].
    apply in_or_app. left. exact Hf.
  - destruct (fs_read fs (UWork op2 ck_name)) as [[|l2|]|]; try reflexivity.
    destruct (list_files true l2 cid2) as [files|]; try reflexivity.
    destruct (copy_all fs _) as [fs1|] eqn:Hc; [|reflexivity].
    destruct (copy_files_spec (fun f => UWork op2 f) (fun f => USave id op2 f) ltac:(intros f0 g0 E; inversion E; reflexivity) ltac:(intros; discriminate) _ _ _ Hc) as [Ho _].
    apply (IH Hin); rewrite Ho; try assumption; intros g _; discriminate.
Qed.
