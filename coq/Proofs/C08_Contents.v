(* C08, contents level: the background actions of a database object (flush swap, locked part of Checkpoint, apply of a
   compaction whose output is the merge of its inputs) do not change what any key reads; lifted to every history of writes,
   background actions, checkpoints and restores against the abstract map. Builds on Proofs/C08_Ckpt.v. Stdlib only. *)
From Coq Require Import List NArith Bool Lia Sorted.
From Coq Require Import ZifyN ZifyNat ZifyBool.
Import ListNotations.
From RV Require Import Base.Bytes Model.Ckpt Proofs.C08_Ckpt.
Open Scope N_scope.

(* ------------------------------------------------------------------ newest, semantically *)
Lemma newest_none es k : newest es k = None -> forall y, In y es -> e_key y <> k.
Proof.
  induction es as [|x es IH]; cbn [newest]; [intros _ y []|].
  destruct (beqb k (e_key x)) eqn:B.
  - destruct (newest es k) as [z|]; [destruct (e_seq x <? e_seq z)|]; discriminate.
  - intros N y [<-|Hy]; [|apply IH; assumption]. intro E. rewrite E, beqb_refl in B. discriminate.
Qed.

Lemma newest_max es k e : newest es k = Some e ->
  In e es /\ e_key e = k /\ forall y, In y es -> e_key y = k -> e_seq y <= e_seq e.
Proof.
  revert e. induction es as [|x es IH]; cbn [newest]; [discriminate|]. intro e.
  destruct (beqb k (e_key x)) eqn:B.
  - destruct (newest es k) as [z|] eqn:N.
    + destruct (IH z eq_refl) as [Iz [Kz Mz]].
      destruct (e_seq x <? e_seq z) eqn:C; intro H; inversion H; subst e.
      * split; [right; exact Iz|]. split; [exact Kz|]. intros y [<-|Hy] Ky; [lia|apply Mz; assumption].
      * apply beqb_eq in B. split; [left; reflexivity|]. split; [auto|].
        intros y [<-|Hy] Ky; [lia|]. specialize (Mz y Hy Ky). lia.
    + intro H; inversion H; subst e. apply beqb_eq in B. split; [left; reflexivity|]. split; [auto|].
      intros y [<-|Hy] Ky; [lia|]. exfalso. exact (newest_none _ _ N y Hy Ky).
  - intro H. destruct (IH e H) as [Ie [Ke Me]]. split; [right; exact Ie|]. split; [exact Ke|].
    intros y [<-|Hy] Ky; [|apply Me; assumption]. exfalso. rewrite Ky, beqb_refl in B. discriminate.
Qed.

(* no two different entries of one key carry the same sequence number *)
Definition uniq (es : list entry) : Prop :=
  forall x y, In x es -> In y es -> e_key x = e_key y -> e_seq x = e_seq y -> x = y.
(* every entry of key k in B is matched or beaten by one in A *)
Definition dominates (A B : list entry) (k : bytes) : Prop :=
  forall e, In e B -> e_key e = k -> exists e', In e' A /\ e_key e' = k /\ e_seq e <= e_seq e'.

Lemma newest_equiv A B k : uniq (A ++ B) -> dominates A B k -> dominates B A k -> newest A k = newest B k.
Proof.
  intros U DA DB. destruct (newest A k) as [a|] eqn:NA, (newest B k) as [b|] eqn:NB.
  - destruct (newest_max _ _ _ NA) as [Ia [Ka Ma]]. destruct (newest_max _ _ _ NB) as [Ib [Kb Mb]].
    destruct (DA b Ib Kb) as [a' [Ia' [Ka' La']]]. destruct (DB a Ia Ka) as [b' [Ib' [Kb' Lb']]].
    specialize (Ma a' Ia' Ka'). specialize (Mb b' Ib' Kb').
    f_equal. apply U; [apply in_or_app; left; exact Ia|apply in_or_app; right; exact Ib|congruence|lia].
  - exfalso. destruct (newest_max _ _ _ NA) as [Ia [Ka _]]. destruct (DB a Ia Ka) as [b' [Ib' [Kb' _]]].
    exact (newest_none _ _ NB b' Ib' Kb').
  - exfalso. destruct (newest_max _ _ _ NB) as [Ib [Kb _]]. destruct (DA b Ib Kb) as [a' [Ia' [Ka' _]]].
    exact (newest_none _ _ NA a' Ia' Ka').
  - reflexivity.
Qed.

Lemma uniq_sub A B : uniq B -> (forall e, In e A -> In e B) -> uniq (A ++ B).
Proof.
  intros U S x y Hx Hy. apply U.
  - apply in_app_or in Hx. destruct Hx; auto.
  - apply in_app_or in Hy. destruct Hy; auto.
Qed.

Lemma contig_inj ws a x y : contig ws a -> In x ws -> In y ws -> e_seq x = e_seq y -> x = y.
Proof.
  intros C Hx Hy E. apply In_nth_error in Hx. destruct Hx as [i Hi]. apply In_nth_error in Hy. destruct Hy as [j Hj].
  rewrite (C _ _ Hi), (C _ _ Hj) in E. assert (i = j) by lia. subst j. congruence.
Qed.

Lemma contig_prefix u v a : contig (u ++ v) a -> contig u a.
Proof. intros C i e H. apply C. rewrite nth_error_app1; [exact H|]. apply nth_error_Some. congruence. Qed.

(* ------------------------------------------------------------------ (1) the flush swap preserves every read *)
(* newest over the tables written for consecutive chunks of the log = the last write of the key in those chunks *)
Lemma newest_flushed (cs : list (list entry)) a0 k :
  contig (concat cs) a0 -> newest (concat (map build cs)) k = lastw (concat cs) k.
Proof.
  revert a0. induction cs as [|c cs IH]; intros a0 C; [reflexivity|].
  cbn [map concat] in *. rewrite newest_app, newest_build, lastw_app.
  assert (contig (concat cs) (a0 + N.of_nat (length c))) as C'.
  { replace (concat cs) with (skipn (length c) (c ++ concat cs)) by (rewrite skipn_app, skipn_all, Nat.sub_diag; reflexivity).
    apply contig_skipn. exact C. }
  rewrite (IH _ C').
  destruct (lastw c k) as [x|] eqn:X, (lastw (concat cs) k) as [y|] eqn:Y; cbn [pick]; try reflexivity.
  apply lastw_in in X. apply lastw_in in Y. pose proof (contig_app_split _ _ _ _ _ C (proj1 X) (proj1 Y)).
  destruct (e_seq x <? e_seq y) eqn:L; [reflexivity|lia].
Qed.

Lemma rep_suffix_contig d a pre cs ca : Rep d a pre cs ca -> contig (concat cs ++ ca) (a + N.of_nat (length pre)).
Proof.
  intro R.
  replace (concat cs ++ ca) with (skipn (length pre) (pre ++ concat cs ++ ca)) by (rewrite skipn_app, skipn_all, Nat.sub_diag; reflexivity).
  apply contig_skipn. exact (rp_contig _ _ _ _ _ R).
Qed.

Theorem db_get_flush_swap d a pre cs ca n dir next k :
  Rep d a pre cs ca -> (n <= length cs)%nat ->
  db_get (db_flush_swap d n (mk_tables dir next (firstn n (d_sealed d)))) k = db_get d k.
Proof.
  intros R Hn. destruct (rep_flush_swap d a pre cs ca n dir next R Hn) as [a' [pre' R']].
  rewrite (db_get_char _ _ _ _ _ k R'), (db_get_char _ _ _ _ _ k R). unfold view.
  cbn [db_flush_swap d_tables].
  pose proof (rep_suffix_bounds _ _ _ _ _ R) as [_ Hs]. pose proof (rep_suffix_contig _ _ _ _ _ R) as SC.
  set (fl := concat (firstn n cs)).
  assert (concat cs ++ ca = fl ++ (concat (skipn n cs) ++ ca)) as E
    by (unfold fl; rewrite app_assoc, <- concat_app, firstn_skipn; reflexivity).
  rewrite E, (lastw_app fl). destruct (lastw (concat (skipn n cs) ++ ca) k) as [z|]; [reflexivity|].
  f_equal. unfold tables_entries. rewrite flat_map_app. fold (tables_entries (d_tables d)).
  fold (tables_entries (mk_tables dir next (firstn n (d_sealed d)))).
  rewrite mk_tables_entries, (rp_sealed _ _ _ _ _ R), firstn_map, newest_app.
  rewrite E in SC. rewrite (newest_flushed (firstn n cs) _ k (contig_prefix _ _ _ SC)). fold fl.
  destruct (lastw fl k) as [y|] eqn:Y.
  - destruct (newest (tables_entries (d_tables d)) k) as [x|] eqn:X; cbn [pick]; [|reflexivity].
    apply newest_in in X. apply lastw_in in Y.
    pose proof (rp_tables _ _ _ _ _ R) as T. rewrite Forall_forall in T. specialize (T x (proj1 X)).
    assert (In y (concat cs ++ ca)) as Hy by (rewrite E; apply in_or_app; left; apply Y).
    destruct (Hs y Hy). destruct (e_seq x <? e_seq y) eqn:L; [reflexivity|lia].
  - destruct (newest (tables_entries (d_tables d)) k); reflexivity.
Qed.

Lemma uniq_flush_swap d a pre cs ca n dir next :
  Rep d a pre cs ca -> (n <= length cs)%nat -> uniq (tables_entries (d_tables d)) ->
  uniq (tables_entries (d_tables (db_flush_swap d n (mk_tables dir next (firstn n (d_sealed d)))))).
Proof.
  intros R Hn U. cbn [db_flush_swap d_tables]. unfold tables_entries. rewrite flat_map_app.
  fold (tables_entries (d_tables d)). fold (tables_entries (mk_tables dir next (firstn n (d_sealed d)))).
  rewrite mk_tables_entries, (rp_sealed _ _ _ _ _ R), firstn_map.
  pose proof (rep_suffix_bounds _ _ _ _ _ R) as [_ Hs]. pose proof (rep_suffix_contig _ _ _ _ _ R) as SC.
  pose proof (rp_tables _ _ _ _ _ R) as T. rewrite Forall_forall in T.
  assert (forall e, In e (concat (map build (firstn n cs))) -> In e (concat cs ++ ca)) as Sub.
  { intros e He. apply in_concat in He. destruct He as [m [Hm He]]. apply in_map_iff in Hm. destruct Hm as [c [<- Hc]].
    apply build_in in He. apply in_or_app. left. apply in_concat. exists c. split; [eapply firstn_In; exact Hc|exact He]. }
  intros x y Hx Hy K S. apply in_app_or in Hx. apply in_app_or in Hy. destruct Hx as [Hx|Hx], Hy as [Hy|Hy].
  - apply U; assumption.
  - specialize (T x Hx). destruct (Hs y (Sub y Hy)). lia.
  - specialize (T y Hy). destruct (Hs x (Sub x Hx)). lia.
  - eapply contig_inj; [exact SC|apply Sub; exact Hx|apply Sub; exact Hy|exact S].
Qed.

(* ------------------------------------------------------------------ (2) compaction whose output is the merge of its inputs *)
Definition rem_tables (d : dbc) (removed : list fname) : list table := filter (fun t => mem_name (t_name t) removed) (d_tables d).
(* out = the inputs with, for every key, at least its newest entry kept and nothing invented *)
Definition merge_ok (ins out : list entry) : Prop := (forall e, In e out -> In e ins) /\ (forall k, dominates out ins k).
Definition compact_ok (d : dbc) (removed : list fname) (added : list table) : Prop :=
  ends_ok added /\ tables_latest added <= d_latest d /\
  merge_ok (tables_entries (rem_tables d removed)) (tables_entries added).

Lemma in_tables_entries ts e : In e (tables_entries ts) <-> exists t, In t ts /\ In e (t_es t).
Proof. unfold tables_entries. apply in_flat_map. Qed.

Lemma compact_sub d removed added e : compact_ok d removed added ->
  In e (tables_entries (d_tables (db_compact_apply d removed added))) -> In e (tables_entries (d_tables d)).
Proof.
  intros [_ [_ [MS _]]] H. cbn [db_compact_apply d_tables] in H. apply in_tables_entries in H. destruct H as [t [Ht He]].
  apply in_app_or in Ht. destruct Ht as [Ht|Ht].
  - apply filter_In in Ht. apply in_tables_entries. exists t. split; [apply Ht|exact He].
  - assert (In e (tables_entries added)) as H by (apply in_tables_entries; exists t; auto).
    apply MS in H. apply in_tables_entries in H. destruct H as [t' [Ht' He']]. apply filter_In in Ht'.
    apply in_tables_entries. exists t'. split; [apply Ht'|exact He'].
Qed.

Lemma uniq_compact d removed added : compact_ok d removed added -> uniq (tables_entries (d_tables d)) ->
  uniq (tables_entries (d_tables (db_compact_apply d removed added))).
Proof. intros OK U x y Hx Hy. apply U; eapply compact_sub; eassumption. Qed.

Theorem db_get_compact d a pre cs ca removed added k :
  Rep d a pre cs ca -> uniq (tables_entries (d_tables d)) -> compact_ok d removed added ->
  db_get (db_compact_apply d removed added) k = db_get d k.
Proof.
  intros R U OK. pose proof OK as [EO [LE [MS MD]]].
  pose proof (rep_compact d a pre cs ca removed added R EO LE) as R'.
  rewrite (db_get_char _ _ _ _ _ k R'), (db_get_char _ _ _ _ _ k R). unfold view.
  destruct (lastw (concat cs ++ ca) k); [reflexivity|]. f_equal.
  apply newest_equiv.
  - apply uniq_sub; [exact U|]. intros e He. eapply compact_sub; eassumption.
  - intros e He Ke. apply in_tables_entries in He. destruct He as [t [Ht He]].
    destruct (mem_name (t_name t) removed) eqn:M.
    + assert (In e (tables_entries (rem_tables d removed))) as Hr
        by (apply in_tables_entries; exists t; split; [apply filter_In; auto|exact He]).
      destruct (MD k e Hr Ke) as [e' [He' [Ke' Le']]]. exists e'. split; [|auto].
      cbn [db_compact_apply d_tables]. apply in_tables_entries in He'. destruct He' as [t' [Ht' He']].
      apply in_tables_entries. exists t'. split; [apply in_or_app; right; exact Ht'|exact He'].
    + exists e. split; [|split; [exact Ke|lia]]. cbn [db_compact_apply d_tables]. apply in_tables_entries. exists t.
      split; [|exact He]. apply in_or_app. left. apply filter_In. split; [exact Ht|]. rewrite M. reflexivity.
  - intros e He Ke. exists e. split; [eapply compact_sub; eassumption|split; [exact Ke|lia]].
Qed.

(* the shape of the real compactor: kv.MergeEntries over the scans of the input tables (ascending keys, per key the entry
   with the greatest sequence number, delete markers kept), cut into runs by TableWriter.WriteRun, each run's end sequence
   number = the maximum in it *)
Definition merge_newest (es : list entry) : list entry :=
  flat_map (fun k => match newest es k with Some e => [e] | None => [] end) (sorted_keys es).
Definition mk_added (runs : list (fname * list entry)) : list table :=
  map (fun r => mkT (fst r) (snd r) (max_seq (snd r))) runs.

Lemma ins_key_in k ks : In k (ins_key k ks) /\ forall x, In x ks -> In x (ins_key k ks).
Proof.
  induction ks as [|y ks [IH1 IH2]]; cbn [ins_key]; [split; [left; reflexivity|intros x []]|].
  destruct (bcmp k y) eqn:C.
  - apply bcmp_eq in C. subst y. split; [left; reflexivity|auto].
  - split; [left; reflexivity|intros x H; right; exact H].
  - split; [right; exact IH1|]. intros x [->|H]; [left; reflexivity|right; apply IH2; exact H].
Qed.

Lemma sorted_keys_in es e : In e es -> In (e_key e) (sorted_keys es).
Proof.
  induction es as [|x es IH]; [intros []|]. unfold sorted_keys in *. cbn [fold_right]. intros [->|H].
  - apply (proj1 (ins_key_in _ _)).
  - apply (proj2 (ins_key_in _ _)). apply IH. exact H.
Qed.

Lemma merge_newest_ok ins : merge_ok ins (merge_newest ins).
Proof.
  split.
  - intros e He. apply in_flat_map in He. destruct He as [k [_ He]].
    destruct (newest ins k) as [x|] eqn:N; [|destruct He]. destruct He as [<-|[]]. apply (newest_in _ _ _ N).
  - intros k e He Ke. destruct (newest ins k) as [x|] eqn:N.
    + destruct (newest_max _ _ _ N) as [Ix [Kx Mx]]. exists x. split; [|split; [exact Kx|apply Mx; assumption]].
      apply in_flat_map. exists k. split; [rewrite <- Ke; apply sorted_keys_in; exact He|]. rewrite N. left. reflexivity.
    + exfalso. exact (newest_none _ _ N e He Ke).
Qed.

Lemma mk_added_entries runs : tables_entries (mk_added runs) = concat (map snd runs).
Proof. induction runs as [|r runs IH]; [reflexivity|]. unfold tables_entries in *. cbn [mk_added map flat_map t_es snd concat]. unfold mk_added in IH. rewrite IH. reflexivity. Qed.

Lemma tables_latest_le ts b : (forall t, In t ts -> t_end t <= b) -> tables_latest ts <= b.
Proof.
  induction ts as [|t ts IH]; intro H; unfold tables_latest in *; cbn [fold_right]; [lia|].
  assert (t_end t <= b) by (apply H; left; reflexivity).
  assert (fold_right (fun t a => N.max (t_end t) a) 0 ts <= b) by (apply IH; intros t' Ht'; apply H; right; exact Ht'). lia.
Qed.

Theorem merge_compact_ok d a pre cs ca removed runs :
  Rep d a pre cs ca -> concat (map snd runs) = merge_newest (tables_entries (rem_tables d removed)) ->
  compact_ok d removed (mk_added runs).
Proof.
  intros R E. pose proof (merge_newest_ok (tables_entries (rem_tables d removed))) as [MS MD].
  split; [|split].
  - unfold ends_ok, mk_added. apply Forall_forall. intros t Ht. apply in_map_iff in Ht. destruct Ht as [r [<- _]].
    cbn [t_es t_end]. intros e He. apply max_seq_bound. exact He.
  - apply tables_latest_le. intros t Ht. unfold mk_added in Ht. apply in_map_iff in Ht. destruct Ht as [r [<- Hr]]. cbn [t_end].
    apply max_seq_le. intros e He.
    assert (In e (concat (map snd runs))) as H by (apply in_concat; exists (snd r); split; [apply in_map; exact Hr|exact He]).
    rewrite E in H. apply MS in H. apply in_tables_entries in H. destruct H as [t' [Ht' He']]. apply filter_In in Ht'.
    pose proof (rp_tables _ _ _ _ _ R) as T. rewrite Forall_forall in T. apply T. apply in_tables_entries. exists t'. split; [apply Ht'|exact He'].
  - rewrite mk_added_entries, E. split; assumption.
Qed.

(* ------------------------------------------------------------------ (3) databases whose background actions keep contents *)
Definition act_okc (d : dbc) (a : action) : Prop :=
  act_ok d a /\ match a with
                | ACompact removed added => merge_ok (tables_entries (rem_tables d removed)) (tables_entries added)
                | _ => True
                end.
Definition background (a : action) : Prop := match a with AWrite _ _ _ | AWriteAt _ _ _ _ => False | _ => True end.

Inductive reachc : dbc -> Prop :=
| rc_new mem wm : reachc (db_new mem wm)
| rc_act d a : reachc d -> act_okc d a -> reachc (do_action d a)
| rc_restore d o mem wm es :
    reachc d -> wal_read (cp_wal (snd (db_checkpoint d))) (cp_after (snd (db_checkpoint d))) = ROk es ->
    reachc (fst (db_restore mem wm o (cp_tables (snd (db_checkpoint d))) (cp_walid (snd (db_checkpoint d))) es)).

Lemma reachc_reach d : reachc d -> reach d.
Proof.
  induction 1 as [mem wm|d a _ IH [OK _]|d o mem wm es _ IH RD].
  - apply reach_new.
  - apply reach_act; assumption.
  - apply reach_restore; assumption.
Qed.

Lemma replay_tables o es : forall d, d_tables (replay_core o d es) = d_tables d.
Proof.
  induction es as [|e es IH]; intro d; [reflexivity|]. cbn [replay_core]. destruct (owns o (e_key e)); [|apply IH].
  rewrite IH. apply (db_write_fields d (e_key e) (e_del e) (e_val e)).
Qed.

Lemma act_okc_compact d removed added : act_okc d (ACompact removed added) -> compact_ok d removed added.
Proof. intros [[EO LE] M]. split; [exact EO|split; [exact LE|exact M]]. Qed.

Lemma reachc_uniq d : reachc d -> uniq (tables_entries (d_tables d)).
Proof.
  induction 1 as [mem wm|d a RC IH OK|d o mem wm es RC IH RD].
  - intros x y [].
  - destruct (reach_inv _ (reachc_reach _ RC)) as [a0 [pre [cs [ca R]]]].
    destruct a as [k del v| |n dir next|removed added|k del v rot]; cbn [do_action];
      [| | | |unfold db_write_at; destruct rot; exact IH].
    + destruct (db_write_fields d k del v) as [_ [-> _]]. exact IH.
    + exact IH.
    + destruct OK as [OK _]. cbn [act_ok] in OK. rewrite (rp_sealed _ _ _ _ _ R), map_length in OK.
      eapply uniq_flush_swap; eassumption.
    + apply uniq_compact; [apply act_okc_compact; exact OK|exact IH].
  - unfold db_restore. rewrite db_replay_core, replay_tables. exact IH.
Qed.

(* every background action - the locked part of Checkpoint, a flush swap, a merging compaction - leaves every read unchanged *)
Theorem background_keeps_contents d a k : reachc d -> act_okc d a -> background a -> db_get (do_action d a) k = db_get d k.
Proof.
  intros RC OK BG. destruct (reach_inv _ (reachc_reach _ RC)) as [a0 [pre [cs [ca R]]]].
  destruct a as [k0 del v| |n dir next|removed added|k0 del v rot]; cbn [do_action]; [| | | |destruct BG].
  - destruct BG.
  - rewrite (db_get_char _ _ _ _ _ k (rep_checkpoint _ _ _ _ _ R)), (db_get_char _ _ _ _ _ k R). reflexivity.
  - destruct OK as [OK _]. cbn [act_ok] in OK. rewrite (rp_sealed _ _ _ _ _ R), map_length in OK.
    eapply db_get_flush_swap; eassumption.
  - eapply db_get_compact; [exact R|apply reachc_uniq; exact RC|apply act_okc_compact; exact OK].
Qed.

Theorem checkpoint_exact_dbc d o mem wm :
  reachc d ->
  exists es, wal_read (cp_wal (snd (db_checkpoint d))) (cp_after (snd (db_checkpoint d))) = ROk es /\
    let r := fst (db_restore mem wm o (cp_tables (snd (db_checkpoint d))) (cp_walid (snd (db_checkpoint d))) es) in
    reachc r /\ (forall k, owns o k = true -> db_get r k = db_get d k).
Proof.
  intro RC. destruct (checkpoint_exact_db d o mem wm (reachc_reach _ RC)) as [es [RD [_ [G _]]]]. cbn zeta in *.
  exists es. split; [exact RD|]. split; [apply rc_restore; assumption|exact G].
Qed.

(* the real-compactor-shaped change set is an admissible action of every such database *)
Theorem merge_act_okc d removed runs :
  reachc d -> concat (map snd runs) = merge_newest (tables_entries (rem_tables d removed)) ->
  act_okc d (ACompact removed (mk_added runs)).
Proof.
  intros RC E. destruct (reach_inv _ (reachc_reach _ RC)) as [a0 [pre [cs [ca R]]]].
  destruct (merge_compact_ok d a0 pre cs ca removed runs R E) as [EO [LE M]]. split; [split; assumption|exact M].
Qed.

(* ---- histories against the abstract map ----
   A system state: the running database, the abstract map (what a sequential key-value map would hold), the keys for which
   the running database is responsible (all, until a restore with a key range narrows it), and the checkpoints taken so far,
   each remembered as the database at the call with the map and the responsibility at the call. *)
Definition amap := bytes -> option bytes.
Definition m_write (m : amap) (k : bytes) (del : bool) (v : bytes) : amap :=
  fun k' => if beqb k' k then (if del then None else Some v) else m k'.
Definition snapshot := (dbc * amap * (bytes -> bool))%type.
Record sys := mkSys { s_db : dbc; s_map : amap; s_scope : bytes -> bool; s_caps : list snapshot }.

Definition restore_of (d0 : dbc) (o : own) (mem wm : N) (es : list entry) : dbc :=
  fst (db_restore mem wm o (cp_tables (snd (db_checkpoint d0))) (cp_walid (snd (db_checkpoint d0))) es).
Definition capture_read (d0 : dbc) : replay_res := wal_read (cp_wal (snd (db_checkpoint d0))) (cp_after (snd (db_checkpoint d0))).

Inductive sreach : sys -> Prop :=
| sr_new mem wm : sreach (mkSys (db_new mem wm) (fun _ => None) (fun _ => true) [])
| sr_write s k del v : sreach s ->
    sreach (mkSys (fst (db_write (s_db s) k del v)) (m_write (s_map s) k del v) (s_scope s) (s_caps s))
| sr_background s a : sreach s -> background a -> act_okc (s_db s) a ->
    sreach (mkSys (do_action (s_db s) a) (s_map s) (s_scope s) (s_caps s))
| sr_checkpoint s : sreach s ->
    sreach (mkSys (fst (db_checkpoint (s_db s))) (s_map s) (s_scope s) ((s_db s, s_map s, s_scope s) :: s_caps s))
| sr_restore s d0 m0 sc0 o mem wm es : sreach s -> In (d0, m0, sc0) (s_caps s) -> capture_read d0 = ROk es ->
    sreach (mkSys (restore_of d0 o mem wm es) m0 (fun k => sc0 k && owns o k) (s_caps s))
| sr_write_at s k del v rot : sreach s ->      (* a write with ANY rotation decision: when a buffer counts as full is a policy *)
    sreach (mkSys (db_write_at (s_db s) k del v rot) (m_write (s_map s) k del v) (s_scope s) (s_caps s)).

Definition holds (d : dbc) (m : amap) (sc : bytes -> bool) : Prop :=
  reachc d /\ forall k, sc k = true -> db_get d k = m k.

Lemma sreach_holds s : sreach s ->
  holds (s_db s) (s_map s) (s_scope s) /\ forall d0 m0 sc0, In (d0, m0, sc0) (s_caps s) -> holds d0 m0 sc0.
Proof.
  induction 1 as [mem wm|s k del v _ [[RC G] IHc]|s a _ [[RC G] IHc] BG OK|s _ [[RC G] IHc]|s d0 m0 sc0 o mem wm es _ [_ IHc] Hin RD|s k del v rot _ [[RC G] IHc]];
    cbn [s_db s_map s_scope s_caps].
  - split; [|intros ? ? ? []]. split; [apply rc_new|]. intros k _. reflexivity.
  - split; [|exact IHc]. split; [exact (rc_act _ (AWrite k del v) RC (conj I I))|].
    intros k' S. rewrite (db_write_get _ k del v k' (reach_inv _ (reachc_reach _ RC))). unfold m_write.
    destruct (beqb k' k); [reflexivity|apply G; exact S].
  - split; [|exact IHc]. split; [apply rc_act; assumption|].
    intros k S. rewrite (background_keeps_contents _ _ k RC OK BG). apply G. exact S.
  - split.
    + split; [exact (rc_act _ ACheckpoint RC (conj I I))|].
      intros k S. exact (eq_trans (background_keeps_contents _ ACheckpoint k RC (conj I I) I) (G k S)).
    + intros d0 m0 sc0 [E|H]; [inversion E; subst; split; assumption|apply IHc; exact H].
  - split; [|exact IHc]. destruct (IHc _ _ _ Hin) as [RC0 G0].
    destruct (checkpoint_exact_dbc d0 o mem wm RC0) as [es' [RD' [RCr Gr]]]. cbn zeta in *.
    unfold capture_read in RD. rewrite RD in RD'. inversion RD'; subst es'.
    split; [exact RCr|]. intros k S. apply andb_true_iff in S. destruct S as [S O].
    unfold restore_of. rewrite (Gr k O). apply G0. exact S.
  - split; [|exact IHc]. split; [exact (rc_act _ (AWriteAt k del v rot) RC (conj I I))|].
    intros k' S. rewrite (db_write_at_get _ k del v rot k' (reach_inv _ (reachc_reach _ RC))). unfold m_write.
    destruct (beqb k' k); [reflexivity|apply G; exact S].
Qed.

(* checkpoint_exact over contents, under every background schedule *)
Theorem checkpoint_exact_contents s : sreach s ->
  (forall k, s_scope s k = true -> db_get (s_db s) k = s_map s k) /\
  (forall d0 m0 sc0, In (d0, m0, sc0) (s_caps s) ->
     exists es, capture_read d0 = ROk es /\
       forall o mem wm k, sc0 k = true -> owns o k = true -> db_get (restore_of d0 o mem wm es) k = m0 k).
Proof.
  intro SR. destruct (sreach_holds s SR) as [[_ G] Hc]. split; [exact G|].
  intros d0 m0 sc0 Hin. destruct (Hc _ _ _ Hin) as [RC0 G0].
  destruct (checkpoint_exact_dbc d0 OwnAll 0 0 RC0) as [es [RD _]]. exists es. split; [exact RD|].
  intros o mem wm k S O. destruct (checkpoint_exact_dbc d0 o mem wm RC0) as [es' [RD' [_ Gr]]]. cbn zeta in *.
  rewrite RD in RD'. inversion RD'; subst es'. unfold restore_of. rewrite (Gr k O). apply G0. exact S.
Qed.

(* ------------------------------------------------------------------ one failing storage read during the replay *)
Lemma read_entries_surfaces es : forall pos k, read_entries es pos k = REof \/ read_entries es pos k = ROk es.
Proof.
  induction es as [|e es IH]; intros pos k; cbn [read_entries].
  - destruct (Nat.eqb pos k); auto.
  - destruct (Nat.leb pos k && Nat.ltb k (pos + entry_reads e))%bool; [left; reflexivity|].
    destruct (IH (pos + entry_reads e)%nat k) as [-> | ->]; auto.
Qed.

Theorem wal_read_fault_surfaces content after s k :
  wal_read_fault content after s k = REof \/ wal_read_fault content after s k = wal_read content after.
Proof.
  unfold wal_read_fault. destruct (wal_read content after) as [| |es]; auto.
  destruct (Nat.ltb k s); [left; reflexivity|]. apply read_entries_surfaces.
Qed.

(* a restore during which one read of the checkpoint's WAL fails either does not return a database or returns the exact one *)
Definition restore_under_fault (d : dbc) (o : own) (mem wm : N) (s k : nat) : option dbc :=
  match wal_read_fault (cp_wal (snd (db_checkpoint d))) (cp_after (snd (db_checkpoint d))) s k with
  | ROk es => Some (restore_of d o mem wm es)
  | _ => None
  end.

Theorem restore_fault_exact d o mem wm s k : reachc d ->
  restore_under_fault d o mem wm s k = None \/
  exists r, restore_under_fault d o mem wm s k = Some r /\ reachc r /\ forall key, owns o key = true -> db_get r key = db_get d key.
Proof.
  intro RC. unfold restore_under_fault.
  destruct (wal_read_fault_surfaces (cp_wal (snd (db_checkpoint d))) (cp_after (snd (db_checkpoint d))) s k) as [-> | ->]; [left; reflexivity|].
  destruct (checkpoint_exact_dbc d o mem wm RC) as [es [RD [RCr G]]]. cbn zeta in *. rewrite RD. right.
  exists (restore_of d o mem wm es). split; [reflexivity|]. split; assumption.
Qed.

(* the reader of seeded change C08r6-3 (any failed sequence-number read ends the log) is NOT of that kind: a witness *)
Fixpoint read_entries_lossy (es : list entry) (pos k : nat) : replay_res :=
  match es with
  | [] => ROk []
  | e :: es' => if Nat.eqb pos k then ROk []
                else if (Nat.ltb pos k && Nat.ltb k (pos + entry_reads e))%bool then REof
                else match read_entries_lossy es' (pos + entry_reads e) k with ROk l => ROk (e :: l) | r => r end
  end.
Lemma lossy_reader_loses :
  let es := [mkE [0;0;97] 1 false [49]; mkE [0;0;98] 2 false [50]] in
  read_entries_lossy es 1 7 = ROk [mkE [0;0;97] 1 false [49]] /\ read_entries es 1 7 = REof.
Proof. vm_compute. split; reflexivity. Qed.

(* ------------------------------------------------------------------ a concrete history (non-vacuity) *)
Module Ex.
  Definition ka : bytes := [0; 0; 97].
  Definition kb : bytes := [0; 0; 98].
  Definition wr (s : sys) k del v : sys := mkSys (fst (db_write (s_db s) k del v)) (m_write (s_map s) k del v) (s_scope s) (s_caps s).
  Definition bg (s : sys) a : sys := mkSys (do_action (s_db s) a) (s_map s) (s_scope s) (s_caps s).
  Definition s0 := mkSys (db_new 20 1000) (fun _ => None) (fun _ => true) [].
  Definition s1 := wr s0 ka false [49].     (* fills the memtable: rotation *)
  Definition s2 := wr s1 ka false [50].     (* rotation again: two sealed memtables *)
  Definition s3 := wr s2 kb true [].
  Definition s4 := bg s3 (AFlush 2 0 1).    (* swap of a flush of both sealed memtables: two tables *)
  Definition removed : list fname := [(0, 0, 1); (0, 0, 2)].
  Definition runs := [((0, 0, 3), merge_newest (tables_entries (rem_tables (s_db s4) removed)))].
  Definition s5 := bg s4 (ACompact removed (mk_added runs)).   (* merging compaction of both tables into one *)
  Definition s6 := mkSys (fst (db_checkpoint (s_db s5))) (s_map s5) (s_scope s5) ((s_db s5, s_map s5, s_scope s5) :: s_caps s5).
  Definition s7 := wr s6 ka true [].        (* the original goes on: the key is deleted after the checkpoint *)
  Definition es := match capture_read (s_db s5) with ROk l => l | _ => [] end.
  Definition s8 := mkSys (restore_of (s_db s5) OwnAll 20 1000 es) (s_map s5) (fun k => s_scope s5 k && owns OwnAll k) (s_caps s7).

  Lemma history : sreach s8 /\ length (d_tables (s_db s5)) = 1%nat /\ length (d_tables (s_db s4)) = 2%nat /\
                  db_get (s_db s7) ka = None /\ db_get (s_db s8) ka = Some [50] /\ s_map s8 ka = Some [50] /\
                  db_get (s_db s8) kb = None.
  Proof.
    assert (sreach s3) as H3 by (repeat apply sr_write; apply sr_new).
    assert (sreach s4) as H4.
    { apply sr_background; [exact H3|exact I|]. split; [|exact I]. cbn [act_ok]. vm_compute. repeat constructor. }
    assert (sreach s5) as H5.
    { apply sr_background; [exact H4|exact I|]. apply merge_act_okc; [apply (sreach_holds _ H4)|].
      unfold runs. cbn [map snd concat]. apply app_nil_r. }
    assert (sreach s7) as H7 by (apply sr_write; apply sr_checkpoint; exact H5).
    split; [|vm_compute; repeat split; reflexivity].
    apply (sr_restore s7 (s_db s5) (s_map s5) (s_scope s5) OwnAll 20 1000 es H7); [left; reflexivity|].
    vm_compute. reflexivity.
  Qed.
End Ex.
