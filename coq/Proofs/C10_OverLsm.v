(* C10 over the LSM model: Model/TimerStoreKV.v (the timer store and registry over an abstract DKV) computes, over every
   DKV that refines the sorted map, exactly what the list model of Model/TimerStore.v / TimerRegistry.v computes (the
   keys of the DKV's contents being the list model's [db]); so [refinement] (Proofs/C10_Registry.v) holds over it; the
   instance is the LSM state machine of C07 under any schedule of background steps (Proofs/C03_OverLsm.v [lsm_kv], which
   packages c07c18's [step_ok]). *)
From RV Require Import Base.Bytes Model.TimerStore Model.TimerRegistry Model.TimerStoreKV.
From RV Require Import Proofs.C10_Spec Proofs.C10_Queue Proofs.C10_Registry.
From RV Require Model.StateStore Proofs.C03_OverLsm Proofs.C07_Refine Model.Lsm.
From Coq Require Import Permutation.
Open Scope N_scope.

(* ---------- the sorted association list of C03/C07 and the sorted key list of C10 ---------- *)
Lemma keys_sm_put k v m : map fst (StateStore.sm_put k v m) = sins k (map fst m).
Proof.
  induction m as [|[k' v'] m IH]; cbn; [reflexivity|].
  destruct (bcmp k k'); cbn; [reflexivity|reflexivity|now rewrite IH].
Qed.
Lemma keys_sm_del k m : map fst (StateStore.sm_del k m) = sdel k (map fst m).
Proof.
  induction m as [|[k' v'] m IH]; cbn; [reflexivity|].
  destruct (bcmp k k'); cbn; [reflexivity|reflexivity|now rewrite IH].
Qed.
Lemma keys_sm_scan p m : map fst (StateStore.sm_scan p m) = db_scan p (map fst m).
Proof.
  unfold StateStore.sm_scan, db_scan. induction m as [|[k' v'] m IH]; cbn; [reflexivity|].
  destruct (is_prefix p k'); cbn; now rewrite IH.
Qed.
Lemma filter_all_true (l : list bytes) : filter (is_prefix []) l = l.
Proof. induction l as [|x l IH]; [reflexivity|]. cbn [filter is_prefix]. f_equal. exact IH. Qed.

(* ---------- the list model, cut where the generic model is cut ---------- *)
Lemma kq_load_cut q d p :
  kq_load q d p = if negb (c_empty (k_cache p)) || k_all p then p else kq_loaded q (db_scan (k_prefix p) d) p.
Proof. reflexivity. Qed.
Lemma kq_push_cut q v d p : kq_push q v d p = (kq_push_cache q v (kq_load q d p), db_put v d).
Proof. reflexivity. Qed.
Lemma kq_delete_cut q v d p : kq_delete q v d p = (kq_delete_cache v (kq_load q d p), db_delete v d).
Proof. reflexivity. Qed.

Section Sim.
Variable K : StateStore.KV.
Variable contents : StateStore.kv_st K -> StateStore.kvlist.
Hypothesis Hput : forall k v s, contents (StateStore.kv_put K k v s) = StateStore.sm_put k v (contents s).
Hypothesis Hdel : forall k s, contents (StateStore.kv_del K k s) = StateStore.sm_del k (contents s).
Hypothesis Hscan : forall p s, fst (StateStore.kv_scan K p s) = Some (StateStore.sm_scan p (contents s)) /\
                               contents (snd (StateStore.kv_scan K p s)) = contents s.
Hypothesis Hrestore : forall cur s, contents (StateStore.kv_restore K cur s) = contents s.

Definition keys (s : StateStore.kv_st K) : db := map fst (contents s).

Lemma scan_keys_sim p s : fst (scan_keys K p s) = db_scan p (keys s) /\ keys (snd (scan_keys K p s)) = keys s.
Proof.
  unfold scan_keys, keys. destruct (Hscan p s) as [E1 E2].
  destruct (StateStore.kv_scan K p s) as [o s'] eqn:E. cbn [fst snd] in *. subst o. rewrite E2. split; [apply keys_sm_scan|reflexivity].
Qed.

Lemma kq_load_sim q s p : fst (kq_load_kv K q s p) = kq_load q (keys s) p /\ keys (snd (kq_load_kv K q s p)) = keys s.
Proof.
  unfold kq_load_kv. rewrite kq_load_cut. destruct (negb (c_empty (k_cache p)) || k_all p); [split; reflexivity|].
  destruct (scan_keys_sim (k_prefix p) s) as [E1 E2]. destruct (scan_keys K (k_prefix p) s) as [es s']. cbn [fst snd] in *.
  subst es. split; [reflexivity|exact E2].
Qed.

Lemma kq_push_sim q v s p :
  fst (kq_push_kv K q v s p) = fst (kq_push q v (keys s) p) /\ keys (snd (kq_push_kv K q v s p)) = snd (kq_push q v (keys s) p).
Proof.
  unfold kq_push_kv. rewrite kq_push_cut. destruct (kq_load_sim q s p) as [E1 E2].
  destruct (kq_load_kv K q s p) as [p1 s1]. cbn [fst snd] in *. subst p1. split; [reflexivity|].
  unfold keys in *. rewrite Hput, keys_sm_put, E2. reflexivity.
Qed.

Lemma kq_delete_sim q v s p :
  fst (kq_delete_kv K q v s p) = fst (kq_delete q v (keys s) p) /\ keys (snd (kq_delete_kv K q v s p)) = snd (kq_delete q v (keys s) p).
Proof.
  unfold kq_delete_kv. rewrite kq_delete_cut. destruct (kq_load_sim q s p) as [E1 E2].
  destruct (kq_load_kv K q s p) as [p1 s1]. cbn [fst snd] in *. subst p1. split; [reflexivity|].
  unfold keys in *. rewrite Hdel, keys_sm_del, E2. reflexivity.
Qed.

Lemma load_all_sim q ps : forall s,
  fst (load_all K q ps s) = map (kq_load q (keys s)) ps /\ keys (snd (load_all K q ps s)) = keys s.
Proof.
  induction ps as [|p r IH]; intros s; cbn [load_all map]; [split; reflexivity|].
  destruct (kq_load_sim q s p) as [E1 E2]. destruct (kq_load_kv K q s p) as [p' s1]. cbn [fst snd] in *.
  destruct (IH s1) as [F1 F2]. destruct (load_all K q r s1) as [r' s2]. cbn [fst snd] in *.
  subst p' r'. rewrite E2 in *. split; [reflexivity|exact F2].
Qed.

Lemma ts_peek_sim q s t :
  fst (ts_peek_kv K q s t) = ts_peek q (keys s) t /\ keys (snd (ts_peek_kv K q s t)) = keys s.
Proof.
  unfold ts_peek_kv, ts_peek. destruct (load_all_sim q (ts_parts t) s) as [E1 E2].
  destruct (load_all K q (ts_parts t) s) as [ps s']. cbn [fst snd] in *. subst ps. split; [reflexivity|exact E2].
Qed.

Lemma ts_push_sim q k s t :
  fst (ts_push_kv K q k s t) = fst (ts_push q k (keys s) t) /\ keys (snd (ts_push_kv K q k s t)) = snd (ts_push q k (keys s) t).
Proof.
  unfold ts_push_kv, ts_push. destruct (part_index t k) as [i|]; [|split; reflexivity].
  destruct (nth_error (ts_parts t) i) as [p|]; [|split; reflexivity].
  destruct (kq_push_sim q k s p) as [E1 E2]. destruct (kq_push_kv K q k s p) as [p' s']. destruct (kq_push q k (keys s) p) as [p2 d2].
  cbn [fst snd] in *. subst p' d2. split; reflexivity.
Qed.

Lemma ts_delete_sim q k s t :
  fst (ts_delete_kv K q k s t) = fst (ts_delete q k (keys s) t) /\ keys (snd (ts_delete_kv K q k s t)) = snd (ts_delete q k (keys s) t).
Proof.
  unfold ts_delete_kv, ts_delete. destruct (part_index t k) as [i|]; [|split; reflexivity].
  destruct (nth_error (ts_parts t) i) as [p|]; [|split; reflexivity].
  destruct (kq_delete_sim q k s p) as [E1 E2]. destruct (kq_delete_kv K q k s p) as [p' s']. destruct (kq_delete q k (keys s) p) as [p2 d2].
  cbn [fst snd] in *. subst p' d2. split; reflexivity.
Qed.

Lemma store_set_sim q kgf wm key t ts s :
  fst (store_set_kv K q kgf wm key t ts s) = fst (store_set q kgf wm key t ts (keys s)) /\
  keys (snd (store_set_kv K q kgf wm key t ts s)) = snd (store_set q kgf wm key t ts (keys s)).
Proof.
  unfold store_set_kv, store_set. destruct (negb (wm <? t)%Z); [split; reflexivity|]. apply ts_push_sim.
Qed.

Lemma during_sets_sim q kgf wm n during : forall ts s,
  fst (during_sets_kv K q kgf wm n during ts s) = fst (during_sets q kgf wm n during ts (keys s)) /\
  keys (snd (during_sets_kv K q kgf wm n during ts s)) = snd (during_sets q kgf wm n during ts (keys s)).
Proof.
  unfold during_sets_kv, during_sets. induction during as [|[[a k] t] r IH]; intros ts s; cbn [fold_left]; [split; reflexivity|].
  cbn [fst snd]. destruct (Nat.eqb a n).
  - destruct (store_set_sim q kgf wm k t ts s) as [E1 E2].
    destruct (store_set_kv K q kgf wm k t ts s) as [ts1 s1]. destruct (store_set q kgf wm k t ts (keys s)) as [ts2 d2].
    cbn [fst snd] in *. subst ts1 d2. apply IH.
  - apply IH.
Qed.

Lemma fire_sim q kgf fuel : forall wm n during ts s acc,
  fst (fire_kv K q kgf fuel wm n during ts s acc) = fst (fire q kgf fuel wm n during ts (keys s) acc) /\
  keys (snd (fire_kv K q kgf fuel wm n during ts s acc)) = snd (fire q kgf fuel wm n during ts (keys s) acc).
Proof.
  induction fuel as [|f IH]; intros wm n during ts s acc; cbn [fire_kv fire]; [split; reflexivity|].
  destruct (ts_peek_sim q s ts) as [E1 E2].
  destruct (ts_peek_kv K q s ts) as [[o ts1] s1]. destruct (ts_peek q (keys s) ts) as [o' ts1'].
  cbn [fst snd] in *. inversion E1; subst o' ts1'. clear E1.
  destruct o as [k|]; [|split; [reflexivity|exact E2]].
  destruct (wm <? key_time k)%Z; [split; [reflexivity|exact E2]|].
  rewrite <- E2.
  destruct (ts_delete_sim q k s1 ts1) as [F1 F2].
  destruct (ts_delete_kv K q k s1 ts1) as [ts2 s2]. destruct (ts_delete q k (keys s1) ts1) as [ts2' d2].
  cbn [fst snd] in *. subst ts2' d2.
  destruct (during_sets_sim q kgf wm (S n) during ts2 s2) as [G1 G2].
  destruct (during_sets_kv K q kgf wm (S n) during ts2 s2) as [ts3 s3]. destruct (during_sets q kgf wm (S n) during ts2 (keys s2)) as [ts3' d3].
  cbn [fst snd] in *. subst ts3' d3. apply IH.
Qed.

(* the systems: same registry, the DKV's keys are the list model's db *)
Definition sys_of (st : sys_kv K) : sys := (fst st, keys (snd st)).

Lemma set_timer_sim q kgf key t st : sys_of (set_timer_kv K q kgf key t st) = set_timer q kgf key t (sys_of st).
Proof.
  destruct st as [r s]. unfold set_timer_kv, set_timer, sys_of. cbn [fst snd].
  destruct (store_set_sim q kgf (r_wm r) key t (r_store r) s) as [E1 E2].
  destruct (store_set_kv K q kgf (r_wm r) key t (r_store r) s) as [ts1 s1]. destruct (store_set q kgf (r_wm r) key t (r_store r) (keys s)) as [ts2 d2].
  cbn [fst snd] in *. subst ts1 d2. reflexivity.
Qed.

Lemma advance_sim q kgf stop sender wm during st :
  fst (advance_kv K q kgf stop sender wm during st) = fst (advance q kgf stop sender wm during (sys_of st)) /\
  sys_of (snd (advance_kv K q kgf stop sender wm during st)) = snd (advance q kgf stop sender wm during (sys_of st)).
Proof.
  destruct st as [r s]. unfold advance_kv, advance, sys_of. cbn [fst snd].
  destruct (scan_keys_sim [] s) as [A1 A2]. destruct (scan_keys K [] s) as [all s0]. cbn [fst snd] in *.
  unfold db_scan in A1. rewrite filter_all_true in A1. subst all. rewrite <- A2.
  set (fuel := match stop with None => S (length (keys s0) + length during) | Some k => k end).
  destruct (fire_sim q kgf fuel (ups_min (ups_set sender wm (r_ups r))) 0 during (r_store r) s0 []) as [E1 E2].
  destruct (fire_kv K q kgf fuel (ups_min (ups_set sender wm (r_ups r))) 0 during (r_store r) s0 []) as [[out ts'] s'].
  destruct (fire q kgf fuel (ups_min (ups_set sender wm (r_ups r))) 0 during (r_store r) (keys s0) []) as [[out2 ts2] d2].
  cbn [fst snd] in *. inversion E1; subst out2 ts2 d2. split; reflexivity.
Qed.

Lemma step_sim c o st :
  fst (step_kv K c o st) = fst (step c o (sys_of st)) /\ sys_of (snd (step_kv K c o st)) = snd (step c o (sys_of st)).
Proof.
  destruct o as [k t|sender wm|sender wm during|sender wm k during|]; cbn [step_kv step].
  - split; [reflexivity|]. apply set_timer_sim.
  - destruct (advance_sim (cf_q c) (cf_kgf c) None sender wm [] st) as [E1 E2].
    destruct (advance_kv K (cf_q c) (cf_kgf c) None sender wm [] st) as [o1 s1]. destruct (advance (cf_q c) (cf_kgf c) None sender wm [] (sys_of st)) as [o2 s2].
    cbn [fst snd] in *. subst. split; reflexivity.
  - destruct (advance_sim (cf_q c) (cf_kgf c) None sender wm during st) as [E1 E2].
    destruct (advance_kv K (cf_q c) (cf_kgf c) None sender wm during st) as [o1 s1]. destruct (advance (cf_q c) (cf_kgf c) None sender wm during (sys_of st)) as [o2 s2].
    cbn [fst snd] in *. subst. split; reflexivity.
  - destruct (advance_sim (cf_q c) (cf_kgf c) (Some k) sender wm during st) as [E1 E2].
    destruct (advance_kv K (cf_q c) (cf_kgf c) (Some k) sender wm during st) as [o1 s1]. destruct (advance (cf_q c) (cf_kgf c) (Some k) sender wm during (sys_of st)) as [o2 s2].
    cbn [fst snd] in *. subst. split; reflexivity.
  - split; [reflexivity|]. unfold sys_of, sys_new_kv, sys_new, keys. cbn [fst snd]. rewrite Hrestore. reflexivity.
Qed.

Lemma run_sim c ops : forall st,
  fst (run_kv K c ops st) = fst (run c ops (sys_of st)) /\ sys_of (snd (run_kv K c ops st)) = snd (run c ops (sys_of st)).
Proof.
  induction ops as [|o r IH]; intros st; cbn [run_kv run]; [split; reflexivity|].
  destruct (step_sim c o st) as [E1 E2].
  destruct (step_kv K c o st) as [out st1]. destruct (step c o (sys_of st)) as [out' st1']. cbn [fst snd] in *. subst out' st1'.
  destruct (IH st1) as [F1 F2].
  destruct (run_kv K c r st1) as [outs st2]. destruct (run c r (sys_of st1)) as [outs' st2']. cbn [fst snd] in *. subst outs' st2'.
  split; reflexivity.
Qed.

(* the theorem of the list model, over every DKV that refines the sorted map and starts empty *)
Theorem refinement_over_kv kgf start size cache srids ops s0 :
  start + size <= 65536 -> contents s0 = [] ->
  Forall (op_okc kgf start size) ops ->
  let c := cfg kgf start size cache srids in
  let res := run_kv K c ops (sys_new_kv K c s0) in
  Forall2 out_ok (fst res) (fst (spec_run srids ops (fst res) (spec_new srids []))) /\
  Permutation (keys (snd (snd res))) (map (enc kgf) (sp_pending (snd (spec_run srids ops (fst res) (spec_new srids []))))) /\
  cache_inv (fst (snd res), keys (snd (snd res))).
Proof.
  intros Hr H0 Hok c res.
  destruct (run_sim c ops (sys_new_kv K c s0)) as [E1 E2]. fold res in E1, E2.
  assert (Hinit : sys_of (sys_new_kv K c s0) = sys_new c []).
  { unfold sys_of, sys_new_kv, sys_new, keys. cbn [fst snd]. rewrite H0. reflexivity. }
  rewrite Hinit in E1, E2.
  pose proof (refinement kgf start size cache srids Hr ops Hok) as R. cbn zeta in R. fold c in R.
  rewrite <- E1 in R. rewrite <- E2 in R. unfold sys_of in R. cbn [fst snd] in R. exact R.
Qed.
End Sim.

(* ---------- the instance: the LSM model of C07 under any schedule of flushes and compactions ---------- *)
Section Lsm.
Variable lcfg : Lsm.dbcfg.
Hypothesis Hcfg : C07_Refine.cfg_ok lcfg.
Variable reopen : Lsm.db -> Lsm.db.
Hypothesis Hreopen : forall st, C03_OverLsm.good st -> C03_OverLsm.good (reopen st) /\ C07_Refine.absm (reopen st) = C07_Refine.absm st.

Definition lsmK : StateStore.KV := C03_OverLsm.lsm_kv lcfg Hcfg reopen Hreopen.
Definition lsm_keys (s : StateStore.kv_st lsmK) : list bytes := map fst (C03_OverLsm.lsm_contents s).

Theorem timers_over_lsm kgf start size cache srids ops (sc : StateStoreLsm.schedule) :
  start + size <= 65536 ->
  Forall (op_okc kgf start size) ops ->
  let c := cfg kgf start size cache srids in
  let res := run_kv lsmK c ops (sys_new_kv lsmK c (C03_OverLsm.lsm_init lcfg Hcfg sc)) in
  Forall2 out_ok (fst res) (fst (spec_run srids ops (fst res) (spec_new srids []))) /\
  Permutation (lsm_keys (snd (snd res))) (map (enc kgf) (sp_pending (snd (spec_run srids ops (fst res) (spec_new srids []))))) /\
  cache_inv (fst (snd res), lsm_keys (snd (snd res))).
Proof.
  intros Hr Hok.
  destruct (C03_OverLsm.lsm_refines_sorted_map lcfg Hcfg reopen Hreopen) as (Hp & Hd & Hs & Hre).
  apply (refinement_over_kv lsmK C03_OverLsm.lsm_contents Hp Hd Hs Hre); auto.
  unfold C03_OverLsm.lsm_contents, C03_OverLsm.lsm_init. cbn. apply C07_Refine.absm_init. exact Hcfg.
Qed.
End Lsm.
