(* C10: computed witnesses.  Each repaired defect (quirk) and the pre-1970 wrap-around refute the specification on the
   faithful model; the same histories are corpus cases of the engine `timers` (corpus/timers/). *)
From RV Require Import Base.Bytes Model.TimerStore Model.TimerRegistry Proofs.C10_Spec.
Open Scope N_scope.

Definition one_group (q : quirks) (cache : N) : config :=
  {| cf_q := q; cf_kgf := fun _ => 0; cf_start := 0; cf_size := 1; cf_cache := cache; cf_srids := [0] |}.
Definition model_out (q : quirks) (cache : N) (ops : list op) := fst (run (one_group q cache) ops (sys_new (one_group q cache) [])).
Definition spec_out (ops : list op) := map fst (fst (spec_run [0] ops [] (spec_new [0] []))).

Definition k1 : bytes := [107].
Definition maxt : Z := (2 ^ 63 - 1)%Z.

(* D12: 8 timers, 40-byte cache: 1..7 fire, 8 never *)
Definition h_D12 : list op := map (fun i => SetTimer k1 (Z.of_nat i)) (seq 1 8) ++ [Advance 0 100%Z; Advance 0 maxt].
(* D13: timers 10..50, 40-byte cache; advance 10; set 60; advance 45 fires 20,30 only; then 60,40,50 *)
Definition h_D13 : list op :=
  map (fun t => SetTimer k1 t) [10; 20; 30; 40; 50]%Z ++ [Advance 0 10%Z; SetTimer k1 60%Z; Advance 0 45%Z; Advance 0 maxt].
(* pre-1970 (the watermark first goes back to -10 ns, else the guard ignores the timer): the timer at -5 ns is encoded as
   2^64-5 and sorts after the one at +5 ns: nothing fires at watermark 0 *)
Definition h_pre_epoch : list op := [Advance 0 (-10)%Z; SetTimer k1 (-5)%Z; SetTimer k1 5%Z; Advance 0 0%Z; Advance 0 maxt].

Lemma D12_witness :
  model_out quirks_D12 40 h_D12 = [map (fun i => (k1, Z.of_nat i)) (seq 1 7); []] /\
  spec_out h_D12 = [rev (map (fun i => (k1, Z.of_nat i)) (seq 1 8)); []] /\
  model_out quirks_now 40 h_D12 = [map (fun i => (k1, Z.of_nat i)) (seq 1 8); []].
Proof. vm_compute. repeat split. Qed.

Lemma D13_witness :
  model_out quirks_D13 40 h_D13 = [[(k1, 10%Z)]; [(k1, 20%Z); (k1, 30%Z)]; [(k1, 60%Z); (k1, 40%Z); (k1, 50%Z)]] /\
  spec_out h_D13 = [[(k1, 10%Z)]; [(k1, 40%Z); (k1, 30%Z); (k1, 20%Z)]; [(k1, 60%Z); (k1, 50%Z)]] /\
  model_out quirks_now 40 h_D13 = [[(k1, 10%Z)]; [(k1, 20%Z); (k1, 30%Z); (k1, 40%Z)]; [(k1, 50%Z); (k1, 60%Z)]].
Proof. vm_compute. repeat split. Qed.

Lemma pre_epoch_witness :
  forallb op_ok h_pre_epoch = false /\
  model_out quirks_now 1000 h_pre_epoch = [[]; []; [(k1, 5%Z); (k1, (-5)%Z)]] /\
  spec_out h_pre_epoch = [[]; [(k1, (-5)%Z)]; [(k1, 5%Z)]].
Proof. vm_compute. repeat split. Qed.

(* a consumer that stops after two of four due timers (seeded bug C10r2-1 = yield before delete: the second one would be
   handed out again): the current code hands out 10, 20, then 30, 40 *)
Definition h_partial : list op :=
  map (fun t => SetTimer k1 t) [10; 20; 30; 40]%Z ++ [AdvancePartial 0 100%Z 2 []; Advance 0 100%Z; Restore; Advance 0 maxt].
Lemma partial_witness :
  model_out quirks_now 40 h_partial = [[(k1, 10%Z); (k1, 20%Z)]; [(k1, 30%Z); (k1, 40%Z)]; []].
Proof. vm_compute. reflexivity. Qed.
