(* C12: acknowledgements that name another id, come from a node outside the assembly or from a node that has
   already acknowledged change nothing; explicit statements about ids and about "one checkpoint in progress";
   witnesses for the defect D15 and for the stronger reading of "ids grow across restarts". *)
From RV Require Import Base.Mach Model.SnapStore Proofs.C12_SnapStore.
From Coq Require Import ZifyN ZifyNat ZifyBool.
Open Scope N_scope.

Definition bad_ack (w : world) (a : action) : Prop :=
  match a with
  | AAckOp cid op _ =>
      match pend (w_store w) with
      | None => True
      | Some p => p_id p <> cid \/ flag_of op (p_ops p) <> Some false
      end
  | AAckSr cid sr _ =>
      match pend (w_store w) with
      | None => True
      | Some p => p_id p <> cid \/ flag_of sr (p_srs p) <> Some false
      end
  | _ => False
  end.

Definition empty_assembly (w : world) : Prop :=
  exists p, pend (w_store w) = Some p /\ p_ops p = [] /\ p_srs p = [].

(* a pending snapshot is never complete (completion publishes and clears it), unless its assembly is empty *)
Definition Incomplete (w : world) : Prop :=
  match pend (w_store w) with
  | Some p => is_complete p = false \/ (p_ops p = [] /\ p_srs p = [])
  | None => True
  end.

Lemma mk_flags_nil l : mk_flags l = [] -> l = [].
Proof.
  unfold mk_flags. destruct l as [|x l]; [reflexivity|]. intros H. exfalso.
  assert (Hin : In x (nodup N.eq_dec (x :: l))) by (apply nodup_In; left; reflexivity).
  destruct (nodup N.eq_dec (x :: l)); [exact Hin|discriminate].
Qed.

Lemma all_set_mk_flags l : all_set (mk_flags l) = true -> mk_flags l = [].
Proof.
  unfold mk_flags, all_set. destruct (nodup N.eq_dec l); [reflexivity|]. cbn. discriminate.
Qed.

Lemma new_pending_incomplete id ops srs sp :
  is_complete (new_pending id ops srs sp) = false \/
  (p_ops (new_pending id ops srs sp) = [] /\ p_srs (new_pending id ops srs sp) = []).
Proof.
  unfold is_complete, new_pending. cbn [p_ops p_srs].
  destruct (all_set (mk_flags srs)) eqn:E1; [|left; reflexivity].
  destruct (all_set (mk_flags ops)) eqn:E2; [|left; reflexivity].
  right. split; apply all_set_mk_flags; assumption.
Qed.

Lemma finish_incomplete w p : Incomplete (fst (finish_if_complete w p)).
Proof.
  unfold finish_if_complete. destruct (is_complete p) eqn:E.
  - destruct (w_failw w); [cbn [fst]; unfold Incomplete, fail_publish; cbn [w_store pend]; exact I|].
    unfold publish. cbn [fst]. unfold Incomplete. cbn [w_store pend]. exact I.
  - cbn [fst]. unfold Incomplete, with_pending. cbn [w_store pend]. left. exact E.
Qed.

Lemma step_incomplete q w a : Incomplete w -> Incomplete (fst (step q w a)).
Proof.
  intros H. unfold step.
  destruct a as [ops srs|ops srs|cid op pl|cid sr sts| |b|rid| |].
  - destruct (pend (w_store w)) eqn:Ep; cbn [fst]; [exact H|].
    unfold Incomplete. cbn [w_store pend]. apply new_pending_incomplete.
  - destruct (pend (w_store w)) as [p|] eqn:Ep.
    + destruct (p_sp p); cbn [fst]; [exact H|].
      unfold Incomplete in *. rewrite Ep in H. unfold with_pending. cbn [w_store pend]. exact H.
    + cbn [fst]. unfold Incomplete. cbn [w_store pend]. apply new_pending_incomplete.
  - destruct (pend (w_store w)) as [p|] eqn:Ep; [|exact H].
    destruct (negb (p_id p =? cid)); [exact H|]. apply finish_incomplete.
  - destruct (pend (w_store w)) as [p|] eqn:Ep; [|exact H].
    destruct (negb (p_id p =? cid)); [exact H|].
    destruct (add_sr q p sr sts); [apply finish_incomplete|exact H].
  - cbn [fst]. unfold Incomplete, load_store. destruct (max_snap None (w_files w)); cbn [w_store pend]; exact I.
  - cbn [fst]. exact H.
  - destruct (find_snap rid (w_sps w)); cbn [fst]; unfold Incomplete; cbn [w_store pend new_store]; exact I.
  - cbn [fst]. unfold Incomplete, with_pending. cbn [w_store pend]. exact I.
  - cbn [fst]. exact H.
Qed.

Lemma final_incomplete q acts : forall w, Incomplete w -> Incomplete (final q w acts).
Proof.
  induction acts as [|a acts IH]; intros w H; [exact H|].
  cbn [final]. apply IH. apply step_incomplete. exact H.
Qed.

Lemma with_pending_same w : with_pending w (pend (w_store w)) = w.
Proof. destruct w as [[c p k] f b sp fw]. reflexivity. Qed.

Theorem bad_acks_inert_lemma acts a :
  let w := final repaired init acts in
  bad_ack w a ->
  (fst (step repaired w a) = w /\ exists e, snd (step repaired w a) = RAck e None) \/ empty_assembly w.
Proof.
  intros w Hbad.
  assert (Hinc : Incomplete w) by (apply final_incomplete; exact I).
  unfold Incomplete in Hinc. unfold bad_ack in Hbad.
  destruct a as [ops srs|ops srs|cid op pl|cid sr sts| |b|rid| |]; try contradiction; unfold step.
  - destruct (pend (w_store w)) as [p|] eqn:Ep.
    + destruct (N.eqb_spec (p_id p) cid) as [E|E]; cbn [negb].
      * destruct Hbad as [Hb|Hb]; [contradiction|].
        assert (Eadd : add_op p (op, cid, pl) = p).
        { unfold add_op. cbn [fst]. destruct (flag_of op (p_ops p)) as [[|]|]; try reflexivity. congruence. }
        rewrite Eadd. destruct Hinc as [Hc|Hc].
        -- left. unfold finish_if_complete. rewrite Hc. cbn [fst snd]. rewrite <- Ep, with_pending_same.
           split; [reflexivity|]. exists false. reflexivity.
        -- right. exists p. split; [exact Ep|exact Hc].
      * left. cbn [fst snd]. split; [reflexivity|]. exists true. reflexivity.
    + left. cbn [fst snd]. split; [reflexivity|]. exists true. reflexivity.
  - destruct (pend (w_store w)) as [p|] eqn:Ep.
    + destruct (N.eqb_spec (p_id p) cid) as [E|E]; cbn [negb].
      * destruct Hbad as [Hb|Hb]; [contradiction|].
        assert (Eadd : add_sr repaired p sr sts = None).
        { unfold add_sr. cbn [dup_sr_ack_appends repaired]. destruct (flag_of sr (p_srs p)) as [[|]|]; try reflexivity. congruence. }
        rewrite Eadd. left. cbn [fst snd]. split; [reflexivity|]. exists true. reflexivity.
      * left. cbn [fst snd]. split; [reflexivity|]. exists true. reflexivity.
    + left. cbn [fst snd]. split; [reflexivity|]. exists true. reflexivity.
Qed.

(* ---- one checkpoint in progress: a creation while one is pending is refused and changes nothing ---- *)
Theorem create_while_pending_refused q w ops srs p :
  pend (w_store w) = Some p ->
  step q w (ACreate ops srs) = (w, RCreate true 0) /\
  (fst (step q w (ASavepoint ops srs)) = w \/
   exists p', pend (w_store (fst (step q w (ASavepoint ops srs)))) = Some p' /\ p_id p' = p_id p /\
              p_ops p' = p_ops p /\ p_srs p' = p_srs p /\ p_entries p' = p_entries p /\ p_splits p' = p_splits p).
Proof.
  intros Ep. unfold step. rewrite Ep. split; [reflexivity|].
  destruct (p_sp p); [left; reflexivity|]. right. cbn [fst with_pending w_store pend].
  eexists. split; [reflexivity|]. cbn. repeat split.
Qed.

(* ---- ids handed out within one store lifetime increase strictly ---- *)
Definition handed (r : result) : option N :=
  match r with
  | RCreate false id => Some id
  | RSavepoint false id true => Some id
  | _ => None
  end.
Fixpoint handed_ids (rs : list result) : list N :=
  match rs with
  | [] => []
  | r :: rs' => match handed r with Some i => i :: handed_ids rs' | None => handed_ids rs' end
  end.
Definition is_restart (a : action) : Prop := match a with ARestart | ARestartFrom _ => True | _ => False end.
Definition no_restart (acts : list action) : Prop := Forall (fun a => ~ is_restart a) acts.
Fixpoint increasing_from (b : N) (l : list N) : Prop :=
  match l with [] => True | x :: l' => b < x /\ increasing_from x l' end.

Lemma increasing_from_weaken b b' l : b' <= b -> increasing_from b l -> increasing_from b' l.
Proof. destruct l as [|x l]; cbn; [tauto|]. intros H [H1 H2]. split; [lia|exact H2]. Qed.

Lemma step_counter q w a : ~ is_restart a ->
  ckpt_id (w_store w) <= ckpt_id (w_store (fst (step q w a))) /\
  (forall i, handed (snd (step q w a)) = Some i ->
     i = ckpt_id (w_store w) + 1 /\ ckpt_id (w_store (fst (step q w a))) = i).
Proof.
  intros Ha. unfold step.
  destruct a as [ops srs|ops srs|cid op pl|cid sr sts| |b|rid| |]; [| | | |exfalso; apply Ha; exact I|cbn [fst snd w_store ckpt_id handed]; split; [lia|discriminate]|exfalso; apply Ha; exact I|cbn [fst snd w_store ckpt_id handed with_pending]; split; [lia|discriminate]|cbn [fst snd w_store ckpt_id handed]; split; [lia|discriminate]].
  - destruct (pend (w_store w)); cbn [fst snd w_store ckpt_id handed].
    + split; [lia|discriminate].
    + split; [lia|]. intros i E. inversion E. split; reflexivity.
  - destruct (pend (w_store w)) as [p|].
    + destruct (p_sp p); cbn [fst snd w_store ckpt_id handed with_pending]; (split; [lia|discriminate]).
    + cbn [fst snd w_store ckpt_id handed]. split; [lia|]. intros i E. inversion E. split; reflexivity.
  - destruct (pend (w_store w)) as [p|]; [|cbn [fst snd handed]; split; [lia|discriminate]].
    destruct (negb (p_id p =? cid)); [cbn [fst snd handed]; split; [lia|discriminate]|].
    unfold finish_if_complete. destruct (is_complete _).
    + destruct (w_failw w); [cbn [fst snd w_store ckpt_id handed fail_publish]; split; [lia|discriminate]|].
      unfold publish. cbn [fst snd w_store ckpt_id handed]. split; [lia|discriminate].
    + cbn [fst snd w_store ckpt_id handed with_pending]. split; [lia|discriminate].
  - destruct (pend (w_store w)) as [p|]; [|cbn [fst snd handed]; split; [lia|discriminate]].
    destruct (negb (p_id p =? cid)); [cbn [fst snd handed]; split; [lia|discriminate]|].
    destruct (add_sr q p sr sts); [|cbn [fst snd handed]; split; [lia|discriminate]].
    unfold finish_if_complete. destruct (is_complete _).
    + destruct (w_failw w); [cbn [fst snd w_store ckpt_id handed fail_publish]; split; [lia|discriminate]|].
      unfold publish. cbn [fst snd w_store ckpt_id handed]. split; [lia|discriminate].
    + cbn [fst snd w_store ckpt_id handed with_pending]. split; [lia|discriminate].
Qed.

Theorem ids_increase_in_lifetime q acts : forall w, no_restart acts ->
  increasing_from (ckpt_id (w_store w)) (handed_ids (run q w acts)).
Proof.
  induction acts as [|a acts IH]; intros w Hnr; [exact I|].
  inversion Hnr as [|? ? Ha Hnr']; subst.
  cbn [run]. destruct (step_counter q w a Ha) as [Hle Hh].
  destruct (step q w a) as [w' r] eqn:Es. cbn [fst snd] in *.
  cbn [handed_ids]. destruct (handed r) as [i|] eqn:Ei.
  - destruct (Hh i eq_refl) as [E1 E2]. cbn [increasing_from]. split; [lia|].
    rewrite <- E2. apply IH. exact Hnr'.
  - apply (increasing_from_weaken (ckpt_id (w_store w'))); [exact Hle|]. apply IH. exact Hnr'.
Qed.

(* ---- witnesses ---- *)
(* D15: with the old addSourceRunnerSnapshot a repeated source-runner ack ends up twice in the published snapshot *)
Lemma d15_witness :
  In 11 (mon_run mon_init (trace before_d15 [ACreate [1] [1]; AAckSr 1 1 [5]; AAckSr 1 1 [6]; AAckOp 1 1 1])).
Proof. vm_compute. left. reflexivity. Qed.

(* the stronger reading "no id is ever handed out twice, also across restarts" is false: an id handed out
   but never published leaves nothing durable, the restarted store hands it out again *)
Lemma handed_out_twice :
  handed_ids (run repaired init [ACreate [1] [1]; ARestart; ACreate [1] [1]]) = [1; 1].
Proof. vm_compute. reflexivity. Qed.

(* an empty assembly is completed by any ack that names its id (isComplete of two empty maps) *)
Lemma empty_assembly_witness :
  exists pub, run repaired init [ACreate [] []; AAckOp 1 7 0] = [RCreate false 1; RAck false (Some pub)].
Proof. eexists. vm_compute. reflexivity. Qed.

(* a failed write of the snapshot file: the completing ack publishes nothing - no file, no removal, no notification,
   no savepoint artifact, the current checkpoint unchanged; only the pending snapshot is gone *)
Theorem failed_write_inert_lemma w p :
  is_complete p = true -> w_failw w = true ->
  let (w', r) := finish_if_complete w p in
  r = RAckFailed false [] [] (cur_of w) /\
  w_files w' = w_files w /\ completed (w_store w') = completed (w_store w) /\ w_sps w' = w_sps w /\
  ckpt_id (w_store w') = ckpt_id (w_store w) /\ pend (w_store w') = None.
Proof.
  intros Hc Hf. unfold finish_if_complete. rewrite Hc, Hf. cbn. repeat split.
Qed.
