(* C19: proofs about the binary-heap model (Model/Heap.v).
   Permutation / length facts for push, pop, fix_; root minimality; heap order preserved by
   push (sift-up), pop (sift-down) and restored by fix_ after an arbitrary update at one position. *)
From Coq Require Import List Arith Bool Lia Permutation.
From RV Require Import Model.Heap.
Import ListNotations.

Local Arguments Nat.mul : simpl never.
Local Arguments Nat.div2 : simpl never.

Section HeapProofs.
  Context {A : Type} (lt : A -> A -> bool).

  (* ------------------------------------------------------------------ *)
  (* small library: upd / swap                                           *)
  (* ------------------------------------------------------------------ *)

  Lemma upd_length : forall i (v : A) l, length (upd i v l) = length l.
  Proof.
    intros i v l; revert i.
    induction l as [|x r IH]; intros [|i]; simpl; auto.
  Qed.

  Lemma nth_error_upd_eq : forall l i (v : A),
      i < length l -> nth_error (upd i v l) i = Some v.
  Proof.
    induction l as [|x r IH]; intros [|i] v H; simpl in *; try lia; auto.
    apply IH; lia.
  Qed.

  Lemma nth_error_upd_neq : forall l i j (v : A),
      i <> j -> nth_error (upd i v l) j = nth_error l j.
  Proof.
    induction l as [|x r IH]; intros [|i] [|j] v H; simpl; auto; try lia;
      try (apply IH; lia).
  Qed.

  Lemma swap_length : forall i j (l : list A), length (swap i j l) = length l.
  Proof.
    intros i j l; unfold swap.
    destruct (nth_error l i); [|reflexivity].
    destruct (nth_error l j); [|reflexivity].
    rewrite !upd_length; reflexivity.
  Qed.

  Lemma nth_error_swap : forall (l : list A) i j a b k,
      nth_error l i = Some a -> nth_error l j = Some b ->
      nth_error (swap i j l) k =
        if k =? j then Some a else if k =? i then Some b else nth_error l k.
  Proof.
    intros l i j a b k Hi Hj.
    assert (Hil : i < length l) by (apply nth_error_Some; congruence).
    assert (Hjl : j < length l) by (apply nth_error_Some; congruence).
    unfold swap; rewrite Hi, Hj.
    destruct (Nat.eqb_spec k j) as [Ekj|Nkj].
    - subst k. apply nth_error_upd_eq. rewrite upd_length; exact Hjl.
    - rewrite nth_error_upd_neq by (intro E; apply Nkj; symmetry; exact E).
      destruct (Nat.eqb_spec k i) as [Eki|Nki].
      + subst k. apply nth_error_upd_eq; exact Hil.
      + apply nth_error_upd_neq. intro E; apply Nki; symmetry; exact E.
  Qed.

  Lemma swap_perm : forall i j (l : list A), Permutation (swap i j l) l.
  Proof.
    intros i j l.
    destruct (nth_error l i) as [a|] eqn:Hi;
      [|unfold swap; rewrite Hi; apply Permutation_refl].
    destruct (nth_error l j) as [b|] eqn:Hj;
      [|unfold swap; rewrite Hi, Hj; apply Permutation_refl].
    apply Permutation_nth_error. split; [apply swap_length|].
    exists (fun n => if n =? i then j else if n =? j then i else n).
    split.
    - intros x y.
      destruct (Nat.eqb_spec x i), (Nat.eqb_spec x j),
               (Nat.eqb_spec y i), (Nat.eqb_spec y j); lia.
    - intro n.
      rewrite (nth_error_swap l i j a b _ Hi Hj).
      destruct (Nat.eqb_spec n i) as [Eni|Nni].
      + subst n. rewrite Nat.eqb_refl. exact Hi.
      + destruct (Nat.eqb_spec n j) as [Enj|Nnj].
        * subst n. destruct (Nat.eqb_spec i j) as [Eij|Nij]; [lia|].
          rewrite Nat.eqb_refl. exact Hj.
        * destruct (Nat.eqb_spec n j); [lia|].
          destruct (Nat.eqb_spec n i); [lia|]. reflexivity.
  Qed.

  (* ------------------------------------------------------------------ *)
  (* unfolding equations for the two loops                               *)
  (* ------------------------------------------------------------------ *)

  Lemma down_loop_S : forall f (l : list A) i,
      down_loop lt (S f) l i =
        match nth_error l (2 * i + 1) with
        | None => (l, i)
        | Some vl =>
            let j := match nth_error l (2 * i + 2) with
                     | Some vr => if lt vr vl then 2 * i + 2 else 2 * i + 1
                     | None => 2 * i + 1
                     end in
            match nth_error l j, nth_error l i with
            | Some vj, Some vi =>
                if lt vj vi then down_loop lt f (swap i j l) j else (l, i)
            | _, _ => (l, i)
            end
        end.
  Proof. reflexivity. Qed.

  Lemma up_loop_S : forall f (l : list A) i,
      up_loop lt (S f) l (S i) =
        match nth_error l (S i), nth_error l (Nat.div2 (S i - 1)) with
        | Some vi, Some vp =>
            if lt vi vp then up_loop lt f (swap (S i) (Nat.div2 (S i - 1)) l) (Nat.div2 (S i - 1))
            else l
        | _, _ => l
        end.
  Proof. reflexivity. Qed.

  (* ------------------------------------------------------------------ *)
  (* lengths and permutations                                            *)
  (* ------------------------------------------------------------------ *)

  Lemma up_loop_length : forall f (l : list A) i, length (up_loop lt f l i) = length l.
  Proof.
    induction f as [|f IH]; intros l i; [reflexivity|].
    destruct i as [|i]; [reflexivity|].
    rewrite up_loop_S.
    destruct (nth_error l (S i)) as [vi|]; [|reflexivity].
    destruct (nth_error l (Nat.div2 (S i - 1))) as [vp|]; [|reflexivity].
    destruct (lt vi vp); [|reflexivity].
    rewrite IH. apply swap_length.
  Qed.

  Lemma up_loop_perm : forall f (l : list A) i, Permutation (up_loop lt f l i) l.
  Proof.
    induction f as [|f IH]; intros l i; [apply Permutation_refl|].
    destruct i as [|i]; [apply Permutation_refl|].
    rewrite up_loop_S.
    destruct (nth_error l (S i)) as [vi|]; [|apply Permutation_refl].
    destruct (nth_error l (Nat.div2 (S i - 1))) as [vp|]; [|apply Permutation_refl].
    destruct (lt vi vp); [|apply Permutation_refl].
    eapply Permutation_trans; [apply IH|apply swap_perm].
  Qed.

  Lemma up_length : forall (l : list A) i, length (up lt l i) = length l.
  Proof. intros l i; apply up_loop_length. Qed.

  Lemma up_perm : forall (l : list A) i, Permutation (up lt l i) l.
  Proof. intros l i; apply up_loop_perm. Qed.

  Lemma down_loop_length : forall f (l : list A) i,
      length (fst (down_loop lt f l i)) = length l.
  Proof.
    induction f as [|f IH]; intros l i; [reflexivity|].
    rewrite down_loop_S.
    destruct (nth_error l (2 * i + 1)) as [vl|]; [|reflexivity].
    cbv zeta.
    match goal with |- context [nth_error l ?j] =>
      lazymatch j with
      | match _ with _ => _ end => generalize j; intro j'
      end end.
    destruct (nth_error l j') as [vj|]; [|reflexivity].
    destruct (nth_error l i) as [vi|]; [|reflexivity].
    destruct (lt vj vi); [|reflexivity].
    rewrite IH. apply swap_length.
  Qed.

  Lemma down_loop_perm : forall f (l : list A) i,
      Permutation (fst (down_loop lt f l i)) l.
  Proof.
    induction f as [|f IH]; intros l i; [apply Permutation_refl|].
    rewrite down_loop_S.
    destruct (nth_error l (2 * i + 1)) as [vl|]; [|apply Permutation_refl].
    cbv zeta.
    match goal with |- context [nth_error l ?j] =>
      lazymatch j with
      | match _ with _ => _ end => generalize j; intro j'
      end end.
    destruct (nth_error l j') as [vj|]; [|apply Permutation_refl].
    destruct (nth_error l i) as [vi|]; [|apply Permutation_refl].
    destruct (lt vj vi); [|apply Permutation_refl].
    eapply Permutation_trans; [apply IH|apply swap_perm].
  Qed.

  Lemma fst_down : forall (l : list A) i,
      fst (down lt l i) = fst (down_loop lt (length l) l i).
  Proof.
    intros l i; unfold down.
    destruct (down_loop lt (length l) l i) as [l' i']; reflexivity.
  Qed.

  Lemma down_length : forall (l : list A) i, length (fst (down lt l i)) = length l.
  Proof. intros l i; rewrite fst_down; apply down_loop_length. Qed.

  Lemma down_perm : forall (l : list A) i, Permutation (fst (down lt l i)) l.
  Proof. intros l i; rewrite fst_down; apply down_loop_perm. Qed.

  Lemma push_length : forall x (l : list A), length (push lt x l) = S (length l).
  Proof.
    intros x l; unfold push. rewrite up_length, app_length; simpl; lia.
  Qed.

  Theorem push_perm : forall x (l : list A), Permutation (push lt x l) (x :: l).
  Proof.
    intros x l; unfold push.
    eapply Permutation_trans; [apply up_perm|].
    apply Permutation_sym, Permutation_cons_append.
  Qed.

  Lemma fix_unfold : forall (l : list A) i,
      fix_ lt l i =
        if i <? snd (down_loop lt (length l) l i)
        then fst (down_loop lt (length l) l i) else up lt l i.
  Proof.
    intros l i; unfold fix_, down.
    destruct (down_loop lt (length l) l i) as [l' i']; reflexivity.
  Qed.

  Lemma fix_length : forall (l : list A) i, length (fix_ lt l i) = length l.
  Proof.
    intros l i; rewrite fix_unfold.
    destruct (i <? _); [apply down_loop_length|apply up_length].
  Qed.

  Theorem fix_perm : forall (l : list A) i, Permutation (fix_ lt l i) l.
  Proof.
    intros l i; rewrite fix_unfold.
    destruct (i <? _); [apply down_loop_perm|apply up_perm].
  Qed.

  (* shape of pop *)
  Lemma pop_nil : pop lt [] = (None, []).
  Proof. reflexivity. Qed.

  Lemma pop_single : forall x : A, pop lt [x] = (Some x, []).
  Proof. reflexivity. Qed.

  Lemma pop_snoc : forall (x : A) r y,
      pop lt (x :: r ++ [y]) = (Some x, fst (down lt (y :: r) 0)).
  Proof.
    intros x r y. unfold pop.
    assert (Hn : length (x :: r ++ [y]) - 1 = S (length r)).
    { simpl. rewrite app_length; simpl; lia. }
    rewrite Hn.
    assert (Hy : nth_error (x :: r ++ [y]) (S (length r)) = Some y).
    { simpl. rewrite nth_error_app2 by lia. rewrite Nat.sub_diag. reflexivity. }
    rewrite Hy.
    assert (Hl : removelast (upd 0 y (x :: r ++ [y])) = y :: r).
    { change (upd 0 y (x :: r ++ [y])) with ((y :: r) ++ [y]).
      apply removelast_last. }
    rewrite Hl. reflexivity.
  Qed.

  Lemma list_snoc_cases : forall r : list A, r = [] \/ exists r' y, r = r' ++ [y].
  Proof.
    intro r. destruct r as [|z r0]; [left; reflexivity|right].
    destruct (exists_last (l := z :: r0)) as [r' [y Hy]]; [discriminate|].
    exists r', y; exact Hy.
  Qed.

  Theorem pop_none : forall (l l' : list A), pop lt l = (None, l') -> l = [] /\ l' = [].
  Proof.
    intros l l' H. destruct l as [|x r].
    - rewrite pop_nil in H. inversion H; auto.
    - unfold pop in H. discriminate H.
  Qed.

  Theorem pop_perm : forall (l : list A) x l',
      pop lt l = (Some x, l') -> Permutation l (x :: l').
  Proof.
    intros l x l' H. destruct l as [|x0 r]; [rewrite pop_nil in H; discriminate H|].
    destruct (list_snoc_cases r) as [Er|[r' [y Er]]]; subst r.
    - rewrite pop_single in H. inversion H; subst. apply Permutation_refl.
    - rewrite pop_snoc in H. inversion H; subst. apply perm_skip.
      eapply Permutation_trans; [|apply Permutation_sym, down_perm].
      apply Permutation_sym, Permutation_cons_append.
  Qed.

  (* ------------------------------------------------------------------ *)
  (* index arithmetic                                                    *)
  (* ------------------------------------------------------------------ *)

  Lemma parent_is_child : forall j, 0 < j -> is_child (Nat.div2 (j - 1)) j.
  Proof.
    intros j Hj. unfold is_child.
    pose proof (Nat.div2_odd (j - 1)) as H.
    destruct (Nat.odd (j - 1)); simpl Nat.b2n in H; lia.
  Qed.

  Lemma child_parent : forall p c, is_child p c -> Nat.div2 (c - 1) = p.
  Proof.
    intros p c [H|H]; subst c.
    - replace (2 * p + 1 - 1) with (2 * p) by lia. apply Nat.div2_double.
    - replace (2 * p + 2 - 1) with (S (2 * p)) by lia. apply Nat.div2_succ_double.
  Qed.

  Lemma is_child_lt : forall p c, is_child p c -> p < c.
  Proof. unfold is_child; intros p c H; lia. Qed.

  Lemma is_child_inj : forall p q c, is_child p c -> is_child q c -> p = q.
  Proof. unfold is_child; intros p q c H1 H2; lia. Qed.

  Lemma heap_ok_nil : heap_ok lt [].
  Proof. intros p c a b _ Ha. destruct p; discriminate Ha. Qed.

  (* ------------------------------------------------------------------ *)
  (* heap_okb reflects heap_ok                                           *)
  (* ------------------------------------------------------------------ *)

  Lemma heap_okb_from_S : forall f (l : list A) i,
      heap_okb_from lt (S f) l i =
        match nth_error l i with
        | None => true
        | Some a =>
            (match nth_error l (2 * i + 1) with Some b => negb (lt b a) | None => true end) &&
            (match nth_error l (2 * i + 2) with Some b => negb (lt b a) | None => true end) &&
            heap_okb_from lt f l (S i)
        end.
  Proof. reflexivity. Qed.

  Lemma heap_okb_from_spec : forall f (l : list A) i,
      heap_okb_from lt f l i = true <->
      (forall p c a b, i <= p < i + f -> is_child p c ->
         nth_error l p = Some a -> nth_error l c = Some b -> lt b a = false).
  Proof.
    induction f as [|f IH]; intros l i.
    - simpl heap_okb_from. split; [intros _ p c a b Hp; lia | reflexivity].
    - rewrite heap_okb_from_S.
      destruct (nth_error l i) as [a0|] eqn:Hi.
      + rewrite !andb_true_iff, IH. split.
        * intros [[HL HR] Hrest] p c a b Hp Hc Ha Hb.
          destruct (Nat.eq_dec p i) as [Epi|Npi].
          -- subst p. rewrite Hi in Ha; inversion Ha; subst a0.
             destruct Hc as [Hc|Hc]; subst c.
             ++ rewrite Hb in HL. apply negb_true_iff; exact HL.
             ++ rewrite Hb in HR. apply negb_true_iff; exact HR.
          -- apply (Hrest p c a b); auto. lia.
        * intros H. split; [split|].
          -- destruct (nth_error l (2 * i + 1)) as [b|] eqn:Hb; [|reflexivity].
             apply negb_true_iff. apply (H i (2 * i + 1) a0 b); auto; [lia|left; reflexivity].
          -- destruct (nth_error l (2 * i + 2)) as [b|] eqn:Hb; [|reflexivity].
             apply negb_true_iff. apply (H i (2 * i + 2) a0 b); auto; [lia|right; reflexivity].
          -- intros p c a b Hp. apply H; lia.
      + split; [|reflexivity]. intros _ p c a b Hp Hc Ha Hb.
        apply nth_error_None in Hi.
        assert (Hpl : p < length l) by (apply nth_error_Some; congruence).
        lia.
  Qed.

  Theorem heap_okb_spec : forall l : list A, heap_okb lt l = true <-> heap_ok lt l.
  Proof.
    intro l. unfold heap_okb. rewrite heap_okb_from_spec. split.
    - intros H p c a b Hc Ha Hb.
      assert (Hpl : p < length l) by (apply nth_error_Some; congruence).
      apply (H p c a b); auto. lia.
    - intros H p c a b _ Hc Ha Hb. apply (H p c a b); auto.
  Qed.

  (* ------------------------------------------------------------------ *)
  (* order facts (under swo)                                             *)
  (* ------------------------------------------------------------------ *)

  (* sift-up invariant: every pair is in order except possibly (parent i, i);
     the parent of i is not above the children of i *)
  Definition up_inv (l : list A) (i : nat) : Prop :=
    (forall p c a b, is_child p c -> c <> i ->
       nth_error l p = Some a -> nth_error l c = Some b -> lt b a = false) /\
    (forall p c a b, is_child p i -> is_child i c ->
       nth_error l p = Some a -> nth_error l c = Some b -> lt b a = false).

  (* sift-down invariant: every pair is in order except possibly (i, child of i);
     the parent of i is not above the children of i *)
  Definition down_inv (l : list A) (i : nat) : Prop :=
    (forall p c a b, is_child p c -> p <> i ->
       nth_error l p = Some a -> nth_error l c = Some b -> lt b a = false) /\
    (forall p c a b, is_child p i -> is_child i c ->
       nth_error l p = Some a -> nth_error l c = Some b -> lt b a = false).

  Lemma down_inv_except : forall l i, down_inv l i -> heap_ok_except lt l i.
  Proof.
    intros l i [D1 D2]. split; [|exact D2].
    intros p c a b Hc Np Nc. apply D1; auto.
  Qed.

  Lemma up_inv_except : forall l i, up_inv l i -> heap_ok_except lt l i.
  Proof.
    intros l i [U1 U2]. split; [|exact U2].
    intros p c a b Hc Np Nc. apply U1; auto.
  Qed.

  Lemma heap_ok_up_inv : forall l i, heap_ok lt l ->
      (forall p c a b, is_child p i -> is_child i c ->
         nth_error l p = Some a -> nth_error l c = Some b -> lt b a = false) ->
      up_inv l i.
  Proof.
    intros l i Hok H2. split; [|exact H2].
    intros p c a b Hc _. apply (Hok p c a b Hc).
  Qed.

  Lemma up_inv_0 : forall l, up_inv l 0 -> heap_ok lt l.
  Proof.
    intros l [U1 _] p c a b Hc Ha Hb.
    apply (U1 p c a b Hc); auto. apply is_child_lt in Hc. lia.
  Qed.

  Section Order.
    Hypothesis Hswo : swo lt.

    Lemma hlt_asym : forall a b, lt a b = true -> lt b a = false.
    Proof. exact (proj1 Hswo). Qed.

    Lemma hnlt_trans : forall a b c, lt a b = false -> lt b c = false -> lt a c = false.
    Proof. exact (proj2 Hswo). Qed.

    Lemma hlt_irrefl : forall a, lt a a = false.
    Proof.
      intro a. destruct (lt a a) eqn:E; [|reflexivity].
      pose proof (hlt_asym a a E) as E'. congruence.
    Qed.

    (* ---- root is minimal ---- *)

    Lemma heap_root_min_idx : forall l x, heap_ok lt l -> nth_error l 0 = Some x ->
        forall j b, nth_error l j = Some b -> lt b x = false.
    Proof.
      intros l x Hok H0 j.
      induction j as [j IH] using lt_wf_ind. intros b Hb.
      destruct j as [|j'].
      - rewrite H0 in Hb; inversion Hb; subst b. apply hlt_irrefl.
      - assert (Hc : is_child (Nat.div2 (S j' - 1)) (S j')) by (apply parent_is_child; lia).
        remember (Nat.div2 (S j' - 1)) as p eqn:Ep. clear Ep.
        pose proof (is_child_lt _ _ Hc) as Hp.
        destruct (nth_error l p) as [a|] eqn:Ha.
        + pose proof (Hok p (S j') a b Hc Ha Hb) as Hba.
          pose proof (IH p Hp a Ha) as Hax.
          exact (hnlt_trans _ _ _ Hba Hax).
        + apply nth_error_None in Ha.
          assert (Hjl : S j' < length l) by (apply nth_error_Some; congruence).
          lia.
    Qed.

    Theorem heap_root_min : forall l x r, heap_ok lt l -> l = x :: r ->
        forall y, In y l -> lt y x = false.
    Proof.
      intros l x r Hok El y Hy.
      destruct (In_nth_error _ _ Hy) as [j Hj].
      apply (heap_root_min_idx l x Hok) with (j := j); auto.
      subst l; reflexivity.
    Qed.

    Theorem pop_min : forall l x l', heap_ok lt l -> pop lt l = (Some x, l') ->
        forall y, In y l -> lt y x = false.
    Proof.
      intros l x l' Hok Hpop y Hy.
      destruct l as [|x0 r]; [rewrite pop_nil in Hpop; discriminate Hpop|].
      assert (Ex : x0 = x) by (unfold pop in Hpop; inversion Hpop; reflexivity).
      subst x0. exact (heap_root_min (x :: r) x r Hok eq_refl y Hy).
    Qed.

    (* ---- sift-up ---- *)

    Lemma up_step : forall l i q vi vp,
        is_child q i -> nth_error l i = Some vi -> nth_error l q = Some vp ->
        lt vi vp = true -> heap_ok_except lt l i ->
        (forall c b, is_child q c -> c <> i -> nth_error l c = Some b -> lt b vp = false) ->
        (forall g a, is_child g q -> nth_error l g = Some a -> lt vp a = false) ->
        up_inv (swap i q l) q.
    Proof.
      intros l i q vi vp Hqi Hi Hq Hlt [E1 E2] Hsib Hgp.
      pose proof (is_child_lt _ _ Hqi) as Hqlt.
      pose proof (hlt_asym _ _ Hlt) as Hpi.
      split.
      - intros p c a b Hc Ncq Ha Hb.
        rewrite (nth_error_swap l i q vi vp p Hi Hq) in Ha.
        rewrite (nth_error_swap l i q vi vp c Hi Hq) in Hb.
        destruct (Nat.eqb_spec c q) as [Ecq|_]; [contradiction|].
        destruct (Nat.eqb_spec c i) as [Eci|Nci].
        + subst c. inversion Hb; subst b.
          assert (Epq : p = q) by (eapply is_child_inj; eauto). subst p.
          rewrite Nat.eqb_refl in Ha. inversion Ha; subst a. exact Hpi.
        + destruct (Nat.eqb_spec p q) as [Epq|Npq].
          * subst p. inversion Ha; subst a.
            pose proof (Hsib c b Hc Nci Hb) as Hbp.
            exact (hnlt_trans _ _ _ Hbp Hpi).
          * destruct (Nat.eqb_spec p i) as [Epi|Npi].
            -- subst p. inversion Ha; subst a.
               exact (E2 q c vp b Hqi Hc Hq Hb).
            -- exact (E1 p c a b Hc Npi Nci Ha Hb).
      - intros p c a b Hpq Hqc Ha Hb.
        pose proof (is_child_lt _ _ Hpq) as Hplt.
        pose proof (is_child_lt _ _ Hqc) as Hclt.
        rewrite (nth_error_swap l i q vi vp p Hi Hq) in Ha.
        rewrite (nth_error_swap l i q vi vp c Hi Hq) in Hb.
        destruct (Nat.eqb_spec p q) as [Epq|_]; [lia|].
        destruct (Nat.eqb_spec p i) as [Epi|_]; [lia|].
        destruct (Nat.eqb_spec c q) as [Ecq|_]; [lia|].
        pose proof (Hgp p a Hpq Ha) as Hpa.
        destruct (Nat.eqb_spec c i) as [Eci|Nci].
        + inversion Hb; subst b. exact Hpa.
        + pose proof (Hsib c b Hqc Nci Hb) as Hbp.
          exact (hnlt_trans _ _ _ Hbp Hpa).
    Qed.

    Lemma up_loop_ok : forall f l i, i <= f -> up_inv l i -> heap_ok lt (up_loop lt f l i).
    Proof.
      induction f as [|f IH]; intros l i Hf Hinv.
      - assert (i = 0) by lia. subst i. simpl. apply up_inv_0; exact Hinv.
      - destruct i as [|i']; [simpl; apply up_inv_0; exact Hinv|].
        rewrite up_loop_S.
        assert (Hqi : is_child (Nat.div2 (S i' - 1)) (S i')) by (apply parent_is_child; lia).
        remember (Nat.div2 (S i' - 1)) as q eqn:Eq. clear Eq.
        remember (S i') as i eqn:Ei.
        pose proof (is_child_lt _ _ Hqi) as Hqlt.
        destruct Hinv as [U1 U2].
        assert (Hpar : (forall vi vp, nth_error l i = Some vi -> nth_error l q = Some vp ->
                                      lt vi vp = false) -> heap_ok lt l).
        { intros Hpar p c a b Hc Ha Hb.
          destruct (Nat.eq_dec c i) as [Eci|Nci]; [|exact (U1 p c a b Hc Nci Ha Hb)].
          subst c. assert (Epq : p = q) by (eapply is_child_inj; eauto). subst p.
          exact (Hpar b a Hb Ha). }
        destruct (nth_error l i) as [vi|] eqn:Hi;
          [|apply Hpar; intros vi' vp' Hi' Hq'; try rewrite Hi in Hi'; discriminate Hi'].
        destruct (nth_error l q) as [vp|] eqn:Hq;
          [|apply Hpar; intros vi' vp' Hi' Hq'; try rewrite Hq in Hq'; discriminate Hq'].
        destruct (lt vi vp) eqn:Hlt;
          [|apply Hpar; intros vi' vp' Hi' Hq'; try rewrite Hi in Hi'; try rewrite Hq in Hq';
            inversion Hi'; inversion Hq'; subst vi' vp'; exact Hlt].
        apply IH; [lia|].
        apply (up_step l i q vi vp Hqi Hi Hq Hlt).
        + apply up_inv_except. split; assumption.
        + intros c b Hc Nci Hb. exact (U1 q c vp b Hc Nci Hq Hb).
        + intros g a Hg Ha. apply (U1 g q a vp Hg); auto. lia.
    Qed.

    Theorem push_ok : forall x l, heap_ok lt l -> heap_ok lt (push lt x l).
    Proof.
      intros x l Hok. unfold push, up. apply up_loop_ok.
      - rewrite app_length; simpl; lia.
      - split.
        + intros p c a b Hc Nc Ha Hb.
          pose proof (is_child_lt _ _ Hc) as Hpc.
          assert (Hcl : c < length (l ++ [x])) by (apply nth_error_Some; congruence).
          rewrite app_length in Hcl; simpl in Hcl.
          rewrite nth_error_app1 in Ha, Hb by lia.
          exact (Hok p c a b Hc Ha Hb).
        + intros p c a b Hp Hc Ha Hb.
          pose proof (is_child_lt _ _ Hc) as Hic.
          assert (Hcl : c < length (l ++ [x])) by (apply nth_error_Some; congruence).
          rewrite app_length in Hcl; simpl in Hcl. lia.
    Qed.

    (* ---- sift-down ---- *)

    Lemma down_choice : forall l i vl, nth_error l (2 * i + 1) = Some vl ->
        exists j vj,
          match nth_error l (2 * i + 2) with
          | Some vr => if lt vr vl then 2 * i + 2 else 2 * i + 1
          | None => 2 * i + 1
          end = j /\ is_child i j /\ nth_error l j = Some vj /\
          (forall c b, is_child i c -> nth_error l c = Some b -> lt b vj = false).
    Proof.
      intros l i vl Hl.
      destruct (nth_error l (2 * i + 2)) as [vr|] eqn:Hr.
      - destruct (lt vr vl) eqn:Hlt.
        + exists (2 * i + 2), vr. split; [reflexivity|]. split; [right; reflexivity|].
          split; [exact Hr|]. intros c b [Hc|Hc] Hb; subst c.
          * rewrite Hl in Hb; inversion Hb; subst b. apply hlt_asym; exact Hlt.
          * rewrite Hr in Hb; inversion Hb; subst b. apply hlt_irrefl.
        + exists (2 * i + 1), vl. split; [reflexivity|]. split; [left; reflexivity|].
          split; [exact Hl|]. intros c b [Hc|Hc] Hb; subst c.
          * rewrite Hl in Hb; inversion Hb; subst b. apply hlt_irrefl.
          * rewrite Hr in Hb; inversion Hb; subst b. exact Hlt.
      - exists (2 * i + 1), vl. split; [reflexivity|]. split; [left; reflexivity|].
        split; [exact Hl|]. intros c b [Hc|Hc] Hb; subst c.
        + rewrite Hl in Hb; inversion Hb; subst b. apply hlt_irrefl.
        + congruence.
    Qed.

    Lemma down_loop_S_cases : forall f l i,
        (down_loop lt (S f) l i = (l, i) /\
         forall vi, nth_error l i = Some vi ->
           forall c b, is_child i c -> nth_error l c = Some b -> lt b vi = false)
        \/
        (exists j vi vj,
           is_child i j /\ nth_error l i = Some vi /\ nth_error l j = Some vj /\
           lt vj vi = true /\
           (forall c b, is_child i c -> nth_error l c = Some b -> lt b vj = false) /\
           down_loop lt (S f) l i = down_loop lt f (swap i j l) j).
    Proof.
      intros f l i. rewrite down_loop_S.
      destruct (nth_error l (2 * i + 1)) as [vl|] eqn:Hl.
      - destruct (down_choice l i vl Hl) as [j [vj [Ej [Hcj [Hj Hmin]]]]].
        cbv zeta. rewrite Ej, Hj.
        destruct (nth_error l i) as [vi|] eqn:Hi.
        + destruct (lt vj vi) eqn:Hlt.
          * right. exists j, vi, vj.
            split; [exact Hcj|]. split; [reflexivity|]. split; [exact Hj|].
            split; [exact Hlt|]. split; [exact Hmin|reflexivity].
          * left. split; [reflexivity|].
            intros vi' E; inversion E; subst vi'. intros c b Hc Hb.
            exact (hnlt_trans _ _ _ (Hmin c b Hc Hb) Hlt).
        + left. split; [reflexivity|]. intros vi E; discriminate E.
      - left. split; [reflexivity|]. intros vi Hi c b Hc Hb. exfalso.
        apply nth_error_None in Hl.
        assert (Hcl : c < length l) by (apply nth_error_Some; congruence).
        destruct Hc as [Hc|Hc]; lia.
    Qed.

    Lemma down_step : forall l i j vi vj,
        is_child i j -> nth_error l i = Some vi -> nth_error l j = Some vj ->
        lt vj vi = true ->
        (forall c b, is_child i c -> nth_error l c = Some b -> lt b vj = false) ->
        heap_ok_except lt l i ->
        down_inv (swap i j l) j.
    Proof.
      intros l i j vi vj Hij Hi Hj Hlt Hmin [E1 E2].
      pose proof (is_child_lt _ _ Hij) as Hijlt.
      split.
      - intros p c a b Hc Npj Ha Hb.
        pose proof (is_child_lt _ _ Hc) as Hpc.
        rewrite (nth_error_swap l i j vi vj p Hi Hj) in Ha.
        rewrite (nth_error_swap l i j vi vj c Hi Hj) in Hb.
        destruct (Nat.eqb_spec p j) as [Epj|_]; [contradiction|].
        destruct (Nat.eqb_spec p i) as [Epi|Npi].
        + subst p. inversion Ha; subst a.
          destruct (Nat.eqb_spec c j) as [Ecj|Ncj].
          * inversion Hb; subst b. apply hlt_asym; exact Hlt.
          * destruct (Nat.eqb_spec c i) as [Eci|_]; [lia|].
            exact (Hmin c b Hc Hb).
        + destruct (Nat.eqb_spec c j) as [Ecj|Ncj].
          * subst c. exfalso. apply Npi. eapply is_child_inj; eauto.
          * destruct (Nat.eqb_spec c i) as [Eci|Nci].
            -- subst c. inversion Hb; subst b. exact (E2 p j a vj Hc Hij Ha Hj).
            -- exact (E1 p c a b Hc Npi Nci Ha Hb).
      - intros p c a b Hpj Hjc Ha Hb.
        pose proof (is_child_lt _ _ Hjc) as Hjclt.
        assert (Epi : p = i) by (eapply is_child_inj; eauto). subst p.
        rewrite (nth_error_swap l i j vi vj i Hi Hj) in Ha.
        rewrite (nth_error_swap l i j vi vj c Hi Hj) in Hb.
        destruct (Nat.eqb_spec i j) as [Eij|_]; [lia|].
        rewrite Nat.eqb_refl in Ha. inversion Ha; subst a.
        destruct (Nat.eqb_spec c j) as [Ecj|_]; [lia|].
        destruct (Nat.eqb_spec c i) as [Eci|Nci]; [lia|].
        apply (E1 j c vj b Hjc); auto; lia.
    Qed.

    Lemma down_loop_ok : forall f l i,
        length l <= f + i -> down_inv l i -> heap_ok lt (fst (down_loop lt f l i)).
    Proof.
      induction f as [|f IH]; intros l i Hf Hinv.
      - simpl. destruct Hinv as [D1 _]. intros p c a b Hc Ha Hb.
        apply (D1 p c a b Hc); auto. intro Epi; subst p.
        assert (Hil : i < length l) by (apply nth_error_Some; congruence). lia.
      - destruct (down_loop_S_cases f l i)
          as [[E Hch]|[j [vi [vj [Hij [Hi [Hj [Hlt [Hmin E]]]]]]]]]; rewrite E.
        + simpl. destruct Hinv as [D1 _]. intros p c a b Hc Ha Hb.
          destruct (Nat.eq_dec p i) as [Epi|Npi].
          * subst p. exact (Hch a Ha c b Hc Hb).
          * exact (D1 p c a b Hc Npi Ha Hb).
        + pose proof (is_child_lt _ _ Hij) as Hijlt.
          apply IH; [rewrite swap_length; lia|].
          apply (down_step l i j vi vj); auto. apply down_inv_except; exact Hinv.
    Qed.

    Lemma down_loop_ge : forall f l i, i <= snd (down_loop lt f l i).
    Proof.
      induction f as [|f IH]; intros l i; [simpl; lia|].
      destruct (down_loop_S_cases f l i)
        as [[E Hch]|[j [vi [vj [Hij [Hi [Hj [Hlt [Hmin E]]]]]]]]]; rewrite E.
      - simpl; lia.
      - pose proof (is_child_lt _ _ Hij) as Hijlt.
        pose proof (IH (swap i j l) j) as Hge. lia.
    Qed.

    Theorem pop_ok : forall l o l', heap_ok lt l -> pop lt l = (o, l') -> heap_ok lt l'.
    Proof.
      intros l o l' Hok Hpop.
      destruct l as [|x r].
      - rewrite pop_nil in Hpop. inversion Hpop; subst. apply heap_ok_nil.
      - destruct (list_snoc_cases r) as [Er|[r' [y Er]]]; subst r.
        + rewrite pop_single in Hpop. inversion Hpop; subst. apply heap_ok_nil.
        + rewrite pop_snoc in Hpop. inversion Hpop; subst o l'. clear Hpop.
          rewrite fst_down. apply down_loop_ok; [lia|].
          split.
          * intros p c a b Hc Np Ha Hb.
            pose proof (is_child_lt _ _ Hc) as Hpc.
            destruct p as [|p']; [lia|]. destruct c as [|c']; [lia|].
            simpl in Ha, Hb.
            assert (Hpl : p' < length r') by (apply nth_error_Some; congruence).
            assert (Hcl : c' < length r') by (apply nth_error_Some; congruence).
            apply (Hok (S p') (S c') a b Hc); simpl;
              rewrite nth_error_app1 by lia; assumption.
          * intros p c a b Hp. apply is_child_lt in Hp. lia.
    Qed.

    (* ---- fix_ after an arbitrary update ---- *)

    Theorem upd_heap_ok_except : forall l i v, heap_ok lt l -> heap_ok_except lt (upd i v l) i.
    Proof.
      intros l i v Hok. split.
      - intros p c a b Hc Np Nc Ha Hb.
        rewrite nth_error_upd_neq in Ha, Hb by lia.
        exact (Hok p c a b Hc Ha Hb).
      - intros p c a b Hpi Hic Ha Hb.
        pose proof (is_child_lt _ _ Hpi) as Hplt.
        pose proof (is_child_lt _ _ Hic) as Hclt.
        rewrite nth_error_upd_neq in Ha, Hb by lia.
        assert (Hcl : c < length l) by (apply nth_error_Some; congruence).
        destruct (nth_error l i) as [m|] eqn:Hm.
        + pose proof (Hok i c m b Hic Hm Hb) as Hbm.
          pose proof (Hok p i a m Hpi Ha Hm) as Hma.
          exact (hnlt_trans _ _ _ Hbm Hma).
        + apply nth_error_None in Hm. lia.
    Qed.

    Theorem fix_restores : forall l i, i < length l -> heap_ok_except lt l i ->
        heap_ok lt (fix_ lt l i).
    Proof.
      intros l i Hil Hex. rewrite fix_unfold.
      assert (Hf : exists f, length l = S f) by (exists (length l - 1); lia).
      destruct Hf as [f Ef]. rewrite Ef.
      destruct (down_loop_S_cases f l i)
        as [[E Hch]|[j [vi [vj [Hij [Hi [Hj [Hlt [Hmin E]]]]]]]]]; rewrite E.
      - simpl snd. rewrite Nat.ltb_irrefl.
        unfold up. apply up_loop_ok; [lia|].
        destruct Hex as [E1 E2]. split; [|exact E2].
        intros p c a b Hc Nci Ha Hb.
        destruct (Nat.eq_dec p i) as [Epi|Npi].
        + subst p. exact (Hch a Ha c b Hc Hb).
        + exact (E1 p c a b Hc Npi Nci Ha Hb).
      - pose proof (is_child_lt _ _ Hij) as Hijlt.
        pose proof (down_loop_ge f (swap i j l) j) as Hge.
        assert (Hltb : (i <? snd (down_loop lt f (swap i j l) j)) = true)
          by (apply Nat.ltb_lt; lia).
        rewrite Hltb.
        apply down_loop_ok; [rewrite swap_length; lia|].
        apply (down_step l i j vi vj); auto.
    Qed.

  End Order.

End HeapProofs.

(* audit: all exported theorems are closed (one tuple, one traversal) *)
Definition C19_heap_audit :=
  (@push_perm, @pop_perm, @pop_none, @pop_nil, @fix_perm,
   @swap_length, @up_length, @down_loop_length, @push_length, @fix_length,
   @heap_root_min, @pop_min, @push_ok, @pop_ok, @heap_okb_spec,
   @fix_restores, @upd_heap_ok_except).
Print Assumptions C19_heap_audit.
