(* C15 - invariants of the job state machine model (Model/JobSM.v) and the safety theorems built on them. *)
From Coq Require Import List NArith Bool Lia Sorted Permutation.
From RV Require Import Model.JobSM.
Import ListNotations.
Open Scope N_scope.

(* ---------------------------------------------------------------- sorted duplicate-free lists *)
Definition sorted (l : list N) : Prop := StronglySorted N.lt l.

Lemma mem_In : forall x l, mem x l = true <-> In x l.
Proof.
  intros x l. unfold mem. rewrite existsb_exists. split.
  - intros [y [Hy He]]. apply N.eqb_eq in He. subst. exact Hy.
  - intros H. exists x. split; [exact H | apply N.eqb_refl].
Qed.

Lemma In_ins : forall x y l, In y (ins x l) <-> y = x \/ In y l.
Proof.
  intros x y l. induction l as [|z t IH]; cbn [ins].
  - cbn. intuition.
  - destruct (x <? z) eqn:E1.
    + cbn. intuition.
    + destruct (x =? z) eqn:E2.
      * apply N.eqb_eq in E2. subst. cbn. intuition.
      * cbn. rewrite IH. intuition.
Qed.

Lemma sorted_ins : forall x l, sorted l -> sorted (ins x l).
Proof.
  intros x l H. induction H as [|z t Hs IH Hf]; cbn [ins].
  - constructor; constructor.
  - destruct (x <? z) eqn:E1.
    + apply N.ltb_lt in E1. constructor.
      * constructor; assumption.
      * constructor; [exact E1|]. rewrite Forall_forall in *. intros y Hy. specialize (Hf y Hy). lia.
    + destruct (x =? z) eqn:E2.
      * constructor; assumption.
      * apply N.ltb_ge in E1. apply N.eqb_neq in E2. constructor; [exact IH|].
        rewrite Forall_forall in *. intros y Hy. apply In_ins in Hy. destruct Hy as [->|Hy]; [lia | auto].
Qed.

Lemma sorted_filter : forall f l, sorted l -> sorted (filter f l).
Proof.
  intros f l H. induction H as [|z t Hs IH Hf]; cbn [filter].
  - constructor.
  - destruct (f z).
    + constructor; [exact IH|]. rewrite Forall_forall in *. intros y Hy. apply filter_In in Hy. apply Hf, Hy.
    + exact IH.
Qed.

Lemma In_firstn : forall (n : nat) (l : list N) y, In y (firstn n l) -> In y l.
Proof.
  intros n l. revert n. induction l as [|z t IH]; intros [|n] y H; cbn [firstn] in H; try contradiction.
  destruct H as [->|H]; [left; reflexivity | right; eapply IH; exact H].
Qed.

Lemma sorted_firstn : forall n l, sorted l -> sorted (firstn n l).
Proof.
  intros n l H. revert n. induction H as [|z t Hs IH Hf]; intros [|n]; cbn [firstn]; try constructor.
  - apply IH.
  - rewrite Forall_forall in *. intros y Hy. apply Hf. eapply In_firstn; exact Hy.
Qed.

Lemma sorted_NoDup : forall l, sorted l -> NoDup l.
Proof.
  intros l H. induction H as [|z t Hs IH Hf]; constructor; [|exact IH].
  intros Hin. rewrite Forall_forall in Hf. specialize (Hf z Hin). lia.
Qed.

Lemma In_rem : forall x y l, In y (rem x l) <-> In y l /\ y <> x.
Proof.
  intros x y l. unfold rem. rewrite filter_In. rewrite negb_true_iff, N.eqb_neq. tauto.
Qed.

(* ---------------------------------------------------------------- keys and the liveness map *)
Lemma key_eqb_eq : forall a b, key_eqb a b = true <-> a = b.
Proof.
  intros [a1 a2] [b1 b2]. unfold key_eqb. cbn [fst snd]. rewrite andb_true_iff, eqb_true_iff, N.eqb_eq.
  split; [intros [-> ->]; reflexivity | intros H; inversion H; auto].
Qed.
Lemma key_eqb_refl : forall a, key_eqb a a = true.
Proof. intros a. apply key_eqb_eq. reflexivity. Qed.
Lemma key_eqb_neq : forall a b, key_eqb a b = false <-> a <> b.
Proof.
  intros a b. split.
  - intros H E. apply key_eqb_eq in E. congruence.
  - intros H. destruct (key_eqb a b) eqn:E; [apply key_eqb_eq in E; contradiction | reflexivity].
Qed.

Lemma In_hb_set : forall k t m e, In e (hb_set k t m) <-> e = (k, t) \/ (In e m /\ fst e <> k).
Proof.
  intros k t m e. unfold hb_set. cbn [In]. rewrite filter_In, negb_true_iff, key_eqb_neq. intuition.
Qed.

Lemma hb_get_In : forall k m t, hb_get k m = Some t -> In (k, t) m.
Proof.
  intros k m t H. unfold hb_get in H. destruct (find _ m) as [e|] eqn:F; [|discriminate].
  inversion H; subst. apply find_some in F. destruct F as [Hin Hk]. apply key_eqb_eq in Hk.
  destruct e as [k' t']. cbn in *. subst. exact Hin.
Qed.

Lemma hb_get_some : forall k m e, In e m -> fst e = k -> exists t, hb_get k m = Some t.
Proof.
  intros k m e Hin Hk. unfold hb_get. destruct (find _ m) as [e'|] eqn:F.
  - eexists; reflexivity.
  - exfalso. eapply find_none in F; [|exact Hin]. rewrite Hk, key_eqb_refl in F. discriminate.
Qed.

(* ---------------------------------------------------------------- the invariant *)
Record Inv (c : cfg) (s : st) : Prop := MkInv {
  i_sops : sorted (ops s);
  i_ssrs : sorted (srs s);
  i_hbo : forall n, In n (ops s) -> exists e, In e (hb s) /\ fst e = (true, n);
  i_hbr : forall n, In n (srs s) -> exists e, In e (hb s) /\ fst e = (false, n);
  i_sto : completed (sto s) <= ctr (sto s) /\
          forall p, pend (sto s) = Some p -> p_id p = ctr (sto s) /\ completed (sto s) < ctr (sto s);
  i_asm : stat s <> Init -> length (a_ops s) = wc c /\ length (a_srs s) = wc c /\ sorted (a_ops s) /\ sorted (a_srs s);
  i_spl : q_splitters_accumulate (qk c) = false -> stat s = Init \/ splitters (sto s) = 1;
  i_pnd : q_keep_pending (qk c) = false /\ q_keep_savepoint (qk c) = false ->
          forall p, pend (sto s) = Some p -> map fst (p_ops p) = a_ops s /\ map fst (p_srs p) = a_srs s;
  i_tk : q_ticker_once (qk c) = false -> (ticker s = 1 <-> stat s = Running);
  i_wr : writing s <> 0 -> writing s <= ctr (sto s) /\ forall p, pend (sto s) = Some p -> writing s < ctr (sto s)
}.

Lemma inv_init : forall c, Inv c init.
Proof.
  intros c. constructor; cbn.
  - constructor.
  - constructor.
  - intros n H; contradiction.
  - intros n H; contradiction.
  - split; [lia | intros p H; discriminate].
  - intros H; contradiction.
  - intros _. left. reflexivity.
  - intros _ p H; discriminate.
  - intros _. split; intros H; discriminate.
  - intros H. exfalso. apply H. reflexivity.
Qed.

Lemma is_dead_false : forall c s k e, is_dead c s k = false -> In e (hb s) -> fst e = k -> expired c (now s) e = false.
Proof.
  intros c s k e H Hin Hk. unfold is_dead in H.
  destruct (expired c (now s) e) eqn:E; [|reflexivity].
  assert (X : existsb (fun e0 => key_eqb (fst e0) k && expired c (now s) e0) (hb s) = true).
  { apply existsb_exists. exists e. split; [exact Hin|]. rewrite Hk, key_eqb_refl, E. reflexivity. }
  congruence.
Qed.

Lemma purge_inv : forall c s, Inv c s -> Inv c (purge c s).
Proof.
  intros c s I. destruct I. constructor; cbn [purge ops srs hb stat a_ops a_srs sto dep_ck now ticker holdw writing pick]; auto.
  - apply sorted_filter; assumption.
  - apply sorted_filter; assumption.
  - intros n Hn. apply filter_In in Hn. destruct Hn as [Hn Hd]. apply negb_true_iff in Hd.
    destruct (i_hbo0 n Hn) as [e [He Hk]]. exists e. split; [|exact Hk].
    apply filter_In. split; [exact He|]. apply negb_true_iff. eapply is_dead_false; eauto.
  - intros n Hn. apply filter_In in Hn. destruct Hn as [Hn Hd]. apply negb_true_iff in Hd.
    destruct (i_hbr0 n Hn) as [e [He Hk]]. exists e. split; [|exact Hk].
    apply filter_In. split; [exact He|]. apply negb_true_iff. eapply is_dead_false; eauto.
Qed.

(* ---------------------------------------------------------------- the choice of the assembly *)
Lemma sortedb_sorted : forall l, sortedb l = true -> sorted l.
Proof.
  intros l H. apply Sorted_StronglySorted; [intros x y z; apply N.lt_trans|].
  induction l as [|x t IH]; [constructor|]. cbn [sortedb] in H. destruct t as [|y t'].
  - constructor; constructor.
  - apply andb_true_iff in H. destruct H as [H1 H2]. constructor; [apply IH, H2 | constructor; apply N.ltb_lt, H1].
Qed.

Lemma admissible_spec : forall w reg chosen, admissible w reg chosen = true ->
  sorted chosen /\ length chosen = w /\ forall n, In n chosen -> In n reg.
Proof.
  intros w reg chosen H. unfold admissible in H. apply andb_true_iff in H. destruct H as [H H3].
  apply andb_true_iff in H. destruct H as [H1 H2].
  split; [apply sortedb_sorted, H1|]. split; [apply PeanoNat.Nat.eqb_eq, H2|].
  intros n Hn. rewrite forallb_forall in H3. apply mem_In, H3, Hn.
Qed.

(* whatever the choice input is, the nodes chosen are WorkerCount distinct registered ones, in ascending order *)
Lemma choose_ops_spec : forall c s, sorted (ops s) -> (wc c <= length (ops s))%nat ->
  sorted (choose_ops c s) /\ length (choose_ops c s) = wc c /\ forall n, In n (choose_ops c s) -> In n (ops s).
Proof.
  intros c s So Ho. unfold choose_ops.
  assert (D : sorted (firstn (wc c) (ops s)) /\ length (firstn (wc c) (ops s)) = wc c /\ forall n, In n (firstn (wc c) (ops s)) -> In n (ops s)).
  { split; [apply sorted_firstn, So|]. split; [apply firstn_length_le, Ho | intros n; apply In_firstn]. }
  destruct (pick s) as [[co cr]|]; [|exact D].
  destruct (admissible (wc c) (ops s) co) eqn:A; [apply admissible_spec, A | exact D].
Qed.
Lemma choose_srs_spec : forall c s, sorted (srs s) -> (wc c <= length (srs s))%nat ->
  sorted (choose_srs c s) /\ length (choose_srs c s) = wc c /\ forall n, In n (choose_srs c s) -> In n (srs s).
Proof.
  intros c s So Ho. unfold choose_srs.
  assert (D : sorted (firstn (wc c) (srs s)) /\ length (firstn (wc c) (srs s)) = wc c /\ forall n, In n (firstn (wc c) (srs s)) -> In n (srs s)).
  { split; [apply sorted_firstn, So|]. split; [apply firstn_length_le, Ho | intros n; apply In_firstn]. }
  destruct (pick s) as [[co cr]|]; [|exact D].
  destruct (admissible (wc c) (srs s) cr) eqn:A; [apply admissible_spec, A | exact D].
Qed.

Lemma start_begin_inv : forall c s, Inv c s -> stat s <> Running ->
  (wc c <= length (ops s))%nat -> (wc c <= length (srs s))%nat -> Inv c (fst (start_begin c s)).
Proof.
  intros c s I Hnr Ho Hr. destruct I. unfold start_begin.
  constructor; cbn [fst ops srs hb stat a_ops a_srs sto dep_ck now pend completed ctr splitters]; auto.
  - destruct i_sto0 as [A B]. split; [exact A|]. destruct (q_keep_pending (qk c)); [exact B|].
    destruct (pend (sto s)) as [p0|] eqn:P0; [|intros; discriminate].
    destruct (q_keep_savepoint (qk c) && p_sp p0); [exact B | intros; discriminate].
  - intros _. destruct (choose_ops_spec c s i_sops0 Ho) as [A1 [A2 _]]. destruct (choose_srs_spec c s i_ssrs0 Hr) as [B1 [B2 _]].
    repeat split; assumption.
  - intros H. right. rewrite H. reflexivity.
  - intros [H H2]. rewrite H. destruct (pend (sto s)) as [p0|]; [|intros; discriminate].
    rewrite H2. cbn [andb]. intros; discriminate.
  - intros Q. split; [|discriminate]. intros T. apply (i_tk0 Q) in T. contradiction.
  - cbn [writing]. intros W. destruct (i_wr0 W) as [W1 W2]. split; [exact W1|].
    destruct (q_keep_pending (qk c)); [exact W2|].
    destruct (pend (sto s)) as [p0|] eqn:P0; [|intros; discriminate].
    destruct (q_keep_savepoint (qk c) && p_sp p0); [exact W2 | intros; discriminate].
Qed.

Lemma tk_stop_ne1 : forall t, tk_stop t <> 1.
Proof. intros t. unfold tk_stop. destruct (t =? 0); discriminate. Qed.

Lemma set_stat_inv : forall c s, Inv c s -> stat s <> Init -> Inv c (set_stat s Paused).
Proof.
  intros c s I Hn. destruct I. constructor; cbn [set_stat ops srs hb stat a_ops a_srs sto dep_ck now ticker holdw writing pick]; auto.
  - intros H. right. destruct (i_spl0 H) as [E|E]; [contradiction | exact E].
  - intros _. split; [intros T; exfalso; eapply tk_stop_ne1; eauto | discriminate].
Qed.

Lemma go_running_inv : forall c s, Inv c s -> stat s <> Init -> Inv c (go_running c s).
Proof.
  intros c s I Hn. destruct I. constructor; cbn [go_running ops srs hb stat a_ops a_srs sto dep_ck now ticker holdw writing pick]; auto.
  - intros H. right. destruct (i_spl0 H) as [E|E]; [contradiction | exact E].
  - intros Q. unfold tk_arm. rewrite Q. split; reflexivity.
Qed.

Lemma try_assemble_inv : forall c s, Inv c s -> stat s <> Running -> Inv c (fst (try_assemble c s)).
Proof.
  intros c s I Hn. unfold try_assemble.
  destruct (Nat.ltb (length (srs s)) (wc c) || Nat.ltb (length (ops s)) (wc c)) eqn:C; [exact I|].
  apply orb_false_iff in C. destruct C as [C1 C2]. apply PeanoNat.Nat.ltb_ge in C1, C2. apply start_begin_inv; assumption.
Qed.

Lemma evaluate_inv : forall c s, Inv c s -> Inv c (fst (evaluate c s)).
Proof.
  intros c s I. apply purge_inv in I. unfold evaluate. set (s' := purge c s) in *.
  destruct (stat s') eqn:E.
  - apply try_assemble_inv; [exact I | congruence].
  - apply try_assemble_inv; [exact I | congruence].
  - exact I.
  - destruct (healthy s'); [exact I|].
    assert (Ip : Inv c (set_stat s' Paused)) by (apply set_stat_inv; [exact I | congruence]).
    destruct (pick s'); [|exact Ip]. apply try_assemble_inv; [exact Ip | discriminate].
Qed.

Lemma mark_keys : forall x l l', mark x l = Some l' -> map fst l' = map fst l.
Proof.
  intros x l. induction l as [|[y b] t IH]; intros l' H; cbn [mark] in H; [discriminate|].
  destruct (x =? y).
  - destruct b; [discriminate|]. inversion H; subst. reflexivity.
  - destruct (mark x t) as [t'|]; [|discriminate]. inversion H; subst. cbn [map fst]. rewrite (IH t' eq_refl). reflexivity.
Qed.

Lemma map_fst_false : forall l : list N, map fst (map (fun n => (n, false)) l) = l.
Proof. intros l. rewrite map_map. cbn [fst]. apply map_id. Qed.

(* the store part of the invariant is preserved by finish_if_complete on a pending snapshot with the same id and keys *)
Lemma finish_store : forall so p so' r pub,
  finish_if_complete so p = (so', r, pub) ->
  completed so <= ctr so -> p_id p = ctr so -> completed so < ctr so ->
  completed so' <= ctr so' /\ splitters so' = splitters so /\ ctr so' = ctr so /\
  (forall p', pend so' = Some p' -> p' = p /\ completed so' = completed so).
Proof.
  intros so p so' r pub H A B C. unfold finish_if_complete in H.
  destruct (complete p); [destruct (splitters so =? 1)|]; inversion H; subst; cbn [completed ctr splitters pend].
  - split; [lia|]. split; [reflexivity|]. split; [reflexivity|]. intros p' H0; discriminate.
  - split; [lia|]. split; [reflexivity|]. split; [reflexivity|]. intros p' H0; inversion H0; auto.
  - split; [lia|]. split; [reflexivity|]. split; [reflexivity|]. intros p' H0; inversion H0; auto.
Qed.

Lemma finish_pub : forall so p so' r pub,
  finish_if_complete so p = (so', r, pub) -> pub <> 0 -> pend so' = None /\ pub = p_id p.
Proof.
  intros so p so' r pub H Hp. unfold finish_if_complete in H.
  destruct (complete p); [destruct (splitters so =? 1)|]; inversion H; subst; cbn; try contradiction; auto.
Qed.

Lemma with_sto_inv : forall c s so h w,
  Inv c s ->
  completed so <= ctr so ->
  (forall p, pend so = Some p -> p_id p = ctr so /\ completed so < ctr so) ->
  splitters so = splitters (sto s) ->
  (q_keep_pending (qk c) = false /\ q_keep_savepoint (qk c) = false -> forall p, pend so = Some p -> map fst (p_ops p) = a_ops s /\ map fst (p_srs p) = a_srs s) ->
  (w <> 0 -> w <= ctr so /\ forall p, pend so = Some p -> w < ctr so) ->
  Inv c (MkSt (now s) (ops s) (srs s) (hb s) (stat s) (a_ops s) (a_srs s) (dep_ck s) so (ticker s) h w (pick s)).
Proof.
  intros c s so h w I A B C D E. destruct I. constructor; cbn [ops srs hb stat a_ops a_srs sto dep_ck now ticker holdw writing pick]; auto.
  intros H. rewrite C. auto.
Qed.

Lemma set_sto_inv : forall c s so,
  Inv c s ->
  completed so <= ctr so ->
  (forall p, pend so = Some p -> p_id p = ctr so /\ completed so < ctr so) ->
  splitters so = splitters (sto s) ->
  (q_keep_pending (qk c) = false /\ q_keep_savepoint (qk c) = false -> forall p, pend so = Some p -> map fst (p_ops p) = a_ops s /\ map fst (p_srs p) = a_srs s) ->
  (writing s <> 0 -> writing s <= ctr so /\ forall p, pend so = Some p -> writing s < ctr so) ->
  Inv c (set_sto s so).
Proof. intros. unfold set_sto. apply with_sto_inv; assumption. Qed.

(* what an ack leaves: the facts needed to rebuild the invariant for set_sto and for the held-write branch *)
Lemma ack_op_facts : forall c s n id so r pub, Inv c s -> ack_op (sto s) n id = (so, r, pub) ->
  completed so <= ctr so /\ ctr so = ctr (sto s) /\ splitters so = splitters (sto s) /\
  (forall p, pend so = Some p -> p_id p = ctr so /\ completed so < ctr so) /\
  (q_keep_pending (qk c) = false /\ q_keep_savepoint (qk c) = false -> forall p, pend so = Some p -> map fst (p_ops p) = a_ops s /\ map fst (p_srs p) = a_srs s) /\
  (forall p, pend so = Some p -> exists p0, pend (sto s) = Some p0) /\
  (pub <> 0 -> pend so = None /\ pub = ctr (sto s)).
Proof.
  intros c s n id so r pub I H. pose proof (i_sto _ _ I) as [A B]. unfold ack_op in H. destruct (pend (sto s)) as [p|] eqn:P.
  2:{ inversion H; subst.
      split; [exact A|]. split; [reflexivity|]. split; [reflexivity|].
      split; [intros q Q; rewrite P in Q; discriminate|].
      split; [intros _ q Q; rewrite P in Q; discriminate|].
      split; [intros q Q; rewrite P in Q; discriminate|].
      intros X; exfalso; apply X; reflexivity. }
  destruct (negb (p_id p =? id)).
  { inversion H; subst.
    split; [exact A|]. split; [reflexivity|]. split; [reflexivity|].
    split; [intros q Q; first [apply B; exact Q | rewrite P in Q; apply B; exact Q]|].
    split; [intros Hk q Q; apply (i_pnd _ _ I Hk q Q)|].
    split; [intros q Q; exists p; first [exact P | reflexivity]|].
    intros X; exfalso; apply X; reflexivity. }
  destruct (B p eq_refl) as [B1 B2].
  set (p' := match mark n (p_ops p) with Some l => MkPending (p_id p) l (p_srs p) (p_sp p) | None => p end) in *.
  assert (K : p_id p' = p_id p /\ map fst (p_ops p') = map fst (p_ops p) /\ p_srs p' = p_srs p).
  { unfold p'. destruct (mark n (p_ops p)) as [l|] eqn:M; cbn; [|auto]. repeat split. eapply mark_keys; eauto. }
  destruct K as [K1 [K2 K3]].
  destruct (finish_store _ _ _ _ _ H A (eq_trans K1 B1) B2) as [F1 [F2 [F3 F4]]].
  split; [exact F1|]. split; [exact F3|]. split; [exact F2|]. split; [|split; [|split]].
  - intros q Q. destruct (F4 q Q) as [-> F5]. rewrite F3, F5. split; [congruence | exact B2].
  - intros Hk q Q. destruct (F4 q Q) as [-> _]. destruct (i_pnd _ _ I Hk p P) as [G1 G2]. rewrite K2, K3. auto.
  - intros q Q. exists p. reflexivity.
  - intros Hp. destruct (finish_pub _ _ _ _ _ H Hp) as [X Y]. split; [exact X | congruence].
Qed.

Lemma ack_sr_facts : forall c s n id so r pub, Inv c s -> ack_sr (sto s) n id = (so, r, pub) ->
  completed so <= ctr so /\ ctr so = ctr (sto s) /\ splitters so = splitters (sto s) /\
  (forall p, pend so = Some p -> p_id p = ctr so /\ completed so < ctr so) /\
  (q_keep_pending (qk c) = false /\ q_keep_savepoint (qk c) = false -> forall p, pend so = Some p -> map fst (p_ops p) = a_ops s /\ map fst (p_srs p) = a_srs s) /\
  (forall p, pend so = Some p -> exists p0, pend (sto s) = Some p0) /\
  (pub <> 0 -> pend so = None /\ pub = ctr (sto s)).
Proof.
  intros c s n id so r pub I H. pose proof (i_sto _ _ I) as [A B]. unfold ack_sr in H. destruct (pend (sto s)) as [p|] eqn:P.
  2:{ inversion H; subst.
      split; [exact A|]. split; [reflexivity|]. split; [reflexivity|].
      split; [intros q Q; rewrite P in Q; discriminate|].
      split; [intros _ q Q; rewrite P in Q; discriminate|].
      split; [intros q Q; rewrite P in Q; discriminate|].
      intros X; exfalso; apply X; reflexivity. }
  destruct (negb (p_id p =? id)).
  { inversion H; subst.
    split; [exact A|]. split; [reflexivity|]. split; [reflexivity|].
    split; [intros q Q; first [apply B; exact Q | rewrite P in Q; apply B; exact Q]|].
    split; [intros Hk q Q; apply (i_pnd _ _ I Hk q Q)|].
    split; [intros q Q; exists p; first [exact P | reflexivity]|].
    intros X; exfalso; apply X; reflexivity. }
  destruct (mark n (p_srs p)) as [l|] eqn:M.
  2:{ inversion H; subst.
    split; [exact A|]. split; [reflexivity|]. split; [reflexivity|].
    split; [intros q Q; first [apply B; exact Q | rewrite P in Q; apply B; exact Q]|].
    split; [intros Hk q Q; apply (i_pnd _ _ I Hk q Q)|].
    split; [intros q Q; exists p; first [exact P | reflexivity]|].
    intros X; exfalso; apply X; reflexivity. }
  destruct (B p eq_refl) as [B1 B2].
  destruct (finish_store _ _ _ _ _ H A B1 B2) as [F1 [F2 [F3 F4]]].
  split; [exact F1|]. split; [exact F3|]. split; [exact F2|]. split; [|split; [|split]].
  - intros q Q. destruct (F4 q Q) as [-> F5]. rewrite F3, F5. split; [exact B1 | exact B2].
  - intros Hk q Q. destruct (F4 q Q) as [-> _]. destruct (i_pnd _ _ I Hk p P) as [G1 G2]. cbn [p_ops p_srs].
    split; [exact G1|]. rewrite <- G2. eapply mark_keys; eauto.
  - intros q Q. exists p. reflexivity.
  - intros Hp. destruct (finish_pub _ _ _ _ _ H Hp) as [X Y]. split; [exact X | cbn [p_id] in Y; congruence].
Qed.

(* the invariant after an ack, through after_ack (plain, or with the snapshot write held) *)
Lemma after_ack_inv : forall c s so r pub, Inv c s ->
  completed so <= ctr so /\ ctr so = ctr (sto s) /\ splitters so = splitters (sto s) /\
  (forall p, pend so = Some p -> p_id p = ctr so /\ completed so < ctr so) /\
  (q_keep_pending (qk c) = false /\ q_keep_savepoint (qk c) = false -> forall p, pend so = Some p -> map fst (p_ops p) = a_ops s /\ map fst (p_srs p) = a_srs s) /\
  (forall p, pend so = Some p -> exists p0, pend (sto s) = Some p0) /\
  (pub <> 0 -> pend so = None /\ pub = ctr (sto s)) ->
  Inv c (fst (after_ack s so r pub)).
Proof.
  intros c s so r pub I [F1 [F3 [F2 [F4 [F5 [F6 F7]]]]]]. unfold after_ack.
  pose proof (i_sto _ _ I) as [A B].
  destruct (holdw s && negb (pub =? 0)) eqn:Hh; cbn [fst].
  - apply andb_true_iff in Hh. destruct Hh as [_ Hp]. apply negb_true_iff, N.eqb_neq in Hp.
    destruct (F7 Hp) as [Pn Pc].
    apply with_sto_inv; cbn [completed ctr pend splitters].
    + exact I.
    + lia.
    + rewrite Pn. intros q Q; discriminate.
    + exact F2.
    + rewrite Pn. intros _ q Q; discriminate.
    + intros _. split; [lia|]. rewrite Pn. intros q Q; discriminate.
  - apply set_sto_inv; auto.
    intros W. destruct (i_wr _ _ I W) as [W1 W2]. rewrite F3. split; [exact W1|].
    intros q Q. destruct (F6 q Q) as [p0 P0]. eapply W2; eauto.
Qed.

(* ---------------------------------------------------------------- steps: the state the job evaluates *)
(* [pre c s o] is the state on which evaluateClusterStatus runs in step [o] (None: the step evaluates nothing) *)
Definition pre (c : cfg) (s : st) (o : op) : option st :=
  match o with
  | ORegOp n => Some (MkSt (now s) (ins n (ops s)) (srs s) (hb_set (true, n) (now s) (hb s)) (stat s) (a_ops s) (a_srs s) (dep_ck s) (sto s) (ticker s) (holdw s) (writing s) (pick s))
  | ORegSr n => Some (MkSt (now s) (ops s) (ins n (srs s)) (hb_set (false, n) (now s) (hb s)) (stat s) (a_ops s) (a_srs s) (dep_ck s) (sto s) (ticker s) (holdw s) (writing s) (pick s))
  | ODeregOp n => Some (MkSt (now s) (rem n (ops s)) (srs s) (hb s) (stat s) (a_ops s) (a_srs s) (dep_ck s) (sto s) (ticker s) (holdw s) (writing s) (pick s))
  | ODeregSr n => Some (MkSt (now s) (ops s) (rem n (srs s)) (hb s) (stat s) (a_ops s) (a_srs s) (dep_ck s) (sto s) (ticker s) (holdw s) (writing s) (pick s))
  | OFin ok => match stat s with
               | Starting => Some (if ok then go_running c s else set_stat s Paused)
               | _ => None
               end
  | _ => None
  end.

Lemma step_eval : forall c s o s1, pre c s o = Some s1 ->
  fst (step c s o) = fst (evaluate c s1) /\
  o_deps (snd (step c s o)) = snd (evaluate c s1) /\
  o_status (snd (step c s o)) = status_code (stat (fst (evaluate c s1))).
Proof.
  intros c s o s1 H. destruct o; cbn [pre] in H; try discriminate.
  1-4: inversion H; subst; clear H; cbn [step];
       match goal with |- context [evaluate ?cc ?x] => destruct (evaluate cc x) as [s2 ds] end; cbn; auto.
  destruct (stat s) eqn:E; try discriminate. cbn [step]. rewrite E.
  destruct ok; inversion H; subst; clear H;
    match goal with |- context [evaluate ?cc ?x] => destruct (evaluate cc x) as [s2 ds] end; cbn; auto.
Qed.

Lemma step_noeval : forall c s o, pre c s o = None ->
  o_deps (snd (step c s o)) = [] /\ stat (fst (step c s o)) = stat s /\
  ops (fst (step c s o)) = ops s /\ srs (fst (step c s o)) = srs s /\ hb (fst (step c s o)) = hb s /\
  a_ops (fst (step c s o)) = a_ops s /\ a_srs (fst (step c s o)) = a_srs s.
Proof.
  intros c s o H. destruct o; cbn [pre] in H; try discriminate; cbn [step].
  - cbn. auto 10.
  - destruct (stat s) eqn:E; try discriminate; cbn; auto 10.
  - destruct (ticker s =? 1); cbn; auto 10.
    destruct (create_checkpoint (sto s) (a_ops s) (a_srs s)) as [so [id|]]; cbn; auto 10.
  - destruct (stat s) eqn:E; cbn; auto 10.
    destruct (create_savepoint (sto s) (a_ops s) (a_srs s)) as [so [[id cr]|]]; cbn; auto 10.
  - destruct (ack_op (sto s) n id) as [[so r] pub]. unfold after_ack. destruct (holdw s && negb (pub =? 0)); cbn; auto 10.
  - destruct (ack_sr (sto s) n id) as [[so r] pub]. unfold after_ack. destruct (holdw s && negb (pub =? 0)); cbn; auto 10.
  - destruct (writing s =? 0); cbn; auto 10.
  - destruct (writing s =? 0); cbn; auto 10.
  - cbn. auto 10.
Qed.

Lemma pre_inv : forall c s o s1, Inv c s -> pre c s o = Some s1 -> Inv c s1.
Proof.
  intros c s o s1 I H. destruct o; cbn [pre] in H; try discriminate.
  - inversion H; subst; clear H. destruct I. constructor; cbn [ops srs hb stat a_ops a_srs sto dep_ck now ticker holdw writing pick]; auto.
    + apply sorted_ins; assumption.
    + intros m Hm. apply In_ins in Hm. destruct (N.eq_dec m n) as [->|Hne].
      * exists ((true, n), now s). split; [apply In_hb_set; left; reflexivity | reflexivity].
      * destruct Hm as [->|Hm]; [contradiction|]. destruct (i_hbo0 m Hm) as [e [He Hk]]. exists e. split; [|exact Hk].
        apply In_hb_set. right. split; [exact He|]. rewrite Hk. intros X; inversion X; contradiction.
    + intros m Hm. destruct (i_hbr0 m Hm) as [e [He Hk]]. exists e. split; [|exact Hk].
      apply In_hb_set. right. split; [exact He|]. rewrite Hk. discriminate.
  - inversion H; subst; clear H. destruct I. constructor; cbn [ops srs hb stat a_ops a_srs sto dep_ck now ticker holdw writing pick]; auto.
    + apply sorted_ins; assumption.
    + intros m Hm. destruct (i_hbo0 m Hm) as [e [He Hk]]. exists e. split; [|exact Hk].
      apply In_hb_set. right. split; [exact He|]. rewrite Hk. discriminate.
    + intros m Hm. apply In_ins in Hm. destruct (N.eq_dec m n) as [->|Hne].
      * exists ((false, n), now s). split; [apply In_hb_set; left; reflexivity | reflexivity].
      * destruct Hm as [->|Hm]; [contradiction|]. destruct (i_hbr0 m Hm) as [e [He Hk]]. exists e. split; [|exact Hk].
        apply In_hb_set. right. split; [exact He|]. rewrite Hk. intros X; inversion X; contradiction.
  - inversion H; subst; clear H. destruct I. constructor; cbn [ops srs hb stat a_ops a_srs sto dep_ck now ticker holdw writing pick]; auto.
    + apply sorted_filter; assumption.
    + intros m Hm. apply In_rem in Hm. apply i_hbo0, Hm.
  - inversion H; subst; clear H. destruct I. constructor; cbn [ops srs hb stat a_ops a_srs sto dep_ck now ticker holdw writing pick]; auto.
    + apply sorted_filter; assumption.
    + intros m Hm. apply In_rem in Hm. apply i_hbr0, Hm.
  - destruct (stat s) eqn:E; try discriminate. inversion H; subst; clear H.
    destruct ok; [apply go_running_inv | apply set_stat_inv]; try exact I; congruence.
Qed.

Lemma step_inv : forall c s o, Inv c s -> Inv c (fst (step c s o)).
Proof.
  intros c s o I. destruct (pre c s o) as [s1|] eqn:P.
  - destruct (step_eval c s o s1 P) as [-> _]. apply evaluate_inv. eapply pre_inv; eauto.
  - destruct o; cbn [pre] in P; try discriminate; cbn [step].
    + destruct I. constructor; cbn; auto.
    + destruct (stat s); try discriminate; exact I.
    + destruct (ticker s =? 1) eqn:E; [|exact I].
      unfold create_checkpoint. destruct (pend (sto s)) as [p|] eqn:Pn; [exact I|]. cbn [fst].
      pose proof (i_sto _ _ I) as [A B].
      apply set_sto_inv; cbn [completed ctr pend splitters]; auto; try lia.
      * intros p Hp. inversion Hp; subst. cbn. split; [reflexivity | lia].
      * intros _ p Hp. inversion Hp; subst. cbn. rewrite !map_fst_false. auto.
      * intros W. destruct (i_wr _ _ I W) as [W1 _]. split; [lia | intros; lia].
    + destruct (stat s) eqn:E; try exact I.
      unfold create_savepoint. destruct (pend (sto s)) as [p|] eqn:Pn.
      * destruct (p_sp p); [exact I|]. cbn [fst].
        pose proof (i_sto _ _ I) as [A B]. destruct (B p Pn) as [B1 B2].
        apply set_sto_inv; cbn [completed ctr pend splitters]; auto.
        -- intros q Hq. inversion Hq; subst. cbn. auto.
        -- intros Hk q Hq. inversion Hq; subst. cbn. apply (i_pnd _ _ I Hk p Pn).
        -- intros W. destruct (i_wr _ _ I W) as [W1 W2]. split; [exact W1 | intros q Hq; eapply W2; eauto].
      * cbn [fst]. pose proof (i_sto _ _ I) as [A B].
        apply set_sto_inv; cbn [completed ctr pend splitters]; auto; try lia.
        -- intros p Hp. inversion Hp; subst. cbn. split; [reflexivity | lia].
        -- intros _ p Hp. inversion Hp; subst. cbn. rewrite !map_fst_false. auto.
        -- intros W. destruct (i_wr _ _ I W) as [W1 _]. split; [lia | intros; lia].
    + destruct (ack_op (sto s) n id) as [[so r] pub] eqn:A. apply after_ack_inv; [exact I|]. eapply ack_op_facts; eauto.
    + destruct (ack_sr (sto s) n id) as [[so r] pub] eqn:A. apply after_ack_inv; [exact I|]. eapply ack_sr_facts; eauto.
    + destruct (writing s =? 0) eqn:W; [|exact I]. cbn [fst].
      destruct I. constructor; cbn [ops srs hb stat a_ops a_srs sto dep_ck now ticker holdw writing pick]; auto.
      intros X. exfalso. apply X. reflexivity.
    + destruct (writing s =? 0) eqn:W; [exact I|]. cbn [fst]. apply N.eqb_neq in W.
      pose proof (i_sto _ _ I) as [A B]. destruct (i_wr _ _ I W) as [W1 W2].
      destruct (q_install_superseded (qk c) || (completed (sto s) <? writing s)).
      * apply with_sto_inv; cbn [completed ctr pend splitters]; auto.
        -- intros q Q. destruct (B q Q) as [B1 _]. split; [exact B1 | eapply W2; eauto].
        -- apply (i_pnd _ _ I).
        -- intros X. exfalso. apply X. reflexivity.
      * apply with_sto_inv; auto.
        -- apply (i_pnd _ _ I).
        -- intros X. exfalso. apply X. reflexivity.
    + cbn [fst]. destruct I. constructor; cbn [ops srs hb stat a_ops a_srs sto dep_ck now ticker holdw writing pick]; auto.
Qed.

Lemma run_fst_app : forall c l s, fst (run c s l) = fold_left (fun s o => fst (step c s o)) l s.
Proof.
  intros c l. induction l as [|o t IH]; intros s; cbn [run fold_left]; [reflexivity|].
  destruct (step c s o) as [s1 b] eqn:E. specialize (IH s1). destruct (run c s1 t) as [s2 bs]. cbn [fst] in *. exact IH.
Qed.

Lemma run_inv : forall c l s, Inv c s -> Inv c (fst (run c s l)).
Proof.
  intros c l. induction l as [|o t IH]; intros s I; cbn [run]; [exact I|].
  destruct (step c s o) as [s1 b] eqn:E. specialize (IH s1).
  destruct (run c s1 t) as [s2 bs]. cbn [fst] in *. apply IH. change s1 with (fst (s1, b)). rewrite <- E. apply step_inv, I.
Qed.

Lemma exec_inv : forall c l, Inv c (exec c l).
Proof. intros c l. unfold exec. apply run_inv, inv_init. Qed.

(* ---------------------------------------------------------------- T1: deploy only to a full, live assembly *)
(* registered and within the heartbeat deadline, in state s *)
Definition live_in (c : cfg) (s : st) (k : key) : Prop :=
  exists t, hb_get k (hb s) = Some t /\ now s <= t + deadline c.

Lemma purged_live : forall c s k e, In e (hb (purge c s)) -> fst e = k -> live_in c (purge c s) k.
Proof.
  intros c s k e He Hk. destruct (hb_get_some k _ e He Hk) as [t Ht]. exists t. split; [exact Ht|].
  apply hb_get_In in Ht. cbn [purge hb] in Ht. apply filter_In in Ht. destruct Ht as [_ Hx].
  apply negb_true_iff in Hx. unfold expired in Hx. cbn [snd] in Hx. apply N.ltb_ge in Hx. cbn [purge now]. exact Hx.
Qed.

Lemma purged_live_op : forall c s n, Inv c s -> In n (ops (purge c s)) -> live_in c (purge c s) (true, n).
Proof.
  intros c s n I H. destruct (i_hbo _ _ (purge_inv _ _ I) n H) as [e [He Hk]]. eapply purged_live; eauto.
Qed.
Lemma purged_live_sr : forall c s n, Inv c s -> In n (srs (purge c s)) -> live_in c (purge c s) (false, n).
Proof.
  intros c s n I H. destruct (i_hbr _ _ (purge_inv _ _ I) n H) as [e [He Hk]]. eapply purged_live; eauto.
Qed.

Record dep_ok (c : cfg) (s' : st) (d : dep) : Prop := MkDepOk {
  k_stat : stat s' = Starting;
  k_ops : d_ops d = a_ops s';
  k_srs : d_srs d = a_srs s';
  k_lo : length (d_ops d) = wc c;
  k_lr : length (d_srs d) = wc c;
  k_ndo : NoDup (d_ops d);
  k_ndr : NoDup (d_srs d);
  k_liveo : forall n, In n (d_ops d) -> In n (ops s') /\ live_in c s' (true, n);
  k_liver : forall n, In n (d_srs d) -> In n (srs s') /\ live_in c s' (false, n);
  k_ck : d_ck d = map (fun _ => completed (sto s')) (d_ops d);
  k_depck : dep_ck s' = completed (sto s');
  k_peers : d_peers d = true;
  k_pend : q_keep_pending (qk c) = false -> q_keep_savepoint (qk c) = false -> pend (sto s') = None
}.

(* every registered node of the state is within the heartbeat deadline (true right after the purge) *)
Definition fresh (c : cfg) (sp : st) : Prop :=
  (forall n, In n (ops sp) -> live_in c sp (true, n)) /\ (forall n, In n (srs sp) -> live_in c sp (false, n)).

Lemma purge_fresh : forall c s, Inv c s -> fresh c (purge c s).
Proof. intros c s I. split; intros n H; [apply purged_live_op | apply purged_live_sr]; assumption. Qed.

Lemma set_stat_fresh : forall c sp x, fresh c sp -> fresh c (set_stat sp x).
Proof. intros c sp x [A B]. split; intros n H; [apply (A n H) | apply (B n H)]. Qed.

Lemma start_begin_deps : forall c sp, Inv c sp -> fresh c sp ->
  (wc c <= length (ops sp))%nat -> (wc c <= length (srs sp))%nat ->
  forall d, In d (snd (start_begin c sp)) -> dep_ok c (fst (start_begin c sp)) d.
Proof.
  intros c sp Ip [Fo Fr] Ho Hr d Hd.
  cbn [start_begin snd] in Hd. destruct Hd as [<-|[]].
  unfold start_begin. constructor; cbn [fst d_ops d_srs d_ck d_peers stat a_ops a_srs ops srs hb now sto completed dep_ck]; auto.
  - apply (choose_ops_spec c sp (i_sops _ _ Ip) Ho).
  - apply (choose_srs_spec c sp (i_ssrs _ _ Ip) Hr).
  - apply sorted_NoDup, (choose_ops_spec c sp (i_sops _ _ Ip) Ho).
  - apply sorted_NoDup, (choose_srs_spec c sp (i_ssrs _ _ Ip) Hr).
  - intros n Hn. apply (choose_ops_spec c sp (i_sops _ _ Ip) Ho) in Hn. split; [exact Hn|]. apply (Fo n Hn).
  - intros n Hn. apply (choose_srs_spec c sp (i_ssrs _ _ Ip) Hr) in Hn. split; [exact Hn|]. apply (Fr n Hn).
  - intros Q1 Q2. cbn [pend]. rewrite Q1, Q2. cbn [andb]. destruct (pend (sto sp)); reflexivity.
Qed.

Lemma try_assemble_deps : forall c sp d, Inv c sp -> fresh c sp -> In d (snd (try_assemble c sp)) ->
  snd (try_assemble c sp) = [d] /\ dep_ok c (fst (try_assemble c sp)) d.
Proof.
  intros c sp d I F Hd. unfold try_assemble in *.
  destruct (Nat.ltb (length (srs sp)) (wc c) || Nat.ltb (length (ops sp)) (wc c)) eqn:C; [contradiction|].
  apply orb_false_iff in C. destruct C as [C1 C2]. apply PeanoNat.Nat.ltb_ge in C1, C2.
  split; [|apply (start_begin_deps c sp I F C2 C1 d Hd)].
  cbn [start_begin snd] in *. destruct Hd as [<-|[]]. reflexivity.
Qed.

Lemma evaluate_deps : forall c s d, Inv c s -> In d (snd (evaluate c s)) ->
  snd (evaluate c s) = [d] /\ dep_ok c (fst (evaluate c s)) d.
Proof.
  intros c s d I Hd. pose proof (purge_inv _ _ I) as Ip. pose proof (purge_fresh _ _ I) as Fp.
  unfold evaluate in *. set (sp := purge c s) in *.
  destruct (stat sp) eqn:E; cbn [snd] in Hd; try contradiction.
  - apply try_assemble_deps; assumption.
  - apply try_assemble_deps; assumption.
  - destruct (healthy sp); [contradiction|].
    destruct (pick sp); [|contradiction].
    apply try_assemble_deps; [apply set_stat_inv; [exact Ip | congruence] | apply set_stat_fresh, Fp | exact Hd].
Qed.

Lemma step_deps : forall c s o d, Inv c s -> In d (o_deps (snd (step c s o))) ->
  o_deps (snd (step c s o)) = [d] /\ dep_ok c (fst (step c s o)) d.
Proof.
  intros c s o d I Hd. destruct (pre c s o) as [s1|] eqn:P.
  - destruct (step_eval c s o s1 P) as [E1 [E2 _]]. rewrite E2 in *. rewrite E1.
    destruct (evaluate_deps c s1 d (pre_inv _ _ _ _ I P) Hd) as [A B]. auto.
  - destruct (step_noeval c s o P) as [E _]. rewrite E in Hd. contradiction.
Qed.

(* ---------------------------------------------------------------- T2: an unhealthy assembly is not used *)
Lemma evaluate_running : forall c s, Inv c s -> stat (fst (evaluate c s)) = Running ->
  let s' := fst (evaluate c s) in
  (forall n, In n (a_ops s') -> In n (ops s') /\ live_in c s' (true, n)) /\
  (forall n, In n (a_srs s') -> In n (srs s') /\ live_in c s' (false, n)).
Proof.
  intros c s I H. unfold evaluate in *. set (sp := purge c s) in *.
  destruct (stat sp) eqn:E.
  - unfold try_assemble in H. destruct (Nat.ltb (length (srs sp)) (wc c) || Nat.ltb (length (ops sp)) (wc c)); cbn [fst start_begin stat] in H; congruence.
  - unfold try_assemble in H. destruct (Nat.ltb (length (srs sp)) (wc c) || Nat.ltb (length (ops sp)) (wc c)); cbn [fst start_begin stat] in H; congruence.
  - cbn [fst] in H. congruence.
  - destruct (healthy sp) eqn:Hh.
    2:{ exfalso. destruct (pick sp); [|cbn [fst set_stat stat] in H; discriminate].
        unfold try_assemble in H.
        destruct (Nat.ltb (length (srs (set_stat sp Paused))) (wc c) || Nat.ltb (length (ops (set_stat sp Paused))) (wc c));
          cbn [fst start_begin set_stat stat] in H; discriminate. }
    cbn [fst].
    unfold healthy in Hh. apply andb_true_iff in Hh. destruct Hh as [Hr Ho]. rewrite forallb_forall in Hr, Ho.
    split; intros n Hn.
    + specialize (Ho n Hn). apply mem_In in Ho. split; [exact Ho | apply purged_live_op; assumption].
    + specialize (Hr n Hn). apply mem_In in Hr. split; [exact Hr | apply purged_live_sr; assumption].
Qed.

Lemma unhealthy_paused : forall c s, stat s = Running ->
  ((exists n, In n (a_ops s) /\ ~ In n (ops (purge c s))) \/ (exists n, In n (a_srs s) /\ ~ In n (srs (purge c s)))) ->
  stat (fst (evaluate c s)) = Paused \/ stat (fst (evaluate c s)) = Starting.
Proof.
  intros c s E H. unfold evaluate. set (sp := purge c s) in *. change (stat sp) with (stat s). rewrite E.
  assert (Hh : healthy sp = false).
  { unfold healthy. destruct H as [[n [Hn Hx]]|[n [Hn Hx]]].
    - apply andb_false_iff. right. apply not_true_iff_false. intros F. rewrite forallb_forall in F.
      specialize (F n Hn). apply mem_In in F. contradiction.
    - apply andb_false_iff. left. apply not_true_iff_false. intros F. rewrite forallb_forall in F.
      specialize (F n Hn). apply mem_In in F. contradiction. }
  rewrite Hh. destruct (pick sp); [|left; reflexivity].
  unfold try_assemble.
  destruct (Nat.ltb (length (srs (set_stat sp Paused))) (wc c) || Nat.ltb (length (ops (set_stat sp Paused))) (wc c));
    [left | right]; reflexivity.
Qed.

Lemma dead_not_in_purged_op : forall c s n t, In ((true, n), t) (hb s) -> t + deadline c < now s -> ~ In n (ops (purge c s)).
Proof.
  intros c s n t Hin Hlt H. cbn [purge ops] in H. apply filter_In in H. destruct H as [_ H]. apply negb_true_iff in H.
  assert (X : is_dead c s (true, n) = true).
  { unfold is_dead. apply existsb_exists. exists ((true, n), t). split; [exact Hin|].
    cbn [fst]. rewrite key_eqb_refl. unfold expired. cbn [snd]. apply N.ltb_lt in Hlt. rewrite Hlt. reflexivity. }
  congruence.
Qed.
Lemma dead_not_in_purged_sr : forall c s n t, In ((false, n), t) (hb s) -> t + deadline c < now s -> ~ In n (srs (purge c s)).
Proof.
  intros c s n t Hin Hlt H. cbn [purge srs] in H. apply filter_In in H. destruct H as [_ H]. apply negb_true_iff in H.
  assert (X : is_dead c s (false, n) = true).
  { unfold is_dead. apply existsb_exists. exists ((false, n), t). split; [exact Hin|].
    cbn [fst]. rewrite key_eqb_refl. unfold expired. cbn [snd]. apply N.ltb_lt in Hlt. rewrite Hlt. reflexivity. }
  congruence.
Qed.

(* what [pre] keeps of the state when the op is not a (re-)registration of key k *)
Lemma pre_keeps : forall c s o s1 k t, pre c s o = Some s1 -> stat s = Running ->
  (forall n, o = ORegOp n -> k <> (true, n)) -> (forall n, o = ORegSr n -> k <> (false, n)) ->
  In (k, t) (hb s) ->
  In (k, t) (hb s1) /\ now s1 = now s /\ stat s1 = Running /\ a_ops s1 = a_ops s /\ a_srs s1 = a_srs s.
Proof.
  intros c s o s1 k t P E H1 H2 Hin. destruct o; cbn [pre] in P; try discriminate.
  - inversion P; subst; clear P. cbn. repeat split; auto. apply In_hb_set. right. split; [exact Hin|]. cbn. intros X. eapply H1; eauto.
  - inversion P; subst; clear P. cbn. repeat split; auto. apply In_hb_set. right. split; [exact Hin|]. cbn. intros X. eapply H2; eauto.
  - inversion P; subst; clear P. cbn. auto.
  - inversion P; subst; clear P. cbn. auto.
  - rewrite E in P. discriminate.
Qed.

(* ---------------------------------------------------------------- T3: latest checkpoint *)
Definition pub_cases (old new pub : N) : Prop :=
  (pub = 0 /\ new = old) \/ (pub <> 0 /\ new = pub /\ old < pub).

Lemma finish_completed : forall so p so' r pub,
  finish_if_complete so p = (so', r, pub) -> p_id p = ctr so -> completed so < ctr so ->
  pub_cases (completed so) (completed so') pub.
Proof.
  intros so p so' r pub H A B. unfold finish_if_complete in H.
  destruct (complete p); [destruct (splitters so =? 1)|]; inversion H; subst; cbn [completed].
  - right. split; [lia|]. split; [reflexivity | lia].
  - left. auto.
  - left. auto.
Qed.

Lemma ack_op_completed : forall c s n id so r pub, Inv c s -> ack_op (sto s) n id = (so, r, pub) ->
  pub_cases (completed (sto s)) (completed so) pub.
Proof.
  intros c s n id so r pub I H. pose proof (i_sto _ _ I) as [A B]. unfold ack_op in H.
  destruct (pend (sto s)) as [p|] eqn:P; [|inversion H; subst; left; auto].
  destruct (negb (p_id p =? id)); [inversion H; subst; left; auto|].
  destruct (B p eq_refl) as [B1 B2].
  eapply finish_completed; [exact H | | exact B2].
  destruct (mark n (p_ops p)); cbn; exact B1.
Qed.

Lemma ack_sr_completed : forall c s n id so r pub, Inv c s -> ack_sr (sto s) n id = (so, r, pub) ->
  pub_cases (completed (sto s)) (completed so) pub.
Proof.
  intros c s n id so r pub I H. pose proof (i_sto _ _ I) as [A B]. unfold ack_sr in H.
  destruct (pend (sto s)) as [p|] eqn:P; [|inversion H; subst; left; auto].
  destruct (negb (p_id p =? id)); [inversion H; subst; left; auto|].
  destruct (mark n (p_srs p)) as [l|]; [|inversion H; subst; left; auto].
  destruct (B p eq_refl) as [B1 B2].
  eapply finish_completed; [exact H | exact B1 | exact B2].
Qed.

Lemma after_ack_completed : forall s so r pub,
  pub_cases (completed (sto s)) (completed so) pub ->
  pub_cases (completed (sto s)) (completed (sto (fst (after_ack s so r pub)))) (o_published (snd (after_ack s so r pub))).
Proof.
  intros s so r pub H. unfold after_ack. destruct (holdw s && negb (pub =? 0)); cbn.
  - left. auto.
  - exact H.
Qed.

(* every step either publishes nothing and leaves the current checkpoint alone, or publishes a strictly newer one that
   becomes current (the snapshot of a write that returns late is not installed over a newer one) *)
Lemma step_pub_cases : forall c s o, Inv c s -> q_install_superseded (qk c) = false ->
  pub_cases (completed (sto s)) (completed (sto (fst (step c s o)))) (o_published (snd (step c s o))).
Proof.
  intros c s o I Q.
  assert (EV : forall s1, completed (sto (fst (evaluate c s1))) = completed (sto s1)).
  { intros s1. unfold evaluate, try_assemble. set (sp := purge c s1). change (completed (sto s1)) with (completed (sto sp)).
    destruct (stat sp); try reflexivity.
    - destruct (Nat.ltb _ _ || Nat.ltb _ _); reflexivity.
    - destruct (Nat.ltb _ _ || Nat.ltb _ _); reflexivity.
    - destruct (healthy sp); [reflexivity|]. destruct (pick sp); [|reflexivity].
      destruct (Nat.ltb _ _ || Nat.ltb _ _); reflexivity. }
  destruct o; cbn [step].
  1-4: match goal with |- context [evaluate ?cc ?x] => pose proof (EV x) as X; destruct (evaluate cc x) as [s2 ds] end;
       cbn [fst snd o_published mk_obs] in *; rewrite X; cbn; left; auto.
  - cbn. left. auto.
  - destruct (stat s); try (cbn; left; auto; fail).
    destruct ok; match goal with |- context [evaluate ?cc ?x] => pose proof (EV x) as X; destruct (evaluate cc x) as [s2 ds] end;
      cbn [fst snd o_published mk_obs] in *; rewrite X; cbn; left; auto.
  - destruct (ticker s =? 1); try (cbn; left; auto; fail).
    unfold create_checkpoint. destruct (pend (sto s)); cbn; left; auto.
  - destruct (stat s); try (cbn; left; auto; fail).
    unfold create_savepoint. destruct (pend (sto s)) as [p|]; [destruct (p_sp p)|]; cbn; left; auto.
  - destruct (ack_op (sto s) n id) as [[so r] pub] eqn:A. apply after_ack_completed. eapply ack_op_completed; eauto.
  - destruct (ack_sr (sto s) n id) as [[so r] pub] eqn:A. apply after_ack_completed. eapply ack_sr_completed; eauto.
  - destruct (writing s =? 0); cbn; left; auto.
  - destruct (writing s =? 0) eqn:W; [cbn; left; auto|]. apply N.eqb_neq in W. rewrite Q. cbn [orb].
    destruct (completed (sto s) <? writing s) eqn:L; cbn.
    + apply N.ltb_lt in L. right. auto.
    + left. auto.
  - cbn. left. auto.
Qed.

Lemma step_completed : forall c s o, Inv c s -> q_install_superseded (qk c) = false ->
  completed (sto s) <= completed (sto (fst (step c s o))) /\
  (o_published (snd (step c s o)) <> 0 ->
     completed (sto (fst (step c s o))) = o_published (snd (step c s o)) /\ completed (sto s) < o_published (snd (step c s o))).
Proof.
  intros c s o I Q. destruct (step_pub_cases c s o I Q) as [[P E]|[P [E L]]].
  - split; [lia | intros X; contradiction].
  - split; [lia | auto].
Qed.

(* the current checkpoint is the greatest id ever published (0 if none) *)
Definition max_pub (bs : list obs) (start : N) : N := fold_left (fun m b => N.max m (o_published b)) bs start.

Lemma run_max_pub : forall c l s, Inv c s -> q_install_superseded (qk c) = false ->
  completed (sto (fst (run c s l))) = max_pub (snd (run c s l)) (completed (sto s)).
Proof.
  intros c l. induction l as [|o t IH]; intros s I Q; cbn [run]; [reflexivity|].
  pose proof (step_pub_cases c s o I Q) as PC. pose proof (step_inv c s o I) as I1.
  destruct (step c s o) as [s1 b] eqn:E. cbn [fst snd] in *. specialize (IH s1 I1 Q).
  destruct (run c s1 t) as [s2 bs]. cbn [fst snd max_pub fold_left] in *. rewrite IH. unfold max_pub. f_equal.
  destruct PC as [[P X]|[P [X L]]]; rewrite X; lia.
Qed.

(* ---------------------------------------------------------------- T4: acks of all members complete the checkpoint *)
Lemma all_true_spec : forall l, all_true l = true <-> forall m, ~ In (m, false) l.
Proof.
  intros l. unfold all_true. rewrite forallb_forall. split.
  - intros H m Hin. specialize (H _ Hin). discriminate.
  - intros H [m b] Hin. destruct b; [reflexivity|]. exfalso. eapply H; eauto.
Qed.

Lemma mark_spec : forall n l, NoDup (map fst l) -> In (n, false) l ->
  exists l2, mark n l = Some l2 /\ map fst l2 = map fst l /\
             (forall m b, In (m, b) l2 <-> (m = n /\ b = true) \/ (m <> n /\ In (m, b) l)).
Proof.
  intros n l. induction l as [|[y b0] t IH]; intros ND Hin; [contradiction|].
  cbn [map fst] in ND. inversion ND as [|? ? Hy NDt]; subst. cbn [mark].
  destruct (n =? y) eqn:E.
  - apply N.eqb_eq in E. subst y.
    assert (b0 = false).
    { destruct Hin as [X|X]; [inversion X; reflexivity|]. exfalso. apply Hy. apply in_map_iff. exists (n, false). auto. }
    subst b0. exists ((n, true) :: t). split; [reflexivity|]. split; [reflexivity|].
    intros m b. cbn [In]. split.
    + intros [X|X]; [inversion X; subst; left; auto|]. right. split; [|right; exact X].
      intros ->. apply Hy. apply in_map_iff. exists (n, b). auto.
    + intros [[-> ->]|[Hne [X|X]]]; [left; reflexivity | inversion X; subst; contradiction | right; exact X].
  - apply N.eqb_neq in E. destruct Hin as [X|X]; [inversion X; subst; contradiction|].
    destruct (IH NDt X) as [t2 [M [K C]]]. rewrite M. exists ((y, b0) :: t2). split; [reflexivity|].
    split; [cbn [map fst]; rewrite K; reflexivity|].
    intros m b. cbn [In]. rewrite C. split.
    + intros [Y|[Y|Y]]; [inversion Y; subst; right; split; [congruence | left; reflexivity] | left; exact Y | right; destruct Y; split; auto].
    + intros [Y|[Hne [Y|Y]]]; [right; left; exact Y | left; exact Y | right; right; auto].
Qed.

Definition ack_of (id : N) (p : pending) (a : op) : Prop :=
  (exists n, a = OAckOp n id /\ In (n, false) (p_ops p)) \/ (exists n, a = OAckSr n id /\ In (n, false) (p_srs p)).

Lemma complete_spec : forall id p, complete p = true <-> forall a, ~ ack_of id p a.
Proof.
  intros id p. unfold complete. rewrite andb_true_iff, !all_true_spec. split.
  - intros [Hr Ho] a [[n [_ H]]|[n [_ H]]]; [eapply Ho | eapply Hr]; eauto.
  - intros H. split; intros m Hin.
    + apply (H (OAckSr m id)). right. eauto.
    + apply (H (OAckOp m id)). left. eauto.
Qed.

Lemma acks_complete : forall c l s p id,
  holdw s = false ->
  pend (sto s) = Some p -> p_id p = id -> splitters (sto s) = 1 ->
  NoDup (map fst (p_ops p)) -> NoDup (map fst (p_srs p)) ->
  NoDup l -> (forall a, In a l <-> ack_of id p a) -> l <> [] ->
  pend (sto (fst (run c s l))) = None /\ completed (sto (fst (run c s l))) = id /\
  Forall (fun b => o_res b = 0) (snd (run c s l)) /\ (exists b, In b (snd (run c s l)) /\ o_published b = id) /\
  stat (fst (run c s l)) = stat s /\ a_ops (fst (run c s l)) = a_ops s /\ a_srs (fst (run c s l)) = a_srs s.
Proof.
  intros c l. induction l as [|a l' IH]; intros s p id Hw P Pid Spl NDo NDr ND Hl Hne; [contradiction|].
  inversion ND as [|? ? Ha NDl]; subst.
  (* the state after the first ack, in both cases: a pending snapshot p' whose unacked members are exactly l' *)
  assert (STEP : exists p',
            p_id p' = p_id p /\ NoDup (map fst (p_ops p')) /\ NoDup (map fst (p_srs p')) /\
            (forall a', In a' l' <-> ack_of (p_id p) p' a') /\
            step c s a = (let '(so, r, pub) := finish_if_complete (sto s) p' in
                          (set_sto s so, MkObs (status_code (stat s)) [] [] 0 r pub 0))).
  { destruct (proj1 (Hl a) (or_introl eq_refl)) as [[n [-> Hin]]|[n [-> Hin]]].
    - destruct (mark_spec n (p_ops p) NDo Hin) as [l2 [M [K C]]].
      exists (MkPending (p_id p) l2 (p_srs p) (p_sp p)). cbn [p_id p_ops p_srs]. split; [reflexivity|]. split; [rewrite K; exact NDo|]. split; [exact NDr|]. split.
      + intros a'. split.
        * intros Hin'. assert (Hne' : a' <> OAckOp n (p_id p)) by (intros ->; contradiction).
          destruct (proj1 (Hl a') (or_intror Hin')) as [[m [-> Hm]]|[m [-> Hm]]].
          -- left. exists m. split; [reflexivity|]. cbn [p_ops]. apply C. right. split; [congruence | exact Hm].
          -- right. exists m. auto.
        * intros [[m [-> Hm]]|[m [-> Hm]]].
          -- cbn [p_ops] in Hm. apply C in Hm. destruct Hm as [[_ X]|[Hmn Hm]]; [discriminate|].
             destruct (proj2 (Hl (OAckOp m (p_id p))) (or_introl (ex_intro _ m (conj eq_refl Hm)))) as [X|X]; [inversion X; congruence | exact X].
          -- cbn [p_srs] in Hm.
             destruct (proj2 (Hl (OAckSr m (p_id p))) (or_intror (ex_intro _ m (conj eq_refl Hm)))) as [X|X]; [discriminate | exact X].
      + cbn [step]. unfold ack_op. rewrite P, N.eqb_refl. cbn [negb]. rewrite M.
        destruct (finish_if_complete (sto s) (MkPending (p_id p) l2 (p_srs p) (p_sp p))) as [[so r] pub].
        unfold after_ack. rewrite Hw. reflexivity.
    - destruct (mark_spec n (p_srs p) NDr Hin) as [l2 [M [K C]]].
      exists (MkPending (p_id p) (p_ops p) l2 (p_sp p)). cbn [p_id p_ops p_srs]. split; [reflexivity|]. split; [exact NDo|]. split; [rewrite K; exact NDr|]. split.
      + intros a'. split.
        * intros Hin'. assert (Hne' : a' <> OAckSr n (p_id p)) by (intros ->; contradiction).
          destruct (proj1 (Hl a') (or_intror Hin')) as [[m [-> Hm]]|[m [-> Hm]]].
          -- left. exists m. auto.
          -- right. exists m. split; [reflexivity|]. cbn [p_srs]. apply C. right. split; [congruence | exact Hm].
        * intros [[m [-> Hm]]|[m [-> Hm]]].
          -- cbn [p_ops] in Hm.
             destruct (proj2 (Hl (OAckOp m (p_id p))) (or_introl (ex_intro _ m (conj eq_refl Hm)))) as [X|X]; [discriminate | exact X].
          -- cbn [p_srs] in Hm. apply C in Hm. destruct Hm as [[_ X]|[Hmn Hm]]; [discriminate|].
             destruct (proj2 (Hl (OAckSr m (p_id p))) (or_intror (ex_intro _ m (conj eq_refl Hm)))) as [X|X]; [inversion X; congruence | exact X].
      + cbn [step]. unfold ack_sr. rewrite P, N.eqb_refl. cbn [negb]. rewrite M.
        destruct (finish_if_complete (sto s) (MkPending (p_id p) (p_ops p) l2 (p_sp p))) as [[so r] pub].
        unfold after_ack. rewrite Hw. reflexivity. }
  destruct STEP as [p' [Pid' [NDo' [NDr' [Hl' St]]]]].
  cbn [run]. rewrite St. clear St. unfold finish_if_complete.
  destruct (complete p') eqn:Cp.
  - (* complete: no ack is left *)
    assert (l' = []).
    { destruct l' as [|a' t]; [reflexivity|]. exfalso.
      apply (proj1 (complete_spec (p_id p) p') Cp a'). apply Hl'. left. reflexivity. }
    subst l'. rewrite Spl. cbn [N.eqb Pos.eqb run fst snd set_sto sto pend completed stat a_ops a_srs].
    split; [reflexivity|]. split; [congruence|]. split; [constructor; [reflexivity | constructor]|].
    split; [eexists; split; [left; reflexivity | cbn; congruence]|]. auto.
  - (* not complete: some ack is left, continue *)
    assert (Hne' : l' <> []).
    { intros ->. assert (X : complete p' = true); [|congruence].
      apply (complete_spec (p_id p)). intros a' Ha'. apply Hl' in Ha'. contradiction. }
    set (s1 := set_sto s (MkStore (Some p') (completed (sto s)) (ctr (sto s)) (splitters (sto s)))).
    assert (P1 : pend (sto s1) = Some p') by reflexivity.
    assert (Spl1 : splitters (sto s1) = 1) by exact Spl.
    assert (Hw1 : holdw s1 = false) by exact Hw.
    specialize (IH s1 p' (p_id p) Hw1 P1 Pid' Spl1 NDo' NDr' NDl Hl' Hne').
    destruct (run c s1 l') as [s2 bs] eqn:R. cbn [fst snd] in *.
    destruct IH as [A [B [C [[b [Hb1 Hb2]] [D [E F]]]]]].
    split; [exact A|]. split; [congruence|]. split; [constructor; [reflexivity | exact C]|].
    split; [exists b; split; [right; exact Hb1 | congruence]|]. auto.
Qed.

(* ================================================================ the C15 theorems *)

(* T1 *)
Lemma deploy_only_full_live_proof : forall c l o d,
  let s' := fst (step c (exec c l) o) in
  In d (o_deps (snd (step c (exec c l) o))) ->
  length (d_ops d) = wc c /\ length (d_srs d) = wc c /\ NoDup (d_ops d) /\ NoDup (d_srs d) /\
  (forall n, In n (d_ops d) -> In n (ops s') /\ live_in c s' (true, n)) /\
  (forall n, In n (d_srs d) -> In n (srs s') /\ live_in c s' (false, n)).
Proof.
  intros c l o d s' Hd. destruct (step_deps c (exec c l) o d (exec_inv c l) Hd) as [_ K]. destruct K. auto 10.
Qed.

(* T2 *)
Lemma running_only_live_proof : forall c l o s1,
  pre c (exec c l) o = Some s1 ->
  let s' := fst (step c (exec c l) o) in
  stat s' = Running ->
  (forall n, In n (a_ops s') -> In n (ops s') /\ live_in c s' (true, n)) /\
  (forall n, In n (a_srs s') -> In n (srs s') /\ live_in c s' (false, n)).
Proof.
  intros c l o s1 P s' H. unfold s' in *. destruct (step_eval c _ o s1 P) as [E _]. rewrite E in *.
  apply evaluate_running; [eapply pre_inv; [apply exec_inv | exact P] | exact H].
Qed.

Lemma deregistered_operator_pauses_proof : forall c l n,
  stat (exec c l) = Running -> In n (a_ops (exec c l)) -> stat (fst (step c (exec c l) (ODeregOp n))) = Paused \/ stat (fst (step c (exec c l) (ODeregOp n))) = Starting.
Proof.
  intros c l n E Hn. set (s := exec c l) in *.
  destruct (step_eval c s (ODeregOp n) _ eq_refl) as [-> _]. apply unhealthy_paused; [exact E|].
  left. exists n. split; [exact Hn|]. cbn [purge ops]. intros X. apply filter_In in X. destruct X as [X _].
  apply In_rem in X. destruct X as [_ X]. contradiction.
Qed.

Lemma deregistered_runner_pauses_proof : forall c l n,
  stat (exec c l) = Running -> In n (a_srs (exec c l)) -> stat (fst (step c (exec c l) (ODeregSr n))) = Paused \/ stat (fst (step c (exec c l) (ODeregSr n))) = Starting.
Proof.
  intros c l n E Hn. set (s := exec c l) in *.
  destruct (step_eval c s (ODeregSr n) _ eq_refl) as [-> _]. apply unhealthy_paused; [exact E|].
  right. exists n. split; [exact Hn|]. cbn [purge srs]. intros X. apply filter_In in X. destruct X as [X _].
  apply In_rem in X. destruct X as [_ X]. contradiction.
Qed.

Lemma expired_operator_pauses_proof : forall c l n t o s1,
  stat (exec c l) = Running -> In n (a_ops (exec c l)) ->
  hb_get (true, n) (hb (exec c l)) = Some t -> t + deadline c < now (exec c l) ->
  pre c (exec c l) o = Some s1 -> o <> ORegOp n ->
  stat (fst (step c (exec c l) o)) = Paused \/ stat (fst (step c (exec c l) o)) = Starting.
Proof.
  intros c l n t o s1 E Hn Hg Hlt P Hne. set (s := exec c l) in *.
  destruct (step_eval c s o s1 P) as [-> _].
  destruct (pre_keeps c s o s1 (true, n) t P E) as [K1 [K2 [K3 [K4 K5]]]].
  - intros m -> X. inversion X; subst. contradiction.
  - intros m _ X. discriminate.
  - apply hb_get_In, Hg.
  - apply unhealthy_paused; [exact K3|]. left. exists n. split; [rewrite K4; exact Hn|].
    eapply dead_not_in_purged_op; [exact K1 | rewrite K2; exact Hlt].
Qed.

Lemma expired_runner_pauses_proof : forall c l n t o s1,
  stat (exec c l) = Running -> In n (a_srs (exec c l)) ->
  hb_get (false, n) (hb (exec c l)) = Some t -> t + deadline c < now (exec c l) ->
  pre c (exec c l) o = Some s1 -> o <> ORegSr n ->
  stat (fst (step c (exec c l) o)) = Paused \/ stat (fst (step c (exec c l) o)) = Starting.
Proof.
  intros c l n t o s1 E Hn Hg Hlt P Hne. set (s := exec c l) in *.
  destruct (step_eval c s o s1 P) as [-> _].
  destruct (pre_keeps c s o s1 (false, n) t P E) as [K1 [K2 [K3 [K4 K5]]]].
  - intros m _ X. discriminate.
  - intros m -> X. inversion X; subst. contradiction.
  - apply hb_get_In, Hg.
  - apply unhealthy_paused; [exact K3|]. right. exists n. split; [rewrite K5; exact Hn|].
    eapply dead_not_in_purged_sr; [exact K1 | rewrite K2; exact Hlt].
Qed.

(* the checkpoint ticker is alive exactly while the job is Running: created by every start that succeeds, stopped by
   every pause (Running -> Paused and failed start) *)
Lemma ticker_armed_iff_running_proof : forall c l,
  q_ticker_once (qk c) = false -> (ticker (exec c l) = 1 <-> stat (exec c l) = Running).
Proof. intros c l Q. apply (i_tk _ _ (exec_inv c l) Q). Qed.

Lemma tick_only_running_proof : forall c l,
  q_ticker_once (qk c) = false ->
  o_started (snd (step c (exec c l) OTick)) <> [] ->
  stat (exec c l) = Running /\ o_started (snd (step c (exec c l) OTick)) = a_srs (exec c l).
Proof.
  intros c l Q H. set (s := exec c l) in *. cbn [step] in *.
  destruct (ticker s =? 1) eqn:T; [|cbn in H; contradiction].
  apply N.eqb_eq in T. split; [apply (ticker_armed_iff_running_proof c l Q), T|].
  destruct (create_checkpoint (sto s) (a_ops s) (a_srs s)) as [so [id|]]; cbn in *; [auto | contradiction].
Qed.

(* T3 *)
Lemma redeploy_from_latest_proof : forall c l o d,
  let s' := fst (step c (exec c l) o) in
  In d (o_deps (snd (step c (exec c l) o))) ->
  stat s' = Starting /\ d_ops d = a_ops s' /\ d_srs d = a_srs s' /\
  d_ck d = map (fun _ => completed (sto s')) (d_ops d) /\ dep_ck s' = completed (sto s').
Proof.
  intros c l o d s' Hd. destruct (step_deps c (exec c l) o d (exec_inv c l) Hd) as [_ K]. destruct K. auto 10.
Qed.

Lemma splitter_resumes_from_deployed_checkpoint_proof : forall c s,
  stat s = Starting -> o_split (snd (step c s (OFin true))) = dep_ck s + 1.
Proof.
  intros c s E. cbn [step]. rewrite E. destruct (evaluate c (go_running c s)) as [s2 ds]. reflexivity.
Qed.

Lemma redeploy_when_enough_proof : forall c l o s1,
  pre c (exec c l) o = Some s1 -> stat s1 = Init \/ stat s1 = Paused ->
  let s' := fst (step c (exec c l) o) in
  (stat s' = Starting /\ exists d, o_deps (snd (step c (exec c l) o)) = [d]) \/
  (stat s' = stat s1 /\ ((length (ops s') < wc c)%nat \/ (length (srs s') < wc c)%nat)).
Proof.
  intros c l o s1 P E s'. unfold s'. destruct (step_eval c _ o s1 P) as [-> [-> _]].
  unfold evaluate. set (sp := purge c s1). change (stat sp) with (stat s1).
  assert (X : forall b : bool, (if b then (sp, @nil dep) else start_begin c sp) =
              (if b then (sp, []) else start_begin c sp)) by reflexivity.
  destruct E as [E|E]; rewrite E; unfold try_assemble;
  destruct (Nat.ltb (length (srs sp)) (wc c) || Nat.ltb (length (ops sp)) (wc c)) eqn:C.
  - right. split; [exact E|]. apply orb_true_iff in C. destruct C as [C|C]; apply PeanoNat.Nat.ltb_lt in C; cbn [fst]; auto.
  - left. cbn [start_begin fst snd stat]. split; [reflexivity | eexists; reflexivity].
  - right. split; [exact E|]. apply orb_true_iff in C. destruct C as [C|C]; apply PeanoNat.Nat.ltb_lt in C; cbn [fst]; auto.
  - left. cbn [start_begin fst snd stat]. split; [reflexivity | eexists; reflexivity].
Qed.

Lemma published_is_newer_proof : forall c l o,
  q_install_superseded (qk c) = false ->
  completed (sto (exec c l)) <= completed (sto (fst (step c (exec c l) o))) /\
  (o_published (snd (step c (exec c l) o)) <> 0 ->
   completed (sto (fst (step c (exec c l) o))) = o_published (snd (step c (exec c l) o)) /\
   completed (sto (exec c l)) < o_published (snd (step c (exec c l) o))).
Proof. intros c l o Q. apply step_completed; [apply exec_inv | exact Q]. Qed.

(* the checkpoint a deployment is told to restore is the GREATEST id published so far in the history (0 if none),
   also when the file write of an older, fully acknowledged checkpoint returns after a newer one was published *)
Lemma current_is_max_published_proof : forall c l,
  q_install_superseded (qk c) = false ->
  completed (sto (exec c l)) = max_pub (snd (run c init l)) 0.
Proof. intros c l Q. unfold exec. apply (run_max_pub c l init (inv_init c) Q). Qed.

(* T4 *)
Definition member_ack (s : st) (id : N) (a : op) : Prop :=
  (exists n, a = OAckOp n id /\ In n (a_ops s)) \/ (exists n, a = OAckSr n id /\ In n (a_srs s)).

Lemma In_false_map : forall n (l : list N), In (n, false) (map (fun m => (m, false)) l) <-> In n l.
Proof.
  intros n l. rewrite in_map_iff. split.
  - intros [m [E H]]. inversion E; subst. exact H.
  - intros H. exists n. auto.
Qed.

Definition starter_sp (o : op) : bool := match o with OSavepoint => true | _ => false end.

Lemma checkpoints_resume_proof : forall c l acks starter,
  q_keep_pending (qk c) = false -> q_splitters_accumulate (qk c) = false -> q_ticker_once (qk c) = false -> (0 < wc c)%nat ->
  starter = OTick \/ starter = OSavepoint ->
  let s := exec c l in
  stat s = Running -> pend (sto s) = None -> holdw s = false ->
  let id := ctr (sto s) + 1 in
  NoDup acks -> (forall a, In a acks <-> member_ack s id a) ->
  let s1 := fst (step c s starter) in
  let r := run c s1 acks in
  o_started (snd (step c s starter)) = a_srs s /\ o_cid (snd (step c s starter)) = id /\
  o_res (snd (step c s starter)) = 0 /\
  (forall p, pend (sto s1) = Some p -> p_sp p = starter_sp starter) /\
  completed (sto s) < id /\
  pend (sto (fst r)) = None /\ completed (sto (fst r)) = id /\
  Forall (fun b => o_res b = 0) (snd r) /\ (exists b, In b (snd r) /\ o_published b = id) /\
  stat (fst r) = Running.
Proof.
  intros c l acks starter Qp Qs Qt Hw Hst s E Pn Hh id ND Hacks s1 r.
  pose proof (exec_inv c l) as I. fold s in I.
  assert (T : step c s starter =
              (set_sto s (MkStore (Some (MkPending id (map (fun n => (n, false)) (a_ops s)) (map (fun n => (n, false)) (a_srs s)) (starter_sp starter)))
                                  (completed (sto s)) id (splitters (sto s))),
               MkObs (status_code Running) [] (a_srs s) id 0 0 0)).
  { destruct Hst as [-> | ->]; cbn [step starter_sp]; [|rewrite E].
    - rewrite (proj2 (i_tk _ _ I Qt) E). cbn [N.eqb Pos.eqb]. unfold create_checkpoint. rewrite Pn. cbn [set_sto stat]. rewrite E. reflexivity.
    - unfold create_savepoint. rewrite Pn. cbn [set_sto stat]. rewrite E. reflexivity. }
  unfold r, s1. rewrite T. cbn [fst snd o_started o_cid o_res].
  split; [reflexivity|]. split; [reflexivity|]. split; [reflexivity|].
  split; [intros p Hp; cbn in Hp; inversion Hp; reflexivity|].
  pose proof (i_sto _ _ I) as [A _]. split; [unfold id; lia|].
  destruct (i_asm _ _ I) as [La [Lr [So Sr]]]; [congruence|].
  destruct (i_spl _ _ I Qs) as [X|Spl]; [congruence|].
  match goal with |- context [run c ?s0 acks] => set (s0' := s0) end.
  assert (Hne : acks <> []).
  { destruct (a_ops s) as [|n t] eqn:Ao; [cbn in La; lia|].
    intros ->. apply (proj2 (Hacks (OAckOp n id))). left. exists n. split; [reflexivity | rewrite Ao; left; reflexivity]. }
  destruct (acks_complete c acks s0' (MkPending id (map (fun n => (n, false)) (a_ops s)) (map (fun n => (n, false)) (a_srs s)) (starter_sp starter)) id)
    as [R1 [R2 [R3 [R4 [R5 _]]]]]; auto.
  - cbn [p_ops]. rewrite map_fst_false. apply sorted_NoDup, So.
  - cbn [p_srs]. rewrite map_fst_false. apply sorted_NoDup, Sr.
  - intros a. rewrite Hacks. unfold member_ack, ack_of. cbn [p_ops p_srs].
    split; intros [[n [-> H]]|[n [-> H]]]; [left|right|left|right]; exists n; (split; [reflexivity|]); apply In_false_map; exact H || (apply In_false_map in H; exact H).
  - split; [exact R1|]. split; [exact R2|]. split; [exact R3|]. split; [exact R4|]. rewrite R5. exact E.
Qed.

(* a deployment starts with nothing pending: whatever was in flight when the assembly was lost - a periodic checkpoint,
   a requested savepoint, a checkpoint upgraded to a savepoint - is aborted *)
Lemma start_clears_pending_proof : forall c l o d,
  q_keep_pending (qk c) = false -> q_keep_savepoint (qk c) = false ->
  In d (o_deps (snd (step c (exec c l) o))) -> pend (sto (fst (step c (exec c l) o))) = None.
Proof.
  intros c l o d Q1 Q2 Hd. destruct (step_deps c (exec c l) o d (exec_inv c l) Hd) as [_ K]. apply (k_pend _ _ _ K Q1 Q2).
Qed.

(* a savepoint request folds into the periodic checkpoint in flight: same id, nothing started, and the members' acks
   still complete it (the pending snapshot keeps its members and flags) *)
Lemma savepoint_folds_proof : forall c s p,
  stat s = Running -> pend (sto s) = Some p -> p_sp p = false ->
  step c s OSavepoint =
  (set_sto s (MkStore (Some (MkPending (p_id p) (p_ops p) (p_srs p) true)) (completed (sto s)) (ctr (sto s)) (splitters (sto s))),
   MkObs (status_code Running) [] [] (p_id p) 0 0 0).
Proof.
  intros c s p E P F. cbn [step]. rewrite E. unfold create_savepoint. rewrite P, F. cbn [set_sto stat]. rewrite E. reflexivity.
Qed.

(* a checkpoint of the running assembly that is already in flight: the acks still missing complete it *)
Lemma checkpoints_resume_inflight_proof : forall c l p acks,
  q_keep_pending (qk c) = false -> q_keep_savepoint (qk c) = false -> q_splitters_accumulate (qk c) = false ->
  let s := exec c l in
  stat s = Running -> pend (sto s) = Some p -> holdw s = false ->
  NoDup acks -> (forall a, In a acks <-> ack_of (p_id p) p a) -> acks <> [] ->
  (forall a, ack_of (p_id p) p a -> member_ack s (p_id p) a) /\
  pend (sto (fst (run c s acks))) = None /\ completed (sto (fst (run c s acks))) = p_id p /\
  Forall (fun b => o_res b = 0) (snd (run c s acks)) /\ stat (fst (run c s acks)) = Running.
Proof.
  intros c l p acks Qp Qv Qs s E P Hh ND Hacks Hne. pose proof (exec_inv c l) as I. fold s in I.
  destruct (i_pnd _ _ I (conj Qp Qv) p P) as [Ko Kr].
  destruct (i_asm _ _ I) as [La [Lr [So Sr]]]; [congruence|].
  destruct (i_spl _ _ I Qs) as [X|Spl]; [congruence|].
  split.
  - intros a [[n [-> H]]|[n [-> H]]]; [left|right]; exists n; (split; [reflexivity|]).
    + rewrite <- Ko. apply in_map_iff. exists (n, false). auto.
    + rewrite <- Kr. apply in_map_iff. exists (n, false). auto.
  - destruct (acks_complete c acks s p (p_id p) Hh P eq_refl Spl) as [R1 [R2 [R3 [R4 [R5 _]]]]]; auto.
    + rewrite Ko. apply sorted_NoDup, So.
    + rewrite Kr. apply sorted_NoDup, Sr.
    + split; [exact R1|]. split; [exact R2|]. split; [exact R3|]. rewrite R5. exact E.
Qed.

(* ---------------------------------------------------------------- the code before the repairs: computed witnesses *)
Definition cfg_of (q : quirks) : cfg := MkCfg 1 5000 q.
(* boot, checkpoint 1 started, the operator leaves, a new one registers, redeploy, tick *)
Definition hist_d18 : list op := [ORegOp 0; ORegSr 0; OFin true; OTick; ODeregOp 0; ORegOp 1; OFin true].
(* boot, complete checkpoint 1, the operator leaves, a new one registers, redeploy, tick *)
Definition hist_d30 : list op := [ORegOp 0; ORegSr 0; OFin true; OTick; OAckOp 0 1; OAckSr 0 1; ODeregOp 0; ORegOp 1; OFin true].

Lemma checkpoints_resume_refuted_keep_pending_proof :
  let c := cfg_of (MkQuirks true false false false false false false) in
  let s := exec c hist_d18 in
  stat s = Running /\ a_ops s = [1] /\ a_srs s = [0] /\
  (* every tick from now on starts nothing, whatever the members of the running assembly acknowledge *)
  forall k, let s' := fst (run c s (repeat OTick k ++ [OAckOp 1 1; OAckSr 0 1; OAckOp 1 2; OAckSr 0 2; OTick])) in
            completed (sto s') = 0 /\ o_started (snd (step c s' OTick)) = [].
Proof.
  cbv zeta. split; [vm_compute; reflexivity|]. split; [vm_compute; reflexivity|]. split; [vm_compute; reflexivity|].
  intros k. set (c := cfg_of (MkQuirks true false false false false false false)). set (s := exec c hist_d18).
  assert (T : forall k, fst (run c s (repeat OTick k ++ [OAckOp 1 1; OAckSr 0 1; OAckOp 1 2; OAckSr 0 2; OTick])) =
                        fst (run c s [OAckOp 1 1; OAckSr 0 1; OAckOp 1 2; OAckSr 0 2; OTick])).
  { intros j. induction j as [|j IH]; [reflexivity|]. cbn [repeat app]. rewrite <- IH.
    change (run c s (OTick :: repeat OTick j ++ [OAckOp 1 1; OAckSr 0 1; OAckOp 1 2; OAckSr 0 2; OTick]))
      with (let '(s1, b) := step c s OTick in let '(s2, bs) := run c s1 (repeat OTick j ++ [OAckOp 1 1; OAckSr 0 1; OAckOp 1 2; OAckSr 0 2; OTick]) in (s2, b :: bs)).
    assert (E : step c s OTick = (s, mk_obs s [])) by (vm_compute; reflexivity). rewrite E.
    destruct (run c s (repeat OTick j ++ _)) as [s2 bs]. reflexivity. }
  rewrite T. vm_compute. split; reflexivity.
Qed.

Lemma checkpoints_resume_refuted_splitters_proof :
  let c := cfg_of (MkQuirks false true false false false false false) in
  let s := exec c hist_d30 in
  stat s = Running /\ a_ops s = [1] /\ a_srs s = [0] /\ pend (sto s) = None /\
  map o_res (snd (run c s [OTick; OAckOp 1 2; OAckSr 0 2])) = [0; 0; 2] /\
  completed (sto (fst (run c s [OTick; OAckOp 1 2; OAckSr 0 2]))) = 1.
Proof. vm_compute. repeat split; reflexivity. Qed.

(* seeded C15-3: the abort spares savepoints. A requested savepoint (hist_sp_a) or a periodic checkpoint upgraded to a
   savepoint (hist_sp_b) is in flight when the operator leaves *)
Definition hist_sp_a : list op := [ORegOp 0; ORegSr 0; OFin true; OSavepoint; OAckSr 0 1; ODeregOp 0; ORegOp 1; OFin true].
Definition hist_sp_b : list op := [ORegOp 0; ORegSr 0; OFin true; OTick; OSavepoint; OAckSr 0 1; ODeregOp 0; ORegOp 1; OFin true].

Lemma checkpoints_resume_refuted_keep_savepoint_proof :
  let c := cfg_of (MkQuirks false false false true false false false) in
  forall h, h = hist_sp_a \/ h = hist_sp_b ->
  let s := exec c h in
  stat s = Running /\ a_ops s = [1] /\ a_srs s = [0] /\
  step c s OTick = (s, mk_obs s []) /\ o_res (snd (step c s OSavepoint)) = 1 /\ fst (step c s OSavepoint) = s /\
  completed (sto (fst (run c s [OAckOp 1 1; OAckSr 0 1; OAckOp 1 2; OAckSr 0 2]))) = 0.
Proof. intros c h [-> | ->]; vm_compute; repeat split; reflexivity. Qed.

(* seeded C15r2-1: the ticker is created once only; every pause stops it: after the first recovery it never fires again *)
Definition hist_tk : list op := [ORegOp 0; ORegSr 0; OFin true; OTick; OAckOp 0 1; OAckSr 0 1; ODeregOp 0; ORegOp 1; OFin true].
Lemma checkpoints_resume_refuted_ticker_once_proof :
  let c := cfg_of (MkQuirks false false false false true false false) in
  let s := exec c hist_tk in
  stat s = Running /\ a_ops s = [1] /\ a_srs s = [0] /\ pend (sto s) = None /\ completed (sto s) = 1 /\
  ticker s = 2 /\ step c s OTick = (s, mk_obs s []).
Proof. vm_compute. repeat split; reflexivity. Qed.

(* ---------------------------------------------------------------- the operator's checkpoint slot *)
Lemma oper_barriers_complete : forall id runners w order,
  NoDup order -> (forall x, In x order <-> In x w) -> order <> [] -> incl w runners -> sorted w ->
  forall o, o_runners o = runners -> o_slot o = Some (MkSlot id w) ->
  exists pre_rs, snd (oper_barriers o order id true) = pre_rs ++ [2] /\ Forall (fun r => r = 0) pre_rs /\
                 o_slot (fst (oper_barriers o order id true)) = None.
Proof.
  intros id runners w order. revert w. induction order as [|x t IH]; intros w ND Hw Hne Hincl Sw o Ho Hs; [contradiction|].
  inversion ND as [|? ? Hx NDt]; subst.
  cbn [oper_barriers]. unfold oper_barrier. rewrite Hs. cbn [sl_wait sl_id].
  assert (Mx : mem x w = true) by (apply mem_In, Hw; left; reflexivity). rewrite Mx. cbn [negb]. rewrite andb_false_r.
  rewrite N.eqb_refl. cbn [negb]. unfold oper_finish.
  assert (Hrem : forall y, In y (rem x w) <-> In y t).
  { intros y. rewrite In_rem. split.
    - intros [Hy Hn]. apply Hw in Hy. destruct Hy as [->|Hy]; [contradiction | exact Hy].
    - intros Hy. split; [apply Hw; right; exact Hy | intros ->; contradiction]. }
  destruct (rem x w) as [|z w'] eqn:R.
  - assert (t = []). { destruct t as [|y t']; [reflexivity|]. exfalso. apply (proj2 (Hrem y)). left. reflexivity. }
    subst t. cbn [oper_barriers fst snd o_slot]. exists []. split; [reflexivity|]. split; [constructor | reflexivity].
  - assert (Ht : t <> []). { intros ->. apply (proj1 (Hrem z)). left. reflexivity. }
    set (o1 := MkOper (o_runners o) (Some (MkSlot id (z :: w')))).
    destruct (IH (z :: w') NDt) with (o := o1) as [prs [E1 [E2 E3]]]; auto.
    + intros y. symmetry. apply Hrem.
    + intros y Hy. apply Hincl. rewrite <- R in Hy. apply In_rem in Hy. apply Hy.
    + rewrite <- R. apply sorted_filter. exact Sw.
    + destruct (oper_barriers o1 t id true) as [o2 rs] eqn:OB. cbn [fst snd] in *.
      exists (0 :: prs). split; [rewrite E1; reflexivity|]. split; [constructor; [reflexivity | exact E2] | exact E3].
Qed.

Lemma operator_slot_resumes_proof : forall q o runners order id,
  q_keep_slot q = false -> q_keep_complete_slot q = false -> sorted runners -> runners <> [] ->
  NoDup order -> (forall x, In x order <-> In x runners) ->
  let o1 := oper_deploy q o runners in
  exists pre_rs, snd (oper_barriers o1 order id true) = pre_rs ++ [2] /\ Forall (fun r => r = 0) pre_rs /\
                 o_slot (fst (oper_barriers o1 order id true)) = None.
Proof.
  intros q o runners order id Q Qc Sr Hne ND Ho o1.
  assert (Hord : order <> []).
  { destruct runners as [|r rs]; [contradiction|]. intros ->. apply (proj2 (Ho r)). left. reflexivity. }
  destruct order as [|x t]; [contradiction|]. inversion ND as [|? ? Hx NDt]; subst.
  assert (D : oper_deploy q o runners = MkOper runners None).
  { unfold oper_deploy. rewrite Q, Qc. cbn [andb]. destruct (o_slot o); reflexivity. }
  unfold o1. rewrite D. cbn [oper_barriers]. unfold oper_barrier, oper_finish. cbn [o_slot o_runners].
  assert (Hrem : forall y, In y (rem x runners) <-> In y t).
  { intros y. rewrite In_rem. split.
    - intros [Hy Hn]. apply Ho in Hy. destruct Hy as [->|Hy]; [contradiction | exact Hy].
    - intros Hy. split; [apply Ho; right; exact Hy | intros ->; contradiction]. }
  destruct (rem x runners) as [|z w'] eqn:R.
  - assert (t = []). { destruct t as [|y t']; [reflexivity|]. exfalso. apply (proj2 (Hrem y)). left. reflexivity. }
    subst t. cbn [oper_barriers fst snd o_slot]. exists []. split; [reflexivity|]. split; [constructor | reflexivity].
  - assert (Ht : t <> []). { intros ->. apply (proj1 (Hrem z)). left. reflexivity. }
    set (o2 := MkOper runners (Some (MkSlot id (z :: w')))).
    destruct (oper_barriers_complete id runners (z :: w') t NDt) with (o := o2) as [prs [E1 [E2 E3]]]; auto.
    + intros y. symmetry. apply Hrem.
    + intros y Hy. rewrite <- R in Hy. apply In_rem in Hy. apply Hy.
    + rewrite <- R. apply sorted_filter. exact Sr.
    + destruct (oper_barriers o2 t id true) as [o3 rs] eqn:OB. cbn [fst snd] in *.
      exists (0 :: prs). split; [rewrite E1; reflexivity|]. split; [constructor; [reflexivity | exact E2] | exact E3].
Qed.

Lemma operator_slot_refuted_proof :
  let o1 := fst (oper_barriers (oper_deploy original (MkOper [] None) [0; 1]) [0] 4 true) in
  snd (oper_barriers (oper_deploy original o1 [0; 1]) [1; 0] 6 true) = [1; 3].
Proof. vm_compute. reflexivity. Qed.

(* ---------------------------------------------------------------- the operator's keyed state across redeployments *)
Lemma redeploy_none_is_empty_proof : forall s k,
  let s' := fst (sstep s (SRedeploy 0)) in
  (forall i x, In (i, x) (snaps s) -> i <> 0) ->
  applied s' = [] /\ snd (sstep s' (SEv k)) = 0.
Proof.
  intros s k s' H. unfold s'. cbn [sstep fst applied].
  assert (E : snap_get 0 (snaps s) = None).
  { induction (snaps s) as [|[i x] t IH]; [reflexivity|]. cbn [snap_get].
    destruct (i =? 0) eqn:Z; [apply N.eqb_eq in Z; exfalso; eapply H; [left; reflexivity | exact Z]|].
    apply IH. intros j y Hj. eapply H. right. exact Hj. }
  rewrite E. split; reflexivity.
Qed.

Lemma snap_get_In : forall id l x, snap_get id l = Some x -> In (id, x) l.
Proof.
  intros id l x. induction l as [|[i y] t IH]; cbn [snap_get]; [discriminate|].
  destruct (i =? id) eqn:E; [apply N.eqb_eq in E; intros H; inversion H; subst; left; reflexivity | intros H; right; auto].
Qed.

(* every recorded snapshot is the applied list of an earlier state of the run, ids are positive and below next_id *)
Definition snaps_ok (s : ost) : Prop :=
  0 < next_id s /\ forall i x, In (i, x) (snaps s) -> 0 < i < next_id s.

Lemma sstep_snaps_ok : forall s o, snaps_ok s -> snaps_ok (fst (sstep s o)).
Proof.
  intros s o [P H]. destruct o; cbn [sstep fst]; unfold snaps_ok; cbn [next_id snaps]; try (split; [exact P | exact H]).
  split; [lia|]. intros i x [X|X]; [inversion X; subst; lia | specialize (H i x X); lia].
Qed.

Lemma srun_fst : forall l s, fst (srun s l) = fold_left (fun s o => fst (sstep s o)) l s.
Proof.
  induction l as [|o t IH]; intros s; cbn [srun fold_left]; [reflexivity|].
  destruct (sstep s o) as [s1 b] eqn:E. specialize (IH s1). destruct (srun s1 t) as [s2 bs]. cbn [fst] in *. exact IH.
Qed.

Lemma srun_snaps_ok : forall l s, snaps_ok s -> snaps_ok (fst (srun s l)).
Proof.
  induction l as [|o t IH]; intros s H; cbn [srun]; [exact H|].
  destruct (sstep s o) as [s1 b] eqn:E. specialize (IH s1). destruct (srun s1 t) as [s2 bs]. cbn [fst] in *.
  apply IH. change s1 with (fst (s1, b)). rewrite <- E. apply sstep_snaps_ok, H.
Qed.

(* for every history: a redeployment without a checkpoint leaves the empty state (every count is 0); a redeployment from
   checkpoint id leaves exactly the state recorded when that checkpoint was taken; a checkpoint records the state it is
   taken in *)
Lemma redeploy_restores_checkpoint_state_proof : forall l,
  let s := fst (srun ost0 l) in
  (forall k, applied (fst (sstep s (SRedeploy 0))) = [] /\ snd (sstep (fst (sstep s (SRedeploy 0))) (SEv k)) = 0) /\
  (forall id x, snap_get id (snaps s) = Some x -> applied (fst (sstep s (SRedeploy id))) = x) /\
  (snap_get (next_id s) (snaps (fst (sstep s SCkpt))) = Some (applied s)) /\
  (forall k, snd (sstep s (SEv k)) = count k (applied s)).
Proof.
  intros l s. assert (OK : snaps_ok s) by (apply srun_snaps_ok; split; [reflexivity | intros i x []]).
  split; [|split; [|split]].
  - intros k. apply redeploy_none_is_empty_proof. intros i x H. destruct OK as [_ O]. specialize (O i x H). lia.
  - intros id x H. cbn [sstep fst applied]. rewrite H. reflexivity.
  - cbn [sstep fst snaps snap_get]. rewrite N.eqb_refl. reflexivity.
  - intros k. reflexivity.
Qed.

(* seeded C15r5-3: the deploy clears the slot only while it is half aligned. Runners [0,1]: both barriers of 4 arrive,
   the job refuses the ack (result 5: the slot stays, complete but unreported); after the redeployment every barrier of
   5 is rejected. On the repaired code (current) the same history completes checkpoint 5. *)
Lemma operator_slot_refuted_keep_complete_proof :
  let q := MkQuirks false false false false false true false in
  let o1 := fst (oper_barriers (oper_deploy q (MkOper [] None) [0; 1]) [0; 1] 4 false) in
  snd (oper_barriers (oper_deploy q (MkOper [] None) [0; 1]) [0; 1] 4 false) = [0; 5] /\
  o_slot o1 = Some (MkSlot 4 []) /\
  snd (oper_barriers (oper_deploy q o1 [0; 1]) [1; 0] 5 true) = [1; 1] /\
  snd (oper_barriers (oper_deploy current o1 [0; 1]) [1; 0] 5 true) = [0; 2].
Proof. vm_compute. repeat split; reflexivity. Qed.

(* what the code does with a refused ack when NO redeployment follows: the complete-but-unreported slot rejects every
   barrier of a later checkpoint (nothing parks: the alignment channel is closed); only a barrier of the same id makes
   the operator checkpoint and report again *)
Lemma refused_slot_without_redeploy_proof : forall runners id id' sender accept,
  id' <> id ->
  let o := MkOper runners (Some (MkSlot id [])) in
  oper_barrier o sender id' accept = (o, 1) /\
  oper_barrier o sender id accept = oper_finish o id accept.
Proof.
  intros runners id id' sender accept H o. unfold oper_barrier, o. cbn [o_slot sl_wait sl_id andb rem filter].
  split.
  - apply N.eqb_neq in H. rewrite N.eqb_sym, H. reflexivity.
  - rewrite N.eqb_refl. reflexivity.
Qed.

(* seeded C15r6-3: finishSnapshotAsync installs the snapshot it wrote although a newer one is published. Checkpoint 1 is
   fully acknowledged while its file write is held; checkpoint 2 is started, acknowledged and published; the write of 1
   returns; the operator leaves and a new one registers: the new assembly is deployed from 1 although 2 was published.
   On the repaired code (current) the same history deploys from 2. *)
Definition hist_slow_write : list op :=
  [ORegOp 0; ORegSr 0; OFin true; OHoldW; OTick; OAckOp 0 1; OAckSr 0 1; OTick; OAckOp 0 2; OAckSr 0 2; OReleaseW; ODeregOp 0; ORegOp 1].
Lemma redeploy_from_latest_refuted_install_superseded_proof :
  let deps q := o_deps (last (snd (run (cfg_of q) init hist_slow_write)) (mk_obs init [])) in
  map o_published (snd (run (cfg_of (MkQuirks false false false false false false true)) init hist_slow_write))
    = [0; 0; 0; 0; 0; 0; 0; 0; 0; 2; 1; 0; 0] /\
  deps (MkQuirks false false false false false false true) = [MkDep [1] [0] [1] true] /\
  map o_published (snd (run (cfg_of current) init hist_slow_write)) = [0; 0; 0; 0; 0; 0; 0; 0; 0; 2; 0; 0; 0] /\
  deps current = [MkDep [1] [0] [2] true].
Proof. vm_compute. repeat split; reflexivity. Qed.

(* ---------------------------------------------------------------- every admissible choice of the assembly is possible *)
Lemma pre_pick : forall c s o s1, pre c s o = Some s1 -> pick s1 = pick s.
Proof.
  intros c s o s1 H. destruct o; cbn [pre] in H; try discriminate; try (inversion H; subst; reflexivity).
  destruct (stat s); try discriminate. destruct ok; inversion H; subst; reflexivity.
Qed.

(* The histories the theorems quantify over contain OChoose ops with arbitrary lists, so every theorem above holds
   whichever admissible nodes NewAssembly picks. Conversely every admissible choice is realised: when the job, waiting,
   evaluates its cluster and [co], [cr] are WorkerCount ascending registered live operators / runners, the deployment
   goes to exactly them. *)
Lemma any_admissible_choice_is_deployed_proof : forall c l co cr o s1,
  let s0 := fst (step c (exec c l) (OChoose co cr)) in
  pre c s0 o = Some s1 -> stat s1 = Init \/ stat s1 = Paused ->
  admissible (wc c) (ops (purge c s1)) co = true -> admissible (wc c) (srs (purge c s1)) cr = true ->
  o_deps (snd (step c s0 o)) = [MkDep co cr (map (fun _ => completed (sto s1)) co) true] /\
  a_ops (fst (step c s0 o)) = co /\ a_srs (fst (step c s0 o)) = cr.
Proof.
  intros c l co cr o s1 s0 P E Ao Ar.
  destruct (step_eval c s0 o s1 P) as [-> [-> _]].
  assert (Pk : pick s1 = Some (co, cr)) by (rewrite (pre_pick c s0 o s1 P); reflexivity).
  destruct (admissible_spec _ _ _ Ao) as [So [Lo Io]]. destruct (admissible_spec _ _ _ Ar) as [Sr [Lr Ir]].
  assert (Ho : (wc c <= length (ops (purge c s1)))%nat).
  { rewrite <- Lo. apply NoDup_incl_length; [apply sorted_NoDup, So | exact Io]. }
  assert (Hr : (wc c <= length (srs (purge c s1)))%nat).
  { rewrite <- Lr. apply NoDup_incl_length; [apply sorted_NoDup, Sr | exact Ir]. }
  unfold evaluate. set (sp := purge c s1) in *. change (stat sp) with (stat s1).
  assert (C : Nat.ltb (length (srs sp)) (wc c) || Nat.ltb (length (ops sp)) (wc c) = false).
  { apply orb_false_iff. split; apply PeanoNat.Nat.ltb_ge; assumption. }
  assert (X : start_begin c sp = start_begin c sp) by reflexivity.
  assert (CO : choose_ops c sp = co) by (unfold choose_ops; change (pick sp) with (pick s1); rewrite Pk, Ao; reflexivity).
  assert (CR : choose_srs c sp = cr) by (unfold choose_srs; change (pick sp) with (pick s1); rewrite Pk, Ar; reflexivity).
  destruct E as [E|E]; rewrite E; unfold try_assemble; rewrite C; unfold start_begin; rewrite CO, CR; cbn [fst snd a_ops a_srs]; auto.
Qed.
